#!/usr/bin/env python3
"""DESIGN-PHASE PROTOTYPE (not framework code, not run by any check).

Extracts the lock structure of `impl Melda` (melda.rs) and `impl DataStorage`
(datastorage.rs) into a statement tree, to show that the C08 translator of
DESIGN.md section 7.C08 is feasible on this code style.

usage: lockx-prototype.py /repo/src/melda.rs /repo/src/datastorage.rs > out.json

Result on the pinned tree: 60 functions; in `M.commit` the path
  acq docs R (temporary, lives for the `for` loop) ; acq tree* M rt_r ; call M.resolve_as
is visible, and `M.resolve_as` starts with `acq docs R ; acq tree* M` -> D2.

Known shortcomings to fix in the real translator:
  1. recv_text() walks back over keywords (`in`), so
     `for (uuid, rt) in self.documents.read()` is classified UNKNOWN:()inself.documents
     -> stop at anything that is not part of an ident(.ident|()|?)* chain.
  2. closures passed to par_iter()/into_par_iter()/par_iter_mut() chains are emitted as
     `loop`, not `par`, because the chain prefix is not visible from inside the
     argument list -> carry the chain prefix into expr() when descending into call args.
  3. lock classes / function names must be emitted as enumeration constructors
     (kernel-evaluable), not strings; output must be Lean, not JSON.
Node kinds: ['acq', class, mode(R|W|M), instance(self|other), binder|None], ['drop', name],
['call', 'M.f'|'D.f', instance], ['stmt', [...]] (temporaries die at its end),
['scope', [...]] (bound guards die at its end), ['loop', [...]], ['par', [...]],
['branch', [alt, ...]].
"""
import re, sys, json

def strip(src):
    out=[]; i=0; n=len(src)
    while i<n:
        c=src[i]
        if src.startswith('//',i):
            j=src.find('\n',i); j=n if j<0 else j; i=j; continue
        if src.startswith('/*',i):
            j=src.find('*/',i); i=j+2; continue
        if c=='"':
            j=i+1
            while src[j]!='"':
                j+=2 if src[j]=='\\' else 1
            out.append('"S"'); i=j+1; continue
        if c=='r' and src.startswith('r#"',i):
            j=src.find('"#',i+3); out.append('"S"'); i=j+2; continue
        if c=='r' and src.startswith('r"',i) and not (i>0 and (src[i-1].isalnum() or src[i-1]=='_')):
            j=src.find('"',i+2); out.append('"S"'); i=j+1; continue
        if c=="'" :
            m=re.match(r"'(\\.|[^\\'])'",src[i:])
            if m: out.append("'c'"); i+=m.end(); continue
        out.append(c); i+=1
    return ''.join(out)

TOK=re.compile(r"\s+|([A-Za-z_][A-Za-z0-9_]*|\d[\w.]*|\"S\"|'c'|'[a-z_]+|=>|->|::|==|!=|<=|>=|&&|\|\||\.\.|[{}()\[\];,.<>=!&|?:+\-*/%#@^~$])")
def tokenize(s):
    toks=[]; i=0
    while i<len(s):
        m=TOK.match(s,i)
        if not m: raise SystemExit(f"tok fail at {s[i:i+30]!r}")
        if m.group(1): toks.append(m.group(1))
        i=m.end()
    return toks

OPEN={'{':'}','(':')','[':']'}
def match_close(t,i):
    d=0
    while True:
        if t[i] in OPEN: d+=1
        elif t[i] in OPEN.values(): d-=1
        if d==0: return i
        i+=1

def functions(toks, implname):
    res={}
    i=0
    while i<len(toks)-2:
        if toks[i]=='impl' and toks[i+1]==implname and toks[i+2]=='{':
            end=match_close(toks,i+2); j=i+3
            while j<end:
                if toks[j]=='fn':
                    name=toks[j+1]; k=j+2
                    while toks[k]!='{' :
                        if toks[k] in '([': k=match_close(toks,k)
                        k+=1
                    e=match_close(toks,k)
                    ispub = toks[j-1]=='pub'
                    res[name]=(ispub,toks[k+1:e]); j=e+1
                else: j+=1
            i=end
        i+=1
    return res

LOCKM={'read':'R','write':'W','lock':'M'}
def recv_text(t,i):
    j=i-1; parts=[]
    while j>=0:
        if t[j] in (')',']'):
            d=0
            while True:
                if t[j] in (')',']'): d+=1
                elif t[j] in ('(','['): d-=1
                if d==0: break
                j-=1
            parts.append('()'); j-=1; continue
        if re.match(r'[A-Za-z_]',t[j]) or t[j] in ('.','?'):
            parts.append(t[j]); j-=1; continue
        break
    return ''.join(reversed(parts))

def classify(recv):
    r=recv
    inst='other' if r.startswith('other.') else 'self'
    for f,c in (('documents','docs'),('data','data'),('deltas','deltas'),('array_descriptors_cache','acache'),('adapter','adapter'),('cache','dcache')):
        if r in ('self.'+f,'other.'+f): return (c,inst)
    base=r.split('.')[0]
    if base in ('rt','rte','mtx'): return ('tree*',inst)
    if base in ('delta','b','delta_item','deltas_r'): return ('delta*',inst)
    if base=='c': return ('local',inst)
    return ('UNKNOWN:'+r,inst)

class P:
    def __init__(s,fnames,dsnames,infile): s.fn=fnames; s.ds=dsnames; s.infile=infile
    def block(s,t):
        out=[]; i=0
        while i<len(t):
            if t[i]=='{':
                e=match_close(t,i); out.append(['scope',s.block(t[i+1:e])]); i=e+1; continue
            k=i
            while k<len(t):
                if t[k] in '([': k=match_close(t,k)+1; continue
                if t[k]=='{':
                    k=match_close(t,k)+1
                    if t[i] in ('if','for','while','loop','match','unsafe') and (k>=len(t) or t[k] not in ('else','.','?',';')):
                        break
                    continue
                if t[k]==';': k+=1; break
                k+=1
            out.append(s.stmt(t[i:k])); i=k
        return out
    def stmt(s,t):
        if t and t[0]=='for':
            k=1
            while t[k]!='{':
                if t[k] in '([': k=match_close(t,k)
                k+=1
            e=match_close(t,k)
            return ['stmt', s.expr(t[1:k])+[['loop',[['scope',s.block(t[k+1:e])]]]]]
        if t and t[0] in ('if','while'):
            return ['stmt', s.ifchain(t)]
        if t and t[0]=='let':
            try: eq=t.index('=')
            except ValueError: return ['stmt',[]]
            name=[x for x in t[1:eq] if re.match(r'[a-z_]\w*$',x) and x!='mut']
            rhs=t[eq+1:]
            if rhs and rhs[-1]==';': rhs=rhs[:-1]
            b=s.bound_acq(rhs)
            if b and name: return ['acq',b[0],b[1],b[2],name[0]]
            return ['stmt',s.expr(rhs)]
        return ['stmt',s.expr(t)]
    def ifchain(s,t):
        kw=t[0]; k=1
        while t[k]!='{':
            if t[k] in '([': k=match_close(t,k)
            k+=1
        cond=t[1:k]; e=match_close(t,k)
        body=['scope',s.block(t[k+1:e])]
        rest=t[e+1:]
        alts=[[body]]
        if rest and rest[0]=='else':
            if len(rest)>1 and rest[1]=='if': alts.append(s.ifchain(rest[1:]))
            else:
                e2=match_close(rest,1); alts.append([['scope',s.block(rest[2:e2])]])
        else: alts.append([])
        inner=['loop',[['branch',alts]]] if kw=='while' else ['branch',alts]
        if 'let' in cond[:1]:
            return s.expr(cond)+[inner]          # `if let`: temporaries live through the blocks
        return [['stmt',s.expr(cond)], inner]     # plain `if`: temporaries dropped before the block
    def bound_acq(s,rhs):
        for i,x in enumerate(rhs):
            if x in LOCKM and i>0 and rhs[i-1]=='.' and rhs[i+1:i+3]==['(',')']:
                tail=rhs[i+3:]
                j=0; ok=True
                while j<len(tail):
                    if tail[j:j+4]==['.','unwrap','(',')']: j+=4
                    elif tail[j:j+3]==['.','expect','('] : j=match_close(tail,j+2)+1
                    else: ok=False; break
                if ok:
                    pre=s.expr(rhs[:i-1])
                    if pre: return None
                    c=classify(recv_text(rhs,i-1)); return (c[0],LOCKM[x],c[1])
                return None
        return None
    def expr(s,t):
        ev=[]; i=0
        while i<len(t):
            x=t[i]
            if x=='|' and (i==0 or t[i-1] in ('(',',')) :
                j=i+1
                while t[j]!='|': j+=1
                par=any(p in t[:i] for p in ('par_iter','into_par_iter','par_iter_mut'))
                if t[j+1]=='{':
                    e=match_close(t,j+1); body=[['scope',s.block(t[j+2:e])]]; i=e+1
                else:
                    k=j+1
                    while k<len(t) and t[k] not in (',',')'):
                        if t[k] in OPEN: k=match_close(t,k)
                        k+=1
                    body=[['stmt',s.expr(t[j+1:k])]]; i=k
                ev.append(['par' if par else 'loop',body]); continue
            if x=='{' :
                e=match_close(t,i)
                ev.append(['scope',s.block(t[i+1:e])]); i=e+1; continue
            if x=='match':
                k=i+1
                while t[k]!='{':
                    if t[k] in '([': k=match_close(t,k)
                    k+=1
                e=match_close(t,k)
                ev+=s.expr(t[i+1:k]); ev.append(['branch',s.arms(t[k+1:e])]); i=e+1; continue
            if x in ('if',):
                k=i
                while True:
                    while t[k]!='{':
                        if t[k] in '([': k=match_close(t,k)
                        k+=1
                    k=match_close(t,k)+1
                    if k<len(t) and t[k]=='else': k+=1; continue
                    break
                ev+=s.ifchain(t[i:k]); i=k; continue
            if x=='drop' and t[i+1]=='(' and t[i+3]==')':
                ev.append(['drop',t[i+2]]); i+=4; continue
            if x in LOCKM and i>0 and t[i-1]=='.' and t[i+1:i+3]==['(',')']:
                c=classify(recv_text(t,i-1))
                ev.append(['acq',c[0],LOCKM[x],c[1],None])
                i+=3; continue
            if re.match(r'[a-z_]\w*$',x) and i+1<len(t) and t[i+1]=='(' and i>0 and t[i-1]=='.':
                recv=recv_text(t,i-1)
                tgt=None
                if recv=='self' and x in s.fn and s.infile=='melda': tgt=('M',x,'self')
                elif recv=='other' and x in s.fn: tgt=('M',x,'other')
                elif recv=='self' and x in s.ds and s.infile=='ds': tgt=('D',x,'self')
                elif recv.split('.')[0] in ('data','data_w','data_r','other_data_r') and x in s.ds: tgt=('D',x,'other' if recv.startswith('other') else 'self')
                e=match_close(t,i+1)
                ev+=s.expr(t[i+2:e])          # arguments are evaluated before the call
                if tgt: ev.append(['call',tgt[0]+'.'+tgt[1],tgt[2]])
                i=e+1; continue
            if x in '([':
                e=match_close(t,i); ev+=s.expr(t[i+1:e]); i=e+1; continue
            i+=1
        return ev
    def arms(s,t):
        alts=[]; i=0
        while i<len(t):
            k=i
            while t[k]!='=>':
                if t[k] in OPEN: k=match_close(t,k)
                k+=1
            k+=1
            if t[k]=='{':
                e=match_close(t,k); alts.append([['scope',s.block(t[k+1:e])]]); i=e+1
                if i<len(t) and t[i]==',': i+=1
            else:
                e=k
                while e<len(t) and t[e]!=',':
                    if t[e] in OPEN: e=match_close(t,e)
                    e+=1
                alts.append([['stmt',s.expr(t[k:e])]]); i=e+1
        return alts

def prune(n):
    if isinstance(n,list) and n and isinstance(n[0],str):
        k=n[0]
        if k in ('stmt','scope','loop','par'):
            body=[prune(x) for x in n[1]]; body=[b for b in body if b]
            return [k,body] if body else None
        if k=='branch':
            alts=[[b for b in (prune(x) for x in a) if b] for a in n[1]]
            return ['branch',alts] if any(alts) else None
        return n
    return n

if __name__=='__main__':
    m=tokenize(strip(open(sys.argv[1]).read())); d=tokenize(strip(open(sys.argv[2]).read()))
    mf=functions(m,'Melda'); df=functions(d,'DataStorage')
    out={}
    for name,(pub,body) in mf.items():
        out['M.'+name]={'pub':pub,'body':[b for b in (prune(x) for x in P(set(mf),set(df),'melda').block(body)) if b]}
    for name,(pub,body) in df.items():
        out['D.'+name]={'pub':pub,'body':[b for b in (prune(x) for x in P(set(mf),set(df),'ds').block(body)) if b]}
    json.dump(out,sys.stdout,indent=None)
