// In-harness storage backend with write logging, fault injection, listing permutation
use anyhow::{anyhow, Result};
use melda::adapter::Adapter;
use std::any::Any;
use std::collections::BTreeMap;
use std::sync::{Arc, Mutex, RwLock};

#[derive(Default)]
pub struct StoreInner {
    pub items: BTreeMap<String, Vec<u8>>,
    /// every successful first write, in order
    pub log: Vec<(String, Vec<u8>)>,
    /// fail the writes whose ordinal (counted from `write_count`) is in this list
    pub fail_at: Vec<usize>,
    pub write_count: usize,
    /// listing permutation seed (0 = sorted order)
    pub list_perm: u64,
}

#[derive(Clone, Default)]
pub struct SimStore(pub Arc<Mutex<StoreInner>>);

impl SimStore {
    pub fn new() -> Self {
        SimStore(Arc::new(Mutex::new(StoreInner::default())))
    }
    pub fn from_items(items: BTreeMap<String, Vec<u8>>) -> Self {
        let s = SimStore::new();
        s.0.lock().unwrap().items = items;
        s
    }
    pub fn snapshot(&self) -> BTreeMap<String, Vec<u8>> {
        self.0.lock().unwrap().items.clone()
    }
    pub fn put_raw(&self, k: &str, v: Vec<u8>) {
        self.0.lock().unwrap().items.insert(k.to_string(), v);
    }
    pub fn remove_raw(&self, k: &str) {
        self.0.lock().unwrap().items.remove(k);
    }
    pub fn dyn_adapter(&self) -> Arc<RwLock<Box<dyn Adapter>>> {
        Arc::new(RwLock::new(Box::new(self.clone())))
    }
    pub fn take_log(&self) -> Vec<(String, Vec<u8>)> {
        std::mem::take(&mut self.0.lock().unwrap().log)
    }
    pub fn set_fail(&self, ordinals: Vec<usize>) {
        let mut g = self.0.lock().unwrap();
        g.write_count = 0;
        g.fail_at = ordinals;
    }
    pub fn set_perm(&self, p: u64) {
        self.0.lock().unwrap().list_perm = p;
    }
}

fn permute(mut v: Vec<String>, seed: u64) -> Vec<String> {
    if seed == 0 {
        return v;
    }
    let mut s = seed | 1;
    let n = v.len();
    for i in (1..n).rev() {
        s ^= s << 13;
        s ^= s >> 7;
        s ^= s << 17;
        let j = (s % (i as u64 + 1)) as usize;
        v.swap(i, j);
    }
    v
}

impl Adapter for SimStore {
    fn as_any(&self) -> &dyn Any {
        self
    }
    fn as_any_mut(&mut self) -> &mut dyn Any {
        self
    }
    fn read_object(&self, key: &str, offset: usize, length: usize) -> Result<Vec<u8>> {
        let g = self.0.lock().unwrap();
        match g.items.get(key) {
            Some(d) => {
                if offset == 0 && length == 0 {
                    Ok(d.clone())
                } else if offset + length <= d.len() {
                    Ok(d[offset..offset + length].to_vec())
                } else {
                    Err(anyhow!("out_of_bounds"))
                }
            }
            None => Err(anyhow!("not_found")),
        }
    }
    fn write_object(&self, key: &str, data: &[u8]) -> Result<()> {
        let mut g = self.0.lock().unwrap();
        let ord = g.write_count;
        g.write_count += 1;
        if g.fail_at.contains(&ord) {
            return Err(anyhow!("injected_write_failure"));
        }
        if !g.items.contains_key(key) {
            g.items.insert(key.to_string(), data.to_vec());
            g.log.push((key.to_string(), data.to_vec()));
        }
        Ok(())
    }
    fn list_objects(&self, ext: &str) -> Result<Vec<String>> {
        let g = self.0.lock().unwrap();
        let v: Vec<String> = g
            .items
            .keys()
            .filter(|k| k.ends_with(ext))
            .map(|k| k.strip_suffix(ext).unwrap().to_string())
            .collect();
        Ok(permute(v, g.list_perm))
    }
}
