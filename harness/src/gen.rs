// PRNG and structured document generator
use serde_json::{json, Map, Value};
use std::collections::BTreeSet;

#[derive(Clone)]
pub struct Rng(pub u64);

impl Rng {
    pub fn new(seed: u64) -> Self {
        let mut r = Rng(seed.wrapping_mul(0x9E3779B97F4A7C15) ^ 0xD1B54A32D192ED03);
        if r.0 == 0 {
            r.0 = 0x1234567;
        }
        for _ in 0..4 {
            r.next();
        }
        r
    }
    pub fn next(&mut self) -> u64 {
        let mut x = self.0;
        x ^= x >> 12;
        x ^= x << 25;
        x ^= x >> 27;
        self.0 = x;
        x.wrapping_mul(0x2545F4914F6CDD1D)
    }
    pub fn below(&mut self, n: usize) -> usize {
        if n == 0 {
            0
        } else {
            (self.next() % (n as u64)) as usize
        }
    }
    pub fn chance(&mut self, num: usize, den: usize) -> bool {
        self.below(den) < num
    }
    pub fn pick<'a, T>(&mut self, v: &'a [T]) -> &'a T {
        &v[self.below(v.len())]
    }
    pub fn shuffle<T>(&mut self, v: &mut Vec<T>) {
        for i in (1..v.len()).rev() {
            let j = self.below(i + 1);
            v.swap(i, j);
        }
    }
}

pub const FLAT: &str = "\u{266D}";

pub fn special_strings() -> Vec<&'static str> {
    vec![
        "plain", "a}b", "{", "}{", "\"", "q\"uo\"te", "back\\slash", "trail\\", "\\\"", "tab\t", "nl\n",
        "\u{1}", "é♭√", "!bang", "^caret", "", "日本", "😀", "x", "y", "{\"a\":1}", "[", "]},{", "\\\\",
        "\u{7f}", "/slash", "\u{2028}",
    ]
}

/// a finite double with random bits (all exponents, subnormals, both signs)
pub fn random_double(r: &mut Rng) -> f64 {
    loop {
        let x = f64::from_bits(r.next());
        if x.is_finite() {
            return x;
        }
    }
}

pub fn scalar(r: &mut Rng) -> Value {
    match r.below(14) {
        0 => json!(0),
        1 => json!(-1),
        2 => json!(7),
        3 => json!(10),
        4 => json!(1234567890123u64),
        5 => json!(1.5),
        6 => json!(-0.25),
        7 => json!(18446744073709551615u64),
        8 => json!(true),
        9 => Value::Null,
        10 => json!(1e21),
        11 => json!(random_double(r)),
        12 => json!((r.below(2_000_000) as f64 - 1_000_000.0) / 977.0),
        _ => Value::from(*r.pick(&special_strings())),
    }
}

pub fn plain_nested(r: &mut Rng, depth: usize) -> Value {
    if depth == 0 || r.chance(1, 2) {
        return scalar(r);
    }
    if r.chance(1, 2) {
        let n = r.below(3);
        Value::from((0..n).map(|_| plain_nested(r, depth - 1)).collect::<Vec<_>>())
    } else {
        let mut m = Map::new();
        for _ in 0..r.below(3) {
            let k = *r.pick(&["k", "z", "a}", "\"", "é", "_x"]);
            m.insert(k.to_string(), plain_nested(r, depth - 1));
        }
        Value::from(m)
    }
}

pub fn elem_ids() -> Vec<&'static str> {
    vec!["x0", "x1", "x2", "x3", "x4", "x5", "x6", "x7", "é", "sp ace", "br{ace", "q\"t", "10-ab_c"]
}
pub fn sub_ids() -> Vec<&'static str> {
    vec!["y0", "y1", "y2", "y3"]
}

pub fn used_ids(v: &Value, out: &mut BTreeSet<String>) {
    match v {
        Value::Object(o) => {
            if let Some(Value::String(s)) = o.get("_id") {
                out.insert(s.clone());
            }
            for (k, c) in o {
                if k.ends_with(FLAT) {
                    used_ids(c, out);
                }
            }
        }
        Value::Array(a) => a.iter().for_each(|c| used_ids(c, out)),
        _ => {}
    }
}

fn fresh_id(r: &mut Rng, pool: &[&str], used: &BTreeSet<String>) -> Option<String> {
    let free: Vec<&&str> = pool.iter().filter(|i| !used.contains(**i)).collect();
    if free.is_empty() {
        None
    } else {
        // prefer the ordinary ids
        let k = if r.chance(4, 5) { r.below(free.len().min(8)) } else { r.below(free.len()) };
        Some(free[k].to_string())
    }
}

pub fn new_elem(r: &mut Rng, id: String, used: &mut BTreeSet<String>, allow_sub: bool) -> Value {
    let mut m = Map::new();
    m.insert("_id".into(), Value::from(id.clone()));
    used.insert(id);
    if r.chance(4, 5) {
        m.insert("v".into(), scalar(r));
    }
    if r.chance(1, 4) {
        m.insert("w".into(), plain_nested(r, 2));
    }
    if r.chance(1, 14) {
        // user fields that happen to carry the names the library uses for its own markers
        match r.below(4) {
            0 => m.insert("_deleted".into(), Value::from(r.chance(1, 2))),
            1 => m.insert("_resolved".into(), Value::from(true)),
            2 => m.insert("_deleted".into(), Value::from("no")),
            _ => m.insert("_rev".into(), Value::from("1-abc")),
        };
    }
    if allow_sub && r.chance(1, 4) {
        let mut subs = vec![];
        for _ in 0..r.below(3) {
            if let Some(id) = fresh_id(r, &sub_ids(), used) {
                subs.push(new_elem(r, id, used, false));
            }
        }
        m.insert(format!("sub{}", FLAT), Value::from(subs));
    }
    Value::from(m)
}

pub fn random_doc(r: &mut Rng) -> Value {
    let mut root = Map::new();
    let mut used = BTreeSet::new();
    if r.chance(1, 2) {
        root.insert("t".into(), scalar(r));
    }
    if r.chance(1, 3) {
        root.insert("p".into(), plain_nested(r, 3));
    }
    if r.chance(1, 30) {
        root.insert("_deleted".into(), Value::from(r.chance(1, 2)));
    }
    for key in ["a", "b"] {
        if r.chance(3, 4) {
            let mut arr = vec![];
            for _ in 0..r.below(5) {
                if let Some(id) = fresh_id(r, &elem_ids(), &used) {
                    arr.push(new_elem(r, id, &mut used, true));
                }
            }
            root.insert(format!("{}{}", key, FLAT), Value::from(arr));
        }
    }
    if r.chance(1, 12) {
        // a long array (more elements than the default cache capacities, long enough for size-dependent
        // paths of the edit-script encoder)
        let n = 16 + r.below(20);
        let arr: Vec<Value> = (0..n).map(|i| json!({"_id": format!("n{}", i), "v": i})).collect();
        for i in 0..n {
            used.insert(format!("n{}", i));
        }
        root.insert(format!("l{}", FLAT), Value::from(arr));
    }
    if r.chance(1, 3) {
        root.insert(format!("o{}", FLAT), flat_obj(r, &mut used));
    }
    if r.chance(1, 4) && !used.contains("q0") {
        root.insert(format!("q{}", FLAT), new_elem(r, "q0".to_string(), &mut used, false));
    }
    Value::from(root)
}

/// the flattened objects o♭ / q♭ of the root may be nested in each other (key `in♭`): moves between
/// the two nestings on different replicas exercise reference cycles between flattened objects
fn renest(r: &mut Rng, root: &mut Map<String, Value>) {
    let (ko, kq, kin) = (format!("o{}", FLAT), format!("q{}", FLAT), format!("in{}", FLAT));
    let take_obj = |m: &mut Map<String, Value>, k: &str| -> Option<Map<String, Value>> {
        match m.get(k) {
            Some(Value::Object(_)) => m.remove(k).and_then(|v| v.as_object().cloned()),
            _ => None,
        }
    };
    // un-nest first: collect the two objects wherever they are
    let mut o = take_obj(root, &ko);
    let mut q = take_obj(root, &kq);
    if let Some(om) = o.as_mut() {
        if q.is_none() {
            q = take_obj(om, &kin);
        }
    }
    if let Some(qm) = q.as_mut() {
        if o.is_none() {
            o = take_obj(qm, &kin);
        }
    }
    match (o, q) {
        (Some(mut om), Some(mut qm)) => {
            om.remove(&kin);
            qm.remove(&kin);
            match r.below(3) {
                0 => {
                    om.insert(kin, Value::from(qm));
                    root.insert(ko, Value::from(om));
                }
                1 => {
                    qm.insert(kin, Value::from(om));
                    root.insert(kq, Value::from(qm));
                }
                _ => {
                    root.insert(ko, Value::from(om));
                    root.insert(kq, Value::from(qm));
                }
            }
        }
        (Some(om), None) => {
            root.insert(ko, Value::from(om));
        }
        (None, Some(qm)) => {
            root.insert(kq, Value::from(qm));
        }
        _ => {}
    }
}

fn flat_obj(r: &mut Rng, used: &mut BTreeSet<String>) -> Value {
    match r.below(4) {
        0 => scalar(r),
        _ => {
            let id = if used.contains("o0") { "o1" } else { "o0" };
            if used.contains(id) {
                scalar(r)
            } else {
                let mut e = new_elem(r, id.to_string(), used, false);
                // a flattened object need not carry an identifier: the library derives one from its path
                if r.chance(1, 6) {
                    if let Some(o) = e.as_object_mut() {
                        o.remove("_id");
                    }
                }
                e
            }
        }
    }
}

fn arrays_of<'a>(root: &'a mut Map<String, Value>) -> Vec<&'a mut Vec<Value>> {
    let mut out = vec![];
    for (k, v) in root.iter_mut() {
        if k.ends_with(FLAT) {
            if let Value::Array(a) = v {
                out.push(a);
            }
        }
    }
    out
}

/// One or two small edits of a document (well-formedness preserved)
/// every tracked object of the document has its own identifier - explicit, or the one the library derives
/// from the path of an object that carries none (C04 quantifies over documents with unique identifiers)
pub fn ids_unique(doc: &Value) -> bool {
    fn walk(v: &Value, tracked: bool, out: &mut Vec<String>) {
        match v {
            Value::Object(o) => {
                if tracked {
                    if let Some(Value::String(id)) = o.get("_id") {
                        out.push(id.clone());
                    }
                }
                for (k, c) in o {
                    if k.ends_with(FLAT) {
                        walk(c, true, out);
                    }
                }
            }
            Value::Array(a) => a.iter().for_each(|c| walk(c, tracked, out)),
            _ => {}
        }
    }
    let with_ids = crate::pure::add_ids(doc, true);
    let mut ids = vec![];
    walk(&with_ids, true, &mut ids);
    let n = ids.len();
    ids.sort();
    ids.dedup();
    ids.len() == n
}

pub fn mutate_doc(r: &mut Rng, doc: &Value) -> Value {
    let mut d = doc.clone();
    let n = 1 + r.below(2);
    for _ in 0..n {
        mutate_once(r, &mut d);
    }
    // an edit that would give two objects one identifier (explicit or derived) is not submitted
    if ids_unique(&d) {
        d
    } else {
        doc.clone()
    }
}

fn mutate_once(r: &mut Rng, d: &mut Value) {
    let mut used = BTreeSet::new();
    used_ids(d, &mut used);
    used.remove("\u{221A}");
    let root = d.as_object_mut().unwrap();
    root.remove("_id");
    let choice = r.below(18);
    match choice {
        16 => {
            renest(r, root);
        }
        17 => {
            // make sure both flattened objects exist, then nest them one way or the other
            let (ko, kq) = (format!("o{}", FLAT), format!("q{}", FLAT));
            if !used.contains("o0") && !used.contains("o1") {
                root.insert(ko, new_elem(r, "o0".to_string(), &mut used, false));
            }
            if !used.contains("q0") {
                root.insert(kq, new_elem(r, "q0".to_string(), &mut used, false));
            }
            renest(r, root);
        }
        0 | 1 | 2 => {
            // insert an element
            let id = fresh_id(r, &elem_ids(), &used);
            let mut arrs = arrays_of(root);
            if let (Some(id), false) = (id, arrs.is_empty()) {
                let i = r.below(arrs.len());
                let e = new_elem(r, id, &mut used, true);
                let pos = r.below(arrs[i].len() + 1);
                arrs[i].insert(pos, e);
            }
        }
        3 | 4 => {
            // remove an element
            let mut arrs = arrays_of(root);
            if !arrs.is_empty() {
                let i = r.below(arrs.len());
                if !arrs[i].is_empty() {
                    let pos = r.below(arrs[i].len());
                    arrs[i].remove(pos);
                }
            }
        }
        5 | 6 => {
            // move within an array
            let mut arrs = arrays_of(root);
            if !arrs.is_empty() {
                let i = r.below(arrs.len());
                if arrs[i].len() > 1 {
                    let from = r.below(arrs[i].len());
                    let e = arrs[i].remove(from);
                    let to = r.below(arrs[i].len() + 1);
                    arrs[i].insert(to, e);
                }
            }
        }
        7 => {
            // move between arrays
            let mut arrs = arrays_of(root);
            if arrs.len() > 1 {
                let i = r.below(arrs.len());
                let j = (i + 1) % arrs.len();
                if !arrs[i].is_empty() {
                    let from = r.below(arrs[i].len());
                    let e = arrs[i].remove(from);
                    let to = r.below(arrs[j].len() + 1);
                    arrs[j].insert(to, e);
                }
            }
        }
        8 | 9 => {
            // modify an element
            let mut arrs = arrays_of(root);
            if !arrs.is_empty() {
                let i = r.below(arrs.len());
                if !arrs[i].is_empty() {
                    let pos = r.below(arrs[i].len());
                    if let Some(o) = arrs[i][pos].as_object_mut() {
                        match r.below(4) {
                            0 => {
                                o.remove("v");
                            }
                            1 => {
                                o.insert("w".into(), plain_nested(r, 2));
                            }
                            2 => {
                                // edit the nested array
                                let key = format!("sub{}", FLAT);
                                let mut subs: Vec<Value> =
                                    o.get(&key).and_then(|v| v.as_array().cloned()).unwrap_or_default();
                                if r.chance(1, 2) && !subs.is_empty() {
                                    let p = r.below(subs.len());
                                    subs.remove(p);
                                } else if let Some(id) = fresh_id(r, &sub_ids(), &used) {
                                    let p = r.below(subs.len() + 1);
                                    subs.insert(p, new_elem(r, id, &mut used, false));
                                }
                                if r.chance(1, 6) {
                                    o.remove(&key);
                                } else {
                                    o.insert(key, Value::from(subs));
                                }
                            }
                            _ => {
                                o.insert("v".into(), scalar(r));
                            }
                        }
                    }
                }
            }
        }
        10 => {
            // shuffle or empty an array
            let mut arrs = arrays_of(root);
            if !arrs.is_empty() {
                let i = r.below(arrs.len());
                if r.chance(1, 3) {
                    arrs[i].clear();
                } else {
                    let mut v = std::mem::take(arrs[i]);
                    r.shuffle(&mut v);
                    *arrs[i] = v;
                }
            }
        }
        11 => {
            // a flattened array key disappears / appears
            let key = format!("{}{}", r.pick(&["a", "b"]), FLAT);
            if root.contains_key(&key) {
                root.remove(&key);
            } else {
                let mut arr = vec![];
                for _ in 0..r.below(3) {
                    if let Some(id) = fresh_id(r, &elem_ids(), &used) {
                        arr.push(new_elem(r, id, &mut used, true));
                    }
                }
                root.insert(key, Value::from(arr));
            }
        }
        12 => {
            // flattened object/scalar: appear, disappear, change kind
            let key = format!("o{}", FLAT);
            let o_nested_elsewhere = (used.contains("o0") || used.contains("o1"))
                && !matches!(root.get(&key), Some(Value::Object(_)));
            if o_nested_elsewhere {
                // the object lives inside q♭: move it instead of creating a second one with the same identifier
                renest(r, root);
            } else if root.contains_key(&key) && r.chance(1, 2) {
                root.remove(&key);
            } else {
                used.remove("o0");
                used.remove("o1");
                // an object nested inside o♭ goes away with it
                if let Some(Value::Object(om)) = root.get(&key) {
                    if om.contains_key(&format!("in{}", FLAT)) {
                        used.remove("q0");
                    }
                }
                let v = flat_obj(r, &mut used);
                root.insert(key, v);
            }
        }
        13 => {
            // a flattened array key changes kind (array <-> scalar/object)
            let key = format!("b{}", FLAT);
            match root.get(&key) {
                Some(Value::Array(_)) => {
                    root.insert(key, scalar(r));
                }
                _ => {
                    root.insert(key, Value::from(Vec::<Value>::new()));
                }
            }
        }
        14 => {
            if r.chance(1, 2) {
                root.insert("t".into(), scalar(r));
            } else {
                root.remove("t");
            }
        }
        _ => {
            root.insert("p".into(), plain_nested(r, 3));
        }
    }
}

/// Strip the identifier that `read` adds to the root so the document can be re-submitted
pub fn strip_root_id(v: &Value) -> Value {
    let mut d = v.clone();
    if let Some(o) = d.as_object_mut() {
        if o.get("_id") == Some(&Value::from("\u{221A}")) {
            o.remove("_id");
        }
    }
    d
}
