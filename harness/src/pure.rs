// Pure channels: each request is one JSON line, each answer one text line.
// `answer` computes the implementation's answer with the real library code.
use crate::gen::*;
use crate::store::SimStore;
use melda::verif::*;
use serde_json::{json, Map, Value};
use std::collections::HashMap;
use std::panic::{catch_unwind, AssertUnwindSafe};

/// objects nested `d` levels below their top-level values, in four shapes (arrays only; arrays and objects
/// alternating with siblings; the deep value twice, once one level further down; an empty object)
pub fn deep_object(kind: u64, d: usize) -> Value {
    let mut v = json!(1);
    let mut w = json!({"s": "x"});
    for i in 0..d {
        v = json!([v]);
        w = if i % 3 == 0 { json!({"flat": 1, "k": w}) } else { json!([0, w]) };
    }
    match kind {
        0 => json!({ "n": v }),
        1 => json!({"a": 1, "n": w, "z": [[]]}),
        2 => json!({"a": v.clone(), "b": {"c": v}}),
        _ => json!({}),
    }
}

pub fn js(v: &Value) -> String {
    serde_json::to_string(v).unwrap()
}

fn panic_msg(e: Box<dyn std::any::Any + Send>) -> String {
    if let Some(s) = e.downcast_ref::<&str>() {
        s.to_string()
    } else if let Some(s) = e.downcast_ref::<String>() {
        s.clone()
    } else {
        "?".to_string()
    }
}

/// stable prefix of an error/panic message: text before the first ':'
pub fn msg_prefix(s: &str) -> String {
    s.split(':').next().unwrap_or("").trim().to_string()
}

fn rev_fields(r: &Revision) -> String {
    // digest and tail are private: recover them from Display + accessors
    format!("{}|{}|{}|{}", r.index(), r.digest(), r, if r.is_charcode() { 1 } else { 0 })
}

fn parse_rev(s: &str) -> Result<Revision, String> {
    match catch_unwind(AssertUnwindSafe(|| Revision::from(s))) {
        Ok(Ok(r)) => Ok(r),
        Ok(Err(_)) => Err("err".into()),
        Err(_) => Err("panic".into()),
    }
}

pub fn tree_state(t: &RevisionTree) -> String {
    let r = catch_unwind(AssertUnwindSafe(|| {
        let leafs: Vec<String> = t.get_leafs().iter().map(|r| r.to_string()).collect();
        let winner = t.get_winner().map(|r| r.to_string());
        (leafs, winner)
    }));
    let mut entries: Vec<(String, Option<String>, bool)> = t
        .get_revisions()
        .iter()
        .map(|(r, e)| (r.to_string(), e.get_parent().as_ref().map(|p| p.to_string()), e.is_staging()))
        .collect();
    entries.sort();
    match r {
        Ok((leafs, winner)) => js(&json!({"l": leafs, "w": winner, "s": t.has_staging(), "e": entries})),
        Err(_) => js(&json!({"unvalidated": true, "s": t.has_staging(), "e": entries})),
    }
}

pub fn answer(req: &Value) -> String {
    let a = req.as_array().unwrap();
    let op = a[0].as_str().unwrap();
    match op {
        "rev.parse" => match parse_rev(a[1].as_str().unwrap()) {
            Ok(r) => format!("ok {}", rev_fields(&r)),
            Err(e) => e,
        },
        "rev.mk1" => Revision::new(1, a[1].as_str().unwrap().to_string(), None).to_string(),
        "rev.upd" | "rev.del" | "rev.res" => match parse_rev(a[1].as_str().unwrap()) {
            Ok(p) => {
                let r = match op {
                    "rev.upd" => Revision::new_updated(a[2].as_str().unwrap().to_string(), &p),
                    "rev.del" => Revision::new_deleted(&p),
                    _ => Revision::new_resolved(&p),
                };
                r.to_string()
            }
            Err(e) => e,
        },
        "rev.cmp" => match (parse_rev(a[1].as_str().unwrap()), parse_rev(a[2].as_str().unwrap())) {
            (Ok(x), Ok(y)) => {
                let c = match x.cmp(&y) {
                    std::cmp::Ordering::Less => "lt",
                    std::cmp::Ordering::Equal => "eq",
                    std::cmp::Ordering::Greater => "gt",
                };
                format!("{} {}", c, if x == y { 1 } else { 0 })
            }
            _ => "err".into(),
        },
        "tree" => {
            let mut t = RevisionTree::new();
            let mut out = vec![];
            for o in a[1].as_array().unwrap() {
                let o = o.as_array().unwrap();
                match o[0].as_str().unwrap() {
                    k @ ("a" | "u") => {
                        let r = parse_rev(o[1].as_str().unwrap()).unwrap();
                        let p = o[2].as_str().map(|s| parse_rev(s).unwrap());
                        let st = o[3].as_bool().unwrap();
                        let b = if k == "a" { t.add(r, p, st) } else { t.unvalidated_add(r, p, st) };
                        out.push(if b { "1".to_string() } else { "0".to_string() });
                    }
                    "v" => t.validate(),
                    "c" => {
                        if catch_unwind(AssertUnwindSafe(|| t.commit())).is_err() {
                            out.push("panic".into());
                        }
                    }
                    "s" => t.unstage(),
                    "p" => {
                        let r = parse_rev(o[1].as_str().unwrap()).unwrap();
                        out.push(format!("p={}", t.get_parent(&r).map(|p| p.to_string()).unwrap_or("~".into())));
                    }
                    _ => panic!("bad tree op"),
                }
                out.push(tree_state(&t));
            }
            out.join(";")
        }
        "merge" => {
            let m = a[1].as_array().unwrap().clone();
            let mut n = a[2].as_array().unwrap().clone();
            match catch_unwind(AssertUnwindSafe(|| {
                merge_arrays(&m, &mut n);
                n
            })) {
                Ok(n) => js(&Value::from(n)),
                Err(_) => "panic".into(),
            }
        }
        "diff" => {
            let x = a[1].as_array().unwrap().clone();
            let y = a[2].as_array().unwrap().clone();
            match catch_unwind(AssertUnwindSafe(|| make_diff_patch(&x, &y))) {
                Ok(Ok(p)) => js(&Value::from(p)),
                Ok(Err(_)) => "err".into(),
                Err(_) => "panic".into(),
            }
        }
        "patch" => {
            let mut x = a[1].as_array().unwrap().clone();
            let p = a[2].as_array().unwrap().clone();
            match catch_unwind(AssertUnwindSafe(|| apply_diff_patch(&mut x, &p).map(|_| x))) {
                Ok(Ok(x)) => format!("ok {}", js(&Value::from(x))),
                Ok(Err(e)) => format!("err {}", msg_prefix(&e.to_string())),
                Err(_) => "panic".into(),
            }
        }
        "flat" => {
            let doc = a[1].clone();
            match catch_unwind(AssertUnwindSafe(|| {
                let mut c = HashMap::<String, Map<String, Value>>::new();
                let root = flatten(&mut c, &doc, &[]);
                (c, root)
            })) {
                Ok((c, root)) => {
                    let mut m = Map::new();
                    for (k, v) in c {
                        m.insert(k, Value::from(v));
                    }
                    format!("ok {} {}", js(&root), js(&Value::from(m)))
                }
                Err(e) => format!("panic {}", msg_prefix(&panic_msg(e))),
            }
        }
        "unflat" => {
            let pool = a[1].as_object().unwrap().clone();
            let v = a[2].clone();
            match catch_unwind(AssertUnwindSafe(|| {
                let mut c = HashMap::<String, Map<String, Value>>::new();
                for (k, o) in pool {
                    c.insert(k, o.as_object().unwrap().clone());
                }
                unflatten(&mut c, &v)
            })) {
                Ok(Some(v)) => format!("ok {}", js(&v)),
                Ok(None) => "none".into(),
                Err(e) => format!("panic {}", msg_prefix(&panic_msg(e))),
            }
        }
        "digest" => match digest_object(a[1].as_object().unwrap()) {
            Ok(d) => format!("ok {}", d),
            Err(e) => format!("err {}", msg_prefix(&e.to_string())),
        },
        "json" => match serde_json::from_str::<Value>(a[1].as_str().unwrap()) {
            Ok(v) => format!("ok {}", js(&v)),
            Err(_) => "err".into(),
        },
        // `is_too_deep` on an object built from (kind, depth): the request line stays flat, because request
        // files are read back with the same depth-limited parser
        "toodeep" => format!("{}", is_too_deep(deep_object(a[1].as_u64().unwrap(), a[2].as_u64().unwrap() as usize).as_object().unwrap())),
        "sha" => digest_string(a[1].as_str().unwrap()),
        "rev.obj" => match digest_object(a[1].as_object().unwrap()) {
            // the creation revision of an object, printed and parsed back
            Ok(d) => {
                let r = Revision::new(1, d, None);
                let s = r.to_string();
                match parse_rev(&s) {
                    Ok(r2) => format!("{} -> {}", s, rev_fields(&r2)),
                    Err(e) => format!("{} -> {}", s, e),
                }
            }
            Err(e) => format!("err {}", msg_prefix(&e.to_string())),
        },
        "kv" => kv_run(a[1].as_str().unwrap(), a[2].as_array().unwrap()).join(";"),
        "scan" => {
            // a[1]: pack bytes as hex. Store it under its own digest, reload a DataStorage, dump index
            let bytes = hex::decode(a[1].as_str().unwrap()).unwrap();
            let name = digest_bytes(&bytes);
            let st = SimStore::new();
            st.put_raw(&(name.clone() + ".pack"), bytes);
            let mut ds = DataStorage::new(st.dyn_adapter());
            match ds.reload() {
                Ok(_) => {
                    let idx: Vec<Value> = ds
                        .verif_index()
                        .into_iter()
                        .map(|(d, _p, o, l)| json!([d, o, l]))
                        .collect();
                    js(&Value::from(idx))
                }
                Err(_) => "err".into(),
            }
        }
        _ => panic!("unknown op {}", op),
    }
}

static KV_COUNTER: std::sync::atomic::AtomicUsize = std::sync::atomic::AtomicUsize::new(0);

/// run a sequence of storage operations on a real backend (optionally wrapped)
pub fn kv_run(backend: &str, ops: &[Value]) -> Vec<String> {
    let n = KV_COUNTER.fetch_add(1, std::sync::atomic::Ordering::SeqCst);
    let base = std::env::var("MVERIF_SCRATCH").unwrap_or_else(|_| "/tmp/mverif_scratch".into());
    let path = format!("{}/kv{}_{}{}", base, std::process::id(), n, if backend.starts_with("sqlite") { ".db" } else { "" });
    if backend.starts_with("fs") {
        let _ = std::fs::remove_dir_all(&path);
    } else {
        std::fs::create_dir_all(&base).unwrap();
        let _ = std::fs::remove_file(&path);
    }
    let mut ad = crate::sim::open_real(backend, &path);
    let mut out = vec![];
    for o in ops {
        let o = o.as_array().unwrap();
        let r = catch_unwind(AssertUnwindSafe(|| match o[0].as_str().unwrap() {
            "w" => match ad.write().unwrap().write_object(o[1].as_str().unwrap(), &hex::decode(o[2].as_str().unwrap()).unwrap()) {
                Ok(()) => "ok".to_string(),
                Err(_) => "err".to_string(),
            },
            "r" => match ad.read().unwrap().read_object(o[1].as_str().unwrap(), 0, 0) {
                Ok(d) => hex::encode(d),
                Err(_) => "err".to_string(),
            },
            "rr" => match ad.read().unwrap().read_object(o[1].as_str().unwrap(), o[2].as_u64().unwrap() as usize, o[3].as_u64().unwrap() as usize) {
                Ok(d) => hex::encode(d),
                Err(_) => "err".to_string(),
            },
            "dump" => dump_backend(backend, &path),
            "l" => match ad.read().unwrap().list_objects(o[1].as_str().unwrap()) {
                Ok(mut v) => {
                    v.sort();
                    js(&json!(v))
                }
                Err(_) => "err".to_string(),
            },
            _ => "bad".to_string(),
        }));
        if o[0].as_str().unwrap() == "reopen" {
            let persistent = backend.starts_with("fs") || (backend.starts_with("sqlite") && !backend.starts_with("sqlitemem"));
            if persistent {
                match catch_unwind(AssertUnwindSafe(|| crate::sim::open_real(backend, &path))) {
                    Ok(a) => {
                        ad = a;
                        out.push("ok".to_string());
                    }
                    Err(_) => out.push("panic".to_string()),
                }
            } else {
                out.push("ok".to_string());
            }
            continue;
        }
        out.push(r.unwrap_or_else(|_| "panic".to_string()));
    }
    drop(ad);
    if backend.starts_with("fs") {
        let _ = std::fs::remove_dir_all(&path);
    } else {
        let _ = std::fs::remove_file(&path);
    }
    out
}

/// the raw layout behind a persistent backend: relative paths (directory) or table rows (SQLite),
/// with contents when the backend is not wrapped in a compression codec
fn dump_backend(backend: &str, path: &str) -> String {
    let wrapped = backend.contains('+');
    if backend.starts_with("fs") {
        let mut v: Vec<Value> = vec![];
        if let Ok(rd) = std::fs::read_dir(path) {
            for d in rd.flatten() {
                if let Ok(sub) = std::fs::read_dir(d.path()) {
                    for f in sub.flatten() {
                        let rel = format!("{}/{}", d.file_name().to_string_lossy(), f.file_name().to_string_lossy());
                        if wrapped {
                            v.push(json!([rel]));
                        } else {
                            v.push(json!([rel, hex::encode(std::fs::read(f.path()).unwrap_or_default())]));
                        }
                    }
                }
            }
        }
        v.sort_by_key(|x| x[0].as_str().unwrap().to_string());
        js(&Value::from(v))
    } else if backend.starts_with("sqlite") && !backend.starts_with("sqlitemem") {
        let mut v: Vec<Value> = vec![];
        if let Ok(cn) = rusqlite::Connection::open(path) {
            if let Ok(mut st) = cn.prepare("SELECT key, value FROM entries") {
                let rows = st.query_map([], |r| Ok((r.get::<_, String>(0)?, r.get::<_, String>(1)?)));
                if let Ok(rows) = rows {
                    for (k, val) in rows.flatten() {
                        if wrapped {
                            v.push(json!([k]));
                        } else {
                            v.push(json!([k, val]));
                        }
                    }
                }
            }
        }
        v.sort_by_key(|x| x[0].as_str().unwrap().to_string());
        js(&Value::from(v))
    } else {
        "[]".to_string()
    }
}

/// the write-once key/value contract, evaluated by the harness itself
pub fn kv_spec(ops: &[Value]) -> Vec<String> {
    let mut m: std::collections::BTreeMap<String, Vec<u8>> = Default::default();
    let mut out = vec![];
    for o in ops {
        let o = o.as_array().unwrap();
        out.push(match o[0].as_str().unwrap() {
            "w" => {
                m.entry(o[1].as_str().unwrap().to_string()).or_insert_with(|| hex::decode(o[2].as_str().unwrap()).unwrap());
                "ok".to_string()
            }
            "r" => m.get(o[1].as_str().unwrap()).map(hex::encode).unwrap_or("err".into()),
            "rr" => match m.get(o[1].as_str().unwrap()) {
                Some(d) => {
                    let (off, len) = (o[2].as_u64().unwrap() as usize, o[3].as_u64().unwrap() as usize);
                    hex::encode(&d[off..off + len])
                }
                None => "err".into(),
            },
            "l" => {
                let ext = o[1].as_str().unwrap();
                let mut v: Vec<String> = m.keys().filter(|k| k.ends_with(ext)).map(|k| k.strip_suffix(ext).unwrap().to_string()).collect();
                // the answer is a set; both sides sort the stripped names
                v.sort();
                js(&json!(v))
            }
            "reopen" => "ok".to_string(),
            "dump" => "*".to_string(),
            _ => "bad".to_string(),
        });
    }
    out
}

pub const BACKENDS: [&str; 12] = [
    "memory", "memory+flate", "memory+brotli", "fs", "fs+flate", "fs+brotli", "sqlite", "sqlite+flate", "sqlite+brotli", "sqlitemem",
    "sqlitemem+flate", "sqlitemem+brotli",
];

fn gen_kv_ops(r: &mut Rng, odd_keys: bool) -> Vec<Value> {
    let mut keys: Vec<String> = vec![];
    let mut sizes: HashMap<String, usize> = HashMap::new();
    let mut ops = vec![];
    let n = 4 + r.below(14);
    for _ in 0..n {
        match r.below(10) {
            0..=3 => {
                let stem = match r.below(6) {
                    0 => format!("{}-{}", 1 + r.below(12), hexd(r, 12)),
                    1 => "ab".to_string(),
                    2 if odd_keys => format!("{}.flate", hexd(r, 4)),
                    3 if odd_keys => format!("{}.brotli", hexd(r, 4)),
                    _ => hexd(r, 8),
                };
                // (upper-case twins of the extensions: suffix matching is byte-exact, not case-insensitive)
                let ext = *r.pick(&[".delta", ".pack", ".index", "", ".delta", ".pack", ".DELTA", ".Pack", "xdelta"]);
                let k = if r.chance(1, 5) && !keys.is_empty() { r.pick(&keys).clone() } else { format!("{}{}", stem, ext) };
                let len = match r.below(12) {
                    0 | 1 => 0,
                    2 | 3 => 1,
                    4 => 40000 + r.below(60000), // larger than any codec's internal buffer
                    _ => r.below(300),
                };
                // random bytes (incompressible), or - one time in four - highly compressible content: a run, a short
                // period, a repeated JSON fragment (a codec may treat the two very differently)
                let data: Vec<u8> = match r.below(8) {
                    0 => vec![b'a'; len],
                    1 => {
                        let frag = b"{\"_id\":\"x0\",\"v\":1},";
                        (0..len).map(|i| frag[i % frag.len()]).collect()
                    }
                    _ => (0..len).map(|_| (r.next() & 0xff) as u8).collect(),
                };
                if !sizes.contains_key(&k) {
                    sizes.insert(k.clone(), len);
                    keys.push(k.clone());
                }
                ops.push(json!(["w", k, hex::encode(data)]));
            }
            4 | 5 => {
                let k = if keys.is_empty() || r.chance(1, 6) { "zz-missing.delta".to_string() } else { r.pick(&keys).clone() };
                ops.push(json!(["r", k]));
            }
            6 | 7 => {
                if !keys.is_empty() {
                    let k = r.pick(&keys).clone();
                    let sz = sizes[&k];
                    if sz > 0 {
                        let len = if sz > 1000 && r.chance(1, 2) { 1 + r.below(6000) } else { 1 + r.below(sz) };
                        let off = if sz > 1000 && r.chance(1, 2) { sz - len - r.below((sz - len).min(5000) + 1) } else { r.below(sz - len + 1) };
                        ops.push(json!(["rr", k, off, len]));
                    }
                }
            }
            // (suffixes with SQL LIKE wildcards and case twins: matching is literal)
            8 => ops.push(json!(["l", *r.pick(&[".delta", ".pack", "", ".index", "a", "A", ".DELTA", "_delta", "%delta", ".de_ta", "%", "_"])])),
            _ => ops.push(json!(["reopen"])),
        }
    }
    ops.push(json!(["l", ".delta"]));
    ops.push(json!(["l", "_delta"]));
    ops.push(json!(["l", ".DELTA"]));
    ops.push(json!(["l", ""]));
    ops.push(json!(["dump"]));
    ops.push(json!(["reopen"]));
    ops.push(json!(["l", ".pack"]));
    for k in keys.iter().take(3) {
        ops.push(json!(["r", k]));
    }
    ops
}

// ---------------------------------------------------------------- generators

fn hexd(r: &mut Rng, n: usize) -> String {
    (0..n).map(|_| *r.pick(&["0", "1", "2", "3", "4", "5", "6", "7", "8", "9", "a", "b", "c", "d", "e", "f"])).collect()
}

fn digest_like(r: &mut Rng) -> String {
    match r.below(12) {
        0 => "d".into(),
        1 => "r".into(),
        2 => "e".into(),
        3 => hexd(r, 4),
        4 => "abc".into(),
        // caller-supplied digests ("#" field, character codes) may be upper or mixed case
        5 => {
            let n = 2 + r.below(3);
            hexd(r, n).to_uppercase()
        }
        6 => {
            let h = hexd(r, 64);
            h.chars().enumerate().map(|(i, c)| if i % 3 == 0 { c.to_ascii_uppercase() } else { c }).collect()
        }
        _ => hexd(r, 64),
    }
}

/// a system-produced revision chain starting at a creation revision
fn rev_chain(r: &mut Rng, len: usize) -> Vec<String> {
    let mut v = vec![];
    let mut cur = Revision::new(1, digest_like(r), None);
    v.push(cur.to_string());
    for _ in 1..len {
        cur = match r.below(8) {
            0 => Revision::new_deleted(&cur),
            1 => Revision::new_resolved(&cur),
            _ => Revision::new_updated(digest_like(r), &cur),
        };
        v.push(cur.to_string());
    }
    v
}

fn malformed(r: &mut Rng) -> String {
    let parts = ["1", "2", "10", "007", "-", "_", "a", "b", "Z", "9f", " ", "--", "__", "x-", "-y", "12-ab_cd", ".", "#", "3-d_1", "4294967295", "4294967296", "99999999999999999999"];
    let n = 1 + r.below(6);
    (0..n).map(|_| *r.pick(&parts)).collect()
}

fn small_seq(r: &mut Rng, alphabet: usize, maxlen: usize, dup_free: bool) -> Vec<Value> {
    let n = r.below(maxlen + 1);
    let mut v: Vec<Value> = vec![];
    for _ in 0..n {
        let s = Value::from(format!("e{}", r.below(alphabet)));
        if dup_free && v.contains(&s) {
            continue;
        }
        v.push(s);
    }
    v
}

pub fn gen_requests(channel: &str, r: &mut Rng, count: usize) -> Vec<Value> {
    let mut out = vec![];
    match channel {
        "rev" => {
            // chains crossing 9 -> 10 and 99 -> 100
            for len in [12usize, 103] {
                let ch = rev_chain(r, len);
                for (i, s) in ch.iter().enumerate() {
                    out.push(json!(["rev.parse", s]));
                    if i > 0 {
                        out.push(json!(["rev.cmp", ch[i - 1], s]));
                    }
                }
                out.push(json!(["rev.cmp", ch[8], ch[9]]));
                out.push(json!(["rev.cmp", ch[9], ch[1]]));
            }
            while out.len() < count {
                match r.below(8) {
                    0 => out.push(json!(["rev.parse", malformed(r)])),
                    1 => out.push(json!(["rev.mk1", digest_like(r)])),
                    2 | 3 => {
                        let n = 1 + r.below(12);
                        let ch = rev_chain(r, n);
                        let p = ch.last().unwrap().clone();
                        out.push(json!(["rev.parse", p]));
                        out.push(json!(["rev.upd", p, digest_like(r)]));
                        out.push(json!(["rev.del", p]));
                        out.push(json!(["rev.res", p]));
                    }
                    4 => {
                        let (x, y) = (malformed(r), malformed(r));
                        if parse_rev(&x).is_ok() && parse_rev(&y).is_ok() {
                            out.push(json!(["rev.cmp", x, y]));
                        }
                    }
                    _ => {
                        // comparisons between related revisions (siblings, resolved, 9 vs 10)
                        let n = 1 + r.below(12);
                        let ch = rev_chain(r, n);
                        let p = parse_rev(ch.last().unwrap()).unwrap();
                        let sibs = [
                            Revision::new_updated(digest_like(r), &p).to_string(),
                            Revision::new_updated(digest_like(r), &p).to_string(),
                            Revision::new_resolved(&p).to_string(),
                            Revision::new_deleted(&p).to_string(),
                            ch[r.below(ch.len())].clone(),
                        ];
                        let x = r.pick(&sibs).clone();
                        let y = r.pick(&sibs).clone();
                        out.push(json!(["rev.cmp", x, y]));
                    }
                }
            }
        }
        "tree" => {
            while out.len() < count {
                // build a pool of related revisions: a forest with forks, dangling parents, markers
                let mut pool: Vec<(String, Option<String>)> = vec![];
                let roots = 1 + r.below(2);
                for _ in 0..roots {
                    let root = Revision::new(1, digest_like(r), None);
                    if r.chance(5, 6) {
                        pool.push((root.to_string(), None));
                    }
                    let mut frontier = vec![root];
                    let depth = 1 + r.below(12);
                    for _ in 0..depth {
                        let p = r.pick(&frontier).clone();
                        let c = match r.below(7) {
                            0 => Revision::new_deleted(&p),
                            1 => Revision::new_resolved(&p),
                            _ => Revision::new_updated(digest_like(r), &p),
                        };
                        if r.chance(9, 10) {
                            pool.push((c.to_string(), Some(p.to_string())));
                        }
                        frontier.push(c);
                    }
                }
                if r.chance(1, 5) {
                    // a parentless revision with index > 1, and an index-1 revision with a parent
                    pool.push((format!("3-{}_abcdefa", hexd(r, 6)), None));
                }
                r.shuffle(&mut pool);
                let mut ops = vec![];
                for (rev, par) in &pool {
                    let k = if r.chance(1, 2) { "a" } else { "u" };
                    ops.push(json!([k, rev, par, r.chance(1, 3)]));
                    if r.chance(1, 6) {
                        ops.push(json!([*r.pick(&["v", "c", "s", "v"])]));
                    }
                }
                ops.push(json!(["v"]));
                if let Some((rev, _)) = pool.first() {
                    ops.push(json!(["p", rev]));
                }
                ops.push(json!([*r.pick(&["c", "s"])]));
                out.push(json!(["tree", ops]));
            }
        }
        "merge" => {
            while out.len() < count {
                let dup_free = r.chance(4, 5);
                out.push(json!(["merge", small_seq(r, 6, 6, dup_free), small_seq(r, 6, 6, dup_free)]));
            }
        }
        "diff" => {
            while out.len() < count {
                // mostly short arrays over a tiny alphabet (repeats, empties); one in six long (16..70 elements,
                // mostly distinct) so that size-dependent paths of the encoder are reached
                let long = r.chance(1, 6);
                let a = if long {
                    let mut v = small_seq(r, 90, 70, true);
                    while v.len() < 16 {
                        v.push(Value::from(format!("f{}", v.len())));
                    }
                    v
                } else {
                    small_seq(r, 4, 8, false)
                };
                let b = if !long && r.chance(1, 2) {
                    small_seq(r, 4, 8, false)
                } else {
                    // a small edit of a
                    let mut b = a.clone();
                    for _ in 0..1 + r.below(3) {
                        if !b.is_empty() && r.chance(1, 2) {
                            let i = r.below(b.len());
                            b.remove(i);
                        } else {
                            let i = r.below(b.len() + 1);
                            b.insert(i, Value::from(format!("e{}", r.below(if long { 200 } else { 4 }))));
                        }
                    }
                    b
                };
                out.push(json!(["diff", a, b]));
                if let Ok(Ok(p)) = catch_unwind(AssertUnwindSafe(|| make_diff_patch(&a, &b))) {
                    out.push(json!(["patch", a, p]));
                    // a damaged patch
                    if r.chance(1, 8) && !p.is_empty() {
                        let mut q = p.clone();
                        let i = r.below(q.len());
                        q[i] = match r.below(4) {
                            0 => json!(["x", 0, 0]),
                            1 => json!(["d", "1", 0]),
                            2 => json!(["i", 0, 5]),
                            _ => json!([1, 2, 3]),
                        };
                        out.push(json!(["patch", a, q]));
                    }
                }
            }
        }
        "flat" => {
            let mut doc = random_doc(r);
            while out.len() < count {
                doc = if r.chance(1, 6) { random_doc(r) } else { mutate_doc(r, &doc) };
                out.push(json!(["flat", doc]));
                // unflatten what the implementation flattened, with identifiers added as `read` does
                let mut c = HashMap::<String, Map<String, Value>>::new();
                let root = flatten(&mut c, &doc, &[]);
                let mut pool = Map::new();
                for (k, mut v) in c {
                    if r.chance(1, 30) {
                        continue; // a deleted object
                    }
                    v.insert("_id".into(), Value::from(k.clone()));
                    pool.insert(k, Value::from(v));
                }
                let start = pool.get(root.as_str().unwrap()).cloned().unwrap_or(Value::Null);
                out.push(json!(["unflat", pool, start]));
                for (_, o) in doc.as_object().unwrap().iter().take(2) {
                    if let Some(o) = o.as_object() {
                        if !o.contains_key("_id") {
                            out.push(json!(["digest", o]));
                        }
                    }
                }
            }
        }
        "json" => {
            let texts = [
                "{\"a\":1}", "[1,2,3]", " {\"b\" : [ true , false , null ] } ", "{\"a\":1,\"a\":2}", "[1,]", "{", "\"\\ud83d\\ude00\"",
                "\"\\u00e9\"", "\"\\ud800\"", "{\"z\":1,\"a\":{\"y\":2,\"b\":3}}", "\"tab\\t\"", "[\"\\u0000\"]", "nul", "[1 2]", "{\"a\"}",
                "-1", "1.5", "1e+21", "0.1", "[]x", "\"a\nb\"", "18446744073709551615",
            ];
            for t in texts {
                out.push(json!(["json", t]));
            }
            // texts nested around the parser's recursion limit (128): arrays, objects, mixed, with siblings,
            // well-formed and cut short; and objects around the library's own guard (100) for `is_too_deep`
            for d in [1usize, 99, 100, 101, 126, 127, 128, 129, 200] {
                let arr = format!("{}1{}", "[".repeat(d), "]".repeat(d));
                let obj = format!("{}1{}", "{\"a\":".repeat(d), "}".repeat(d));
                let mixed: String = (0..d).map(|i| if i % 2 == 0 { "[" } else { "{\"k\":" }).collect::<String>()
                    + "null"
                    + &(0..d).rev().map(|i| if i % 2 == 0 { "]" } else { "}" }).collect::<String>();
                let sib = format!("[0,{},\"x\"]", arr);
                let cut = format!("{}1{}", "[".repeat(d), "]".repeat(d.saturating_sub(1)));
                for t in [arr, obj, mixed, sib, cut] {
                    out.push(json!(["json", t]));
                }
            }
            for d in [0usize, 1, 2, 50, 97, 98, 99, 100, 101, 102, 130] {
                for kind in 0..4u64 {
                    out.push(json!(["toodeep", kind, d]));
                }
            }
            while out.len() < count {
                let v = plain_nested(r, 4);
                out.push(json!(["json", js(&v)]));
                out.push(json!(["sha", js(&v)]));
            }
        }
        "pack" => {
            while out.len() < count {
                // stage random objects through the real writer, take the pack it writes
                let st = SimStore::new();
                let mut ds = DataStorage::new(st.dyn_adapter());
                let n = r.below(6);
                for _ in 0..n {
                    let mut o = Map::new();
                    for _ in 0..1 + r.below(3) {
                        let k = *r.pick(&["k", "{", "}", "q\"", "b\\", "é"]);
                        o.insert(k.to_string(), plain_nested(r, 3));
                    }
                    let d = digest_object(&o).unwrap();
                    ds.write_raw_value(&d, Value::from(o)).unwrap();
                }
                if let Ok(Some(pid)) = ds.pack() {
                    let bytes = st.snapshot().get(&(pid + ".pack")).unwrap().clone();
                    out.push(json!(["scan", hex::encode(&bytes)]));
                }
                // junk bytes through the scanner
                if r.chance(1, 6) {
                    let junk: Vec<u8> = (0..r.below(24)).map(|_| *r.pick(&[b'{', b'}', b'"', b'\\', b'a', b',', b'[', b']'])).collect();
                    out.push(json!(["scan", hex::encode(&junk)]));
                }
            }
        }
        "kv" => {
            let mut i = 0;
            while out.len() < count {
                let ops = gen_kv_ops(r, true);
                out.push(json!(["kv", BACKENDS[i % BACKENDS.len()], ops]));
                i += 1;
            }
        }
        "revobj" => {
            while out.len() < count {
                let mut o = Map::new();
                o.insert("k".into(), plain_nested(r, 2));
                if r.chance(1, 3) {
                    let hn = 1 + r.below(9);
                    o.insert("#".into(), Value::from(hexd(r, hn)));
                }
                out.push(json!(["rev.obj", o]));
            }
        }
        _ => panic!("unknown channel {}", channel),
    }
    out
}

/// Implementation-side oracles on the pure channels (the properties evaluated on the real code).
/// Returns a list of (property, description) failures for the request.
pub fn oracle(req: &Value) -> Vec<(String, String)> {
    let mut fails = vec![];
    let a = req.as_array().unwrap();
    match a[0].as_str().unwrap() {
        "rev.parse" => {
            // parsing any text returns (a revision or an error): it never aborts
            if catch_unwind(AssertUnwindSafe(|| parse_rev(a[1].as_str().unwrap()).is_ok())).is_err() {
                fails.push(("C08".into(), format!("parsing the identifier {} aborts", a[1].as_str().unwrap())));
                fails.push(("C10".into(), format!("parsing the identifier {} aborts", a[1].as_str().unwrap())));
                fails.push(("C19".into(), format!("parsing the identifier {} aborts", a[1].as_str().unwrap())));
                return fails;
            }
            // print/parse identity on whatever parses (system-produced strings are the domain)
            if let Ok(r) = parse_rev(a[1].as_str().unwrap()) {
                let s = r.to_string();
                // a system-produced text is the print of some revision: parsing it must give that revision back,
                // so printing the parse must give the text back
                if is_system_rev(a[1].as_str().unwrap()) && s != a[1].as_str().unwrap() {
                    fails.push(("C19".into(), format!("the identifier {} parses to a revision that prints as {}", a[1].as_str().unwrap(), s)));
                }
                match parse_rev(&s) {
                    Ok(r2) if r2 == r && r2.to_string() == s => {}
                    _ => {
                        if a.get(2).is_some() || is_system_rev(a[1].as_str().unwrap()) {
                            fails.push(("C19".into(), format!("print/parse not identity for {}", s)));
                        }
                    }
                }
            }
        }
        "rev.cmp" => {
            if let (Ok(x), Ok(y)) = (parse_rev(a[1].as_str().unwrap()), parse_rev(a[2].as_str().unwrap())) {
                let c1 = x.cmp(&y);
                let c2 = y.cmp(&x);
                if c1 != c2.reverse() {
                    fails.push(("C19".into(), format!("cmp not antisymmetric {} {}", x, y)));
                }
                // (consistency with equality is claimed for identifiers the system produces; a malformed text such
                // as `1-a_b` - a creation revision with a tail - parses to a revision that prints without the tail)
                if is_system_rev(a[1].as_str().unwrap()) && is_system_rev(a[2].as_str().unwrap()) && (c1 == std::cmp::Ordering::Equal) != (x == y) {
                    fails.push(("C19".into(), format!("cmp inconsistent with eq {} {}", x, y)));
                }
                if !x.is_resolved() && !y.is_resolved() && x.index() != y.index() && (x.index() < y.index()) != (c1 == std::cmp::Ordering::Less) {
                    fails.push(("C05".into(), format!("longer history does not win {} {}", x, y)));
                }
            }
        }
        "tree" => {
            // the leaf / winner rule recomputed independently after every operation
            let mut t = RevisionTree::new();
            for o in a[1].as_array().unwrap() {
                let o = o.as_array().unwrap();
                match o[0].as_str().unwrap() {
                    k @ ("a" | "u") => {
                        let r = parse_rev(o[1].as_str().unwrap()).unwrap();
                        let p = o[2].as_str().map(|s| parse_rev(s).unwrap());
                        let st = o[3].as_bool().unwrap();
                        if k == "a" { t.add(r, p, st); } else { t.unvalidated_add(r, p, st); }
                    }
                    "v" => t.validate(),
                    "c" => { let _ = catch_unwind(AssertUnwindSafe(|| t.commit())); }
                    "s" => t.unstage(),
                    _ => {}
                }
                if let Ok((leafs, winner)) = catch_unwind(AssertUnwindSafe(|| {
                    (t.get_leafs().iter().map(|r| r.to_string()).collect::<Vec<_>>(), t.get_winner().map(|r| r.to_string()))
                })) {
                    let dump: Vec<(String, Option<String>, bool)> = t
                        .get_revisions()
                        .iter()
                        .map(|(r, e)| (r.to_string(), e.get_parent().as_ref().map(|p| p.to_string()), e.is_staging()))
                        .collect();
                    // (the rule is about identifiers the system produces: malformed ones such as `1-a_b`, a creation
                    // revision with a tail, print alike and are told apart only by equality)
                    let all_system = a[1].as_array().unwrap().iter().all(|o| {
                        let o = o.as_array().unwrap();
                        o.len() < 3 || (is_system_rev(o[1].as_str().unwrap_or("")) && o[2].as_str().map(is_system_rev).unwrap_or(true))
                    });
                    if !all_system {
                        continue;
                    }
                    let (el, ew) = crate::sim::independent_leafs(&dump);
                    let mut ls = leafs.clone();
                    ls.sort();
                    let mut els = el.clone();
                    els.sort();
                    if ls != els {
                        fails.push(("C05".into(), format!("live leaves {:?} differ from the rule {:?}", leafs, el)));
                    }
                    if winner != ew {
                        fails.push(("C05".into(), format!("winner {:?} differs from the rule {:?}", winner, ew)));
                    }
                }
            }
            // the same operations on independently seeded hash tables (every tree has its own RandomState)
            let run = || -> Option<(String, Vec<String>, Option<String>)> {
                catch_unwind(AssertUnwindSafe(|| {
                    let mut t = RevisionTree::new();
                    for o in a[1].as_array().unwrap() {
                        let o = o.as_array().unwrap();
                        match o[0].as_str().unwrap() {
                            k @ ("a" | "u") => {
                                let r = parse_rev(o[1].as_str().unwrap()).unwrap();
                                let p = o[2].as_str().map(|s| parse_rev(s).unwrap());
                                let st = o[3].as_bool().unwrap();
                                if k == "a" { t.add(r, p, st); } else { t.unvalidated_add(r, p, st); }
                            }
                            "v" => t.validate(),
                            "c" => t.commit(),
                            "s" => t.unstage(),
                            _ => {}
                        }
                    }
                    (tree_state(&t), t.get_leafs().iter().map(|r| r.to_string()).collect::<Vec<_>>(), t.get_winner().map(|r| r.to_string()))
                }))
                .ok()
            };
            if let Some(first) = run() {
                for _ in 0..7 {
                    if let Some(again) = run() {
                        if again != first {
                            fails.push(("C18".into(), format!("the same tree operations on independently seeded hash tables end differently: winner {:?} leaves {:?} vs winner {:?} leaves {:?}", first.2, first.1, again.2, again.1)));
                            break;
                        }
                    }
                }
            }
        }
        "merge" => {
            let m = a[1].as_array().unwrap().clone();
            let n0 = a[2].as_array().unwrap().clone();
            let nodup = |v: &Vec<Value>| (0..v.len()).all(|i| (0..i).all(|j| v[i] != v[j]));
            if nodup(&m) && nodup(&n0) {
                let mut n = n0.clone();
                if catch_unwind(AssertUnwindSafe(|| merge_arrays(&m, &mut n))).is_err() {
                    fails.push(("C06".into(), "merge_arrays panicked".into()));
                    fails.push(("C08".into(), "merge_arrays panicked".into()));
                    return fails;
                }
                let subseq = |s: &Vec<Value>, l: &Vec<Value>| {
                    let mut it = l.iter();
                    s.iter().all(|x| it.any(|y| y == x))
                };
                if !nodup(&n) {
                    fails.push(("C06".into(), "merge duplicated an element".into()));
                }
                if !m.iter().all(|x| n.contains(x)) || !n0.iter().all(|x| n.contains(x)) {
                    fails.push(("C06".into(), "merge lost an element".into()));
                }
                if !n.iter().all(|x| m.contains(x) || n0.contains(x)) {
                    fails.push(("C06".into(), "merge invented an element".into()));
                }
                if !subseq(&n0, &n) {
                    fails.push(("C06".into(), "order of the target (winning) version not preserved".into()));
                }
                let common_m: Vec<Value> = m.iter().filter(|x| n0.contains(x)).cloned().collect();
                let common_n: Vec<Value> = n0.iter().filter(|x| m.contains(x)).cloned().collect();
                if common_m == common_n && !subseq(&m, &n) {
                    fails.push(("C06".into(), "order of the source version not preserved although consistent".into()));
                }
            }
        }
        "diff" => {
            let x = a[1].as_array().unwrap().clone();
            let y = a[2].as_array().unwrap().clone();
            match catch_unwind(AssertUnwindSafe(|| {
                let p = make_diff_patch(&x, &y).unwrap();
                let mut z = x.clone();
                apply_diff_patch(&mut z, &p).unwrap();
                z
            })) {
                Ok(z) => {
                    if z != y {
                        fails.push(("C16".into(), "patch does not reconstruct the array".into()));
                    }
                }
                Err(_) => {
                    fails.push(("C16".into(), "diff/patch panicked".into()));
                    fails.push(("C08".into(), "diff/patch panicked".into()));
                }
            }
        }
        "flat" => {
            let doc = a[1].clone();
            if let Ok(v) = catch_unwind(AssertUnwindSafe(|| {
                let mut c = HashMap::<String, Map<String, Value>>::new();
                let root = flatten(&mut c, &doc, &[]);
                for (k, v) in c.iter_mut() {
                    v.insert("_id".into(), Value::from(k.clone()));
                }
                let start = Value::from(c.get(root.as_str().unwrap()).unwrap().clone());
                unflatten(&mut c, &start)
            })) {
                let expect = add_ids(&doc, true);
                if v != Some(expect) {
                    fails.push(("C04".into(), "unflatten(flatten(d)) differs from d with identifiers".into()));
                }
            } else {
                fails.push(("C04".into(), "flatten/unflatten panicked on a well-formed document".into()));
            }
        }
        "kv" => {
            let ops = a[2].as_array().unwrap();
            let got = kv_run(a[1].as_str().unwrap(), ops);
            let want = kv_spec(ops);
            for (i, (g, w)) in got.iter().zip(want.iter()).enumerate() {
                if w == "*" {
                    continue; // the raw layout is compared with the backend model, not with the contract
                }
                if g != w {
                    fails.push(("C17".into(), format!("backend {} violates the write-once contract at operation {} {}: got {} expected {}", a[1], i, ops[i], g, w)));
                    break;
                }
            }
        }
        "rev.obj" => {
            if let Ok(d) = digest_object(a[1].as_object().unwrap()) {
                let r = Revision::new(1, d, None);
                match parse_rev(&r.to_string()) {
                    Ok(r2) if r2 == r => {}
                    _ => fails.push(("C19".into(), format!("creation revision {} of an object does not parse back to itself", r))),
                }
            }
        }
        "scan" => {
            // every staged object must be found by the re-indexer: checked by comparing with the model;
            // implementation-side: every indexed slice hashes to its digest
            let bytes = hex::decode(a[1].as_str().unwrap()).unwrap();
            if let Ok(Value::Array(objs)) = serde_json::from_slice::<Value>(&bytes) {
                // only packs as the library writes them (canonical text): the scanner hashes the stored slice,
                // this oracle the re-serialised object
                if js(&Value::from(objs.clone())).as_bytes() != &bytes[..] {
                    return fails;
                }
                let name = digest_bytes(&bytes);
                let st = SimStore::new();
                st.put_raw(&(name.clone() + ".pack"), bytes.clone());
                let mut ds = DataStorage::new(st.dyn_adapter());
                // (a pack only ever holds objects: junk that parses as an array of something else is not a pack)
                if objs.iter().all(|o| o.is_object()) && ds.reload().is_ok() {
                    for o in objs {
                        let d = digest_string(&js(&o));
                        match ds.read_raw_value(&d) {
                            Ok(v) if v == o => {}
                            _ => fails.push(("C03".into(), format!("object {} of a written pack is not readable after re-indexing", d))),
                        }
                    }
                }
            }
        }
        _ => {}
    }
    fails
}

fn is_system_rev(s: &str) -> bool {
    // index-digest[_tail] with alphanumeric digest/tail
    let mut it = s.splitn(2, '-');
    let (i, rest) = (it.next().unwrap_or(""), it.next().unwrap_or(""));
    if i.is_empty() || !i.chars().all(|c| c.is_ascii_digit()) || i.starts_with('0') {
        return false;
    }
    let parts: Vec<&str> = rest.split('_').collect();
    let alnum = |p: &str| !p.is_empty() && p.chars().all(|c| c.is_ascii_alphanumeric());
    let idx: u64 = i.parse().unwrap_or(0);
    (idx <= 1 && parts.len() == 1 && alnum(parts[0])) || (idx > 1 && parts.len() == 2 && alnum(parts[0]) && alnum(parts[1]))
}

/// The document `read` is expected to return: identifiers added to every tracked object.  A tracked object
/// (the root, a flattened object, an element of a flattened array) that carries no `_id` is given the one the
/// library derives: `√` for the root, otherwise the SHA-256 of the concatenated path (identifiers of the
/// enclosing objects and flattened keys), as `utils::generate_identifier` does.
pub fn add_ids(v: &Value, is_root: bool) -> Value {
    let _ = is_root;
    add_ids_path(v, &[])
}

fn add_ids_path(v: &Value, path: &[String]) -> Value {
    match v {
        Value::Object(o) => {
            let uuid = match o.get("_id").and_then(|x| x.as_str()) {
                Some(s) => s.to_string(),
                None => {
                    if path.is_empty() {
                        "\u{221A}".to_string()
                    } else {
                        digest_string(&path.join(""))
                    }
                }
            };
            let mut fpath = path.to_vec();
            fpath.push(uuid.clone());
            let mut m = Map::new();
            for (k, c) in o {
                if k.ends_with(FLAT) {
                    let mut kp = fpath.clone();
                    kp.push(k.clone());
                    m.insert(k.clone(), add_ids_flat(c, &kp));
                } else {
                    m.insert(k.clone(), c.clone());
                }
            }
            if !m.contains_key("_id") {
                m.insert("_id".into(), Value::from(uuid));
            }
            Value::from(m)
        }
        _ => v.clone(),
    }
}

fn add_ids_flat(v: &Value, path: &[String]) -> Value {
    match v {
        Value::Object(_) => add_ids_path(v, path),
        Value::Array(a) => Value::from(a.iter().map(|x| add_ids_flat(x, path)).collect::<Vec<_>>()),
        _ => v.clone(),
    }
}
