// Multi-replica histories over the public API with implementation-side oracles
use crate::gen::*;
use crate::pure::{add_ids, js, msg_prefix};
use crate::store::SimStore;
use melda::adapter::Adapter;
use melda::melda::{DeltaId, Melda};
use melda::verif::{digest_bytes, digest_string};
use serde_json::{json, Map, Value};
use std::collections::{BTreeMap, BTreeSet, HashMap};
use std::io::Write;
use std::panic::{catch_unwind, AssertUnwindSafe};
use std::sync::atomic::{AtomicU64, Ordering};
use std::sync::{Arc, Mutex, RwLock};

type Items = BTreeMap<String, Vec<u8>>;
type DynA = Arc<RwLock<Box<dyn Adapter>>>;

// ------------------------------------------------------------------ backends

pub enum Backend {
    Sim(SimStore),
    Real { kind: String, path: String, adapter: DynA },
}

fn wrap(kind: &str, inner: Box<dyn Adapter>) -> Box<dyn Adapter> {
    let a: DynA = Arc::new(RwLock::new(inner));
    if kind.ends_with("+flate") {
        Box::new(melda::flate2adapter::Flate2Adapter::new(a))
    } else if kind.ends_with("+brotli") {
        Box::new(melda::brotliadapter::BrotliAdapter::new(a))
    } else {
        // unwrap again
        match Arc::try_unwrap(a) {
            Ok(l) => l.into_inner().unwrap(),
            Err(_) => unreachable!(),
        }
    }
}

static OPEN_COUNT: std::sync::atomic::AtomicUsize = std::sync::atomic::AtomicUsize::new(0);

/// the library's own factory (`adapter::get_adapter`), which selects backend and wrapper from a URL
fn open_by_url(kind: &str, path: &str) -> Option<Box<dyn Adapter>> {
    let mut it = kind.splitn(2, '+');
    let (base, wrapper) = (it.next().unwrap(), it.next().map(|w| format!("+{}", w)).unwrap_or_default());
    let url = match base {
        "memory" => format!("memory{}://", wrapper),
        "fs" => format!("file{}://{}", wrapper, path),
        "sqlite" => format!("sqlite{}://{}", wrapper, path),
        "sqlitemem" => format!("sqlite{}::memory:", wrapper),
        _ => return None,
    };
    melda::adapter::get_adapter(&url).ok()
}

pub fn open_real(kind: &str, path: &str) -> DynA {
    // every other backend is built through the URL factory, the others through the constructors
    if OPEN_COUNT.fetch_add(1, std::sync::atomic::Ordering::SeqCst) % 2 == 1 {
        if let Some(a) = open_by_url(kind, path) {
            return Arc::new(RwLock::new(a));
        }
        panic!("get_adapter refused the url for backend {}", kind);
    }
    let base = kind.split('+').next().unwrap();
    let inner: Box<dyn Adapter> = match base {
        "memory" => Box::new(melda::memoryadapter::MemoryAdapter::new()),
        "fs" => Box::new(melda::filesystemadapter::FilesystemAdapter::new(path).unwrap()),
        "sqlite" => Box::new(melda::sqliteadapter::SqliteAdapter::new(path)),
        "sqlitemem" => Box::new(melda::sqliteadapter::SqliteAdapter::new_in_memory()),
        _ => panic!("unknown backend {}", kind),
    };
    Arc::new(RwLock::new(wrap(kind, inner)))
}

impl Backend {
    fn adapter(&self) -> DynA {
        match self {
            Backend::Sim(s) => s.dyn_adapter(),
            Backend::Real { adapter, .. } => adapter.clone(),
        }
    }
    /// adapter for a reopened replica (persistent backends: a new adapter instance)
    fn reopen_adapter(&mut self) -> DynA {
        match self {
            Backend::Sim(s) => s.dyn_adapter(),
            Backend::Real { kind, path, adapter } => {
                if kind.starts_with("fs") || (kind.starts_with("sqlite") && !kind.starts_with("sqlitemem")) {
                    *adapter = open_real(kind, path);
                }
                adapter.clone()
            }
        }
    }
    fn snapshot(&self) -> Items {
        match self {
            Backend::Sim(s) => s.snapshot(),
            Backend::Real { adapter, .. } => {
                let a = adapter.read().unwrap();
                let mut m = Items::new();
                for k in a.list_objects("").unwrap() {
                    m.insert(k.clone(), a.read_object(&k, 0, 0).unwrap());
                }
                m
            }
        }
    }
    fn put(&self, k: &str, v: &[u8]) {
        match self {
            Backend::Sim(s) => s.put_raw(k, v.to_vec()),
            Backend::Real { adapter, .. } => adapter.write().unwrap().write_object(k, v).unwrap(),
        }
    }
    fn is_sim(&self) -> bool {
        matches!(self, Backend::Sim(_))
    }
}

// ------------------------------------------------------------------ observation

fn pmsg(e: Box<dyn std::any::Any + Send>) -> String {
    if let Some(s) = e.downcast_ref::<&str>() {
        s.to_string()
    } else if let Some(s) = e.downcast_ref::<String>() {
        s.clone()
    } else {
        "?".into()
    }
}

pub fn read_res(m: &Melda) -> Value {
    match catch_unwind(AssertUnwindSafe(|| m.read(None))) {
        Ok(Ok(v)) => json!({"ok": Value::from(v)}),
        Ok(Err(e)) => json!({"err": msg_prefix(&e.to_string())}),
        Err(e) => json!({"panic": msg_prefix(&pmsg(e))}),
    }
}

/// Everything a client can observe. `blocks`: include block identifiers / statuses / anchors.
/// `staging`: include staging flags and staged data keys.
pub fn observe(m: &Melda, blocks: bool, staging: bool) -> Value {
    let r = catch_unwind(AssertUnwindSafe(|| {
        let mut objs = Map::new();
        for u in m.get_all_objects() {
            let w = m.get_winner(&u).map_err(|e| msg_prefix(&e.to_string()));
            let c = m.get_conflicting(&u).map(|s| s.into_iter().collect::<Vec<_>>()).map_err(|e| msg_prefix(&e.to_string()));
            let dump: Vec<Value> = m
                .verif_tree_dump(&u)
                .unwrap_or_default()
                .into_iter()
                .map(|(r, p, s)| if staging { json!([r, p, s]) } else { json!([r, p]) })
                .collect();
            objs.insert(u, json!({"w": w.unwrap_or_else(|e| format!("!{}", e)), "c": c.unwrap_or_else(|e| vec![format!("!{}", e)]), "t": dump}));
        }
        let mut o = Map::new();
        o.insert("objects".into(), Value::from(objs));
        o.insert("in_conflict".into(), json!(m.in_conflict().into_iter().collect::<Vec<_>>()));
        o.insert("read".into(), read_res(m));
        if blocks {
            o.insert("anchors".into(), json!(m.get_anchors().iter().map(|a| a.to_string()).collect::<Vec<_>>()));
            let mut ds = Map::new();
            for (id, st) in m.verif_delta_status() {
                let d = m.get_delta(&DeltaId::from(&id).unwrap()).unwrap().unwrap();
                ds.insert(
                    id,
                    json!({"s": st, "p": d.parents.map(|p| p.iter().map(|x| x.to_string()).collect::<Vec<_>>()),
                           "i": d.info.map(Value::from), "k": d.packs.map(|p| p.into_iter().collect::<Vec<_>>())}),
                );
            }
            o.insert("deltas".into(), Value::from(ds));
        }
        if staging {
            o.insert("has_staging".into(), json!(m.has_staging()));
            o.insert("stage_keys".into(), json!(m.verif_data_index().1));
        }
        Value::from(o)
    }));
    match r {
        Ok(v) => v,
        Err(e) => json!({"observe_panic": msg_prefix(&pmsg(e))}),
    }
}

/// the part of the state the protocol model tracks
pub fn model_obs(m: &Melda) -> Value {
    let r = catch_unwind(AssertUnwindSafe(|| {
        let mut trees = Map::new();
        for u in m.get_all_objects() {
            let dump: Vec<Value> = m.verif_tree_dump(&u).unwrap_or_default().into_iter().map(|(r, p, s)| json!([r, p, s])).collect();
            let w = m.get_winner(&u).ok();
            let mut l: Vec<String> = m.get_conflicting(&u).map(|s| s.into_iter().collect()).unwrap_or_default();
            if let Some(w) = &w {
                l.push(w.clone());
            }
            l.sort();
            trees.insert(u, json!({"e": dump, "w": w, "l": l}));
        }
        let deltas: Map<String, Value> = m.verif_delta_status().into_iter().map(|(k, v)| (k, json!(v))).collect();
        let mut anchors: Vec<String> = m.get_anchors().iter().map(|a| a.to_string()).collect();
        anchors.sort();
        let (idx, _) = m.verif_data_index();
        let mut objects: Vec<String> = idx.into_iter().map(|x| x.0).collect();
        objects.sort();
        objects.dedup();
        let mut packs = m.verif_applied_packs();
        packs.sort();
        let (_, stage) = m.verif_data_index();
        // (the MESSAGE of a failed read is not compared with the model, only that it failed and how: error / abort)
        let rd = match read_res(m) {
            Value::Object(o) if o.contains_key("err") => json!({"err": "-"}),
            Value::Object(o) if o.contains_key("panic") => json!({"panic": "-"}),
            v => v,
        };
        json!({"deltas": deltas, "trees": trees, "anchors": anchors, "objects": objects, "packs": packs, "read": rd, "stage": stage})
    }));
    r.unwrap_or(Value::Null)
}

fn obs_doc(m: &Melda) -> Value {
    observe(m, true, false)
}
fn obs_full(m: &Melda) -> Value {
    observe(m, true, true)
}
fn obs_noblocks(m: &Melda) -> Value {
    observe(m, false, false)
}

fn fresh_on(items: &Items) -> Result<Melda, String> {
    let st = SimStore::from_items(items.clone());
    match catch_unwind(AssertUnwindSafe(|| Melda::new(st.dyn_adapter()))) {
        Ok(Ok(m)) => Ok(m),
        Ok(Err(e)) => Err(format!("err {}", msg_prefix(&e.to_string()))),
        Err(e) => Err(format!("panic {}", msg_prefix(&pmsg(e)))),
    }
}

/// a fresh replica on the same items whose storage lists them in another order
fn fresh_obs_perm(items: &Items, perm: u64) -> Value {
    let st = SimStore::from_items(items.clone());
    st.set_perm(perm);
    match catch_unwind(AssertUnwindSafe(|| Melda::new(st.dyn_adapter()))) {
        Ok(Ok(m)) => obs_doc(&m),
        Ok(Err(e)) => json!({ "open": format!("err {}", msg_prefix(&e.to_string())) }),
        Err(e) => json!({ "open": format!("panic {}", msg_prefix(&pmsg(e))) }),
    }
}

fn fresh_obs(items: &Items) -> Value {
    match fresh_on(items) {
        Ok(m) => obs_doc(&m),
        Err(e) => json!({ "open": e }),
    }
}

// ------------------------------------------------------------------ world

pub struct Replica {
    pub be: Backend,
    pub m: Option<Melda>,
    pub last_doc: Value,
    /// storage may hold items this replica has not looked at since its last refresh/reload
    pub dirty: bool,
    pub clean_obs: Option<Value>,
    pub heads_log: Vec<(Vec<String>, Value)>,
    pub prev_items: Items,
    pub array_conflict_seen: bool,
    /// objects resolved since the last commit, with the conflict set right after the resolution
    pub resolved_pending: Vec<String>,
}

#[derive(Clone)]
pub struct Fail {
    pub property: String,
    pub what: String,
    pub op_index: usize,
}

pub struct World {
    pub reps: Vec<Replica>,
    pub trace: Vec<Value>,
    pub fails: Vec<Fail>,
    pub key_seq: HashMap<String, usize>,
    /// metadata of every block as recorded when it was committed: (info, parents, packs)
    pub block_meta: BTreeMap<String, (Value, BTreeSet<String>, Vec<String>)>,
    /// value of every (object, revision) as first observed on any replica
    pub rev_values: HashMap<String, Map<String, Value>>,
    pub stats: BTreeMap<String, usize>,
    pub op_index: usize,
    pub light: bool,
    /// primitive-level trace for the model driver
    pub ptrace: Vec<String>,
    pub emitted_items: Vec<Items>,
    pub ptrace_on: bool,
    /// a reload to try on this replica right after the current commit (set when a fresh open differed)
    pub follow_reload: Option<usize>,
}

static OP_START: AtomicU64 = AtomicU64::new(0);
pub static CURRENT: Mutex<Option<(String, String)>> = Mutex::new(None); // (out path, description)
/// (path for the trace of the running history, its lines so far) — written out by the watchdog on a hang
pub static CURTRACE: Mutex<Option<(String, Vec<String>)>> = Mutex::new(None);

fn now_ms() -> u64 {
    std::time::SystemTime::now().duration_since(std::time::UNIX_EPOCH).unwrap().as_millis() as u64
}

pub fn start_watchdog(limit_ms: u64) {
    std::thread::spawn(move || loop {
        std::thread::sleep(std::time::Duration::from_millis(200));
        let s = OP_START.load(Ordering::SeqCst);
        if s != 0 && now_ms() - s > limit_ms {
            let mut tpath = String::new();
            if let Some((tp, lines)) = CURTRACE.lock().unwrap().clone() {
                if std::fs::write(&tp, lines.join("\n") + "\n").is_ok() {
                    tpath = tp;
                }
            }
            if let Some((path, desc)) = CURRENT.lock().unwrap().clone() {
                if let Ok(mut f) = std::fs::OpenOptions::new().create(true).append(true).open(&path) {
                    let _ = writeln!(f, "{}", json!({"hang": true, "property": "C08", "what": format!("operation did not return within the watchdog limit: {}", desc), "trace": tpath}));
                }
            }
            eprintln!("HANG detected");
            std::process::exit(3);
        }
    });
}

impl World {
    pub fn new(n: usize, backend: &str, dir: &str, light: bool) -> World {
        let mut reps = vec![];
        for i in 0..n {
            let be = if backend == "sim" {
                Backend::Sim(SimStore::new())
            } else {
                let path = format!("{}/rep{}{}", dir, i, if backend.starts_with("sqlite") { ".db" } else { "" });
                Backend::Real { kind: backend.to_string(), path: path.clone(), adapter: open_real(backend, &path) }
            };
            let m = Melda::new(be.adapter()).ok();
            reps.push(Replica {
                be,
                m,
                last_doc: json!({}),
                dirty: false,
                clean_obs: None,
                heads_log: vec![],
                prev_items: Items::new(),
                array_conflict_seen: false,
                resolved_pending: vec![],
            });
        }
        let n = reps.len();
        let mut w = World {
            reps,
            trace: vec![],
            fails: vec![],
            key_seq: HashMap::new(),
            block_meta: BTreeMap::new(),
            rev_values: HashMap::new(),
            stats: BTreeMap::new(),
            op_index: 0,
            light,
            ptrace: vec![],
            emitted_items: vec![Items::new(); n],
            ptrace_on: backend == "sim",
            follow_reload: None,
        };
        let acap: u64 = std::env::var("MELDA_ARRAYDESCRIPTORS_CACHE_CAP").ok().and_then(|x| x.parse().ok()).unwrap_or(16);
        w.ptrace.push(js(&json!({"p": "init", "n": n, "acap": acap})));
        for i in 0..n {
            let res = if w.reps[i].m.is_some() { "ok" } else { "err" };
            w.emit("new", i, res, json!({}));
        }
        w
    }

    /// one line of the primitive-level trace: what was called, what storage gained, what the replica shows
    fn emit(&mut self, prim: &str, r: usize, res: &str, extra: Value) {
        if (prim == "commit" && res == "ok") || prim == "unstage" || prim == "reload" || prim == "new" {
            self.reps[r].resolved_pending.clear();
        }
        if prim == "commit" {
            // a pack written by a commit (successful or not) can complete blocks this replica holds back: until
            // its next refresh the storage may hold more than the replica has applied
            if let Some(m) = &self.reps[r].m {
                if m.verif_delta_status().values().any(|s| *s != "applied") {
                    self.reps[r].dirty = true;
                }
            }
        }
        if !self.ptrace_on {
            return;
        }
        let items = self.reps[r].be.snapshot();
        let mut new = Map::new();
        for (k, v) in &items {
            if !self.emitted_items[r].contains_key(k) {
                new.insert(k.clone(), Value::from(hex::encode(v)));
            }
        }
        self.emitted_items[r] = items;
        let obs = match &self.reps[r].m {
            Some(m) => model_obs(m),
            None => Value::Null,
        };
        let mut o = Map::new();
        o.insert("p".into(), json!(prim));
        o.insert("r".into(), json!(r));
        o.insert("res".into(), json!(res));
        o.insert("items".into(), Value::from(new));
        o.insert("obs".into(), obs);
        if let Value::Object(e) = extra {
            for (k, v) in e {
                o.insert(k, v);
            }
        }
        self.ptrace.push(js(&Value::from(o)));
    }

    fn fail(&mut self, prop: &str, what: String) {
        self.fails.push(Fail { property: prop.to_string(), what, op_index: self.op_index });
    }

    fn stat(&mut self, k: &str) {
        *self.stats.entry(k.to_string()).or_insert(0) += 1;
    }

    fn register_keys(&mut self) {
        for i in 0..self.reps.len() {
            let items = self.reps[i].be.snapshot();
            let mut new: Vec<&String> = items.keys().filter(|k| !self.key_seq.contains_key(*k)).collect();
            // a commit writes a pack and then the block naming it: packs first
            new.sort_by_key(|k| (if k.ends_with(".pack") { 0 } else { 1 }, (*k).clone()));
            let base = self.key_seq.len();
            let newk: Vec<String> = new.into_iter().cloned().collect();
            for (j, k) in newk.into_iter().enumerate() {
                self.key_seq.insert(k, base + j);
            }
        }
    }

    /// storage invariants after every operation (C11, C10 naming)
    fn check_stores(&mut self) {
        let mut all: BTreeMap<String, Vec<u8>> = BTreeMap::new();
        for i in 0..self.reps.len() {
            let items = self.reps[i].be.snapshot();
            let prev = std::mem::take(&mut self.reps[i].prev_items);
            for (k, v) in &prev {
                match items.get(k) {
                    Some(v2) if v2 == v => {}
                    Some(_) => self.fail("C11", format!("stored item {} was modified on replica {}", k, i)),
                    None => self.fail("C11", format!("stored item {} was removed on replica {}", k, i)),
                }
            }
            for (k, v) in &items {
                if prev.contains_key(k) {
                    continue;
                }
                if let Some(stem) = k.strip_suffix(".pack") {
                    if digest_bytes(v) != stem {
                        self.fail("C11", format!("pack {} is not named by the hash of its bytes", k));
                    }
                } else if let Some(stem) = k.strip_suffix(".delta") {
                    let mut it = stem.splitn(2, '-');
                    let idx: u64 = it.next().unwrap_or("").parse().unwrap_or(0);
                    let dg = it.next().unwrap_or("");
                    if digest_bytes(v) != dg {
                        self.fail("C11", format!("block {} is not named by the hash of its bytes", k));
                    }
                    if let Ok(Value::Object(o)) = serde_json::from_slice::<Value>(v) {
                        let pmax = o
                            .get("p")
                            .and_then(|p| p.as_array())
                            .map(|p| p.iter().filter_map(|x| x.as_str()).filter_map(|s| s.split('-').next().unwrap().parse::<u64>().ok()).max().unwrap_or(0))
                            .unwrap_or(0);
                        if idx != pmax + 1 {
                            self.fail("C11", format!("block {} index is not one greater than its highest parent", k));
                        }
                        // C09: a block never reaches storage before the pack it references
                        if let Some(ks) = o.get("k").and_then(|p| p.as_array()) {
                            for p in ks.iter().filter_map(|x| x.as_str()) {
                                if !items.contains_key(&format!("{}.pack", p)) && self.reps[i].be.is_sim() {
                                    // only meaningful for the writer; a receiver may get files in any order (deliver op)
                                }
                            }
                        }
                    } else {
                        self.fail("C11", format!("block {} is not a JSON object", k));
                    }
                }
                match all.get(k) {
                    // (blocks and packs are content-addressed; a foreign item - a lock file, a note - is not, and
                    // two replicas may hold different ones under one name)
                    Some(v2) if v2 != v && (k.ends_with(".delta") || k.ends_with(".pack")) => self.fail("C11", format!("item {} has different bytes on different replicas", k)),
                    _ => {
                        all.insert(k.clone(), v.clone());
                    }
                }
            }
            for (k, v) in &items {
                all.entry(k.clone()).or_insert_with(|| v.clone());
            }
            self.reps[i].prev_items = items;
        }
    }

    fn after_op(&mut self, r: usize) {
        if let Some(m) = &self.reps[r].m {
            // the state to which `unstage` must return: taken whenever no REVISION is staged (refresh runs in
            // that state and moves it); object bodies may be staged without a revision (object created and
            // removed again) and are discarded by unstage too, so they are not part of it
            if !m.has_staging() {
                let mut o = obs_full(m);
                if let Some(x) = o.as_object_mut() {
                    if x.contains_key("stage_keys") {
                        x.insert("stage_keys".into(), json!([]));
                    }
                }
                self.reps[r].clean_obs = Some(o);
            }
        }
    }

    /// C13: heads recomputed independently from the block graph
    fn check_graph(&mut self, r: usize) {
        let m = match &self.reps[r].m {
            Some(m) => m,
            None => return,
        };
        let st = m.verif_delta_status();
        let applied: BTreeSet<String> = st.iter().filter(|(_, s)| **s == "applied").map(|(k, _)| k.clone()).collect();
        let mut named = BTreeSet::new();
        let mut fails = vec![];
        for id in &applied {
            let d = m.get_delta(&DeltaId::from(id).unwrap()).unwrap().unwrap();
            let idx: u32 = id.split('-').next().unwrap().parse().unwrap();
            if let Some(ps) = d.parents {
                for p in ps {
                    if !applied.contains(&p.to_string()) {
                        fails.push(("C13", format!("applied block {} has a parent {} that is not applied", id, p)));
                        fails.push(("C02", format!("applied block {} has a parent {} that is not applied", id, p)));
                    }
                    if p.index() >= idx {
                        fails.push(("C13", format!("block {} does not exceed the index of its parent {}", id, p)));
                    }
                    named.insert(p.to_string());
                }
            }
        }
        // metadata, parents and pack lists read back unchanged on every replica that holds the block
        for id in st.keys() {
            if let (Some((info, parents, packs)), Ok(Some(d))) = (self.block_meta.get(id), m.get_delta(&DeltaId::from(id).unwrap())) {
                let got_info = d.info.clone().map(Value::from).unwrap_or(Value::Null);
                if &got_info != info {
                    fails.push(("C13", format!("metadata of block {} reads back as {} on replica {}, committed as {}", id, js(&got_info), r, js(info))));
                }
                let ps: BTreeSet<String> = d.parents.clone().unwrap_or_default().iter().map(|p| p.to_string()).collect();
                if &ps != parents {
                    fails.push(("C13", format!("parents of block {} read back as {:?} on replica {}, committed as {:?}", id, ps, r, parents)));
                }
                let mut ks: Vec<String> = d.packs.clone().unwrap_or_default().into_iter().collect();
                ks.sort();
                if &ks != packs {
                    fails.push(("C13", format!("pack list of block {} reads back as {:?} on replica {}, committed as {:?}", id, ks, r, packs)));
                }
            }
        }
        let heads: BTreeSet<String> = applied.difference(&named).cloned().collect();
        let anchors: BTreeSet<String> = m.get_anchors().iter().map(|a| a.to_string()).collect();
        if heads != anchors {
            fails.push(("C13", format!("anchors {:?} are not the applied blocks without applied children {:?}", anchors, heads)));
        }
        for (p, w) in fails {
            self.fail(p, w);
        }
    }

    fn arrays_in_conflict(m: &Melda) -> Vec<String> {
        m.in_conflict().into_iter().filter(|u| u.starts_with('^')).collect()
    }

    // -------------------------------------------------------------- operations

    pub fn apply(&mut self, op: &Value) {
        self.op_index = self.trace.len();
        self.trace.push(op.clone());
        if let Some((tp, lines)) = CURTRACE.lock().unwrap().as_mut() {
            lines.push(js(op));
            // kept on disk while the history runs, so that a crash of the whole process (stack overflow,
            // allocation failure) still leaves the history that caused it
            let cur = tp.replace("hang_", "current_");
            let _ = std::fs::write(&cur, lines.join("\n") + "\n");
        }
        let kind = op["op"].as_str().unwrap().to_string();
        self.stat(&format!("op:{}", kind));
        {
            let mut cur = CURRENT.lock().unwrap();
            let next = cur.clone().map(|(p, _)| (p, format!("op #{} {}", self.op_index, js(op))));
            *cur = next;
        }
        OP_START.store(now_ms(), Ordering::SeqCst);
        let r = op["r"].as_u64().unwrap_or(0) as usize % self.reps.len();
        let res = catch_unwind(AssertUnwindSafe(|| self.apply_inner(&kind, r, op)));
        OP_START.store(0, Ordering::SeqCst);
        if let Err(e) = res {
            let msg = pmsg(e);
            self.fail("C08", format!("operation {} aborted the calling thread: {}", kind, msg_prefix(&msg)));
            return;
        }
        // the observations that follow call the library too (read, get_value, get_winner, ... on every replica):
        // a call that never returns there is a hang of the library just the same, so the watchdog stays armed
        {
            let mut cur = CURRENT.lock().unwrap();
            let next = cur.clone().map(|(p, _)| (p, format!("read-only calls (read / get_value / get_winner / get_delta ...) after op #{} {}", self.op_index, js(op))));
            *cur = next;
        }
        OP_START.store(now_ms(), Ordering::SeqCst);
        let tail = catch_unwind(AssertUnwindSafe(|| {
            self.register_keys();
            self.check_stores();
            self.check_graph(r);
            self.check_bodies(r);
            self.check_trees(r);
            for i in 0..self.reps.len() {
                self.after_op(i);
            }
        }));
        OP_START.store(0, Ordering::SeqCst);
        if tail.is_err() && self.fails.is_empty() {
            self.fail("C08", format!("observation after operation {} aborted", kind));
        }
    }

    /// C03 / C04 / C09: every recorded revision has a stored body (staged or committed), not merely a cached one
    fn check_bodies(&mut self, r: usize) {
        let m = match &self.reps[r].m {
            Some(m) => m,
            None => return,
        };
        let (idx, stage) = m.verif_data_index();
        let have: BTreeSet<String> = idx.into_iter().map(|x| x.0).chain(stage.into_iter()).collect();
        let mut missing = vec![];
        let mut missing_staged = vec![];
        for u in m.get_all_objects() {
            for (rev, _, staged) in m.verif_tree_dump(&u).unwrap_or_default() {
                let dg = rev.splitn(2, '-').nth(1).unwrap_or("").split('_').next().unwrap_or("").to_string();
                let special = dg == "d" || dg == "r" || dg == "e" || (dg.len() <= 8 && u32::from_str_radix(&dg, 16).is_ok());
                if !special && !have.contains(&dg) {
                    missing.push(format!("{} of {}", rev, u));
                    if staged {
                        missing_staged.push(format!("{} of {}", rev, u));
                    }
                }
            }
        }
        let mut unreadable = vec![];
        let mut wrong_value = vec![];
        let mut changed_value = vec![];
        let bodies = stored_bodies(m, &self.reps[r].be.snapshot());
        for u in m.get_all_objects() {
            for (rev, _, _) in m.verif_tree_dump(&u).unwrap_or_default() {
                match catch_unwind(AssertUnwindSafe(|| m.get_value(&u, Some(&rev)))) {
                    Ok(Ok(v)) => {
                        // the value of a revision is the object stored under its digest ...
                        if let Some(b) = body_of(&bodies, &rev) {
                            if b != &v {
                                wrong_value.push(format!("{} of {}: get_value {} stored {}", rev, u, js(&Value::from(v.clone())), js(&Value::from(b.clone()))));
                            }
                        }
                        // ... and never changes, on any replica, whatever arrives later
                        let key = format!("{}\u{0}{}", u, rev);
                        match self.rev_values.get(&key) {
                            Some(old) if old != &v => changed_value.push(format!("{} of {}: {} before, {} now", rev, u, js(&Value::from(old.clone())), js(&Value::from(v.clone())))),
                            Some(_) => {}
                            None => {
                                self.rev_values.insert(key, v);
                            }
                        }
                    }
                    _ => unreadable.push(format!("{} of {}", rev, u)),
                }
            }
        }
        let m = self.reps[r].m.as_ref().unwrap();
        let _ = m;
        if !wrong_value.is_empty() {
            let w = format!("get_value does not return the stored object of the revision: {}", wrong_value[0]);
            self.fail("C14", w.clone());
            self.fail("C11", w);
        }
        if !changed_value.is_empty() {
            let w = format!("the value of a recorded revision changed: {}", changed_value[0]);
            self.fail("C14", w.clone());
            self.fail("C19", w);
        }
        if !unreadable.is_empty() {
            let w = format!("a block was applied although the object of a revision it records cannot be read: {:?}", &unreadable[..unreadable.len().min(3)]);
            self.fail("C02", w.clone());
            self.fail("C09", w);
        }
        if !missing.is_empty() {
            let w = format!("recorded revisions whose object is neither staged nor committed (only cached, lost on eviction / never written by commit): {:?}", &missing[..missing.len().min(3)]);
            self.fail("C04", w.clone());
            self.fail("C03", w.clone());
            self.fail("C09", w);
        }
        if !missing_staged.is_empty() {
            self.fail("C15", format!("staged revisions without a staged body (residue of discarded changes: the staged state can neither be exported nor committed whole): {:?}", &missing_staged[..missing_staged.len().min(3)]));
        }
    }

    /// C05 / C06 / C16: the leaf / winner rule and the array views, recomputed independently
    fn check_trees(&mut self, r: usize) {
        let m = match &self.reps[r].m {
            Some(m) => m,
            None => return,
        };
        let mut fails: Vec<(&str, String)> = vec![];
        let in_conf = m.in_conflict();
        // C05 / C01: "depends only on the set of recorded revisions": the committed part of every tree is exactly
        // what the change records of the APPLIED blocks say, whatever the order in which the blocks were applied
        // (reload, refresh, time travel walk the graph in different orders).  Computed from the bytes in storage.
        {
            let items = self.reps[r].be.snapshot();
            let st = m.verif_delta_status();
            let mut expect: BTreeMap<String, BTreeSet<(String, Option<String>)>> = BTreeMap::new();
            let mut complete = true;
            for (id, s) in &st {
                if *s != "applied" {
                    continue;
                }
                let bytes = match items.get(&format!("{}.delta", id)) {
                    Some(b) if digest_bytes(b) == id.splitn(2, '-').nth(1).unwrap_or("") => b,
                    _ => {
                        complete = false; // damaged under the live replica: nothing to compare with
                        continue;
                    }
                };
                let v: Value = match serde_json::from_slice(bytes) {
                    Ok(v) => v,
                    Err(_) => {
                        complete = false;
                        continue;
                    }
                };
                for rec in v.get("c").and_then(|c| c.as_array()).cloned().unwrap_or_default() {
                    let a: Vec<String> = rec.as_array().map(|x| x.iter().filter_map(|y| y.as_str().map(|z| z.to_string())).collect()).unwrap_or_default();
                    match a.len() {
                        2 => {
                            expect.entry(a[0].clone()).or_default().insert((format!("1-{}", a[1]), None));
                        }
                        3 => {
                            let pidx: u64 = a[1].split('-').next().and_then(|i| i.parse().ok()).unwrap_or(0);
                            let rev = format!("{}-{}_{}", pidx + 1, a[2], &digest_string(&a[1])[..7]);
                            expect.entry(a[0].clone()).or_default().insert((rev, Some(a[1].clone())));
                        }
                        _ => {}
                    }
                }
            }
            if complete {
                let mut objs: BTreeSet<String> = m.get_all_objects();
                objs.extend(expect.keys().cloned());
                for u in objs {
                    let got: BTreeSet<(String, Option<String>)> = m.verif_tree_dump(&u).unwrap_or_default().into_iter().filter(|(_, _, stg)| !*stg).map(|(r, p, _)| (r, p)).collect();
                    let want = expect.get(&u).cloned().unwrap_or_default();
                    if got != want {
                        let missing: Vec<_> = want.difference(&got).take(2).cloned().collect();
                        let extra: Vec<_> = got.difference(&want).take(2).cloned().collect();
                        let w = format!("the committed revisions recorded for {} are not those of the applied blocks: missing {:?}, not in any applied block {:?}", u, missing, extra);
                        fails.push(("C05", w.clone()));
                        fails.push(("C01", w));
                    }
                }
            }
        }
        for u in m.get_all_objects() {
            let dump = m.verif_tree_dump(&u).unwrap_or_default();
            // C19: the identifier of a revision with a parent is index(parent)+1, its own digest, and the first seven
            // hex digits of the SHA-256 of the parent's identifier - recomputed here for every recorded revision
            for (rev, par, _) in &dump {
                if let Some(p) = par {
                    let pidx: u64 = p.split('-').next().and_then(|i| i.parse().ok()).unwrap_or(0);
                    let dg = rev.splitn(2, '-').nth(1).unwrap_or("").rsplitn(2, '_').last().unwrap_or("");
                    let want = format!("{}-{}_{}", pidx + 1, dg, &digest_string(p)[..7]);
                    if &want != rev {
                        fails.push(("C19", format!("revision {} of {} with parent {} is not the identifier determined by its digest and its parent ({})", rev, u, p, want)));
                    }
                }
            }
            let (leafs, winner) = independent_leafs(&dump);
            let w = m.get_winner(&u).ok();
            if w != winner {
                fails.push(("C05", format!("winner of {} is {:?}, the rule gives {:?}", u, w, winner)));
            }
            if let Ok(c) = m.get_conflicting(&u) {
                let expect: BTreeSet<String> = leafs.iter().filter(|l| Some((*l).clone()) != winner).cloned().collect();
                if c != expect {
                    fails.push(("C05", format!("conflicting revisions of {} are {:?}, the rule gives {:?}", u, c, expect)));
                }
            }
            if in_conf.contains(&u) != (leafs.len() > 1) {
                fails.push(("C05", format!("{} reported in conflict = {} but it has {} live leaves", u, in_conf.contains(&u), leafs.len())));
            }
        }
        // array views
        let rd = read_res(m);
        if let Some(doc) = rd.get("ok") {
            let mut ids = vec![];
            collect_objects(doc, &mut ids);
            let tree_bodies = stored_bodies(m, &self.reps[r].be.snapshot());
            let mut seen = BTreeSet::new();
            for (id, _) in &ids {
                if !seen.insert(id.clone()) {
                    fails.push(("C06", format!("object {} appears more than once in the document", id)));
                }
            }
            for u in m.get_all_objects() {
                if !u.starts_with('^') {
                    // a deleted object never appears
                    if let Ok(w) = m.get_winner(&u) {
                        if is_del(&w) && seen.contains(&u) {
                            fails.push(("C06", format!("deleted object {} appears in the document", u)));
                        }
                    }
                    continue;
                }
                let w = match m.get_winner(&u) {
                    Ok(w) => w,
                    Err(_) => continue,
                };
                if is_del(&w) {
                    continue;
                }
                let dump = m.verif_tree_dump(&u).unwrap_or_default();
                let (leafs, _) = independent_leafs(&dump);
                let worder = match leaf_order(&tree_bodies, &u, &w, &dump) {
                    Some(o) => o,
                    None => {
                        fails.push(("C16", format!("stored version {} of array {} cannot be reconstructed", w, u)));
                        continue;
                    }
                };
                let visible = match visible_array(doc, &u) {
                    Some(v) => v,
                    None => continue, // descriptor not referenced by the visible document
                };
                let live = |id: &String| m.get_winner(id).map(|w| !is_del(&w)).unwrap_or(false);
                // elements of the winning version keep their relative order
                let wv: Vec<&String> = worder.iter().filter(|e| visible.contains(e)).collect();
                let vw: Vec<&String> = visible.iter().filter(|e| worder.contains(e)).collect();
                if wv != vw {
                    fails.push(("C06", format!("elements of the winning version of {} do not keep their relative order: winning {:?} visible {:?}", u, worder, visible)));
                }
                let mut union: BTreeSet<String> = BTreeSet::new();
                for l in &leafs {
                    match leaf_order(&tree_bodies, &u, l, &dump) {
                        Some(o) => union.extend(o),
                        None => fails.push(("C16", format!("stored version {} of array {} cannot be reconstructed", l, u))),
                    }
                }
                for e in &visible {
                    if !union.contains(e) {
                        fails.push(("C06", format!("element {} of {} is in none of the concurrent versions", e, u)));
                    }
                }
                for e in &union {
                    if live(e) && !seen.contains(e) {
                        fails.push(("C06", format!("element {} of a concurrent version of {} whose object is not deleted is missing from the document", e, u)));
                    }
                }
                if leafs.len() == 1 && visible.iter().filter(|e| live(e)).cloned().collect::<Vec<_>>() != worder.iter().filter(|e| live(e) && visible.contains(e)).cloned().collect::<Vec<_>>() {
                    fails.push(("C16", format!("array {} reads {:?} but its stored version reconstructs to {:?}", u, visible, worder)));
                }
            }
        }
        for (p, w) in fails {
            self.fail(p, w);
        }
    }

    fn apply_inner(&mut self, kind: &str, r: usize, op: &Value) {
        if self.reps[r].m.is_none() && kind != "reopen" {
            return;
        }
        match kind {
            "update" => self.op_update(r, &op["doc"]),
            "commit" => {
                self.op_commit(r, op.get("info").cloned().unwrap_or(Value::Null));
                // C12: straight after a commit the replica's storage holds nothing it has not applied (unless it
                // holds blocks back): a reload / refresh of THIS replica must not change what it shows
                match op.get("then").and_then(|x| x.as_str()) {
                    Some("reload") => self.op_reload(r),
                    Some("refresh") => self.op_refresh(r),
                    _ => {}
                }
                if let Some(rr) = self.follow_reload.take() {
                    if op.get("then").is_none() {
                        self.op_reload_after_commit(rr);
                    }
                }
            }
            "meld" => self.op_meld(r, op["from"].as_u64().unwrap() as usize % self.reps.len()),
            "refresh" => self.op_refresh(r),
            "reload" => self.op_reload(r),
            "stage_commit_replay" => self.op_stage_commit_replay(r, op.get("info").cloned().unwrap_or(Value::Null)),
            "reopen" => self.op_reopen(r),
            "resolve" => self.op_resolve(r, op["pick"].as_u64().unwrap() as usize, op["k"].as_u64().unwrap() as usize),
            "unstage" => self.op_unstage(r),
            "stage_replay" => self.op_stage_replay(r),
            "snapshot" => self.op_snapshot(r),
            "deliver" => self.op_deliver(r, op["from"].as_u64().unwrap() as usize % self.reps.len(), op["pick"].as_u64().unwrap() as usize),
            "timetravel" => self.op_timetravel(r, op["pick"].as_u64().unwrap() as usize, op.get("stay").and_then(|x| x.as_bool()).unwrap_or(false)),
            "delete_object" => self.op_delete_object(r, op["pick"].as_u64().unwrap() as usize),
            "objapi" => self.op_objapi(r, op),
            "failcommit" => self.op_failcommit(r, op),
            "faults" => self.op_faults(r, op["seed"].as_u64().unwrap()),
            "longchain" => self.op_longchain(op["n"].as_u64().unwrap_or(20000) as u32),
            "foreign" => self.op_foreign(r, op["name"].as_str().unwrap(), op["bytes"].as_str().unwrap_or("00")),
            "failmeld" => self.op_failmeld(r, op["from"].as_u64().unwrap() as usize % self.reps.len(), op["fail"].as_array().map(|a| a.iter().map(|x| x.as_u64().unwrap() as usize).collect()).unwrap_or_default()),
            "replay_elsewhere" => self.op_replay_elsewhere(r, op["to"].as_u64().unwrap() as usize % self.reps.len()),
            "deep" => self.op_deep(r, op["depth"].as_u64().unwrap() as usize, op["where"].as_str().unwrap_or("doc")),
            "sync" => self.op_sync(),
            _ => panic!("unknown op {}", kind),
        }
    }

    fn op_update(&mut self, r: usize, doc: &Value) {
        let m = self.reps[r].m.as_ref().unwrap();
        let arr_conf = Self::arrays_in_conflict(m);
        let res = m.update(doc.as_object().unwrap().clone());
        let mut fails: Vec<(&str, String)> = vec![];
        if res.is_err() {
            fails.push(("C08", "update returned an error on a well-formed document".into()));
        }
        self.emit("update", r, if res.is_ok() { "ok" } else { "err" }, json!({"doc": doc}));
        let m = self.reps[r].m.as_ref().unwrap();
        // a root that carries its own identifier is read back under that identifier
        let own_root = doc.get("_id").and_then(|x| x.as_str()).map(|x| x.to_string());
        let rd = match &own_root {
            None => read_res(m),
            Some(id) => match catch_unwind(AssertUnwindSafe(|| m.read(Some(id)))) {
                Ok(Ok(v)) => json!({"ok": Value::from(v)}),
                Ok(Err(e)) => json!({"err": msg_prefix(&e.to_string())}),
                Err(e) => json!({"panic": msg_prefix(&pmsg(e))}),
            },
        };
        let expect = add_ids(doc, true);
        // C04 quantifies over documents whose tracked objects have unique identifiers (explicit or derived)
        let well_formed = crate::gen::ids_unique(doc);
        // C16: the version now stored for every flattened array of the document (the winner of its descriptor)
        // reconstructs - from the stored bytes, with the harness' own patch code - to exactly the submitted order,
        // whether or not the array is in conflict
        if well_formed && res.is_ok() {
            fn arrays_of_doc(v: &Value, out: &mut Vec<(String, Vec<String>)>) {
                match v {
                    Value::Object(o) => {
                        let owner = o.get("_id").and_then(|x| x.as_str()).unwrap_or("").to_string();
                        for (k, c) in o {
                            if k.ends_with(FLAT) {
                                if let Value::Array(a) = c {
                                    if a.iter().all(|e| e.get("_id").and_then(|x| x.as_str()).is_some()) {
                                        let ids = a.iter().map(|e| e["_id"].as_str().unwrap().to_string()).collect();
                                        out.push((format!("^{}@{}", owner, k), ids));
                                    }
                                }
                                arrays_of_doc(c, out);
                            }
                        }
                    }
                    Value::Array(a) => a.iter().for_each(|c| arrays_of_doc(c, out)),
                    _ => {}
                }
            }
            let mut arrs = vec![];
            arrays_of_doc(&expect, &mut arrs);
            let bodies = stored_bodies(m, &self.reps[r].be.snapshot());
            for (desc, ids) in arrs {
                if let Ok(w) = m.get_winner(&desc) {
                    let dump = m.verif_tree_dump(&desc).unwrap_or_default();
                    if let Some(order) = leaf_order(&bodies, &desc, &w, &dump) {
                        if order != ids {
                            fails.push(("C16", format!("the version {} stored for array {} reconstructs to {:?}, submitted {:?}", w, desc, order, ids)));
                        }
                    }
                }
            }
        }
        if !well_formed {
            self.stat("update_with_duplicate_identifiers");
        } else if arr_conf.is_empty() {
            if rd != json!({ "ok": expect }) {
                fails.push(("C04", format!("read after update differs from the submitted document: got {} expected {}", js(&rd), js(&expect))));
                if rd.get("panic").is_some() {
                    fails.push(("C08", format!("read aborted after update: {}", js(&rd))));
                }
            }
        } else {
            self.reps[r].array_conflict_seen = true;
            // every object of the submitted document appears exactly once with the submitted content
            match rd.get("ok") {
                Some(got) => {
                    let (mut a, mut b) = (vec![], vec![]);
                    collect_objects(&expect, &mut a);
                    collect_objects(got, &mut b);
                    a.sort();
                    b.sort();
                    if a != b {
                        fails.push(("C04", format!("objects read after update (array in conflict) differ: got {} expected {}", js(got), js(&expect))));
                    }
                }
                None => {
                    fails.push(("C04", format!("read failed after update: {}", js(&rd))));
                    fails.push(("C08", format!("read failed after update: {}", js(&rd))));
                }
            }
        }
        // submitting the same document again changes nothing
        let m = self.reps[r].m.as_ref().unwrap();
        let before = obs_full(m);
        let _ = m.update(doc.as_object().unwrap().clone());
        let after = obs_full(m);
        if before != after {
            fails.push(("C04", "submitting the same document twice changed the replica".into()));
        }
        self.reps[r].last_doc = doc.clone();
        if !arr_conf.is_empty() {
            self.stat("update_with_array_conflict");
        }
        for (p, w) in fails {
            self.fail(p, w);
        }
    }

    fn op_commit(&mut self, r: usize, info: Value) {
        let is_sim = self.reps[r].be.is_sim();
        let dirty_before = self.reps[r].dirty;
        let resolved_pending = self.reps[r].resolved_pending.clone();
        let m = self.reps[r].m.as_ref().unwrap();
        let had_staging = m.has_staging();
        let read_before = read_res(m);
        let anchors_before: BTreeSet<String> = m.get_anchors().iter().map(|a| a.to_string()).collect();
        let items_before = self.reps[r].be.snapshot();
        let had_arr_conf = !Self::arrays_in_conflict(m).is_empty();
        if let Backend::Sim(s) = &self.reps[r].be {
            s.take_log();
        }
        let res = m.commit(info.as_object().cloned());
        let mut fails: Vec<(&str, String)> = vec![];
        let mut meta_rec: Option<(String, (Value, BTreeSet<String>, Vec<String>))> = None;
        let log = if let Backend::Sim(s) = &self.reps[r].be { s.take_log() } else { vec![] };
        let items_after = self.reps[r].be.snapshot();
        {
            let (cls, extra) = match &res {
                Ok(None) => ("none", json!({"info": info})),
                Ok(Some(a)) => ("ok", json!({"id": a.iter().next().map(|x| x.to_string()), "info": info})),
                Err(e) if e.to_string().starts_with("information_nested_too_deeply") => ("refused", json!({"info": info})),
                Err(_) => ("err", json!({"info": info})),
            };
            self.emit("commit", r, cls, extra);
        }
        let m = self.reps[r].m.as_ref().unwrap();
        if had_arr_conf && had_staging {
            *self.stats.entry("commit_with_array_conflict".into()).or_insert(0) += 1;
        }
        match &res {
            Ok(None) => {
                if had_staging {
                    fails.push(("C13", "commit reported no commit although changes were staged".into()));
                }
                if items_after != items_before {
                    fails.push(("C04", "a commit with nothing staged wrote to storage".into()));
                }
            }
            Ok(Some(a)) => {
                if !had_staging {
                    fails.push(("C04", "a commit with nothing staged reported a commit".into()));
                }
                let ids: Vec<String> = a.iter().map(|x| x.to_string()).collect();
                if ids.len() != 1 {
                    fails.push(("C13", format!("commit returned {} heads", ids.len())));
                }
                let new_blocks: Vec<&String> = items_after.keys().filter(|k| k.ends_with(".delta") && !items_before.contains_key(*k)).collect();
                // (exactly one new block; none when a byte-identical block - the same edit on the same heads with
                // the same metadata, committed by another replica - was delivered before: storage is write-once)
                let already = ids.first().map(|id| items_before.contains_key(&format!("{}.delta", id))).unwrap_or(false);
                if !(new_blocks.len() == 1 || (new_blocks.is_empty() && already)) {
                    fails.push(("C13", format!("commit created {} blocks", new_blocks.len())));
                }
                if let Some(id) = ids.first() {
                    let d = m.get_delta(&DeltaId::from(id).unwrap()).unwrap();
                    match d {
                        None => fails.push(("C13", "the committed block is not known to the replica".into())),
                        Some(d) => {
                            let ps: BTreeSet<String> = d.parents.clone().unwrap_or_default().iter().map(|p| p.to_string()).collect();
                            if ps != anchors_before {
                                fails.push(("C13", format!("parents {:?} of the new block are not the previous heads {:?}", ps, anchors_before)));
                            }
                            let idx: u32 = id.split('-').next().unwrap().parse().unwrap();
                            for p in d.parents.clone().unwrap_or_default() {
                                if p.index() >= idx {
                                    fails.push(("C13", "index of the new block does not exceed its parents".into()));
                                }
                            }
                            let mut ks: Vec<String> = d.packs.clone().unwrap_or_default().into_iter().collect();
                            ks.sort();
                            meta_rec = Some((id.clone(), (info.clone(), anchors_before.clone(), ks)));
                            if d.info.map(Value::from).unwrap_or(Value::Null) != info {
                                fails.push(("C13", "commit metadata does not read back unchanged".into()));
                            }
                        }
                    }
                    let now: BTreeSet<String> = m.get_anchors().iter().map(|x| x.to_string()).collect();
                    if now != BTreeSet::from([id.clone()]) {
                        fails.push(("C13", format!("after commit the heads are {:?}, not the new block alone", now)));
                    }
                }
                if m.has_staging() {
                    fails.push(("C15", "a successful commit left changes staged".into()));
                }
                // write order: the pack before the block that names it
                if is_sim {
                    let pos_pack = log.iter().position(|(k, _)| k.ends_with(".pack"));
                    let pos_delta = log.iter().position(|(k, _)| k.ends_with(".delta"));
                    if let (Some(p), Some(d)) = (pos_pack, pos_delta) {
                        if d < p {
                            fails.push(("C09", "commit wrote the block before the pack it references".into()));
                        }
                    }
                }
                // C03 / C09: reopen on the same storage, and on every prefix / subset of the writes
                if !self.light {
                    let f_after = fresh_obs(&items_after);
                    let mine = obs_doc(m);
                    // Blocks the committing replica holds back (a pack or an object they need is missing) can be
                    // completed by the very pack this commit wrote - a replica that made the same edit elsewhere
                    // produced the same object.  A reopened replica applies them at once, the committing one at
                    // its next refresh (C02; `C03b.commit_needs_noneUnblocked` is the model's counterexample).
                    // Durability of THIS commit is then judged on the storage without those held-back blocks.
                    // C07: a committed resolution is durable - the objects resolved since the last commit are not in
                    // conflict for a replica reopened on the storage either (unless the storage held more than the
                    // committing replica had looked at)
                    let held0: Vec<String> = m.verif_delta_status().iter().filter(|(_, s)| **s != "applied").map(|(k, _)| format!("{}.delta", k)).collect();
                    if !dirty_before {
                        // (held-back blocks set aside, as below)
                        let f_c07 = if held0.is_empty() {
                            f_after.clone()
                        } else {
                            let mut it = items_after.clone();
                            for k in &held0 {
                                it.remove(k);
                            }
                            fresh_obs(&it)
                        };
                        let fc: BTreeSet<String> = f_c07.get("in_conflict").and_then(|x| x.as_array()).map(|a| a.iter().filter_map(|x| x.as_str().map(|s| s.to_string())).collect()).unwrap_or_default();
                        let live_c = m.in_conflict();
                        for u in &resolved_pending {
                            if fc.contains(u) && !live_c.contains(u) {
                                fails.push(("C07", format!("the committed resolution of {} does not propagate: a replica opened on the storage still sees the conflict", u)));
                            }
                        }
                    }
                    let held: Vec<String> = m.verif_delta_status().iter().filter(|(_, s)| **s != "applied").map(|(k, _)| format!("{}.delta", k)).collect();
                    if !dirty_before {
                        if held.is_empty() {
                            if f_after != mine {
                                fails.push(("C03", format!("a replica reopened after commit differs from the committing replica: {}", first_diff(&mine, &f_after))));
                                // the committing replica has applied everything its storage holds: a reload of THIS
                                // replica must not change what it shows either (C12) - tried right away, while the
                                // difference is there
                                self.follow_reload = Some(r);
                            }
                        } else {
                            let mut it = items_after.clone();
                            for k in &held {
                                it.remove(k);
                            }
                            let f2 = strip_blocked(&fresh_obs(&it));
                            let mine2 = strip_blocked(&mine);
                            if f2 != mine2 {
                                fails.push(("C03", format!("a replica reopened after commit (held-back blocks set aside) differs from the committing replica: {}", first_diff(&mine2, &f2))));
                            }
                            *self.stats.entry("commit_with_held_back_blocks".into()).or_insert(0) += 1;
                        }
                    }
                    if is_sim && !log.is_empty() {
                        let f_before = fresh_obs(&items_before);
                        let n = log.len();
                        for mask in 0..(1u32 << n) {
                            if mask == (1 << n) - 1 {
                                continue;
                            }
                            let mut it = items_before.clone();
                            for (j, (k, v)) in log.iter().enumerate() {
                                if mask & (1 << j) != 0 {
                                    it.insert(k.clone(), v.clone());
                                }
                            }
                            let f = fresh_obs(&it);
                            let new_id = ids.first().cloned().unwrap_or_default();
                            let applied = |v: &Value| -> BTreeSet<String> {
                                v.get("deltas").and_then(|d| d.as_object()).map(|d| d.iter().filter(|(_, x)| x["s"] == "applied").map(|(k, _)| k.clone()).collect()).unwrap_or_default()
                            };
                            if applied(&f).contains(&new_id) {
                                fails.push(("C09", format!("after a crash that left only a subset {:b} of the commit's writes the new block is applied", mask)));
                            } else if applied(&f) == applied(&f_before) {
                                // (the pack alone can complete a block received earlier from a replica that made
                                // the same edit: then more is applied than before, legitimately)
                                if strip_blocked(&f) != strip_blocked(&f_before) {
                                    fails.push(("C09", format!("a crash after a subset {:b} of the commit's writes does not reopen to the previous state: {}", mask, first_diff(&f_before, &f))));
                                }
                            } else if let Some(w) = check_no_mixture(&it) {
                                fails.push(("C09", format!("a crash after a subset {:b} of the commit's writes reopens to a mixed state: {}", mask, w)));
                            }
                        }
                    }
                }
            }
            Err(e) => {
                fails.push(("C08", format!("commit failed without a storage fault: {}", msg_prefix(&e.to_string()))));
            }
        }
        let read_after = read_res(m);
        if read_after != read_before {
            fails.push(("C12", format!("commit changed the visible document: before {} after {}", js(&read_before), js(&read_after))));
            if had_arr_conf {
                // the commit resolved array conflicts automatically: what the merge showed (every element of every
                // concurrent version) must be what the array holds afterwards
                fails.push(("C06", format!("the automatic resolution of an array conflict at commit changed the merged array: before {} after {}", js(&read_before), js(&read_after))));
            }
        }
        if res.as_ref().map(|x| x.is_some()).unwrap_or(false) && !self.reps[r].dirty {
            let a: Vec<String> = m.get_anchors().iter().map(|x| x.to_string()).collect();
            let o = obs_noblocks(m);
            self.reps[r].heads_log.push((a, o));
        }
        if let Some((id, rec)) = meta_rec {
            self.block_meta.insert(id, rec);
        }
        for (p, w) in fails {
            self.fail(p, w);
        }
    }

    fn op_meld(&mut self, r: usize, from: usize) {
        if r == from {
            // melding a replica with itself: returns, transfers nothing, changes nothing (the watchdog catches a hang)
            let before = self.reps[r].be.snapshot();
            let (res_ok, n, same) = match &self.reps[r].m {
                Some(m) => {
                    let full_before = obs_full(m);
                    let res = m.meld(m);
                    (res.is_ok(), res.map(|v| v.len()).unwrap_or(0), obs_full(m) == full_before)
                }
                None => return,
            };
            self.stat("meld_with_itself");
            self.emit("meld", r, if res_ok { "ok" } else { "err" }, json!({"from": from}));
            if !res_ok || n != 0 || !same || self.reps[r].be.snapshot() != before {
                self.fail("C12", "melding a replica with itself changed or transferred something".into());
            }
            return;
        }
        let (ra, rb) = two(&mut self.reps, r, from);
        let (ma, mb) = match (&ra.m, &rb.m) {
            (Some(a), Some(b)) => (a, b),
            _ => return,
        };
        let read_before = read_res(ma);
        let full_before = obs_full(ma);
        let items_before = ra.be.snapshot();
        let from_items = rb.be.snapshot();
        let res = ma.meld(mb);
        let mut fails: Vec<(&str, String)> = vec![];
        if let Err(e) = &res {
            fails.push(("C08", format!("meld failed: {}", msg_prefix(&e.to_string()))));
        }
        if read_res(ma) != read_before || obs_full(ma) != full_before {
            fails.push(("C12", "meld without refresh changed the visible state".into()));
        }
        let items_after = ra.be.snapshot();
        for (k, v) in &items_after {
            if !items_before.contains_key(k) {
                match from_items.get(k) {
                    Some(v2) if v2 == v => {}
                    _ => fails.push(("C11", format!("meld wrote item {} whose bytes differ from the source replica", k))),
                }
            }
        }
        // every block the source has loaded and every pack it has applied must now be present
        for (id, _) in mb.verif_delta_status() {
            if !items_after.contains_key(&format!("{}.delta", id)) {
                fails.push(("C01", format!("meld did not transfer block {}", id)));
            }
        }
        for p in mb.verif_applied_packs() {
            if !items_after.contains_key(&format!("{}.pack", p)) {
                fails.push(("C01", format!("meld did not transfer pack {}", p)));
            }
        }
        // C09: any subset of the meld's writes reopens to a state without mixtures
        let written: Vec<&String> = items_after.keys().filter(|k| !items_before.contains_key(*k)).collect();
        if !self.light && !written.is_empty() && written.len() <= 12 {
            let mut s = 0x9E37u64 ^ (written.len() as u64) ^ (self.op_index as u64) << 8;
            for _ in 0..3 {
                let mut it = items_before.clone();
                for k in &written {
                    s ^= s << 13;
                    s ^= s >> 7;
                    s ^= s << 17;
                    if s & 1 == 1 {
                        it.insert((*k).clone(), items_after[*k].clone());
                    }
                }
                if let Some(w) = check_no_mixture(&it) {
                    fails.push(("C09", format!("a crash in the middle of meld reopens to a mixed state: {}", w)));
                    fails.push(("C02", format!("incomplete block applied: {}", w)));
                }
            }
        }
        ra.dirty = true;
        let cls = if res.is_ok() { "ok" } else { "err" };
        self.emit("meld", r, cls, json!({"from": from}));
        for (p, w) in fails {
            self.fail(p, w);
        }
    }

    fn op_refresh(&mut self, r: usize) {
        let dirty = self.reps[r].dirty;
        let rep = &mut self.reps[r];
        let be = &rep.be;
        let snap_after = || be.snapshot();
        let m = rep.m.as_mut().unwrap();
        let staged = m.has_staging();
        let before = obs_full(m);
        let read_before = read_res(m);
        let res = m.refresh();
        let mut fails: Vec<(&str, String)> = vec![];
        if staged {
            if res.is_ok() {
                fails.push(("C15", "refresh ran although changes were staged".into()));
            }
            if obs_full(m) != before {
                fails.push(("C15", "a refused refresh changed the replica".into()));
            }
        } else {
            match &res {
                Err(e) => fails.push(("C08", format!("refresh failed on intact storage: {}", msg_prefix(&e.to_string())))),
                Ok(()) => {
                    if !dirty && read_res(m) != read_before {
                        fails.push(("C12", "refresh with nothing new in storage changed the visible document".into()));
                    }
                    if !self.light {
                        let f = fresh_obs(&snap_after());
                        let mine = obs_doc(m);
                        if f != mine {
                            fails.push(("C02", format!("incremental refresh differs from a full reload of the same storage: {}", first_diff(&mine, &f))));
                            fails.push(("C01", format!("incremental refresh differs from a full reload of the same storage: {}", first_diff(&mine, &f))));
                        }
                    }
                    self.reps[r].dirty = false;
                    let m = self.reps[r].m.as_ref().unwrap();
                    let a: Vec<String> = m.get_anchors().iter().map(|x| x.to_string()).collect();
                    let o = obs_noblocks(m);
                    self.reps[r].heads_log.push((a, o));
                }
            }
        }
        let cls = if res.is_ok() { "ok" } else { "err" };
        self.emit("refresh", r, cls, json!({}));
        for (p, w) in fails {
            self.fail(p, w);
        }
    }

    fn op_reload(&mut self, r: usize) {
        let dirty = self.reps[r].dirty;
        let m = self.reps[r].m.as_ref().unwrap();
        let staged = any_staged(m);
        let before = obs_full(m);
        let read_before = read_res(m);
        let res = m.reload();
        let mut fails: Vec<(&str, String)> = vec![];
        if staged {
            if res.is_ok() {
                fails.push(("C15", "reload ran although changes were staged".into()));
            }
            if obs_full(m) != before {
                fails.push(("C15", "a refused reload changed the replica".into()));
            }
        } else {
            match &res {
                Err(e) => {
                    fails.push(("C08", format!("reload failed on intact storage: {}", msg_prefix(&e.to_string()))));
                    if !dirty && read_res(m) != read_before {
                        fails.push(("C12", format!("reload with nothing new in storage failed ({}) and changed the visible document", msg_prefix(&e.to_string()))));
                    }
                }
                Ok(()) => {
                    if !dirty && read_res(m) != read_before {
                        fails.push(("C12", "reload with nothing new in storage changed the visible document".into()));
                    }
                    if !self.light {
                        let f = fresh_obs(&self.reps[r].be.snapshot());
                        let mine = obs_doc(m);
                        if f != mine {
                            fails.push(("C01", format!("reload differs from a freshly opened replica: {}", first_diff(&mine, &f))));
                        } else {
                            let fp = fresh_obs_perm(&self.reps[r].be.snapshot(), 0x5151 ^ self.op_index as u64);
                            if fp != f {
                                fails.push(("C01", format!("a fresh replica differs when storage lists the same items in another order: {}", first_diff(&f, &fp))));
                                fails.push(("C18", format!("a fresh replica differs when storage lists the same items in another order: {}", first_diff(&f, &fp))));
                            }
                        }
                    }
                    self.reps[r].dirty = false;
                }
            }
        }
        let cls = if res.is_ok() { "ok" } else { "err" };
        self.emit("reload", r, cls, json!({}));
        for (p, w) in fails {
            self.fail(p, w);
        }
    }

    /// C12 right after a SUCCESSFUL commit whose result a fresh replica does not reproduce: the committing replica has
    /// applied everything its storage holds and has nothing staged any more, so a reload must succeed and must not
    /// change what it shows (a commit that leaves object bodies staged makes every later reload refuse)
    fn op_reload_after_commit(&mut self, r: usize) {
        let m = self.reps[r].m.as_ref().unwrap();
        if m.has_staging() {
            return;
        }
        let read_before = read_res(m);
        let res = m.reload();
        let m = self.reps[r].m.as_ref().unwrap();
        let mut fails: Vec<(&str, String)> = vec![];
        match &res {
            Err(e) => {
                let w = format!("reload right after a successful commit, with nothing new in storage, failed ({}): the document the replica shows cannot be rebuilt from its storage", msg_prefix(&e.to_string()));
                fails.push(("C12", w.clone()));
                fails.push(("C03", w));
            }
            Ok(()) => {
                if read_res(m) != read_before {
                    fails.push(("C12", "reload right after a successful commit, with nothing new in storage, changed the visible document".into()));
                }
                self.reps[r].dirty = false;
            }
        }
        self.emit("reload", r, if res.is_ok() { "ok" } else { "err" }, json!({}));
        for (p, w) in fails {
            self.fail(p, w);
        }
    }

    fn op_reopen(&mut self, r: usize) {
        let old = self.reps[r].m.take();
        let (before, staged) = match &old {
            Some(m) => (Some(obs_doc(m)), m.has_staging()),
            None => (None, false),
        };
        let dirty = self.reps[r].dirty;
        drop(old);
        let ad = self.reps[r].be.reopen_adapter();
        match Melda::new(ad) {
            Ok(m) => {
                let now = obs_doc(&m);
                if let Some(b) = before {
                    if !dirty && !staged && b != now {
                        let d = first_diff(&b, &now);
                        self.fail("C03", format!("reopened replica differs from the replica before reopening: {}", d));
                    }
                }
                self.reps[r].m = Some(m);
                self.reps[r].dirty = false;
                self.emit("new", r, "ok", json!({}));
            }
            Err(e) => {
                self.emit("new", r, "err", json!({}));
                self.fail("C03", format!("cannot reopen a replica on its own storage: {}", msg_prefix(&e.to_string())));
                self.fail("C17", format!("cannot reopen a replica on its own storage: {}", msg_prefix(&e.to_string())));
            }
        }
    }

    fn op_resolve(&mut self, r: usize, pick: usize, k: usize) {
        let m = self.reps[r].m.as_ref().unwrap();
        let conf: Vec<String> = m.in_conflict().into_iter().collect();
        if conf.is_empty() {
            return;
        }
        let uuid = conf[pick % conf.len()].clone();
        let w = m.get_winner(&uuid).unwrap();
        let mut leafs: Vec<String> = m.get_conflicting(&uuid).unwrap().into_iter().collect();
        leafs.push(w.clone());
        leafs.sort();
        let choice = leafs[k % leafs.len()].clone();
        let is_arr = uuid.starts_with('^');
        let read_before = read_res(m);
        let val_before = m.get_value(&uuid, Some(&choice));
        let chosen_deleted = choice.split('-').nth(1).map(|s| s.starts_with("d_")).unwrap_or(false);
        let objs_before = {
            let mut v = vec![];
            if let Some(g) = read_before.get("ok") {
                collect_objects(g, &mut v);
            }
            v.sort();
            v
        };
        self.stat(if is_arr { "resolve_array" } else { "resolve_object" });
        if chosen_deleted {
            self.stat("resolve_to_deletion");
        }
        let m = self.reps[r].m.as_ref().unwrap();
        let res = m.resolve_as(&uuid, &choice);
        let mut resolved_ok = false;
        self.emit("resolve", r, if res.is_ok() { "ok" } else { "err" }, json!({"uuid": uuid, "rev": choice}));
        let m = self.reps[r].m.as_ref().unwrap();
        let mut fails: Vec<(&str, String)> = vec![];
        match res {
            Err(e) => fails.push(("C07", format!("resolve_as a live leaf failed: {}", msg_prefix(&e.to_string())))),
            Ok(_) => {
                resolved_ok = true;
                if m.in_conflict().contains(&uuid) {
                    fails.push(("C07", "object still in conflict after resolution".into()));
                }
                let rd = read_res(m);
                // (resolving the root object in favour of its deletion makes `read` report that there is no root)
                let root_deleted = chosen_deleted && uuid == "\u{221A}";
                if read_before.get("ok").is_some() && rd.get("ok").is_none() && !(root_deleted && rd.get("err").is_some()) {
                    fails.push(("C07", format!("read fails after resolution: {}", js(&rd))));
                    fails.push(("C08", format!("read fails after resolution: {}", js(&rd))));
                }
                if choice == w && rd != read_before {
                    fails.push(("C07", format!("resolving in favour of the current winner changed the document: before {} after {}", js(&read_before), js(&rd))));
                }
                if !is_arr {
                    let now = m.get_value(&uuid, None);
                    match (val_before, now) {
                        (Ok(a), Ok(b)) => {
                            if a != b {
                                fails.push(("C07", format!("resolved object does not carry the value of the chosen revision: chosen {} now {}", js(&Value::from(a)), js(&Value::from(b)))));
                            }
                        }
                        _ => fails.push(("C07", "cannot read the value of the chosen / resolved revision".into())),
                    }
                    if chosen_deleted {
                        if let Some(g) = rd.get("ok") {
                            let mut v = vec![];
                            collect_objects(g, &mut v);
                            if v.iter().any(|(id, _)| *id == uuid) {
                                fails.push(("C07", "object resolved to a deletion is still present in the document".into()));
                            }
                        }
                    }
                } else if !chosen_deleted && !w.split('-').nth(1).map(|s| s.starts_with("d_")).unwrap_or(false) {
                    // arrays: nothing is lost by a resolution
                    if let Some(g) = rd.get("ok") {
                        let mut v = vec![];
                        collect_objects(g, &mut v);
                        v.sort();
                        if v != objs_before {
                            fails.push(("C07", format!("resolving an array conflict ({} as {}) changed the set of visible objects: before {} after {}", uuid, choice, js(&read_before), js(&rd))));
                        }
                    }
                }
            }
        }
        // error cases leave the state unchanged
        let m = self.reps[r].m.as_ref().unwrap();
        let before = obs_full(m);
        let e1 = catch_unwind(AssertUnwindSafe(|| m.resolve_as(&uuid, &choice)));
        match e1 {
            Ok(Err(_)) => {
                if obs_full(m) != before {
                    fails.push(("C07", "a rejected resolution changed the replica".into()));
                }
            }
            Ok(Ok(_)) => fails.push(("C07", "resolving an object that is no longer in conflict succeeded".into())),
            Err(_) => fails.push(("C08", "resolve_as aborted".into())),
        }
        // (emitted right after the call, see above)
        if resolved_ok {
            self.reps[r].resolved_pending.push(uuid.clone());
        }
        for (p, w) in fails {
            self.fail(p, w);
        }
    }

    fn op_unstage(&mut self, r: usize) {
        let clean = self.reps[r].clean_obs.clone();
        let m = self.reps[r].m.as_mut().unwrap();
        let staged = m.has_staging();
        let res = m.unstage();
        let mut fails: Vec<(&str, String)> = vec![];
        if res.is_err() {
            fails.push(("C08", "unstage failed".into()));
        }
        if m.has_staging() {
            fails.push(("C15", "changes still staged after unstage".into()));
        }
        if let Some(c) = clean {
            let now = obs_full(m);
            if now != c {
                fails.push(("C15", format!("discarding staged changes does not restore the last committed-or-refreshed state: {}", first_diff(&c, &now))));
            }
        }
        if staged {
            self.stat("unstage_with_staging");
        }
        self.emit("unstage", r, "ok", json!({}));
        for (p, w) in fails {
            self.fail(p, w);
        }
    }

    fn op_stage_replay(&mut self, r: usize) {
        let clean = self.reps[r].clean_obs.clone();
        let m = self.reps[r].m.as_mut().unwrap();
        if !m.has_staging() {
            return;
        }
        // (a staged body whose twin is already stored - an orphan body whose pack arrived from elsewhere - is
        // redundant: replay_stage does not stage it again; staged keys are compared modulo stored digests)
        let stored: BTreeSet<String> = m.verif_data_index().0.into_iter().map(|x| x.0).collect();
        let modulo_stored = |mut v: Value| -> Value {
            if let Some(ks) = v.get_mut("stage_keys").and_then(|x| x.as_array_mut()) {
                ks.retain(|k| k.as_str().map(|s| !stored.contains(s)).unwrap_or(true));
            }
            v
        };
        let before = modulo_stored(obs_full(m));
        let s = m.stage().unwrap();
        self.emit("export", r, "ok", json!({"stage": s}));
        let m = self.reps[r].m.as_mut().unwrap();
        let _ = m.unstage();
        self.emit("unstage", r, "ok", json!({}));
        let m = self.reps[r].m.as_mut().unwrap();
        let mut fails: Vec<(&str, String)> = vec![];
        if let Some(c) = clean {
            let now = obs_full(m);
            if now != c {
                fails.push(("C15", format!("discarding staged changes does not restore the clean state: {}", first_diff(&c, &now))));
            }
        }
        if let Err(e) = m.replay_stage(&s) {
            fails.push(("C15", format!("replaying an exported stage failed: {}", msg_prefix(&e.to_string()))));
        }
        let after = modulo_stored(obs_full(m));
        self.emit("replay", r, "ok", json!({"stage": s}));
        if after != before {
            fails.push(("C15", format!("export, discard and replay does not restore the staged state: {}", first_diff(&before, &after))));
        }
        // C18 / C15: `stage()` lists the records of one object in hash-map order, so a replay must not depend on the
        // order of the records: discard again and replay the same export with its records reversed
        let reversed: Option<Value> = s.as_ref().and_then(|v| {
            let recs = v.get("c")?.as_array()?;
            if recs.len() < 2 {
                return None;
            }
            let mut v2 = v.clone();
            let mut rv = recs.clone();
            rv.reverse();
            v2.as_object_mut()?.insert("c".into(), Value::from(rv));
            Some(v2)
        });
        if let (Some(s2), true) = (reversed, fails.is_empty()) {
            let s2 = Some(s2);
            let m = self.reps[r].m.as_mut().unwrap();
            let _ = m.unstage();
            self.emit("unstage", r, "ok", json!({}));
            let m = self.reps[r].m.as_mut().unwrap();
            let res2 = m.replay_stage(&s2);
            let after2 = modulo_stored(obs_full(m));
            self.emit("replay", r, "ok", json!({"stage": s2}));
            self.stat("replay_reversed_records");
            if res2.is_err() || after2 != before {
                let w = format!("replaying an exported stage with its change records in reverse order (the export lists them in hash-map order) gives another state: {}", first_diff(&before, &after2));
                fails.push(("C18", w.clone()));
                fails.push(("C15", w));
            }
        }
        for (p, w) in fails {
            self.fail(p, w);
        }
    }

    /// C15: an export is replayed AFTER its changes have been committed (the application saved a stage, committed,
    /// and replays the saved stage - on this replica, or it arrives late): every record names a revision that is
    /// already recorded, every body is already stored, so nothing may change - in particular no committed revision
    /// may turn into a staged one that a later `unstage` would drop
    fn op_stage_commit_replay(&mut self, r: usize, info: Value) {
        let m = self.reps[r].m.as_ref().unwrap();
        if !m.has_staging() {
            return;
        }
        let s = m.stage().unwrap();
        self.emit("export", r, "ok", json!({"stage": s}));
        self.op_commit(r, info);
        let m = self.reps[r].m.as_ref().unwrap();
        if m.has_staging() {
            return; // the commit did not go through
        }
        let before = obs_full(m);
        let res = m.replay_stage(&s);
        let m = self.reps[r].m.as_ref().unwrap();
        let after = obs_full(m);
        self.emit("replay", r, "ok", json!({"stage": s}));
        self.stat("replay_after_commit");
        if res.is_err() || after != before {
            self.fail("C15", format!("replaying an export whose changes have all been committed since changed the replica: {}", first_diff(&before, &after)));
        }
    }

    fn op_snapshot(&mut self, r: usize) {
        let m = self.reps[r].m.as_ref().unwrap();
        let read_before = read_res(m);
        let res = m.stage_full_snapshot();
        let res_ok = res.is_ok();
        let mut fails: Vec<(&str, String)> = vec![];
        if let Err(e) = res {
            fails.push(("C08", format!("stage_full_snapshot failed: {}", msg_prefix(&e.to_string()))));
        }
        let rd = read_res(m);
        if rd != read_before {
            fails.push(("C12", format!("a full snapshot changed the visible document: before {} after {}", js(&read_before), js(&rd))));
        }
        self.emit("snapshot", r, if res_ok { "ok" } else { "err" }, json!({}));
        for (p, w) in fails {
            self.fail(p, w);
        }
    }

    fn op_deliver(&mut self, r: usize, from: usize, pick: usize) {
        if r == from {
            return;
        }
        let src = self.reps[from].be.snapshot();
        let dst = self.reps[r].be.snapshot();
        let mut missing: Vec<&String> = src.keys().filter(|k| !dst.contains_key(*k)).collect();
        if missing.is_empty() {
            return;
        }
        missing.sort_by_key(|k| self.key_seq.get(*k).cloned().unwrap_or(usize::MAX));
        let k = missing[pick % missing.len()].clone();
        self.reps[r].be.put(&k, &src[&k]);
        self.reps[r].dirty = true;
        self.emit("put", r, "ok", json!({}));
        self.stat("deliver_single_file");
        let staged = self.reps[r].m.as_ref().map(|m| m.has_staging()).unwrap_or(true);
        if !staged {
            self.op_refresh(r);
        }
    }

    fn op_timetravel(&mut self, r: usize, pick: usize, stay: bool) {
        if self.reps[r].heads_log.is_empty() {
            return;
        }
        let m = self.reps[r].m.as_ref().unwrap();
        // (with anything staged - a revision or only an object body - time travel must refuse: see below)
        let (anchors, expect) = self.reps[r].heads_log[pick % self.reps[r].heads_log.len()].clone();
        if anchors.is_empty() {
            return;
        }
        if anchors.len() > 1 {
            *self.stats.entry("timetravel_multi_head".into()).or_insert(0) += 1;
        }
        let set: BTreeSet<DeltaId> = anchors.iter().map(|a| DeltaId::from(a).unwrap()).collect();
        let mut fails: Vec<(&str, String)> = vec![];
        if any_staged(m) {
            // revisions staged, or object bodies staged without a staged revision: time travel must refuse and
            // leave the replica alone
            let before = obs_full(m);
            let tt = m.reload_until(&set);
            self.emit("until", r, if tt.is_ok() { "ok" } else { "err" }, json!({"anchors": anchors}));
            let changed = obs_full(self.reps[r].m.as_ref().unwrap()) != before;
            if tt.is_ok() {
                self.fail("C15", "reload_until ran although changes were staged".into());
            }
            if changed {
                self.fail("C15", "a refused reload_until changed the replica".into());
                self.fail("C12", "a refused reload_until changed the replica".into());
            }
            return;
        }
        let tt = m.reload_until(&set);
        self.emit("until", r, if tt.is_ok() { "ok" } else { "err" }, json!({"anchors": anchors}));
        let m = self.reps[r].m.as_ref().unwrap();
        match tt {
            Err(e) => fails.push(("C14", format!("time travel to former heads {:?} failed: {}", anchors, msg_prefix(&e.to_string())))),
            Ok(()) => {
                let got = obs_noblocks(m);
                if got != expect {
                    fails.push(("C14", format!("time travel to {:?} does not show the state the replica had with those heads: {}", anchors, first_diff(&expect, &got))));
                }
                let now: Vec<String> = m.get_anchors().iter().map(|x| x.to_string()).collect();
                if now != anchors {
                    fails.push(("C14", format!("heads after time travel are {:?}, expected {:?}", now, anchors)));
                }
                // the constructor that opens a new replica directly in the past (`new_until`) shows the same
                if !self.light {
                    let st = SimStore::from_items(self.reps[r].be.snapshot());
                    match catch_unwind(AssertUnwindSafe(|| Melda::new_until(st.dyn_adapter(), &set))) {
                        Ok(Ok(m2)) => {
                            let o2 = obs_noblocks(&m2);
                            if o2 != got {
                                fails.push(("C14", format!("a replica opened with new_until at {:?} differs from reload_until to the same heads: {}", anchors, first_diff(&got, &o2))));
                            }
                            *self.stats.entry("new_until".into()).or_insert(0) += 1;
                        }
                        Ok(Err(e)) => fails.push(("C14", format!("new_until at former heads {:?} failed: {}", anchors, msg_prefix(&e.to_string())))),
                        Err(_) => {
                            fails.push(("C14", format!("new_until at former heads {:?} aborted", anchors)));
                            fails.push(("C08", format!("new_until at former heads {:?} aborted", anchors)));
                        }
                    }
                }
                // ... and so does the constructor that takes a URL (every fourth visit: it copies the store to disk)
                if !self.light && self.op_index % 4 == 0 {
                    if let Some((url, dir)) = url_copy(&self.reps[r].be.snapshot()) {
                        match catch_unwind(AssertUnwindSafe(|| Melda::new_from_url_until(&url, &set))) {
                            Ok(Ok(m3)) => {
                                let o3 = obs_noblocks(&m3);
                                if o3 != got {
                                    fails.push(("C14", format!("a replica opened with new_from_url_until at {:?} differs from reload_until to the same heads: {}", anchors, first_diff(&got, &o3))));
                                }
                                *self.stats.entry("new_from_url_until".into()).or_insert(0) += 1;
                            }
                            Ok(Err(e)) => fails.push(("C14", format!("new_from_url_until at former heads {:?} failed: {}", anchors, msg_prefix(&e.to_string())))),
                            Err(_) => {
                                fails.push(("C14", format!("new_from_url_until at former heads {:?} aborted", anchors)));
                                fails.push(("C08", format!("new_from_url_until at former heads {:?} aborted", anchors)));
                            }
                        }
                        let _ = std::fs::remove_dir_all(&dir);
                    }
                }
                // every revision of the loaded history stays retrievable
                for u in m.get_all_objects() {
                    for (rev, par, _) in m.verif_tree_dump(&u).unwrap_or_default() {
                        if catch_unwind(AssertUnwindSafe(|| m.get_value(&u, Some(&rev)))).map(|x| x.is_err()).unwrap_or(true) {
                            fails.push(("C14", format!("revision {} of {} is not retrievable after time travel", rev, u)));
                        }
                        if m.get_parent_revision(&u, &rev).ok().flatten() != par {
                            fails.push(("C14", format!("parent of revision {} of {} changed", rev, u)));
                        }
                    }
                }
            }
        }
        self.check_graph(r);
        if stay {
            // the history goes on from the past state (a later commit forks the graph)
            self.reps[r].dirty = true;
            *self.stats.entry("timetravel_and_stay".into()).or_insert(0) += 1;
            for (p, w) in fails {
                self.fail(p, w);
            }
            return;
        }
        let m = self.reps[r].m.as_ref().unwrap();
        let rl = m.reload();
        self.emit("reload", r, if rl.is_ok() { "ok" } else { "err" }, json!({}));
        let m = self.reps[r].m.as_ref().unwrap();
        match rl {
            Err(e) => fails.push(("C14", format!("reload after time travel failed: {}", msg_prefix(&e.to_string())))),
            Ok(()) => {
                if !self.light {
                    let f = fresh_obs(&self.reps[r].be.snapshot());
                    let mine = obs_doc(m);
                    if f != mine {
                        fails.push(("C14", format!("reload after time travel does not return to the latest state: {}", first_diff(&mine, &f))));
                    }
                }
                self.reps[r].dirty = false;
            }
        }
        for (p, w) in fails {
            self.fail(p, w);
        }
    }

    /// C08 / C02: a replica with a LONG linear history (an editor that commits on every save reaches tens of thousands
    /// of blocks) must still open, refresh and travel in time: nothing may recurse once per block (a stack overflow
    /// aborts the whole process).  The chain is byte for byte what `commit` writes when one object is alternately
    /// deleted and re-created empty; built directly in a store of its own, opened with the default worker pool.
    fn op_longchain(&mut self, n: u32) {
        let st = SimStore::new();
        let m = match Melda::new(st.dyn_adapter()) {
            Ok(m) => m,
            Err(_) => return,
        };
        let _ = m.create_object("x", json!({"v": 1}).as_object().unwrap().clone());
        let heads = match m.commit(None) {
            Ok(Some(h)) => h,
            _ => return,
        };
        let mut block = heads.iter().next().unwrap().to_string();
        let mut rev = m.get_winner("x").unwrap_or_default();
        drop(m);
        for i in 2..=n {
            let dg = if i % 2 == 0 { "d" } else { "e" };
            let text = format!("{{\"c\":[[\"x\",\"{}\",\"{}\"]],\"p\":[\"{}\"]}}", rev, dg, block);
            let id = format!("{}-{}", i, digest_string(&text));
            st.put_raw(&format!("{}.delta", id), text.as_bytes().to_vec());
            rev = format!("{}-{}_{}", i, dg, &digest_string(&rev)[..7]);
            block = id;
        }
        self.stat("long_chain");
        // on a thread with the DEFAULT stack of a spawned thread (2 MiB): applications call the library from worker
        // threads, not only from `main` with its 8 MiB
        let adapter = st.dyn_adapter();
        let (block_c, rev_c) = (block.clone(), rev.clone());
        let handle = std::thread::Builder::new().stack_size(2 * 1024 * 1024).spawn(move || {
            let mut fails: Vec<(&'static str, String)> = vec![];
            let opened = catch_unwind(AssertUnwindSafe(|| Melda::new(adapter)));
            match opened {
                Err(_) => fails.push(("C08", format!("opening a replica with a linear history of {} blocks aborted", n))),
                Ok(Err(e)) => fails.push(("C08", format!("a replica with a linear history of {} blocks cannot be opened: {}", n, msg_prefix(&e.to_string())))),
                Ok(Ok(mut m)) => {
                    let heads: Vec<String> = m.get_anchors().iter().map(|a| a.to_string()).collect();
                    if heads != vec![block_c.clone()] || m.get_winner("x").ok() != Some(rev_c.clone()) {
                        fails.push(("C02", format!("a linear history of {} causally complete blocks is not applied entirely: heads {:?}", n, heads)));
                        fails.push(("C08", format!("a linear history of {} causally complete blocks is not applied entirely: heads {:?}", n, heads)));
                    }
                    // refresh with nothing new, time travel to the heads, a full reload, a read
                    if !catch_unwind(AssertUnwindSafe(|| m.refresh().is_ok())).unwrap_or(false) {
                        fails.push(("C08", format!("refresh of a replica with {} blocks failed or aborted", n)));
                    }
                    let heads_set: BTreeSet<DeltaId> = m.get_anchors();
                    if !catch_unwind(AssertUnwindSafe(|| m.reload_until(&heads_set).is_ok())).unwrap_or(false) {
                        fails.push(("C08", format!("reload_until to the heads of a replica with {} blocks failed or aborted", n)));
                        fails.push(("C14", format!("reload_until to the heads of a replica with {} blocks failed or aborted", n)));
                    }
                    let after: Vec<String> = m.get_anchors().iter().map(|a| a.to_string()).collect();
                    if after != vec![block_c.clone()] {
                        fails.push(("C14", format!("after reload_until to the heads of a chain of {} blocks the heads are {:?}", n, after)));
                    }
                    if !catch_unwind(AssertUnwindSafe(|| m.reload().is_ok())).unwrap_or(false) {
                        fails.push(("C08", format!("reload of a replica with {} blocks failed or aborted", n)));
                    }
                    let _ = catch_unwind(AssertUnwindSafe(|| m.get_value("x", None)));
                }
            }
            fails
        });
        match handle.map(|h| h.join()) {
            Ok(Ok(fails)) => {
                for (p, w) in fails {
                    self.fail(p, w);
                }
            }
            _ => self.fail("C08", format!("the thread working on a replica with {} blocks aborted", n)),
        }
    }

    /// an item that is neither a block nor a pack appears in a replica's storage (a lock file, a signature next
    /// to a block, an attachment): it is nothing to the replica, and meld carries it along byte for byte
    fn op_foreign(&mut self, r: usize, name: &str, hexbytes: &str) {
        if !self.reps[r].be.is_sim() {
            return;
        }
        if self.reps[r].be.snapshot().contains_key(name) {
            return;
        }
        let before = self.reps[r].m.as_ref().map(obs_full);
        self.reps[r].be.put(name, &hex::decode(hexbytes).unwrap_or_default());
        self.emit("put", r, "ok", json!({}));
        self.stat("foreign_item");
        if let (Some(b), Some(m)) = (before, self.reps[r].m.as_ref()) {
            if obs_full(m) != b {
                self.fail("C12", "an item that is neither block nor pack changed the replica".into());
            }
        }
    }

    /// meld while the receiver's storage fails some of its writes: the call returns, nothing the replica shows
    /// changes, nothing misnamed or foreign is stored, and a later meld without faults transfers the rest
    fn op_failmeld(&mut self, r: usize, from: usize, fail: Vec<usize>) {
        if r == from {
            return;
        }
        let store = match &self.reps[r].be {
            Backend::Sim(s) => s.clone(),
            _ => return self.op_meld(r, from),
        };
        let (ra, rb) = two(&mut self.reps, r, from);
        let (ma, mb) = match (&ra.m, &rb.m) {
            (Some(a), Some(b)) => (a, b),
            _ => return,
        };
        let full_before = obs_full(ma);
        let items_before = ra.be.snapshot();
        let from_items = rb.be.snapshot();
        store.set_fail(fail.clone());
        let res = catch_unwind(AssertUnwindSafe(|| ma.meld(mb).is_ok()));
        store.set_fail(vec![]);
        store.take_log();
        let mut fails: Vec<(&str, String)> = vec![];
        let aborted = res.is_err();
        if aborted {
            fails.push(("C08", format!("meld aborted the calling thread when the storage failed write(s) {:?}", fail)));
            fails.push(("C09", format!("meld aborted the calling thread when the storage failed write(s) {:?}", fail)));
        }
        let ma = ra.m.as_ref().unwrap();
        if !aborted && obs_full(ma) != full_before {
            fails.push(("C12", "a meld with failing writes changed the visible state".into()));
        }
        let items_after = ra.be.snapshot();
        for (k, v) in &items_after {
            if !items_before.contains_key(k) {
                match from_items.get(k) {
                    Some(v2) if v2 == v => {}
                    _ => fails.push(("C11", format!("a meld with failing writes stored item {} whose bytes differ from the source replica", k))),
                }
            }
        }
        if let Some(w) = check_no_mixture(&items_after) {
            fails.push(("C09", format!("after a meld with failing writes the storage reopens to a mixed state: {}", w)));
        }
        ra.dirty = true;
        self.stat("meld_with_failing_writes");
        if aborted {
            // locks may be poisoned: the replica is not used any further
            self.reps[r].m = None;
        } else {
            self.emit("meld", r, "partial", json!({"from": from}));
        }
        for (p, w) in fails {
            self.fail(p, w);
        }
        if !aborted {
            // the rest arrives with the next, undisturbed meld
            self.op_meld(r, from);
        }
    }

    /// The stage exported on one replica is replayed on ANOTHER replica, which may not know the revisions the
    /// staged changes build on (known finding D24: used only by the pinned history, never generated).  Afterwards
    /// every operation must still return.
    fn op_replay_elsewhere(&mut self, r: usize, to: usize) {
        if r == to {
            return;
        }
        let exported = match self.reps[r].m.as_ref().and_then(|m| m.stage().ok()) {
            Some(s) => s,
            None => return,
        };
        let doc = self.reps[r].last_doc.clone();
        let m = match self.reps[to].m.as_ref() {
            Some(m) => m,
            None => return,
        };
        if m.has_staging() {
            return;
        }
        let rp = catch_unwind(AssertUnwindSafe(|| m.replay_stage(&exported).is_ok()));
        let mut aborted: Vec<String> = vec![];
        if rp.is_err() {
            aborted.push("replay_stage".into());
        }
        let m = self.reps[to].m.as_ref().unwrap();
        for u in m.get_all_objects() {
            if catch_unwind(AssertUnwindSafe(|| m.get_value(&u, None).is_ok())).is_err() {
                aborted.push(format!("get_value({})", u));
                break;
            }
        }
        if let Some(d) = doc.as_object() {
            if catch_unwind(AssertUnwindSafe(|| m.update(d.clone()).is_ok())).is_err() {
                aborted.push("update".into());
            }
        }
        if catch_unwind(AssertUnwindSafe(|| m.read(None).is_ok())).is_err() {
            aborted.push("read".into());
        }
        if !aborted.is_empty() {
            // the replica may be left with poisoned locks: it is not used any further
            self.reps[to].m = None;
            self.fail("C08", format!("after replay_stage of an export made on another replica (the revisions it builds on are unknown here) these operations abort: {}", aborted.join(", ")));
        }
    }

    /// values nested close to / beyond what the JSON parser reads back (128 levels).  Whatever limit the
    /// library chooses: a value it ACCEPTS behaves like any other (it is committed, reopened, melded by the
    /// rest of the history), a value it REFUSES leaves the replica unchanged.
    fn op_deep(&mut self, r: usize, depth: usize, place: &str) {
        let mut v = json!(1);
        for _ in 0..depth {
            v = json!([v]);
        }
        match place {
            "info" => {
                let info = json!({ "n": v });
                if depth < 100 {
                    return self.op_commit(r, info);
                }
                let m = self.reps[r].m.as_ref().unwrap();
                if !m.has_staging() {
                    return;
                }
                let before = obs_full(m);
                let res = catch_unwind(AssertUnwindSafe(|| m.commit(info.as_object().cloned())));
                let m = self.reps[r].m.as_ref().unwrap();
                let unchanged = obs_full(m) == before;
                match res {
                    Err(_) => self.fail("C08", format!("commit with information nested {} deep aborted", depth)),
                    Ok(Err(e)) => {
                        if !unchanged {
                            self.fail("C09", "a refused commit changed the replica".into());
                        }
                        // the model has the same guard and must refuse too
                        let cls = if e.to_string().starts_with("information_nested_too_deeply") { "refused" } else { "err" };
                        self.emit("commit", r, cls, json!({"info": info}));
                    }
                    Ok(Ok(a)) => {
                        // accepted: then it must be durable like any other commit
                        let mine: Vec<String> = m.get_anchors().iter().map(|x| x.to_string()).collect();
                        let f = fresh_obs(&self.reps[r].be.snapshot());
                        let theirs: Vec<String> = f.get("anchors").and_then(|x| x.as_array()).map(|x| x.iter().filter_map(|y| y.as_str().map(|s| s.to_string())).collect()).unwrap_or_default();
                        let id = a.as_ref().and_then(|s| s.iter().next().map(|x| x.to_string()));
                        self.emit("commit", r, "ok", json!({"id": id, "info": info}));
                        if !self.reps[r].dirty && mine != theirs {
                            self.fail("C03", format!("a commit with information nested {} deep was accepted but a reopened replica does not see it", depth));
                            self.fail("C13", format!("a commit with information nested {} deep was accepted but a reopened replica does not see it", depth));
                        }
                    }
                }
            }
            "obj" => {
                // through the object API, on an object outside the document: create (or update) with a deep body;
                // refused => nothing changes; accepted => durable like any other object
                let m = self.reps[r].m.as_ref().unwrap();
                let before = obs_full(m);
                let body = json!({ "deep": v, "w": depth });
                let call = if m.get_all_objects().contains("deepobj") { "update" } else { "create" };
                self.op_objapi(r, &json!({"call": call, "uuid": "deepobj", "obj": body}));
                let m = self.reps[r].m.as_ref().unwrap();
                let accepted = m.get_value("deepobj", None).map(|x| x.get("w") == Some(&json!(depth))).unwrap_or(false);
                if !accepted && obs_full(m) != before {
                    self.fail("C04", format!("a refused object (nested {} deep) changed the replica", depth));
                }
            }
            _ => {
                let mut doc = self.reps[r].last_doc.as_object().cloned().unwrap_or_default();
                doc.insert("deep".into(), v);
                let doc = Value::from(doc);
                let m = self.reps[r].m.as_ref().unwrap();
                let before = obs_full(m);
                let res = catch_unwind(AssertUnwindSafe(|| m.update(doc.as_object().unwrap().clone())));
                let unchanged = obs_full(self.reps[r].m.as_ref().unwrap()) == before;
                match res {
                    Err(_) => self.fail("C08", format!("update with a document nested {} deep aborted", depth)),
                    Ok(Ok(_)) => {
                        // accepted: the ordinary update path (a second, identical submission changes nothing)
                        self.reps[r].last_doc = doc.clone();
                        self.op_update(r, &doc);
                    }
                    Ok(Err(_)) => {
                        if !unchanged {
                            self.fail("C04", "a refused update changed the replica".into());
                        }
                        // the model has the same guard and must refuse too
                        self.emit("update", r, "err", json!({"doc": doc}));
                    }
                }
            }
        }
    }

    fn op_delete_object(&mut self, r: usize, pick: usize) {
        let m = self.reps[r].m.as_ref().unwrap();
        let objs: Vec<String> = m.get_all_objects().into_iter().filter(|u| !u.starts_with('^') && u != "\u{221A}").collect();
        if objs.is_empty() {
            return;
        }
        let u = &objs[pick % objs.len()];
        // (a replica that only holds objects created through the object API has no root: `read` reports
        // no_root before and after)
        let read_before = read_res(m);
        let _ = m.delete_object(u);
        let rd = read_res(m);
        self.emit("delete", r, "ok", json!({"uuid": u}));
        if read_before.get("ok").is_some() && rd.get("ok").is_none() {
            self.fail("C08", format!("read fails after delete_object: {}", js(&rd)));
        }
    }

    /// direct use of the object-level API on objects outside the document
    fn op_objapi(&mut self, r: usize, op: &Value) {
        let call = op["call"].as_str().unwrap().to_string();
        let uuid = op["uuid"].as_str().unwrap().to_string();
        let obj = op.get("obj").and_then(|o| o.as_object().cloned()).unwrap_or_default();
        let m = self.reps[r].m.as_ref().unwrap();
        let res = catch_unwind(AssertUnwindSafe(|| match call.as_str() {
            "create" => m.create_object(&uuid, obj.clone()),
            "update" => m.update_object(&uuid, obj.clone()),
            _ => m.remove_object(&uuid),
        }));
        let (cls, ret) = match &res {
            Ok(Ok(x)) => ("ok", json!(x)),
            Ok(Err(_)) => ("err", Value::Null),
            Err(_) => ("panic", Value::Null),
        };
        if cls == "panic" {
            self.fail("C08", format!("{}_object aborted on a well-formed object", call));
            return;
        }
        // the value recorded for the object is what was passed in
        let m = self.reps[r].m.as_ref().unwrap();
        // (array descriptors are stored as edit scripts against their previous version, C16: not compared here)
        if cls == "ok" && call != "remove" && !uuid.starts_with('^') {
            if let Some(rv) = ret.as_str() {
                match m.get_value(&uuid, Some(rv)) {
                    Ok(v) if v == obj || (obj.is_empty() && v.is_empty()) => {}
                    other => {
                        let w = format!("{}_object(\"{}\") returned revision {} whose value is {:?}, not the object passed in", call, uuid, rv, other.map(Value::from).map(|v| js(&v)));
                        self.fail("C19", w);
                    }
                }
            }
        }
        self.emit("objapi", r, cls, json!({"call": call, "uuid": uuid, "obj": obj, "ret": ret}));
    }

    fn op_failcommit(&mut self, r: usize, op: &Value) {
        let store = match &self.reps[r].be {
            Backend::Sim(s) => s.clone(),
            _ => {
                // real backends: no fault injection, an ordinary commit
                let info = op.get("info").cloned().unwrap_or(Value::Null);
                return self.op_commit(r, info);
            }
        };
        let m = self.reps[r].m.as_ref().unwrap();
        if !m.has_staging() {
            return;
        }
        let fail: Vec<usize> = op["fail"].as_array().unwrap().iter().map(|x| x.as_u64().unwrap() as usize).collect();
        let repeats = op["repeats"].as_u64().unwrap_or(1) as usize;
        let info = op.get("info").and_then(|i| i.as_object().cloned());
        let read_before = read_res(m);
        let items_before = store.snapshot();
        let f_before = fresh_obs(&items_before);
        let mut fails: Vec<(&str, String)> = vec![];
        for _ in 0..repeats {
            let m = self.reps[r].m.as_ref().unwrap();
            store.set_fail(fail.clone());
            let res = catch_unwind(AssertUnwindSafe(|| m.commit(info.clone())));
            store.set_fail(vec![]);
            {
                let (cls, extra) = match &res {
                    Ok(Ok(None)) => ("none", json!({})),
                    Ok(Ok(Some(a))) => ("ok", json!({"id": a.iter().next().map(|x| x.to_string()), "info": info.clone().map(Value::from)})),
                    _ => ("err", json!({})),
                };
                self.emit("commit", r, cls, extra);
            }
            let m = self.reps[r].m.as_ref().unwrap();
            match res {
                Err(_) => fails.push(("C08", "commit aborted on a write failure".into())),
                Ok(Ok(_)) => {
                    // the failing ordinal was not reached (e.g. no pack to write): nothing to check
                    break;
                }
                Ok(Err(_)) => {
                    self.stats.entry("failed_commit".into()).and_modify(|x| *x += 1).or_insert(1);
                    if !m.has_staging() {
                        fails.push(("C09", "after a failed commit the staged changes are gone".into()));
                    }
                    if read_res(m) != read_before {
                        fails.push(("C09", "a failed commit changed the visible document".into()));
                    }
                    let snap = store.snapshot();
                    let f = fresh_obs(&snap);
                    let applied = |v: &Value| -> BTreeSet<String> {
                        v.get("deltas").and_then(|d| d.as_object()).map(|d| d.iter().filter(|(_, x)| x["s"] == "applied").map(|(k, _)| k.clone()).collect()).unwrap_or_default()
                    };
                    if applied(&f) == applied(&f_before) {
                        if strip_blocked(&f) != strip_blocked(&f_before) {
                            fails.push(("C09", format!("after a failed commit a reopened replica does not see the previous state: {}", first_diff(&f_before, &f))));
                        }
                    } else if let Some(w) = check_no_mixture(&snap) {
                        // the orphan pack may complete a block received earlier; never a mixture
                        fails.push(("C09", format!("after a failed commit a reopened replica sees a mixed state: {}", w)));
                    }
                }
            }
        }
        // retry without faults (unless the history goes on with the failed commit left as it is)
        let m = self.reps[r].m.as_ref().unwrap();
        if m.has_staging() && op.get("retry").and_then(|x| x.as_bool()).unwrap_or(true) {
            let rc = m.commit(info.clone());
            {
                let (cls, extra) = match &rc {
                    Ok(None) => ("none", json!({})),
                    Ok(Some(a)) => ("ok", json!({"id": a.iter().next().map(|x| x.to_string()), "info": info.clone().map(Value::from)})),
                    Err(_) => ("err", json!({})),
                };
                self.emit("commit", r, cls, extra);
            }
            let m = self.reps[r].m.as_ref().unwrap();
            match rc {
                Ok(Some(_)) => {
                    let f = fresh_obs(&store.snapshot());
                    let mine = obs_doc(m);
                    if !self.reps[r].dirty && f != mine {
                        fails.push(("C09", format!("a retried commit does not yield the durable result of an uninterrupted commit: {}", first_diff(&mine, &f))));
                    }
                    if read_res(m) != read_before {
                        fails.push(("C09", "retried commit changed the visible document".into()));
                    }
                }
                Ok(None) => fails.push(("C09", "retry of a failed commit reported nothing to commit".into())),
                Err(e) => fails.push(("C09", format!("retry of a failed commit failed: {}", msg_prefix(&e.to_string())))),
            }
        }
        store.take_log();
        for (p, w) in fails {
            self.fail(p, w);
        }
    }

    fn op_faults(&mut self, r: usize, seed: u64) {
        if !self.reps[r].be.is_sim() {
            return;
        }
        let items = self.reps[r].be.snapshot();
        if items.is_empty() {
            return;
        }
        let mut g = Rng::new(seed);
        // in order of creation, not of name (block names are not reproducible across processes)
        let mut keys: Vec<String> = items.keys().cloned().collect();
        keys.sort_by_key(|k| (self.key_seq.get(k).cloned().unwrap_or(usize::MAX), k.clone()));
        let mut fails: Vec<(&str, String)> = vec![];
        for _ in 0..6 {
            let mut dmg = items.clone();
            let mut desc = vec![];
            for _ in 0..1 + g.below(2) {
                let k = g.pick(&keys).clone();
                if !dmg.contains_key(&k) {
                    continue;
                }
                match g.below(8) {
                    0 => {
                        let v = dmg.get_mut(&k).unwrap();
                        if !v.is_empty() {
                            let i = g.below(v.len());
                            v[i] ^= 1 << g.below(8);
                            desc.push(format!("flip {} @{}", k, i));
                        }
                    }
                    1 => {
                        let v = dmg.get_mut(&k).unwrap();
                        let n = g.below(v.len() + 1);
                        v.truncate(n);
                        desc.push(format!("truncate {} to {}", k, n));
                    }
                    2 => {
                        dmg.insert(k.clone(), vec![]);
                        desc.push(format!("empty {}", k));
                    }
                    3 => {
                        dmg.remove(&k);
                        desc.push(format!("delete {}", k));
                    }
                    4 => {
                        // blocks whose fields have the wrong JSON type: hash-valid when named by their digest, so they
                        // reach the block parser, which must reject them without aborting
                        const BAD_BLOCKS: [&str; 16] = [
                            r#"{"p":["4294967295-ab"]}"#, r#"{"p":["4294967295-ab"],"c":[["k","ab"]]}"#,
                            r#"{"k":[1]}"#, r#"{"k":[null]}"#, r#"{"k":"x"}"#, r#"{"k":{}}"#, r#"{"i":5}"#, r#"{"p":"x"}"#, r#"{"p":[5]}"#,
                            r#"{"p":["1-zz"],"k":[1]}"#, r#"{"c":[[1,"a"]]}"#, r#"{"c":[["k",5]]}"#, r#"{"c":[["k"]]}"#, r#"{"c":[["k","1-ab","cd","ef"]]}"#,
                            r#"{"c":[["k","zz","cd"]]}"#, r#"{"c":5}"#,
                        ];
                        let mut force_matching_name = false;
                        let mut forced_name: Option<String> = None;
                        let body: Vec<u8> = match g.below(7) {
                            6 => {
                                // a well-typed, correctly indexed block on top of a real block whose record refers to an
                                // object that is stored nowhere (new revision or previous revision)
                                let ghost = digest_bytes(format!("ghost{}", g.below(1000)).as_bytes());
                                let blocks: Vec<&String> = keys.iter().filter(|k| k.ends_with(".delta")).collect();
                                let (parents, idx) = match (blocks.is_empty(), g.chance(1, 3)) {
                                    (false, false) => {
                                        let b = g.pick(&blocks).trim_end_matches(".delta").to_string();
                                        let i: u32 = b.split('-').next().and_then(|x| x.parse().ok()).unwrap_or(1);
                                        (json!([b]), i + 1)
                                    }
                                    _ => (json!([]), 1),
                                };
                                let rec = if g.chance(1, 2) { json!(["ghost", format!("1-{}", ghost), "e"]) } else { json!(["ghost", ghost]) };
                                let mut m = Map::new();
                                m.insert("c".into(), json!([rec]));
                                if parents.as_array().map(|a| !a.is_empty()).unwrap_or(false) {
                                    m.insert("p".into(), parents);
                                }
                                let b = js(&Value::from(m)).into_bytes();
                                forced_name = Some(format!("{}-{}.delta", idx, digest_bytes(&b)));
                                b
                            }
                            0 => b"{\"c\":[[\"\\u221a\",\"abc\"]]}".to_vec(),
                            1 => b"not json".to_vec(),
                            2 => b"[{\"injected\":true}]".to_vec(),
                            3 | 4 => {
                                force_matching_name = g.chance(3, 4);
                                g.pick(&BAD_BLOCKS).as_bytes().to_vec()
                            }
                            _ => items[&k].clone(),
                        };
                        let dg = digest_bytes(&body);
                        let name = match if force_matching_name { 2 } else { g.below(12) } {
                            0 => format!("{}-{}.delta", 1 + g.below(3), "ab".repeat(32)),
                            // an index beyond u32 / beyond u64 in a block name
                            // the digest is right, the index is not (a valid block's bytes copied under another index)
                            11 => format!("{}-{}.delta", 1 + g.below(9), dg),
                            9 => format!("4294967296-{}.delta", "cd".repeat(32)),
                            10 => format!("99999999999999999999-{}.delta", &dg[..8]),
                            1 => format!("{}.pack", "cd".repeat(32)),
                            2 => format!("{}-{}.delta", 1, dg),
                            // names whose digest part is a proper prefix / case variant of the real hash, or empty
                            3 => format!("{}-{}.delta", 1 + g.below(3), &dg[..1 + g.below(8)]),
                            4 => format!("{}.pack", &dg[..g.below(9)]),
                            5 => format!("{}-{}.delta", 1, dg.to_uppercase()),
                            6 => format!("{}.pack", dg.to_uppercase()),
                            7 => format!("{}-{}x.delta", 1, dg),
                            _ => format!("junk{}.delta", g.below(10)),
                        };
                        let name = forced_name.unwrap_or(name);
                        desc.push(format!("inject {}", name));
                        dmg.entry(name).or_insert(body);
                    }
                    7 => {
                        // a twin of a real block that names TWO packs (the format allows a list): its own and another
                        // stored pack, or one that is stored nowhere - then the twin must be held back
                        let cands: Vec<&String> = keys
                            .iter()
                            .filter(|k| k.ends_with(".delta"))
                            .filter(|k| serde_json::from_slice::<Value>(&items[*k]).ok().and_then(|v| v.get("k").and_then(|x| x.as_array().map(|a| a.len() == 1))).unwrap_or(false))
                            .collect();
                        let packs: Vec<String> = keys.iter().filter(|k| k.ends_with(".pack")).map(|k| k.trim_end_matches(".pack").to_string()).collect();
                        if !cands.is_empty() && !packs.is_empty() {
                            let bk = (*g.pick(&cands)).clone();
                            let mut v: Value = serde_json::from_slice(&items[&bk]).unwrap();
                            let second = if g.chance(1, 3) { g.pick(&packs).clone() } else { digest_bytes(format!("nopack{}", g.below(1000)).as_bytes()) };
                            let mut ks: Vec<String> = v["k"].as_array().unwrap().iter().filter_map(|x| x.as_str().map(|s| s.to_string())).collect();
                            if !ks.contains(&second) {
                                ks.push(second);
                            }
                            ks.sort();
                            v["k"] = json!(ks);
                            // (a note in the metadata makes it a different block even when the list is unchanged)
                            v["i"] = json!({"twin": g.below(1000)});
                            let b = js(&v).into_bytes();
                            let idx = bk.split('-').next().unwrap_or("1").to_string();
                            let name = format!("{}-{}.delta", idx, digest_bytes(&b));
                            desc.push(format!("twin of {} naming {} packs as {}", bk, ks.len(), name));
                            dmg.entry(name).or_insert(b);
                        }
                    }
                    6 => {
                        // a valid block's bytes stored once more under another index (digest right, index wrong)
                        let blocks: Vec<&String> = keys.iter().filter(|k| k.ends_with(".delta")).collect();
                        if !blocks.is_empty() {
                            let b = (*g.pick(&blocks)).clone();
                            let stem = b.trim_end_matches(".delta");
                            let mut it = stem.splitn(2, '-');
                            let (i0, d0) = (it.next().unwrap_or("1").parse::<u32>().unwrap_or(1), it.next().unwrap_or(""));
                            let i1 = if g.chance(1, 2) { i0 + 1 + g.below(3) as u32 } else { 1 + (i0 + g.below(5) as u32) % 9 };
                            if i1 != i0 {
                                let name = format!("{}-{}.delta", i1, d0);
                                desc.push(format!("copy {} as {}", b, name));
                                dmg.entry(name).or_insert(items[&b].clone());
                            }
                        }
                    }
                    _ => {
                        // replace an item by another valid item's bytes
                        let k2 = g.pick(&keys).clone();
                        dmg.insert(k.clone(), items[&k2].clone());
                        desc.push(format!("swap {} <- {}", k, k2));
                    }
                }
            }
            *self.stats.entry("fault_variants".into()).or_insert(0) += 1;
            // the intact part: items whose bytes hash to their name
            let intact: Items = dmg
                .iter()
                .filter(|(k, v)| {
                    if let Some(s) = k.strip_suffix(".pack") {
                        digest_bytes(v) == s
                    } else if let Some(s) = k.strip_suffix(".delta") {
                        s.splitn(2, '-').nth(1).map(|d| digest_bytes(v) == d).unwrap_or(false)
                    } else {
                        true
                    }
                })
                .map(|(k, v)| (k.clone(), v.clone()))
                .collect();
            let expect = fresh_obs(&intact);
            let opened = fresh_on(&dmg);
            if self.ptrace_on {
                // the model opens a replica on the same damaged store
                let store: Map<String, Value> = dmg.iter().map(|(k, v)| (k.clone(), Value::from(hex::encode(v)))).collect();
                let mut o = Map::new();
                o.insert("p".into(), json!("probe"));
                o.insert("r".into(), json!(r));
                o.insert("res".into(), json!(if opened.is_ok() { "ok" } else { "err" }));
                o.insert("store".into(), Value::from(store));
                o.insert("obs".into(), opened.as_ref().map(model_obs).unwrap_or(Value::Null));
                o.insert("damage".into(), json!(desc.join(", ")));
                self.ptrace.push(js(&Value::from(o)));
            }
            match opened {
                Err(e) => {
                    if e.starts_with("panic") {
                        fails.push(("C10", format!("opening damaged storage ({}) aborts: {}", desc.join(", "), e)));
                        fails.push(("C08", format!("opening damaged storage ({}) aborts: {}", desc.join(", "), e)));
                    }
                    *self.stats.entry("fault_open_error".into()).or_insert(0) += 1;
                }
                Ok(m) => {
                    let got = obs_doc(&m);
                    // C13 on the replica just opened: whatever is missing or damaged, what it APPLIED is ancestor-closed
                    if let Some(w) = graph_not_closed(&m) {
                        fails.push(("C13", format!("a replica opened on partial storage ({}): {}", desc.join(", "), w)));
                    }
                    if got != expect {
                        fails.push(("C10", format!("opening damaged storage ({}) yields neither an error nor the state of the intact items: {}", desc.join(", "), first_diff(&expect, &got))));
                    } else {
                        // ... and exactly the state of the intact, causally complete items (closure computed here,
                        // not by the library's own dependency check)
                        let closed = causally_complete(&intact);
                        if closed.len() != intact.len() {
                            *self.stats.entry("fault_breaks_causal_closure".into()).or_insert(0) += 1;
                            let expect_c = strip_blocked(&fresh_obs(&closed));
                            let got_c = strip_blocked(&got);
                            if got_c != expect_c {
                                let w = format!("opening damaged storage ({}) yields a state that is not derived from the causally complete items: {}", desc.join(", "), first_diff(&expect_c, &got_c));
                                fails.push(("C10", w.clone()));
                                fails.push(("C02", w));
                            }
                        }
                    }
                }
            }
            // refresh path: a replica opened on the original storage, then the damage appears
            if let Ok(mut m) = fresh_on(&items) {
                let st = SimStore::from_items(items.clone());
                if let Ok(mut m2) = Melda::new(st.dyn_adapter()) {
                    let _ = &mut m;
                    for (k, v) in &dmg {
                        if !items.contains_key(k) {
                            st.put_raw(k, v.clone());
                        }
                    }
                    let rr = catch_unwind(AssertUnwindSafe(|| m2.refresh().is_ok()));
                    if rr.is_err() {
                        fails.push(("C10", format!("refresh after injection ({}) aborts", desc.join(", "))));
                        fails.push(("C08", format!("refresh after injection ({}) aborts", desc.join(", "))));
                    }
                    if rr.unwrap_or(false) {
                        let mut both = items.clone();
                        for (k, v) in &intact {
                            both.entry(k.clone()).or_insert(v.clone());
                        }
                        let expect2 = fresh_obs(&both);
                        let got = obs_doc(&m2);
                        if got != expect2 {
                            fails.push(("C10", format!("refresh after injection ({}) differs from the state of the intact items: {}", desc.join(", "), first_diff(&expect2, &got))));
                        }
                    }
                }
            }
        }
        // corruption of a pack after a replica has loaded it: later reads return the original content or an error
        // a pack is damaged or vanishes AFTER the replica indexed it, then a block naming it arrives: the refresh
        // must hold the block back (the verdict on a pack is not cached across refreshes)
        {
            let named: BTreeSet<String> = keys
                .iter()
                .filter(|k| k.ends_with(".delta"))
                .filter_map(|k| serde_json::from_slice::<Value>(&items[k]).ok())
                .flat_map(|v| v.get("p").and_then(|p| p.as_array().cloned()).unwrap_or_default())
                .filter_map(|p| p.as_str().map(|s| s.to_string()))
                .collect();
            let heads: Vec<(String, Vec<String>)> = keys
                .iter()
                .filter(|k| k.ends_with(".delta"))
                .filter_map(|k| {
                    let id = k.trim_end_matches(".delta").to_string();
                    let v = serde_json::from_slice::<Value>(&items[k]).ok()?;
                    let ks: Vec<String> = v.get("k")?.as_array()?.iter().filter_map(|x| x.as_str().map(|s| s.to_string())).collect();
                    if ks.is_empty() || named.contains(&id) || !ks.iter().all(|p| items.contains_key(&format!("{}.pack", p))) {
                        None
                    } else {
                        Some((id, ks))
                    }
                })
                .collect();
            if !heads.is_empty() {
                let (bid, ks) = g.pick(&heads).clone();
                let bkey = format!("{}.delta", bid);
                let mut base = items.clone();
                base.remove(&bkey);
                let st = SimStore::from_items(base);
                if let Ok(mut live) = Melda::new(st.dyn_adapter()) {
                    let pk = format!("{}.pack", g.pick(&ks));
                    let how = if g.chance(1, 2) {
                        st.remove_raw(&pk);
                        "removed"
                    } else {
                        let mut v = items[&pk].clone();
                        if !v.is_empty() {
                            let i = g.below(v.len());
                            v[i] ^= 1 << g.below(8);
                        }
                        st.put_raw(&pk, v);
                        "damaged"
                    };
                    st.put_raw(&bkey, items[&bkey].clone());
                    let rr = catch_unwind(AssertUnwindSafe(|| live.refresh().is_ok()));
                    *self.stats.entry("pack_lost_before_block_arrives".into()).or_insert(0) += 1;
                    match rr {
                        Err(_) => {
                            fails.push(("C10", format!("refresh aborts when pack {} was {} before block {} arrived", pk, how, bid)));
                            fails.push(("C08", format!("refresh aborts when pack {} was {} before block {} arrived", pk, how, bid)));
                        }
                        Ok(_) => {
                            if live.verif_delta_status().get(&bid) == Some(&"applied") {
                                let w = format!("block {} was applied by a refresh although its pack {} had been {} (the pack was indexed earlier)", bid, pk, how);
                                fails.push(("C02", w.clone()));
                                fails.push(("C10", w));
                            }
                        }
                    }
                }
            }
        }
        // a VALID block whose text is not in the compact form the library writes (another implementation, a pretty
        // printer): it is applied where it is stored, and meld passes it on byte for byte under the same name
        {
            let blocks: Vec<&String> = keys.iter().filter(|k| k.ends_with(".delta")).collect();
            if !blocks.is_empty() {
                let b = (*g.pick(&blocks)).clone();
                let body = &items[&b];
                if body.first() == Some(&b'{') {
                    let mut nc = vec![b'{', b' '];
                    nc.extend_from_slice(&body[1..]);
                    let idx = b.split('-').next().unwrap_or("1");
                    let name = format!("{}-{}.delta", idx, digest_bytes(&nc));
                    let st = SimStore::from_items(items.clone());
                    st.put_raw(&name, nc.clone());
                    if let Ok(live) = Melda::new(st.dyn_adapter()) {
                        let rx_store = SimStore::new();
                        if let Ok(mut rx) = Melda::new(rx_store.dyn_adapter()) {
                            let _ = catch_unwind(AssertUnwindSafe(|| rx.meld(&live)));
                            *self.stats.entry("meld_of_non_canonical_block".into()).or_insert(0) += 1;
                            let applied_at_source = live.verif_delta_status().get(name.trim_end_matches(".delta")).map(|s| *s == "applied").unwrap_or(false);
                            for (k, v) in rx_store.snapshot() {
                                let good = if let Some(d) = k.strip_suffix(".delta") {
                                    d.splitn(2, '-').nth(1).map(|x| digest_bytes(&v) == x).unwrap_or(false)
                                } else if let Some(d) = k.strip_suffix(".pack") {
                                    digest_bytes(&v) == d
                                } else {
                                    true
                                };
                                if !good {
                                    fails.push(("C11", format!("meld stored item {} whose bytes do not hash to its name (source holds a valid block with non-canonical text)", k)));
                                }
                            }
                            if applied_at_source && !rx_store.snapshot().contains_key(&name) {
                                fails.push(("C01", format!("meld did not transfer the valid block {} (non-canonical text)", name)));
                            }
                        }
                    }
                }
            }
        }
        // (blocks too: a block damaged after it was loaded must not be passed on by meld under its old name)
        let packs: Vec<&String> = keys.iter().filter(|k| k.ends_with(".pack") || k.ends_with(".delta")).collect();
        if !packs.is_empty() {
            let st = SimStore::from_items(items.clone());
            if let (Ok(mut live), Ok(orig)) = (Melda::new(st.dyn_adapter()), fresh_on(&items)) {
                for _ in 0..3 {
                    let k = (*g.pick(&packs)).clone();
                    let mut v = items[&k].clone();
                    if v.is_empty() {
                        continue;
                    }
                    let i = g.below(v.len());
                    v[i] ^= 1 << g.below(8);
                    st.put_raw(&k, v);
                    let _ = live.refresh();
                    *self.stats.entry("live_corruptions".into()).or_insert(0) += 1;
                    for u in orig.get_all_objects() {
                        for (rev, _, _) in orig.verif_tree_dump(&u).unwrap_or_default() {
                            let want = orig.get_value(&u, Some(&rev));
                            let got = catch_unwind(AssertUnwindSafe(|| live.get_value(&u, Some(&rev))));
                            if let (Ok(w), Ok(Ok(gv))) = (&want, &got) {
                                if w != gv {
                                    fails.push(("C10", format!("after a bit flip in {} at byte {} revision {} of {} reads altered content {} instead of {}", k, i, rev, u, js(&Value::from(gv.clone())), js(&Value::from(w.clone())))));
                                }
                            }
                        }
                    }
                    // a replica that melds from the damaged one must not store anything under a name its bytes do not hash to
                    let rx_store = SimStore::new();
                    if let Ok(mut rx) = Melda::new(rx_store.dyn_adapter()) {
                        let _ = catch_unwind(AssertUnwindSafe(|| rx.meld(&live)));
                        for (name, bytes) in rx_store.snapshot() {
                            let good = if let Some(d) = name.strip_suffix(".pack") {
                                digest_bytes(&bytes) == d
                            } else if let Some(d) = name.strip_suffix(".delta") {
                                d.splitn(2, '-').nth(1).map(|x| digest_bytes(&bytes) == x).unwrap_or(false)
                            } else {
                                true
                            };
                            if !good {
                                fails.push(("C11", format!("meld from a replica whose {} was damaged after loading stored item {} whose bytes do not hash to its name", k, name)));
                                fails.push(("C10", format!("meld from a replica whose {} was damaged after loading stored item {} whose bytes do not hash to its name", k, name)));
                            }
                        }
                        *self.stats.entry("meld_from_damaged".into()).or_insert(0) += 1;
                    }
                    st.put_raw(&k, items[&k].clone());
                }
            }
        }
        for (p, w) in fails {
            self.fail(p, w);
        }
    }

    /// exchange until nobody learns anything new, then compare everything with everything
    pub fn op_sync(&mut self) {
        let n = self.reps.len();
        let mut fails: Vec<(&str, String)> = vec![];
        for i in 0..n {
            let mut ev = None;
            if let Some(m) = self.reps[i].m.as_mut() {
                if m.has_staging() {
                    let rc = m.commit(None);
                    ev = Some(match &rc {
                        Ok(None) => ("none", json!({})),
                        Ok(Some(a)) => ("ok", json!({"id": a.iter().next().map(|x| x.to_string())})),
                        Err(_) => ("err", json!({})),
                    });
                }
            }
            if let Some((cls, extra)) = ev {
                self.emit("commit", i, cls, extra);
            }
        }
        for round in 0..6 {
            let mut learned = false;
            for i in 0..n {
                for j in 0..n {
                    if i != j {
                        let (a, b) = two(&mut self.reps, i, j);
                        let mut evs: Vec<(&str, &str, Value)> = vec![];
                        if let (Some(ma), Some(mb)) = (a.m.as_mut(), b.m.as_ref()) {
                            let mr = ma.meld(mb);
                            if let Ok(v) = &mr {
                                if !v.is_empty() {
                                    learned = true;
                                }
                            }
                            evs.push(("meld", if mr.is_ok() { "ok" } else { "err" }, json!({"from": j})));
                        }
                        for (p, c, e) in evs.drain(..) {
                            self.emit(p, i, c, e);
                        }
                        let a = &mut self.reps[i];
                        if let Some(ma) = a.m.as_mut() {
                            let rr = ma.refresh();
                            if rr.is_err() {
                                fails.push(("C08", "refresh failed during synchronisation".into()));
                            }
                            a.dirty = false;
                            evs.push(("refresh", if rr.is_ok() { "ok" } else { "err" }, json!({})));
                        }
                        for (p, c, e) in evs.drain(..) {
                            self.emit(p, i, c, e);
                        }
                    }
                }
            }
            if !learned {
                break;
            }
            if round == 5 {
                fails.push(("C01", "synchronisation does not reach a fixpoint".into()));
            }
        }
        self.stat("sync");
        let obs: Vec<Option<Value>> = self.reps.iter().map(|r| r.m.as_ref().map(obs_doc)).collect();
        let stores: Vec<Items> = self.reps.iter().map(|r| r.be.snapshot()).collect();
        for i in 1..n {
            if let (Some(a), Some(b)) = (&obs[0], &obs[i]) {
                if a != b {
                    fails.push(("C01", format!("replicas 0 and {} differ after full synchronisation: {}", i, first_diff(a, b))));
                    let da: BTreeSet<&String> = stores[0].keys().filter(|k| k.ends_with(".delta") || k.ends_with(".pack")).collect();
                    let db: BTreeSet<&String> = stores[i].keys().filter(|k| k.ends_with(".delta") || k.ends_with(".pack")).collect();
                    if da != db {
                        fails.push(("C01", "stores differ after full synchronisation".into()));
                    }
                }
            }
        }
        // a plain file copy of the union into a fresh replica, and delivery in a scrambled order
        if let Some(a) = &obs[0] {
            let mut union = Items::new();
            for s in &stores {
                for (k, v) in s {
                    union.insert(k.clone(), v.clone());
                }
            }
            let f = fresh_obs(&union);
            if &f != a {
                fails.push(("C01", format!("a fresh replica on a file copy differs from the synchronised replicas: {}", first_diff(a, &f))));
            }
            // a literal file copy: the items written into a directory, a replica opened there through its URL
            if !self.light && self.op_index % 3 == 0 {
                if let Some((url, dir)) = url_copy(&union) {
                    match catch_unwind(AssertUnwindSafe(|| Melda::new_from_url(&url))) {
                        Ok(Ok(mu)) => {
                            let fu = obs_doc(&mu);
                            if fu != f {
                                fails.push(("C01", format!("a replica opened through a URL on a directory copy of the items differs from one opened on the items: {}", first_diff(&f, &fu))));
                                fails.push(("C17", format!("a replica opened through a URL on a directory copy of the items differs from one opened on the items: {}", first_diff(&f, &fu))));
                            }
                            *self.stats.entry("new_from_url".into()).or_insert(0) += 1;
                        }
                        Ok(Err(e)) => fails.push(("C17", format!("new_from_url on a directory copy failed: {}", msg_prefix(&e.to_string())))),
                        Err(_) => fails.push(("C08", "new_from_url on a directory copy aborted".into())),
                    }
                    let _ = std::fs::remove_dir_all(&dir);
                }
            }
            // the same items once more: every hash table of the new replica is seeded independently
            let f2 = fresh_obs(&union);
            if f2 != f {
                fails.push(("C18", format!("two fresh replicas on the same items differ (independently seeded hash tables): {}", first_diff(&f, &f2))));
            }
            // the same items listed by storage in other orders
            for perm in [123457u64, 987654321, 0xABCDEF ^ self.op_index as u64] {
                let fp = fresh_obs_perm(&union, perm);
                if fp != f {
                    fails.push(("C01", format!("a fresh replica differs when storage lists the same items in another order (perm {}): {}", perm, first_diff(&f, &fp))));
                    fails.push(("C18", format!("a fresh replica differs when storage lists the same items in another order (perm {}): {}", perm, first_diff(&f, &fp))));
                    break;
                }
                *self.stats.entry("fresh_permuted_listing".into()).or_insert(0) += 1;
            }
            if !self.light {
                let st = SimStore::new();
                st.set_perm(0x5EED ^ self.op_index as u64);
                if let Ok(mut m) = Melda::new(st.dyn_adapter()) {
                    let mut ks: Vec<&String> = union.keys().collect();
                    let mut g = Rng::new(self.op_index as u64 + 77);
                    g.shuffle(&mut ks);
                    for (i, k) in ks.iter().enumerate() {
                        st.put_raw(k, union[*k].clone());
                        if i % 2 == 0 || i + 1 == ks.len() {
                            let _ = m.refresh();
                        }
                    }
                    let got = obs_doc(&m);
                    if &got != a {
                        fails.push(("C01", format!("incremental delivery in a scrambled order differs from the synchronised replicas: {}", first_diff(a, &got))));
                        fails.push(("C02", format!("incremental delivery in a scrambled order differs from a full load: {}", first_diff(a, &got))));
                    }
                }
            }
        }
        for (p, w) in fails {
            self.fail(p, w);
        }
    }
}

fn is_del(rev: &str) -> bool {
    rev.split('-').nth(1).map(|s| s == "d" || s.starts_with("d_")).unwrap_or(false)
}

/// the leaf / winner rule of C05 evaluated on a tree dump, independently of the library
pub fn independent_leafs(dump: &[(String, Option<String>, bool)]) -> (Vec<String>, Option<String>) {
    let parent: HashMap<&String, &Option<String>> = dump.iter().map(|(r, p, _)| (r, p)).collect();
    let is_parent: BTreeSet<&String> = dump.iter().filter_map(|(_, p, _)| p.as_ref()).collect();
    let idx = |r: &str| -> u64 { r.split('-').next().unwrap().parse().unwrap_or(0) };
    let digest = |r: &str| -> String { r.splitn(2, '-').nth(1).unwrap_or("").split('_').next().unwrap_or("").to_string() };
    let mut leafs = vec![];
    for (r, _, _) in dump {
        if digest(r) == "r" || is_parent.contains(r) {
            continue;
        }
        // ancestry must reach a creation revision
        let mut cur = r;
        let mut ok = false;
        for _ in 0..dump.len() + 1 {
            match parent.get(cur) {
                None => break,
                Some(None) => {
                    ok = idx(cur) == 1;
                    break;
                }
                Some(Some(p)) => cur = p,
            }
        }
        if ok {
            leafs.push(r.clone());
        }
    }
    leafs.sort_by(|a, b| (idx(a), a.as_bytes()).cmp(&(idx(b), b.as_bytes())));
    let w = leafs.last().cloned();
    (leafs, w)
}

/// The bodies a replica holds, read from its storage bytes and its exported stage - not through `get_value`:
/// digest -> object, from every hash-valid pack written the way the library writes packs, plus the staged bodies.
fn stored_bodies(m: &Melda, items: &Items) -> BTreeMap<String, Map<String, Value>> {
    let mut out = BTreeMap::new();
    for (k, v) in items {
        if let Some(name) = k.strip_suffix(".pack") {
            if digest_bytes(v) != name {
                continue;
            }
            if let Ok(Value::Array(objs)) = serde_json::from_slice::<Value>(v) {
                for o in objs {
                    if let Value::Object(o) = o {
                        out.insert(digest_string(&js(&Value::from(o.clone()))), o);
                    }
                }
            }
        }
    }
    if let Ok(Ok(Some(st))) = catch_unwind(AssertUnwindSafe(|| m.stage())) {
        if let Some(os) = st.get("o").and_then(|x| x.as_object()) {
            for (d, o) in os {
                if let Value::Object(o) = o {
                    out.entry(d.clone()).or_insert(o.clone());
                }
            }
        }
    }
    out
}

/// the body of a revision according to `stored_bodies` (None: a marker / character code / not stored)
fn body_of<'a>(bodies: &'a BTreeMap<String, Map<String, Value>>, rev: &str) -> Option<&'a Map<String, Value>> {
    let dg = rev.splitn(2, '-').nth(1).unwrap_or("").split('_').next().unwrap_or("");
    bodies.get(dg)
}

/// order of an array version, reconstructed from the stored objects with the harness' own patch code
fn leaf_order(bodies: &BTreeMap<String, Map<String, Value>>, uuid: &str, rev: &str, dump: &[(String, Option<String>, bool)]) -> Option<Vec<String>> {
    let _ = uuid;
    let mut chain = vec![];
    let mut cur = rev.to_string();
    let base: Vec<Value>;
    loop {
        // the stored object of the version (never obtained from the library's own get_value)
        let dg = cur.splitn(2, '-').nth(1).unwrap_or("").split('_').next().unwrap_or("").to_string();
        let o: Map<String, Value> = if dg == "d" {
            json!({"_deleted": true}).as_object().unwrap().clone()
        } else if dg == "r" {
            json!({"_resolved": true}).as_object().unwrap().clone()
        } else if dg == "e" {
            Map::new()
        } else {
            body_of(bodies, &cur)?.clone()
        };
        if let Some(a) = o.get("A") {
            base = a.as_array()?.clone();
            break;
        } else if let Some(p) = o.get("a") {
            chain.push(p.as_array()?.clone());
            cur = dump.iter().find(|(r, _, _)| *r == cur)?.1.clone()?;
        } else if o.contains_key("_deleted") || o.contains_key("_resolved") {
            base = vec![];
            break;
        } else {
            return None;
        }
    }
    let mut order = base;
    for patch in chain.iter().rev() {
        for op in patch {
            let k = op[0].as_str()?;
            if k == "d" {
                let (len, idx) = (op[1].as_u64()? as usize, op[2].as_u64()? as usize);
                if idx + len > order.len() {
                    return None;
                }
                order.drain(idx..idx + len);
            } else if k == "i" {
                let idx = op[1].as_u64()? as usize;
                if idx > order.len() {
                    return None;
                }
                let items = op[2].as_array()?.clone();
                order.splice(idx..idx, items);
            } else {
                return None;
            }
        }
    }
    Some(order.iter().filter_map(|v| v.as_str().map(|s| s.to_string())).collect())
}

/// identifiers of the elements shown for the array with descriptor `^owner@key`
fn visible_array(doc: &Value, duuid: &str) -> Option<Vec<String>> {
    let body = duuid.strip_prefix('^')?;
    let at = body.rfind('@')?;
    let (owner, key) = (&body[..at], &body[at + 1..]);
    fn find<'a>(v: &'a Value, owner: &str) -> Option<&'a Map<String, Value>> {
        match v {
            Value::Object(o) => {
                if o.get("_id").and_then(|i| i.as_str()) == Some(owner) {
                    return Some(o);
                }
                for (k, c) in o {
                    if k.ends_with(FLAT) {
                        if let Some(x) = find(c, owner) {
                            return Some(x);
                        }
                    }
                }
                None
            }
            Value::Array(a) => a.iter().find_map(|c| find(c, owner)),
            _ => None,
        }
    }
    let o = find(doc, owner)?;
    let arr = o.get(key)?.as_array()?;
    Some(arr.iter().filter_map(|e| e.get("_id").and_then(|i| i.as_str()).map(|s| s.to_string())).collect())
}

fn two<T>(v: &mut [T], i: usize, j: usize) -> (&mut T, &mut T) {
    assert!(i != j);
    if i < j {
        let (a, b) = v.split_at_mut(j);
        (&mut a[i], &mut b[0])
    } else {
        let (a, b) = v.split_at_mut(i);
        (&mut b[0], &mut a[j])
    }
}

/// (identifier, object without flattened children) of every tracked object of a document
fn collect_objects(v: &Value, out: &mut Vec<(String, String)>) {
    match v {
        Value::Object(o) => {
            if let Some(Value::String(id)) = o.get("_id") {
                let mut m = Map::new();
                for (k, c) in o {
                    if !k.ends_with(FLAT) {
                        m.insert(k.clone(), c.clone());
                    } else if !c.is_array() && !c.is_object() && !c.is_null() {
                        // (a flattened key that reads `null` marks an object shown elsewhere - an object that
                        // concurrent edits placed under several owners appears exactly once: where it is shown
                        // depends on the pending merge, not on the content of the owner)
                        m.insert(k.clone(), c.clone());
                    }
                }
                out.push((id.clone(), js(&Value::from(m))));
            }
            for (k, c) in o {
                if k.ends_with(FLAT) {
                    collect_objects(c, out);
                }
            }
        }
        Value::Array(a) => a.iter().for_each(|c| collect_objects(c, out)),
        _ => {}
    }
}

/// drop blocks that are not applied from an observation (a block without its pack is held back: invisible)
/// The causally complete part of a set of intact items, computed WITHOUT the library: a block stays only if it
/// parses, every parent it names is a block that stays, and every pack it names is present.  (Blocks the library
/// would refuse for other reasons stay: the result is only ever compared with the library's own view of it.)
fn causally_complete(intact: &Items) -> Items {
    let mut parents: BTreeMap<String, (Vec<String>, Vec<String>)> = BTreeMap::new();
    // digests of the objects held by the (hash-valid) packs
    let mut stored: BTreeSet<String> = BTreeSet::new();
    // The closure judges only what is written the way the library writes it.  Hand-crafted items that the
    // library reads more liberally (a pack that is not an array of canonically printed objects: the scanner
    // indexes every top-level {...} slice; a parent or revision text with surrounding junk: the regexes are
    // unanchored) make it lenient - it then keeps what it cannot judge.
    let mut lenient_objects = false;
    for (k, v) in intact {
        if k.ends_with(".pack") {
            match serde_json::from_slice::<Value>(v) {
                Ok(Value::Array(objs)) if objs.iter().all(|o| o.is_object()) && js(&Value::from(objs.clone())).as_bytes() == &v[..] => {
                    for o in objs {
                        stored.insert(digest_string(&js(&o)));
                    }
                }
                _ => lenient_objects = true,
            }
        }
    }
    let canonical_id = |s: &str| -> bool {
        let mut it = s.splitn(2, '-');
        let (i, d) = (it.next().unwrap_or(""), it.next().unwrap_or(""));
        !i.is_empty() && i.chars().all(|c| c.is_ascii_digit()) && !i.starts_with('0') && !d.is_empty() && d.chars().all(|c| c.is_ascii_hexdigit() && !c.is_ascii_uppercase())
    };
    let canonical_rev = |s: &str| -> bool {
        let mut it = s.splitn(2, '-');
        let (i, rest) = (it.next().unwrap_or(""), it.next().unwrap_or(""));
        !i.is_empty() && i.chars().all(|c| c.is_ascii_digit()) && !i.starts_with('0') && !rest.is_empty() && rest.chars().all(|c| c.is_ascii_alphanumeric() || c == '_')
    };
    // a revision needs no stored body when its digest is a marker or a character code
    let readable = |dg: &str| lenient_objects || dg == "d" || dg == "r" || dg == "e" || (dg.len() <= 8 && u32::from_str_radix(dg, 16).is_ok()) || stored.contains(dg);
    let rev_digest = |rev: &str| -> String { rev.splitn(2, '-').nth(1).unwrap_or("").split('_').next().unwrap_or("").to_string() };
    for (k, v) in intact {
        if let Some(id) = k.strip_suffix(".delta") {
            if let Ok(Value::Object(o)) = serde_json::from_slice::<Value>(v) {
                let strs = |key: &str| -> Option<Vec<String>> {
                    match o.get(key) {
                        None => Some(vec![]),
                        Some(Value::Array(a)) => a.iter().map(|x| x.as_str().map(|s| s.to_string())).collect(),
                        Some(_) => None,
                    }
                };
                if let (Some(ps), Some(ks)) = (strs("p"), strs("k")) {
                    // the index in the name must be one more than the highest parent index (identifier / index
                    // consistency: a valid block copied under another index is junk)
                    let idx = |s: &str| s.split('-').next().and_then(|i| i.parse::<u64>().ok());
                    let want = ps.iter().filter_map(|p| idx(p)).max().unwrap_or(0) + 1;
                    // every object a change record refers to (the new revision's and, for an update, the previous
                    // revision's) must be stored
                    let objects_ok = match o.get("c") {
                        Some(Value::Array(cs)) => cs.iter().all(|c| match c.as_array().map(|r| r.iter().map(|x| x.as_str()).collect::<Vec<_>>()) {
                            Some(r) if r.len() == 2 => r[1].map(|d| readable(d)).unwrap_or(true),
                            Some(r) if r.len() == 3 => r[2].map(|d| readable(d)).unwrap_or(true) && r[1].map(|p| !canonical_rev(p) || readable(&rev_digest(p))).unwrap_or(true),
                            _ => true,
                        }),
                        _ => true,
                    };
                    // (a parent written non-canonically cannot be judged here: such a block is kept, with no parents
                    // as far as the closure is concerned)
                    let odd_parents = ps.iter().any(|p| !canonical_id(p)) || !canonical_id(id);
                    if odd_parents {
                        parents.insert(id.to_string(), (vec![], ks));
                    } else if idx(id) == Some(want) && objects_ok {
                        parents.insert(id.to_string(), (ps, ks));
                    }
                }
            }
        }
    }
    let mut keep: BTreeSet<String> = parents.keys().cloned().collect();
    loop {
        let drop: Vec<String> = keep
            .iter()
            .filter(|id| {
                let (ps, ks) = &parents[*id];
                ps.iter().any(|p| !keep.contains(p)) || ks.iter().any(|k| !intact.contains_key(&format!("{}.pack", k)))
            })
            .cloned()
            .collect();
        if drop.is_empty() {
            break;
        }
        for d in drop {
            keep.remove(&d);
        }
    }
    intact
        .iter()
        .filter(|(k, _)| match k.strip_suffix(".delta") {
            Some(id) => keep.contains(id),
            None => true,
        })
        .map(|(k, v)| (k.clone(), v.clone()))
        .collect()
}

static URL_COUNT: std::sync::atomic::AtomicUsize = std::sync::atomic::AtomicUsize::new(0);

/// the items written through the library's own URL factory into a scratch directory; returns (url, directory)
fn url_copy(items: &Items) -> Option<(String, String)> {
    let base = std::env::var("MVERIF_SCRATCH").unwrap_or_else(|_| "/tmp/mverif_scratch".into());
    let n = URL_COUNT.fetch_add(1, std::sync::atomic::Ordering::SeqCst);
    let dir = format!("{}/url{}_{}", base, std::process::id(), n);
    let _ = std::fs::remove_dir_all(&dir);
    std::fs::create_dir_all(&dir).ok()?;
    let url = format!("file://{}", dir);
    let a = melda::adapter::get_adapter(&url).ok()?;
    for (k, v) in items {
        if v.is_empty() {
            continue; // (the directory backend treats an empty first write specially; not the point here)
        }
        a.write_object(k, v).ok()?;
    }
    Some((url, dir))
}

/// a revision or an object body is staged (a body can be staged without a revision: an object created and
/// removed again through the object API)
fn any_staged(m: &Melda) -> bool {
    m.has_staging() || !m.verif_data_index().1.is_empty()
}

fn strip_blocked(v: &Value) -> Value {
    let mut v = v.clone();
    if let Some(ds) = v.get_mut("deltas").and_then(|d| d.as_object_mut()) {
        ds.retain(|_, d| d["s"] == "applied");
    }
    v
}

/// C13 on one replica: an applied block whose parent is not applied, or whose heads are not the applied blocks
/// without applied children
fn graph_not_closed(m: &Melda) -> Option<String> {
    let st = m.verif_delta_status();
    let applied: BTreeSet<String> = st.iter().filter(|(_, s)| **s == "applied").map(|(k, _)| k.clone()).collect();
    let mut named = BTreeSet::new();
    for id in &applied {
        let d = match m.get_delta(&DeltaId::from(id).ok()?) {
            Ok(Some(d)) => d,
            _ => return Some(format!("applied block {} cannot be retrieved", id)),
        };
        for p in d.parents.unwrap_or_default() {
            if !applied.contains(&p.to_string()) {
                return Some(format!("applied block {} has a parent {} that is not applied", id, p));
            }
            named.insert(p.to_string());
        }
    }
    let heads: BTreeSet<String> = applied.difference(&named).cloned().collect();
    let anchors: BTreeSet<String> = m.get_anchors().iter().map(|a| a.to_string()).collect();
    if heads != anchors {
        return Some(format!("anchors {:?} are not the applied blocks without applied children {:?}", anchors, heads));
    }
    None
}

/// no applied block without its ancestors, packs and objects; reads succeed
fn check_no_mixture(items: &Items) -> Option<String> {
    let m = match fresh_on(items) {
        Ok(m) => m,
        Err(_) => return None,
    };
    let st = m.verif_delta_status();
    for (id, s) in &st {
        if *s == "applied" {
            let d = m.get_delta(&DeltaId::from(id).unwrap()).unwrap().unwrap();
            for p in d.parents.unwrap_or_default() {
                if st.get(&p.to_string()) != Some(&"applied") {
                    return Some(format!("block {} applied without its parent {}", id, p));
                }
            }
            for k in d.packs.unwrap_or_default() {
                if !items.contains_key(&format!("{}.pack", k)) {
                    return Some(format!("block {} applied without its pack {}", id, k));
                }
            }
        }
    }
    for u in m.get_all_objects() {
        for (rev, _, _) in m.verif_tree_dump(&u).unwrap_or_default() {
            match catch_unwind(AssertUnwindSafe(|| m.get_value(&u, Some(&rev)))) {
                Ok(Ok(_)) => {}
                _ => return Some(format!("revision {} of {} is recorded but its data is not readable", rev, u)),
            }
        }
    }
    let rd = read_res(&m);
    if rd.get("panic").is_some() {
        return Some(format!("read aborts: {}", js(&rd)));
    }
    None
}

pub fn first_diff(a: &Value, b: &Value) -> String {
    fn go(path: String, a: &Value, b: &Value) -> Option<String> {
        if a == b {
            return None;
        }
        match (a, b) {
            (Value::Object(x), Value::Object(y)) => {
                let keys: BTreeSet<&String> = x.keys().chain(y.keys()).collect();
                for k in keys {
                    match (x.get(k), y.get(k)) {
                        (Some(u), Some(v)) => {
                            if let Some(d) = go(format!("{}/{}", path, k), u, v) {
                                return Some(d);
                            }
                        }
                        (Some(u), None) => return Some(format!("{}/{}: {} vs <absent>", path, k, trunc(&js(u)))),
                        (None, Some(v)) => return Some(format!("{}/{}: <absent> vs {}", path, k, trunc(&js(v)))),
                        _ => {}
                    }
                }
                None
            }
            _ => Some(format!("{}: {} vs {}", path, trunc(&js(a)), trunc(&js(b)))),
        }
    }
    go(String::new(), a, b).unwrap_or_default()
}

fn trunc(s: &str) -> String {
    if s.chars().count() > 300 {
        s.chars().take(300).collect::<String>() + "…"
    } else {
        s.to_string()
    }
}

// ------------------------------------------------------------------ history generator

pub fn gen_op(w: &World, g: &mut Rng, sim_faults: bool) -> Value {
    let n = w.reps.len();
    let r = g.below(n);
    let rep = &w.reps[r];
    let m = match &rep.m {
        Some(m) => m,
        None => return json!({"op": "reopen", "r": r}),
    };
    let staged = m.has_staging();
    let conflicts = !m.in_conflict().is_empty();
    let other = (r + 1 + g.below(n - 1)) % n;
    let info = |g: &mut Rng| -> Value {
        match g.below(4) {
            0 => Value::Null,
            1 => json!({"author": "é\"x\\", "n": 1.5, "nested": {"a": [1, {"b": null}]}}),
            2 => {
                if g.chance(1, 3) {
                    json!({})
                } else {
                    json!({"t": *g.pick(&special_strings())})
                }
            }
            _ => {
                if g.chance(1, 3) {
                    json!({"seq": g.below(1000), "x": crate::gen::random_double(g)})
                } else {
                    json!({"seq": g.below(1000)})
                }
            }
        }
    };
    let c = g.below(100);
    if conflicts && c < 12 {
        return json!({"op": "resolve", "r": r, "pick": g.below(8), "k": g.below(4)});
    }
    match c {
        0..=33 => {
            let base = if g.chance(1, 5) {
                match read_res(m).get("ok") {
                    Some(v) => strip_root_id(v),
                    None => rep.last_doc.clone(),
                }
            } else if g.chance(1, 12) {
                random_doc(g)
            } else {
                rep.last_doc.clone()
            };
            let doc = if base.as_object().map(|o| o.is_empty()).unwrap_or(true) { random_doc(g) } else { mutate_doc(g, &base) };
            json!({"op": "update", "r": r, "doc": doc})
        }
        34..=49 => match g.below(6) {
            0 => json!({"op": "commit", "r": r, "info": info(g), "then": "reload"}),
            1 => json!({"op": "commit", "r": r, "info": info(g), "then": "refresh"}),
            _ => json!({"op": "commit", "r": r, "info": info(g)}),
        },
        50..=59 => {
            if g.chance(1, 20) {
                let name = *g.pick(&["LOCK", "notes.txt", "README", "x.delta.sign", "ab.pack.bak", "attachment.bin"]);
                json!({"op": "foreign", "r": r, "name": name, "bytes": hex::encode(format!("foreign{}", g.below(5)))})
            } else if g.chance(1, 12) {
                let fail: Vec<usize> = match g.below(4) {
                    0 => vec![0],
                    1 => vec![1],
                    2 => vec![0, 1],
                    _ => vec![0, 2],
                };
                json!({"op": "failmeld", "r": r, "from": other, "fail": fail})
            } else if g.chance(1, 25) {
                json!({"op": "meld", "r": r, "from": r})
            } else {
                json!({"op": "meld", "r": r, "from": other})
            }
        }
        60..=66 => json!({"op": "refresh", "r": r}),
        67..=68 => json!({"op": "reload", "r": r}),
        69..=72 => json!({"op": "reopen", "r": r}),
        73..=74 => json!({"op": "unstage", "r": r}),
        75..=77 => {
            if staged && g.chance(1, 3) {
                json!({"op": "stage_commit_replay", "r": r, "info": info(g)})
            } else if staged {
                json!({"op": "stage_replay", "r": r})
            } else {
                json!({"op": "refresh", "r": r})
            }
        }
        78..=80 => json!({"op": "snapshot", "r": r}),
        81..=89 => json!({"op": "deliver", "r": r, "from": other, "pick": g.below(16)}),
        90..=92 => json!({"op": "timetravel", "r": r, "pick": g.below(16), "stay": g.chance(1, 3)}),
        93 => {
            if g.chance(1, 2) {
                json!({"op": "delete_object", "r": r, "pick": g.below(8)})
            } else {
                // objects outside the document, identical bodies on different replicas on purpose
                // ... and, one time in three, an object of the document itself (an element or a flattened object)
                let doc_objs: Vec<String> = m.get_all_objects().into_iter().filter(|u| !u.starts_with('^') && u != "\u{221A}" && !u.starts_with('k')).collect();
                let uuid: String = if !doc_objs.is_empty() && g.chance(1, 3) { g.pick(&doc_objs).clone() } else { g.pick(&["k0", "k1", "k2"]).to_string() };
                let call = *g.pick(&["create", "update", "update", "remove"]);
                let obj = match g.below(6) {
                    0 => json!({}),
                    1 => json!({"n": g.below(3)}),
                    2 => json!({"s": *g.pick(&special_strings())}),
                    // the object in the shape `read` hands it out (with its identifier), and a hash field of a wrong
                    // type: `digest_object` refuses both - an error, never an abort (D26)
                    3 => json!({"_id": uuid.clone(), "n": g.below(3)}),
                    4 => json!({"#": [1], "n": 1}),
                    _ => json!({"n": 1, "nested": {"a": [1, 2]}}),
                };
                json!({"op": "objapi", "r": r, "call": call, "uuid": uuid, "obj": obj})
            }
        }
        94..=96 => {
            let _ = sim_faults;
            if staged {
                let fail = match g.below(4) {
                    0 => vec![0],
                    1 => vec![1],
                    2 => vec![0, 1],
                    _ => vec![0, 2],
                };
                json!({"op": "failcommit", "r": r, "fail": fail, "repeats": 1 + g.below(2), "info": info(g), "retry": !g.chance(1, 3)})
            } else {
                json!({"op": "commit", "r": r, "info": info(g)})
            }
        }
        97 => {
            if g.chance(1, 3) {
                json!({"op": "deep", "r": r, "depth": *g.pick(&[60usize, 98, 99, 100, 127, 130, 300]), "where": *g.pick(&["doc", "doc", "info", "obj"])})
            } else {
                json!({"op": "faults", "r": r, "seed": g.next() % 100000})
            }
        }
        _ => json!({"op": "sync"}),
    }
}

// ------------------------------------------------------------------ CLI

fn arg<'a>(args: &'a [String], name: &str, default: &'a str) -> &'a str {
    args.iter().position(|a| a == name).and_then(|i| args.get(i + 1)).map(|s| s.as_str()).unwrap_or(default)
}

/// mverif sim gen --seed S --count N --ops K --out DIR [--backend sim|fs|sqlite|..] [--light] [--perm P]
/// mverif sim replay --trace FILE --out DIR [--backend ..]
pub fn main(args: &[String]) {
    let mode = args.first().map(|s| s.as_str()).unwrap_or("");
    let out = arg(args, "--out", "/tmp/mverif_out").to_string();
    std::fs::create_dir_all(&out).unwrap();
    let backend = arg(args, "--backend", "sim").to_string();
    let light = args.iter().any(|a| a == "--light");
    let fails_path = format!("{}/fails.jsonl", out);
    let _ = std::fs::remove_file(&fails_path);
    *CURRENT.lock().unwrap() = Some((fails_path.clone(), String::new()));
    // (no operation of any generated or corpus history takes a second on an idle machine; the limit is generous
    // because checks may run while the machine is saturated; MVERIF_WATCHDOG_MS overrides it)
    start_watchdog(std::env::var("MVERIF_WATCHDOG_MS").ok().and_then(|x| x.parse().ok()).unwrap_or(60_000));
    let mut ff = std::fs::File::create(&fails_path).unwrap();
    let mut summary = Map::new();
    let mut stats_total: BTreeMap<String, usize> = BTreeMap::new();
    match mode {
        "gen" => {
            let seed: u64 = arg(args, "--seed", "1").parse().unwrap();
            let count: usize = arg(args, "--count", "10").parse().unwrap();
            let ops: usize = arg(args, "--ops", "40").parse().unwrap();
            let perm: u64 = arg(args, "--perm", "0").parse().unwrap();
            let mut digests = vec![];
            let mut samples = vec![];
            let mut nontrivial = 0usize;
            for h in 0..count {
                let mut g = Rng::new(seed.wrapping_mul(1000003).wrapping_add(h as u64));
                let nrep = 2 + g.below(2);
                let dir = format!("{}/be{}", out, h);
                if backend != "sim" {
                    let _ = std::fs::remove_dir_all(&dir);
                    std::fs::create_dir_all(&dir).unwrap();
                }
                *CURTRACE.lock().unwrap() = Some((format!("{}/hang_{}_{}.trace", out, seed, h), vec![js(&json!({"replicas": nrep, "backend": backend}))]));
                let mut w = World::new(nrep, &backend, &dir, light);
                if perm != 0 {
                    for rp in &w.reps {
                        if let Backend::Sim(s) = &rp.be {
                            s.set_perm(perm);
                        }
                    }
                }
                for _ in 0..ops {
                    let op = gen_op(&w, &mut g, backend == "sim");
                    w.apply(&op);
                    if !w.fails.is_empty() {
                        break;
                    }
                }
                if w.fails.is_empty() {
                    w.apply(&json!({"op": "sync"}));
                }
                // time travel to every set of heads replica 0 ever had (most recent first)
                let nheads = w.reps[0].heads_log.len();
                for k in 0..nheads.min(8) {
                    if !w.fails.is_empty() {
                        break;
                    }
                    w.apply(&json!({"op": "timetravel", "r": 0, "pick": nheads - 1 - k}));
                }
                let final_obs: Vec<Value> = w.reps.iter().map(|r| r.m.as_ref().map(obs_noblocks).unwrap_or(Value::Null)).collect();
                let dg = digest_string(&js(&Value::from(final_obs)));
                digests.push(json!([h, dg]));
                let conflict_seen = w.stats.contains_key("op:resolve");
                if conflict_seen || w.stats.get("deliver_single_file").cloned().unwrap_or(0) > 0 {
                    nontrivial += 1;
                }
                for (k, v) in &w.stats {
                    *stats_total.entry(k.clone()).or_insert(0) += v;
                }
                if conflict_seen {
                    *stats_total.entry("histories_with_conflict".into()).or_insert(0) += 1;
                }
                if w.reps.iter().any(|r| r.array_conflict_seen) {
                    *stats_total.entry("histories_with_array_conflict_at_update".into()).or_insert(0) += 1;
                }
                if let Some(pd) = args.iter().position(|a| a == "--ptrace-dir").and_then(|i| args.get(i + 1)) {
                    std::fs::create_dir_all(pd).unwrap();
                    std::fs::write(format!("{}/h{}.ptrace", pd, h), w.ptrace.join("\n") + "\n").unwrap();
                }
                let _ = std::fs::remove_file(format!("{}/current_{}_{}.trace", out, seed, h));
                if !w.fails.is_empty() {
                    let tpath = format!("{}/fail_{}_{}.trace", out, seed, h);
                    let mut tf = std::fs::File::create(&tpath).unwrap();
                    writeln!(tf, "{}", json!({"replicas": nrep, "backend": backend})).unwrap();
                    for op in &w.trace {
                        writeln!(tf, "{}", op).unwrap();
                    }
                    for f in &w.fails {
                        writeln!(ff, "{}", json!({"property": f.property, "what": f.what, "op_index": f.op_index, "history": h, "seed": seed, "trace": tpath})).unwrap();
                    }
                }
                if h < 2 {
                    samples.push(json!({"replicas": nrep, "ops": w.trace.iter().take(12).cloned().collect::<Vec<_>>()}));
                }
                if backend != "sim" {
                    drop(w);
                    let _ = std::fs::remove_dir_all(&dir);
                }
            }
            summary.insert("histories".into(), json!(count));
            summary.insert("nontrivial_histories".into(), json!(nontrivial));
            summary.insert("digests".into(), Value::from(digests));
            summary.insert("samples".into(), Value::from(samples));
        }
        "replay" => {
            let text = std::fs::read_to_string(arg(args, "--trace", "")).unwrap();
            let mut lines = text.lines().filter(|l| !l.trim().is_empty());
            let head: Value = serde_json::from_str(lines.next().unwrap()).unwrap();
            let nrep = head["replicas"].as_u64().unwrap() as usize;
            let dir = format!("{}/be", out);
            if backend != "sim" {
                let _ = std::fs::remove_dir_all(&dir);
                std::fs::create_dir_all(&dir).unwrap();
            }
            let mut w = World::new(nrep, &backend, &dir, light);
            for l in lines {
                let op: Value = serde_json::from_str(l).unwrap();
                w.apply(&op);
            }
            for f in &w.fails {
                writeln!(ff, "{}", json!({"property": f.property, "what": f.what, "op_index": f.op_index})).unwrap();
            }
            if let Some(pd) = args.iter().position(|a| a == "--ptrace-dir").and_then(|i| args.get(i + 1)) {
                std::fs::create_dir_all(pd).unwrap();
                std::fs::write(format!("{}/h0.ptrace", pd), w.ptrace.join("\n") + "\n").unwrap();
            }
            for (k, v) in &w.stats {
                *stats_total.entry(k.clone()).or_insert(0) += v;
            }
            summary.insert("histories".into(), json!(1));
        }
        _ => {
            eprintln!("usage: mverif sim gen|replay ...");
            std::process::exit(2);
        }
    }
    summary.insert("stats".into(), json!(stats_total));
    std::fs::write(format!("{}/summary.json", out), js(&Value::from(summary))).unwrap();
}
