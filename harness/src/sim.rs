pub fn main(_args: &[String]) {}
