mod gen;
mod pure;
mod store;
mod sim;

use serde_json::{json, Value};
use std::io::Write;

fn usage() -> ! {
    eprintln!("usage: mverif pure <channel> <seed> <count> <req_out> <impl_out> <oracle_out>");
    eprintln!("       mverif answer <req_in> <impl_out> <oracle_out>");
    eprintln!("       mverif sim ... (see sim.rs)");
    std::process::exit(2)
}

fn run_requests(reqs: &[Value], impl_out: &str, oracle_out: &str) {
    let mut fi = std::io::BufWriter::new(std::fs::File::create(impl_out).unwrap());
    let mut fo = std::io::BufWriter::new(std::fs::File::create(oracle_out).unwrap());
    for (i, q) in reqs.iter().enumerate() {
        writeln!(fi, "{}", pure::answer(q)).unwrap();
        for (p, what) in pure::oracle(q) {
            writeln!(fo, "{}", json!({"property": p, "what": what, "index": i, "request": q})).unwrap();
        }
    }
}

fn main() {
    if std::env::var("MVERIF_PANICS").is_err() { std::panic::set_hook(Box::new(|_| {})); }
    let args: Vec<String> = std::env::args().collect();
    if args.len() < 2 {
        usage();
    }
    match args[1].as_str() {
        "pure" => {
            if args.len() < 8 {
                usage();
            }
            let seed: u64 = args[3].parse().unwrap();
            let count: usize = args[4].parse().unwrap();
            let mut r = gen::Rng::new(seed ^ 0xABCD);
            let reqs = pure::gen_requests(&args[2], &mut r, count);
            let mut fq = std::io::BufWriter::new(std::fs::File::create(&args[5]).unwrap());
            for q in &reqs {
                writeln!(fq, "{}", q).unwrap();
            }
            run_requests(&reqs, &args[6], &args[7]);
        }
        "answer" => {
            if args.len() < 5 {
                usage();
            }
            let text = std::fs::read_to_string(&args[2]).unwrap();
            let reqs: Vec<Value> = text.lines().filter(|l| !l.trim().is_empty()).map(|l| serde_json::from_str(l).unwrap()).collect();
            run_requests(&reqs, &args[3], &args[4]);
        }
        "sim" => sim::main(&args[2..]),
        _ => usage(),
    }
}
