#!/usr/bin/env python3
"""C08 translator: extracts the lock-acquisition structure of `impl Melda` (melda.rs) and
`impl DataStorage` (datastorage.rs) and writes it as a Lean term (Melda/Gen/LockProgs.lean)
together with the may-acquire table (a fixpoint the Lean checker re-verifies) and the obligation
`extracted_safe : safe fns table allow = true`.

usage: lockx.py <melda.rs> <datastorage.rs> <out.lean> [namespace] [true|false]

Node kinds (see lean/Melda/LockProg.lean): acq, drop, call, stmt (temporaries die at its end),
scope (bound guards die at its end), loop, par (closure run on rayon workers), branch.
Anything whose receiver the translator cannot classify becomes lock class `unknown`, which the checker
treats as conflicting with everything: a construct that is not understood is loud, not silent.
"""
import re, sys, json

def strip(src):
    out=[]; i=0; n=len(src)
    while i<n:
        c=src[i]
        if src.startswith('//',i):
            j=src.find('\n',i); j=n if j<0 else j; i=j; continue
        if src.startswith('/*',i):
            j=src.find('*/',i); i=j+2; continue
        if c=='"':
            j=i+1
            while src[j]!='"':
                j+=2 if src[j]=='\\' else 1
            out.append('"S"'); i=j+1; continue
        if c=='r' and src.startswith('r#"',i):
            j=src.find('"#',i+3); out.append('"S"'); i=j+2; continue
        if c=='r' and src.startswith('r"',i) and not (i>0 and (src[i-1].isalnum() or src[i-1]=='_')):
            j=src.find('"',i+2); out.append('"S"'); i=j+1; continue
        if c=="'" :
            m=re.match(r"'(\\.|[^\\'])'",src[i:])
            if m: out.append("'c'"); i+=m.end(); continue
        out.append(c); i+=1
    return ''.join(out)

TOK=re.compile(r"\s+|([A-Za-z_][A-Za-z0-9_]*|\d[\w.]*|\"S\"|'c'|'[a-z_]+|=>|->|::|==|!=|<=|>=|&&|\|\||\.\.|[{}()\[\];,.<>=!&|?:+\-*/%#@^~$])")
def tokenize(s):
    toks=[]; i=0
    while i<len(s):
        m=TOK.match(s,i)
        if not m: raise SystemExit(f"tok fail at {s[i:i+30]!r}")
        if m.group(1): toks.append(m.group(1))
        i=m.end()
    return toks

OPEN={'{':'}','(':')','[':']'}
def match_close(t,i):
    d=0
    while True:
        if t[i] in OPEN: d+=1
        elif t[i] in OPEN.values(): d-=1
        if d==0: return i
        i+=1

def functions(toks, implname):
    res={}
    i=0
    while i<len(toks)-2:
        if toks[i]=='impl' and toks[i+1]==implname and toks[i+2]=='{':
            end=match_close(toks,i+2); j=i+3
            while j<end:
                if toks[j]=='fn':
                    name=toks[j+1]; k=j+2
                    while toks[k]!='{' :
                        if toks[k] in '([': k=match_close(toks,k)
                        k+=1
                    e=match_close(toks,k)
                    ispub = toks[j-1]=='pub'
                    body=toks[k+1:e]
                    # a parameter of the impl's own type (`other: &Melda`) is the second instance: normalised to the
                    # name `other`, whatever the source calls it
                    sig=toks[j+2:k]
                    for q in range(len(sig)-3):
                        if sig[q+1]==':' and sig[q+2]=='&' and (sig[q+3]==implname or (sig[q+3]=='mut' and q+4<len(sig) and sig[q+4]==implname)):
                            pn=sig[q]
                            if pn not in ('self','other'):
                                body=['other' if x==pn else x for x in body]
                    res[name]=(ispub,body); j=e+1
                else: j+=1
            i=end
        i+=1
    return res

LOCKM={'read':'R','write':'W','lock':'M'}
KEYWORDS={'in','if','let','match','return','for','while','else','mut','ref','move','as','loop','break','continue','='}
def recv_text(t,i):
    j=i-1; parts=[]
    while j>=0:
        if t[j] in (')',']'):
            d=0
            while True:
                if t[j] in (')',']'): d+=1
                elif t[j] in ('(','['): d-=1
                if d==0: break
                j-=1
            parts.append('()'); j-=1; continue
        if t[j] in KEYWORDS: break
        if re.match(r'[A-Za-z_]',t[j]) or t[j] in ('.','?'):
            parts.append(t[j]); j-=1; continue
        break
    return ''.join(reversed(parts))

FIELDS=(('documents','docs'),('data','data'),('deltas','deltas'),('array_descriptors_cache','acache'),('adapter','adapter'),('cache','dcache'))

def classify(recv, method='lock', ctx=None):
    """Lock class of the receiver of `.read()` / `.write()` / `.lock()`.

    Decided by what the receiver IS, not by what a local variable happens to be called (a harmless renaming
    must not change the extracted program):
      * a field of the replica / the data storage (`self.F`, `other.F`, `<guard>.F`): the class of that field;
        an unknown field of `self` is UNKNOWN (conflicts with everything: a lock this checker knows nothing about);
      * a local bound to such a field (`let c = &self.cache`, `self.adapter.clone()`, `data.get_adapter()`): that class;
      * a local bound to `Mutex::new(..)` in the same function: a function-local mutex;
      * any other local or expression: the only mutexes that are not fields are the per-object tree mutexes (the
        values of `documents`), the only read-write locks that are not fields are the per-block locks (the values
        of `deltas`) - so `.lock()` is a tree lock and `.read()` / `.write()` a block lock."""
    ctx = ctx or {}
    r=recv
    inst='other' if r.startswith('other') else 'self'
    for f,c in FIELDS:
        if r in ('self.'+f,'other.'+f): return (c,inst)
    base=r.split('.')[0]
    # a path ending in a known field name (`data_w.cache`, `other_data.adapter`)
    last=r.split('.')[-1]
    if '.' in r and re.match(r'^[a-z_]\w*$', last):
        for f,c in FIELDS:
            if last==f: return (c,inst)
        if base in ('self','other') and r.count('.')==1:
            return ('UNKNOWN:'+r,inst)          # a field this checker does not know
    al=ctx.get('alias',{})
    if r in al: return (al[r], 'other' if r.startswith('other') else 'self')
    if r in ctx.get('local_mutex',()): return ('local',inst)
    if method=='lock': return ('tree*',inst)
    return ('delta*',inst)

def fn_context(t):
    """aliases of fields and function-local mutexes, from the `let` statements of one function body"""
    alias={}; local=set()
    i=0
    while i<len(t):
        if t[i]=='let':
            j=i+1
            names=[]
            while j<len(t) and t[j] not in ('=',';'):
                if re.match(r'^[a-z_]\w*$',t[j]) and t[j] not in ('mut','ref'): names.append(t[j])
                j+=1
            if j<len(t) and t[j]=='=' and names:
                k=j+1; rhs=[]
                while k<len(t) and t[k]!=';':
                    rhs.append(t[k]); k+=1
                txt=''.join(rhs)
                name=names[0]
                if 'Mutex::new' in txt and '.lock' not in txt:
                    local.add(name)
                elif 'get_adapter' in txt and not any(m in rhs for m in ('read','write','lock')):
                    alias[name]='adapter'
                else:
                    m=re.match(r'^&?(?:Arc::clone\(&)?(?:self|other)\.([a-z_]+)(?:\.clone\(\))?\)?$', txt)
                    if m:
                        for f,c in FIELDS:
                            if m.group(1)==f: alias[name]=c
        i+=1
    # locals that hold a guard of the data storage (`let data_w = self.data.write()...`): method calls on them are
    # calls of `DataStorage` functions - recognised by the binding, not by the name
    guards={}
    for i in range(len(t)-6):
        if t[i]=='let':
            j=i+1; names=[]
            while j<len(t) and t[j] not in ('=',';'):
                if re.match(r'^[a-z_]\w*$',t[j]) and t[j] not in ('mut','ref'): names.append(t[j])
                j+=1
            if j<len(t) and t[j]=='=' and names and j+5<len(t) and t[j+1] in ('self','other') and t[j+2]=='.' and t[j+3]=='data' and t[j+4]=='.' and t[j+5] in ('read','write'):
                guards[names[0]]=t[j+1]
    return {'alias':alias,'local_mutex':local,'data_guards':guards}

class P:
    def __init__(s,fnames,dsnames,infile,ctx=None): s.fn=fnames; s.ds=dsnames; s.infile=infile; s.ctx=ctx or {}
    def block(s,t):
        out=[]; i=0
        while i<len(t):
            if t[i]=='{':
                e=match_close(t,i); out.append(['scope',s.block(t[i+1:e])]); i=e+1; continue
            k=i
            while k<len(t):
                if t[k] in '([': k=match_close(t,k)+1; continue
                if t[k]=='{':
                    k=match_close(t,k)+1
                    if t[i] in ('if','for','while','loop','match','unsafe') and (k>=len(t) or t[k] not in ('else','.','?',';')):
                        break
                    continue
                if t[k]==';': k+=1; break
                k+=1
            out.append(s.stmt(t[i:k])); i=k
        return out
    def stmt(s,t):
        if t and t[0]=='for':
            k=1
            while t[k]!='{':
                if t[k] in '([': k=match_close(t,k)
                k+=1
            e=match_close(t,k)
            return ['stmt', s.expr(t[1:k])+[['loop',[['scope',s.block(t[k+1:e])]]]]]
        if t and t[0] in ('if','while'):
            return ['stmt', s.ifchain(t)]
        if t and t[0]=='let':
            try: eq=t.index('=')
            except ValueError: return ['stmt',[]]
            name=[x for x in t[1:eq] if re.match(r'[a-z_]\w*$',x) and x!='mut']
            rhs=t[eq+1:]
            if rhs and rhs[-1]==';': rhs=rhs[:-1]
            b=s.bound_acq(rhs)
            if b and name: return ['acq',b[0],b[1],b[2],name[0]]
            return ['stmt',s.expr(rhs)]
        return ['stmt',s.expr(t)]
    def ifchain(s,t):
        kw=t[0]; k=1
        while t[k]!='{':
            if t[k] in '([': k=match_close(t,k)
            k+=1
        cond=t[1:k]; e=match_close(t,k)
        body=['scope',s.block(t[k+1:e])]
        rest=t[e+1:]
        alts=[[body]]
        if rest and rest[0]=='else':
            if len(rest)>1 and rest[1]=='if': alts.append(s.ifchain(rest[1:]))
            else:
                e2=match_close(rest,1); alts.append([['scope',s.block(rest[2:e2])]])
        else: alts.append([])
        inner=['loop',[['branch',alts]]] if kw=='while' else ['branch',alts]
        if 'let' in cond[:1]:
            return s.expr(cond)+[inner]          # `if let`: temporaries live through the blocks
        return [['stmt',s.expr(cond)], inner]     # plain `if`: temporaries dropped before the block
    def bound_acq(s,rhs):
        for i,x in enumerate(rhs):
            if x in LOCKM and i>0 and rhs[i-1]=='.' and rhs[i+1:i+3]==['(',')']:
                tail=rhs[i+3:]
                j=0; ok=True
                while j<len(tail):
                    if tail[j:j+4]==['.','unwrap','(',')']: j+=4
                    elif tail[j]=='?': j+=1
                    elif tail[j]=='.' and j+2<len(tail) and tail[j+1] in ('expect','unwrap_or_else','map_err','or_else','unwrap_or_default') and tail[j+2]=='(':
                        # (still the guard itself: how a poisoned lock or an error is dealt with)
                        j=match_close(tail,j+2)+1
                    else: ok=False; break
                if ok:
                    pre=s.expr(rhs[:i-1])
                    if pre: return None
                    c=classify(recv_text(rhs,i-1),x,s.ctx); return (c[0],LOCKM[x],c[1])
                return None
        return None
    def expr(s,t,pre_par=False):
        ev=[]; i=0
        while i<len(t):
            x=t[i]
            if x=='|' and (i==0 or t[i-1] in ('(',',')) :
                j=i+1
                while t[j]!='|': j+=1
                par=pre_par or any(p in t[:i] for p in ('par_iter','into_par_iter','par_iter_mut'))
                if t[j+1]=='{':
                    e=match_close(t,j+1); body=[['scope',s.block(t[j+2:e])]]; i=e+1
                else:
                    k=j+1
                    while k<len(t) and t[k] not in (',',')'):
                        if t[k] in OPEN: k=match_close(t,k)
                        k+=1
                    body=[['stmt',s.expr(t[j+1:k])]]; i=k
                ev.append(['par' if par else 'loop',body]); continue
            if x=='{' :
                e=match_close(t,i)
                ev.append(['scope',s.block(t[i+1:e])]); i=e+1; continue
            if x=='match':
                k=i+1
                while t[k]!='{':
                    if t[k] in '([': k=match_close(t,k)
                    k+=1
                e=match_close(t,k)
                ev+=s.expr(t[i+1:k]); ev.append(['branch',s.arms(t[k+1:e])]); i=e+1; continue
            if x in ('if',):
                k=i
                while True:
                    while t[k]!='{':
                        if t[k] in '([': k=match_close(t,k)
                        k+=1
                    k=match_close(t,k)+1
                    if k<len(t) and t[k]=='else': k+=1; continue
                    break
                ev+=s.ifchain(t[i:k]); i=k; continue
            if x in ('Self','Melda','DataStorage') and i+3<len(t) and t[i+1]=='::' and t[i+3]=='(' and re.match(r'[a-z_]\w*$',t[i+2]):
                # a call in function syntax: `Self::f(self, ..)`, `Melda::f(other, ..)`; the receiver is the first argument
                e=match_close(t,i+3)
                args=t[i+4:e]
                first=[a for a in args[:3] if a not in ('&','mut')]
                fname=t[i+2]
                own = 'melda' if (x=='Melda' or (x=='Self' and s.infile=='melda')) else 'ds'
                tgt=None
                if first and first[0] in ('self','other'):
                    if own=='melda' and fname in s.fn: tgt=('M',fname,first[0])
                    elif own=='ds' and fname in s.ds: tgt=('D',fname,first[0])
                elif first and own=='ds' and first[0] in s.ctx.get('data_guards',{}) and fname in s.ds:
                    tgt=('D',fname,'other' if s.ctx['data_guards'][first[0]]=='other' else 'self')
                ev+=s.expr(args, pre_par)
                if tgt: ev.append(['call',tgt[0]+'.'+tgt[1],tgt[2]])
                i=e+1; continue
            if x=='drop' and t[i+1]=='(' and t[i+3]==')':
                ev.append(['drop',t[i+2]]); i+=4; continue
            if x in LOCKM and i>0 and t[i-1]=='.' and t[i+1:i+3]==['(',')']:
                c=classify(recv_text(t,i-1),x,s.ctx)
                ev.append(['acq',c[0],LOCKM[x],c[1],None])
                i+=3; continue
            if re.match(r'[a-z_]\w*$',x) and i+1<len(t) and t[i+1]=='(' and i>0 and t[i-1]=='.':
                recv=recv_text(t,i-1)
                tgt=None
                if recv=='self' and x in s.fn and s.infile=='melda': tgt=('M',x,'self')
                elif recv=='other' and x in s.fn: tgt=('M',x,'other')
                elif recv=='self' and x in s.ds and s.infile=='ds': tgt=('D',x,'self')
                elif recv.split('.')[0] in s.ctx.get('data_guards',{}) and x in s.ds: tgt=('D',x,'other' if s.ctx['data_guards'][recv.split('.')[0]]=='other' else 'self')
                e=match_close(t,i+1)
                chain_par = any(p in t[:i] for p in ('par_iter','into_par_iter','par_iter_mut'))
                ev+=s.expr(t[i+2:e], pre_par or chain_par)          # arguments are evaluated before the call
                if tgt: ev.append(['call',tgt[0]+'.'+tgt[1],tgt[2]])
                i=e+1; continue
            if x in '([':
                e=match_close(t,i)
                chain_par = any(p in t[:i] for p in ('par_iter','into_par_iter','par_iter_mut'))
                ev+=s.expr(t[i+1:e], pre_par or chain_par); i=e+1; continue
            i+=1
        return ev
    def arms(s,t):
        alts=[]; i=0
        while i<len(t):
            k=i
            while t[k]!='=>':
                if t[k] in OPEN: k=match_close(t,k)
                k+=1
            k+=1
            if t[k]=='{':
                e=match_close(t,k); alts.append([['scope',s.block(t[k+1:e])]]); i=e+1
                if i<len(t) and t[i]==',': i+=1
            else:
                e=k
                while e<len(t) and t[e]!=',':
                    if t[e] in OPEN: e=match_close(t,e)
                    e+=1
                alts.append([['stmt',s.expr(t[k:e])]]); i=e+1
        return alts

def prune(n):
    if isinstance(n,list) and n and isinstance(n[0],str):
        k=n[0]
        if k in ('stmt','scope','loop','par'):
            body=[prune(x) for x in n[1]]; body=[b for b in body if b]
            return [k,body] if body else None
        if k=='branch':
            alts=[[b for b in (prune(x) for x in a) if b] for a in n[1]]
            return ['branch',alts] if any(alts) else None
        return n
    return n

CLS={'docs':'.docs','data':'.data','deltas':'.deltas','acache':'.acache','adapter':'.adapter','dcache':'.dcache','tree*':'.tree','delta*':'.delta','local':'.localm'}

def lean_lk(c,m,inst):
    cls=CLS.get(c,'.unknown')
    return "⟨%s, .%s, .%s⟩" % (cls, inst, m)

def emit(n, names, idx):
    k=n[0]
    if k=='acq':
        b=n[4]
        if b is None: bs='none'
        else:
            if b not in names: names[b]=len(names)
            bs='(some %d)'%names[b]
        return ".acq %s %s" % (lean_lk(n[1],n[2],n[3]), bs)
    if k=='drop':
        if n[1] not in names: names[n[1]]=len(names)
        return ".drop %d" % names[n[1]]
    if k=='call':
        return ".call %d .%s" % (idx[n[1]], n[2])
    if k in ('stmt','scope','loop','par'):
        return ".%s [%s]" % (k, ", ".join(emit(x,names,idx) for x in n[1]))
    if k=='branch':
        return ".branch [%s]" % ", ".join("[%s]" % ", ".join(emit(x,names,idx) for x in a) for a in n[1])
    raise SystemExit("bad node %r"%(n,))

def direct(n, acqs, calls):
    k=n[0]
    if k=='acq': acqs.add((n[1],n[3],n[2]))
    elif k=='call': calls.add((n[1],n[2]))
    elif k in ('stmt','scope','loop','par'):
        for x in n[1]: direct(x,acqs,calls)
    elif k=='branch':
        for a in n[1]:
            for x in a: direct(x,acqs,calls)

def flip(inst,on):
    if on=='self': return inst
    return 'other' if inst=='self' else 'self'

if __name__=='__main__':
    m=tokenize(strip(open(sys.argv[1]).read())); d=tokenize(strip(open(sys.argv[2]).read()))
    mf=functions(m,'Melda'); df=functions(d,'DataStorage')
    out={}
    for name,(pub,body) in mf.items():
        out['M.'+name]={'pub':pub,'body':[b for b in (prune(x) for x in P(set(mf),set(df),'melda',fn_context(body)).block(body)) if b]}
    for name,(pub,body) in df.items():
        out['D.'+name]={'pub':pub,'body':[b for b in (prune(x) for x in P(set(mf),set(df),'ds',fn_context(body)).block(body)) if b]}
    names=sorted(out)
    idx={n:i for i,n in enumerate(names)}
    # may-acquire table: least fixpoint
    acq={n:set() for n in names}; calls={n:set() for n in names}
    for n in names:
        for x in out[n]['body']: direct(x,acq[n],calls[n])
    changed=True
    while changed:
        changed=False
        for n in names:
            for (g,on) in calls[n]:
                for (c,inst,mode) in list(acq[g]):
                    e=(c,flip(inst,on),mode)
                    if e not in acq[n]: acq[n].add(e); changed=True
    L=[]
    L.append("/- GENERATED by tools/lockx.py from %s and %s: do not edit. -/" % (sys.argv[1], sys.argv[2]))
    ns = sys.argv[4] if len(sys.argv) > 4 else "Melda.Gen"
    expect = sys.argv[5] if len(sys.argv) > 5 else "true"
    L.append("import Melda.LockProg\nnamespace %s\nopen Melda.Lock\n" % ns)
    L.append("def fns : List Fn := [")
    for i,n in enumerate(names):
        nm={}
        body=", ".join(emit(x,nm,idx) for x in out[n]['body'])
        L.append("  ⟨\"%s\", %s, [%s]⟩%s" % (n, 'true' if out[n]['pub'] else 'false', body, ',' if i+1<len(names) else ''))
    L.append("]\n")
    L.append("def table : List (List Lk) := [")
    for i,n in enumerate(names):
        L.append("  [%s]%s" % (", ".join(lean_lk(c,mode,inst) for (c,inst,mode) in sorted(acq[n])), ',' if i+1<len(names) else ''))
    L.append("]\n")
    allow=[]
    if 'M.check_delta' in idx:
        allow.append("(%d, %d, .delta)" % (idx['M.check_delta'], idx['M.check_delta']))
    L.append("/-- `check_delta` recurses into a *parent* block while holding the child's lock: a different\n    instance, because parents have strictly smaller indices (`Props.C10.viewOf_ok`, `Props.Proto.checkDelta_spec`). -/")
    L.append("def allow : List (Nat × Nat × LClass) := [%s]\n" % ", ".join(allow))
    if expect == "true":
        L.append("theorem extracted_safe : safe fns table allow = true := by decide +kernel\n")
    else:
        L.append("/-- the translator and checker must reject the historical defect D2 (commit -> resolve_as while\n    the tree mutex and the documents guard are held): validated on every run -/")
        L.append("theorem fixture_unsafe : safe fns table allow = false := by decide +kernel\n")
    L.append("end %s" % ns)
    open(sys.argv[3],'w').write("\n".join(L)+"\n")
    print("lockx: %d functions, %d with lock operations" % (len(names), sum(1 for n in names if acq[n])))
