#!/bin/bash
# re-confirms every seeded change against the current /repo HEAD (after a fix commit changed the tree)
cd /verif
for s in $(ls seeded | grep -v "RESULTS\|^_"); do
  r=$(tools/confirm_seed.sh ${s%-*} /verif/seeded/$s $s 2>&1 | tail -1)
  echo "$r"
done
