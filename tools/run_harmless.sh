#!/bin/bash
# Runs every check against every behaviour-preserving change under harmless/<id>/patch.diff (written by an independent
# sub-agent: extractions of helpers, loop/iterator rewrites, renamings ...), in a scratch copy of the repository
# (MELDA_REPO), and writes harmless/RESULTS.tsv: any VIOLATION line here is a false alarm of the machinery.
# usage: tools/run_harmless.sh <scratch-repo-dir> [ids...]   (run from a copy of /verif, e.g. `vp run --with-repo`)
set -u
R=$1; shift
V=$(cd "$(dirname "$0")/.." && pwd)
export MELDA_REPO=$R
cd $V
test -f $R/Cargo.lock || cp /repo/Cargo.lock $R/
IDS=${@:-$(ls harmless | grep -v RESULTS)}
OUT=$V/harmless/RESULTS.tsv
: > $OUT
(cd lean && lake build mdrv >/dev/null 2>&1)
for s in $IDS; do
  git -C $R checkout -q -- .
  git -C $R apply $V/harmless/$s/patch.diff || { echo -e "$s\tPATCH-FAILED" >> $OUT; continue; }
  alarms=""
  for p in ${CHECKS:-C01 C02 C03 C04 C05 C06 C07 C08 C09 C10 C11 C12 C13 C14 C15 C16 C17 C18 C19}; do
    o=$(./check $p --tier quick 2>&1); rc=$?
    if echo "$o" | grep -q "^VIOLATION"; then
      if echo "$o" | grep -q "no-failing-input-found"; then alarms="$alarms $p(nfi)"; else alarms="$alarms $p"; fi
    elif [ $rc -ne 0 ]; then alarms="$alarms $p(rc=$rc)"; fi
  done
  echo -e "$s\t${alarms:-none}" | tee -a $OUT
  git -C $R checkout -q -- .
done
