#!/usr/bin/env python3
"""Regenerates /verif/MANIFEST.json from check.d/deps.json (which properties have a check) and
check.d/claims.json (the words of each claim)."""
import json, os
ROOT = os.path.dirname(os.path.dirname(os.path.abspath(__file__)))
deps = json.load(open(os.path.join(ROOT, "check.d", "deps.json")))
claims = json.load(open(os.path.join(ROOT, "check.d", "claims.json")))
props = [json.loads(l) for l in open(os.path.join(ROOT, "properties.jsonl"))]
checks, na = [], []
for p in props:
    pid = p["id"]
    if pid in deps and pid in claims:
        c = claims[pid]
        checks.append({
            "property_id": pid,
            "quick_cmd": "./check %s --tier quick" % pid,
            "thorough_cmd": "./check %s --tier thorough" % pid,
            "evidence_file": "/verif/evidence/%s.json" % pid,
            "replay_cmd_template": "./check %s --replay {path}" % pid,
            "engine": "lean4-model+correspondence",
            "level_claimed": {"category": "proof", "text": c["text"], "design_ref": "DESIGN.md 7.%s" % pid},
            "level_note": c["note"],
            "technique": c["technique"],
        })
    else:
        na.append({"property_id": pid, "reason": claims.get(pid, {}).get("na", "check under construction in this session: model and theorems for this property are not committed yet (not a statement that the technique cannot apply)")})
m = {
    "version": 1,
    "setup_cmd": "cd /verif && tools/lock_check.sh && cd /verif/lean && lake build mdrv " + " ".join(sorted({"Melda." + m for k, v in deps.items() if not k.startswith("_") for m in v.get("lean", [])} | {"Melda." + m for m in deps.get("_extra_build", [])})) + " && cd /verif/harness && (test -f Cargo.lock || cp /repo/Cargo.lock .) && CARGO_NET_OFFLINE=true cargo build",
    "hooks": {
        "guard": "--cfg melda_verif",
        "enable": "RUSTFLAGS='--cfg melda_verif' via /verif/harness/.cargo/config.toml (the harness crate depends on /repo by path and is rebuilt by every check)",
        "baseline_off_cmd": "cd /repo && cargo test --workspace --no-fail-fast --offline",
        "source_commits": json.load(open(os.path.join(ROOT, "check.d", "hook_commits.json"))),
        "add_only": True,
    },
    "engines": [
        {"name": "lean4-model+correspondence", "path": "/verif/lean", "serves_properties": [c["property_id"] for c in checks],
         "kind_free_text": "hand-written executable Lean 4 model of libmelda (lean/Melda/*.lean), property theorems in lean/Melda/Props/Cxx.lean, compiled model driver mdrv; Rust harness /verif/harness links /repo's working tree and compares the implementation with the model on generated inputs and histories (correspondence), with implementation-side oracles used to search for a concrete failing input"}
    ],
    "checks": checks,
    "not_applicable": na,
    "notes": "See DESIGN.md. Verdict logic: DESIGN.md 3.4. known_findings.json lists recorded defects; seeded/ holds confirmed breaking changes used to test the checks.",
}
json.dump(m, open(os.path.join(ROOT, "MANIFEST.json"), "w"), indent=1, ensure_ascii=False)
print("checks:", [c["property_id"] for c in checks], "not claimed:", [n["property_id"] for n in na])
