#!/bin/bash
# Runs every check against every confirmed seeded change (seeded/<id>/patch.diff), in a scratch copy of
# the repository (MELDA_REPO), and writes seeded/RESULTS.tsv: which checks report a violation for which change.
# usage: tools/run_seeded.sh <scratch-repo-dir> [seed-names...]   (run from a copy of /verif, e.g. `vp run --with-repo`)
set -u
R=$1; shift
V=$(cd "$(dirname "$0")/.." && pwd)
export MELDA_REPO=$R
cd $V
test -f $R/Cargo.lock || cp /repo/Cargo.lock $R/
SEEDS=${@:-$(ls seeded | grep -v "RESULTS\|^_")}
OUT=$V/seeded/RESULTS.tsv
: > $OUT
(cd lean && lake build mdrv >/dev/null 2>&1)
for s in $SEEDS; do
  git -C $R checkout -q -- . 
  git -C $R apply $V/seeded/$s/patch.diff || { echo -e "$s\tPATCH-FAILED" >> $OUT; continue; }
  own=$(python3 -c "import json;print(json.load(open('$V/seeded/$s/meta.json'))['property'])")
  hits=""
  # CHECKS: which checks to run against every change (default: all 19); "own" stands for the change's property
  for p in $(echo ${CHECKS:-C01 C02 C03 C04 C05 C06 C07 C08 C09 C10 C11 C12 C13 C14 C15 C16 C17 C18 C19} | sed "s/own/$own/" | tr ' ' '\n' | awk '!seen[$0]++'); do
    o=$(./check $p --tier quick 2>&1)
    if echo "$o" | grep -q "^VIOLATION"; then
      if echo "$o" | grep -q "no-failing-input-found"; then hits="$hits $p(nfi)"; else hits="$hits $p"; fi
    fi
  done
  echo -e "$s\t$own\t$hits" | tee -a $OUT
  git -C $R checkout -q -- .
done
