#!/bin/bash
# Regenerates the lock structure of /repo's current source as a Lean term (obligation
# Melda.Gen.extracted_safe) and, to validate translator + checker, that of the pre-fix source
# of defect D2 (obligation Melda.GenD2.fixture_unsafe: it must be rejected).
set -e
cd "$(dirname "$0")/.."
R=${MELDA_REPO:-/repo}
python3 tools/lockx.py $R/src/melda.rs $R/src/datastorage.rs lean/Melda/Gen/LockProgs.lean Melda.Gen true
python3 tools/lockx.py corpus/locks/melda_d2_prefix.rs corpus/locks/datastorage_d2_prefix.rs lean/Melda/Gen/LockFixtureD2.lean Melda.GenD2 false
