#!/bin/bash
# confirm_seed.sh <id> <outdir-with-patch.diff,demo.rs,meta.json> <seedname>
# Confirms in a scratch worktree: with the patch the existing tests pass and the demo fails; without it the demo passes.
set -u
ID=$1; SRC=$2; NAME=${3:-$1}
WT=/tmp/wt_confirm_$NAME
FEAT=""
grep -q sqlitedbadapter "$SRC/meta.json" "$SRC/demo.rs" 2>/dev/null && FEAT="--features sqlitedbadapter,brotliadapter"
git -C /repo worktree remove --force $WT 2>/dev/null
git -C /repo worktree add -q --detach $WT HEAD || exit 2
cp /repo/Cargo.lock $WT/
cd $WT
git apply "$SRC/patch.diff" || { echo "patch does not apply"; exit 2; }
base=$( (CARGO_NET_OFFLINE=true cargo test --offline $FEAT --lib 2>&1; CARGO_NET_OFFLINE=true cargo test --offline $FEAT --doc 2>&1) | grep -E "^test result" | tr '\n' ' ')
mkdir -p tests && cp "$SRC/demo.rs" tests/demo.rs
with=$(CARGO_NET_OFFLINE=true cargo test --offline $FEAT --test demo 2>&1 | grep -E "^test result|signal: |SIGABRT|stack overflow" | tr '\n' ' ')
git checkout -q -- src
without=$(CARGO_NET_OFFLINE=true cargo test --offline $FEAT --test demo 2>&1 | grep -E "^test result" | tr '\n' ' ')
echo "existing tests with patch: $base"
echo "demo with patch: $with"
echo "demo without patch: $without"
ok=1
echo "$base" | grep -q "FAILED\|failed; [1-9]" && ok=0
echo "$base" | grep -q "ok\." || ok=0
echo "$with" | grep -q "FAILED\|signal: \|SIGABRT\|stack overflow" || ok=0
echo "$without" | grep -q "FAILED" && ok=0
echo "$without" | grep -q "ok\." || ok=0
cd /
git -C /repo worktree remove --force $WT
if [ $ok = 1 ]; then
  D=/verif/seeded/$NAME; mkdir -p $D
  cp "$SRC/patch.diff" "$SRC/demo.rs" $D/
  python3 - "$SRC/meta.json" "$D/meta.json" "$ID" "$base" "$with" "$without" <<'PY'
import json,sys
src,dst,pid,base,w,wo=sys.argv[1:7]
try: m=json.load(open(src))
except Exception: m={}
m["property"]=pid
m["confirmed_by_framework_author"]={"existing_tests_with_patch":base,"demo_with_patch":w,"demo_without_patch":wo,
  "how":"tools/confirm_seed.sh in a scratch worktree of /repo HEAD (removed afterwards)"}
json.dump(m,open(dst,"w"),indent=1,ensure_ascii=False)
PY
  echo "CONFIRMED $NAME"
else
  echo "NOT CONFIRMED $NAME"
fi
