/-
  Document level of the replica (model of `melda.rs`: `create_object`, `update_object`,
  `delete_object`, `resolve_as`, `stage_full_snapshot`, `update`, `read`,
  `create_delta_array_descriptor`, `read_array_descriptor`, `rebuild_array_order`,
  `get_merged_order_at_revision`, `read_object_at_revision`, and the automatic resolution step of
  `commit`).  Committed object bodies are reached through `src : Str → Option JObj` (the byte level
  supplies it: pack slice, hash check, parse); staged bodies live in `stage`.
  Import-free.
-/
import Melda.Protocol
import Melda.Flatten
import Melda.Merge
import Melda.Diff
import Melda.Lru
import Melda.Replica
namespace Melda

/-- how a public call ended -/
inductive Res (α : Type) where
  | ok (a : α)
  | err (msg : String)
  | panic (msg : String)
deriving Inhabited

structure DState where
  p : PState := {}
  /-- `DataStorage.stage`: staged object bodies by digest -/
  stage : List (Str × JObj) := []
  /-- `array_descriptors_cache` -/
  acache : Lru Rev (List JVal) := { cap := 16 }
deriving Inhabited

abbrev Src := Str → Option JObj

namespace DState

def treeOf (st : DState) (u : Str) : Option RevTree := (st.p.docs.find? (fun p => p.1 = u)).map (·.2)

/-- replace / insert the tree of `u` (BTreeMap order) -/
def setTree (docs : List (Str × RevTree)) (u : Str) (t : RevTree) : List (Str × RevTree) :=
  match docs with
  | [] => [(u, t)]
  | (k, x) :: rest =>
    if k = u then (u, t) :: rest
    else if strLt u k then (u, t) :: (k, x) :: rest
    else (k, x) :: setTree rest u t

def withTree (st : DState) (u : Str) (t : RevTree) : DState := { st with p := { st.p with docs := setTree st.p.docs u t } }

def markerObj (k : String) : JObj := [(k.toList, .bool true)]

/-- `DataStorage::read_object` (the LRU object cache is transparent: `Props.C18`) -/
def readObject (src : Src) (st : DState) (r : Rev) : Except String JObj :=
  if r.isEmpty then .ok []
  else if r.isDeleted then .ok (markerObj "_deleted")
  else if r.isResolved then .ok (markerObj "_resolved")
  else if r.isCharcode then .ok [(HASH_FIELD, .str r.digest)]
  else match src r.digest with
    | some o => .ok o
    | none => match st.stage.find? (fun p => p.1 = r.digest) with
      | some p => .ok p.2
      | none => .error "value_not_found"

/-- `DataStorage::write_object` -/
def writeObject (st : DState) (r : Rev) (o : JObj) : DState :=
  if r.isSpecial then st
  else if st.p.objects.contains r.digest || st.stage.any (fun p => p.1 = r.digest) then st
  else { st with stage := st.stage ++ [(r.digest, o)] }

/-- `ArrayDescriptor::new_from_object`: `inl order` (full) or `inr patch` (delta) -/
def descOfObject (o : JObj) : Except String (List JVal ⊕ List JVal) :=
  match objGet ORDER_FIELD o with
  | some (.arr l) => .ok (.inl l)
  | some _ => .error "order_field_is_not_an_array"
  | none =>
    match objGet DELTA_ORDER_FIELD o with
    | some (.arr l) => .ok (.inr l)
    | some _ => .error "delta_order_field_is_not_an_array"
    | none =>
      match objGet "_deleted".toList o with
      | some (.bool true) => .ok (.inl [])
      | some _ => .error "malformed_deleted_array_descriptor"
      | none =>
        match objGet "_resolved".toList o with
        | some (.bool true) => .ok (.inl [])
        | some _ => .error "malformed_resolved_array_descriptor"
        | none => .error "malformed_array_descriptor"

/-- `read_array_descriptor` (a failing read is a panic in the code: `expect`) -/
def readDesc (src : Src) (st : DState) (r : Rev) : Res (List JVal ⊕ List JVal) :=
  match readObject src st r with
  | .error _ => .panic "cannot_read_base_array_descriptor"
  | .ok o => match descOfObject o with
    | .ok d => .ok d
    | .error e => .err e

/-- walk from `cur` towards the root collecting delta descriptors until a full descriptor or a
    cached order is met (the two loops of `rebuild_array_order` fused); returns the base order and
    the patches to apply, oldest first -/
def collectChain (src : Src) (st : DState) (t : RevTree) (cache : Lru Rev (List JVal)) :
    Nat → Rev → List (List JVal) → Res (List JVal × List (List JVal))
  | 0, _, acc => .ok ([], acc)
  | fuel + 1, cur, acc =>
    match t.getParent cur with
    | none => .ok ([], acc)
    | some par =>
      match cache.peek par with
      | some order => .ok (order, acc)
      | none =>
        match readDesc src st par with
        | .panic m => .panic m
        | .err e => .err e
        | .ok (.inl order) => .ok (order, acc)
        | .ok (.inr patch) => collectChain src st t cache fuel par (patch :: acc)

def applyPatches : List JVal → List (List JVal) → Res (List JVal)
  | order, [] => .ok order
  | order, p :: ps =>
    match applyDiffPatch order p with
    | .ok o => applyPatches o ps
    | .err e => .err e
    | .panic m => .panic m

/-- `rebuild_array_order`: returns the order and the updated cache -/
def rebuildOrder (src : Src) (st : DState) (t : RevTree) (cache : Lru Rev (List JVal)) (base : Rev) :
    Res (List JVal × Lru Rev (List JVal)) :=
  match cache.get base with
  | (some order, cache') => .ok (order, cache')
  | (none, _) =>
    match readDesc src st base with
    | .panic m => .panic m
    | .err e => .err e
    | .ok (.inl order) => .ok (order, cache)
    | .ok (.inr patch) =>
      match collectChain src st t cache (t.entries.length + 1) base [patch] with
      | .panic m => .panic m
      | .err e => .err e
      | .ok (start, patches) =>
        match applyPatches start patches with
        | .ok order => .ok (order, cache.put base order)
        | .err e => .err e
        | .panic m => .panic m

/-- `get_merged_order_at_revision` -/
def mergedOrderAt (src : Src) (st : DState) (t : RevTree) (cache : Lru Rev (List JVal)) (base : Rev) :
    Res (List JVal × Lru Rev (List JVal)) :=
  if t.leafs.length > 1 then
    match rebuildOrder src st t cache base with
    | .ok (bo, c1) =>
      t.leafs.foldl (fun acc l => match acc with
        | .ok (order, c) => (match rebuildOrder src st t c l with
          | .ok (lo, c') => .ok (mergeArrays lo order, c')
          | .err e => .err e
          | .panic m => .panic m)
        | e => e) (.ok (bo, c1))
    | e => e
  else rebuildOrder src st t cache base

/-- `read_object_at_revision` (errors inside are `expect`s: panics) -/
def readAt (src : Src) (st : DState) (u : Str) (t : RevTree) (r : Rev) : Res (JObj × Lru Rev (List JVal)) :=
  if isArrayDescriptor u then
    match mergedOrderAt src st t st.acache r with
    | .ok (order, c) => .ok ([(ORDER_FIELD, .arr order)], c)
    | .err _ => .panic "cannot_get_merged_order"
    | .panic m => .panic m
  else match readObject src st r with
    | .ok o => .ok (o, st.acache)
    | .error _ => .panic "cannot_read_object"

/-- `create_object` -/
def createObject (H : Bytes → Str) (st : DState) (u : Str) (o : JObj) : Res (DState × Option Str) :=
  match digestObject H o with
  | .error e => .err e      -- (an `_id` field inside the object, a `#` field of a wrong type: refused)
  | .ok d =>
    let rev := Rev.mk1 d
    let st1 := st.writeObject rev o
    let t := (st1.treeOf u).getD RevTree.empty
    let (t', added) := t.add rev none true
    .ok (st1.withTree u t', if added then some rev.render else none)

/-- `create_delta_array_descriptor` -/
def deltaDescriptor (src : Src) (st : DState) (t : RevTree) (o : JObj) : Res (Option JObj × Lru Rev (List JVal)) :=
  match descOfObject o with
  | .error _ => .panic "malformed_descriptor"
  | .ok (.inr _) => .panic "get_order_of_delta_descriptor"
  | .ok (.inl newOrder) =>
    match t.winner with
    | none => .panic "no_winner"
    | some w =>
      match rebuildOrder src st t st.acache w with
      | .err _ => .panic "expecting_winning_order"
      | .panic m => .panic m
      | .ok (winOrder, c) =>
        match makeDiffPatch winOrder newOrder with
        | none => .panic "This can't be"
        | some patch =>
          if w.isDeleted then .ok (some [(ORDER_FIELD, .arr newOrder)], c)
          else if patch.isEmpty then .ok (none, c)
          else .ok (some [(DELTA_ORDER_FIELD, .arr patch)], c)

/-- `update_object` -/
def updateObject (H : Bytes → Str) (src : Src) (st : DState) (u : Str) (o : JObj) : Res (DState × Option Str) :=
  match st.treeOf u with
  | none => createObject H st u o
  | some t =>
    match t.winner with
    | none => .err "object_has_no_winner"
    | some w =>
      let obj? : Res (Option JObj × Lru Rev (List JVal)) :=
        if isArrayDescriptor u then deltaDescriptor src st t o else .ok (some o, st.acache)
      match obj? with
      | .panic m => .panic m
      | .err e => .err e
      | .ok (none, c) => .ok ({ st with acache := c }, some w.render)
      | .ok (some obj, c) =>
        let st := { st with acache := c }
        match digestObject H obj with
        | .error e => .err e
        | .ok d =>
          if isArrayDescriptor u || d ≠ w.digest then
            let rev := Rev.upd H d w
            let (t', _) := t.add rev (some w) true
            let st1 := (st.withTree u t').writeObject rev obj
            .ok (st1, some rev.render)
          else .ok (st, some w.render)

/-- `delete_object` -/
def deleteObject (H : Bytes → Str) (st : DState) (u : Str) : Res (DState × Option Str) :=
  match st.treeOf u with
  | none => .ok (st, none)
  | some t =>
    match t.winner with
    | none => .err "object_has_no_winner"
    | some w =>
      if !w.isDeleted && !w.isResolved then
        let rev := Rev.del H w
        let (t', _) := t.add rev (some w) true
        .ok (st.withTree u t', some rev.render)
      else .ok (st, none)

/-- `remove_object`: drop the staged history of an object; forget the object when nothing is left,
    otherwise record a deletion -/
def removeObject (H : Bytes → Str) (st : DState) (u : Str) : Res (DState × Option Str) :=
  match st.treeOf u with
  | none => .ok (st, none)
  | some t =>
    let t1 := t.unstage
    if t1.isEmpty then
      .ok ({ st with p := { st.p with docs := st.p.docs.filter (fun p => p.1 ≠ u) } }, none)
    else
      match t1.winner with
      | none => .err "object_has_no_winner"
      | some w =>
        if !w.isDeleted && !w.isResolved then
          let rev := Rev.del H w
          let (t', _) := t1.add rev (some w) true
          .ok (st.withTree u t', some rev.render)
        else .ok (st.withTree u t1, none)

/-- `resolve_as` -/
def resolveAs (H : Bytes → Str) (src : Src) (st : DState) (u : Str) (winner : Str) : Res (DState × Str) :=
  match Rev.parse winner with
  | none => .panic "invalid_revision_string"
  | some chosen =>
    match st.treeOf u with
    | none => .err "unknown_document"
    | some t =>
      if !t.leafs.contains chosen then .err "invalid_winner_revision"
      else if t.leafs.length ≤ 1 then .err "not_in_conflict"
      else
        match readAt src st u t chosen with
        | .panic m => .panic m
        | .err e => .err e
        | .ok (merged, c) =>
          let st0 := { st with acache := c }
          let step : Res (DState × Option Str) :=
            if chosen.isDeleted then deleteObject H st0 u else updateObject H src st0 u merged
          match step with
          | .panic m => .panic m
          | .err e => .err e
          | .ok (st1, _) =>
            match st1.treeOf u with
            | none => .err "unknown_document"
            | some t1 =>
              match t1.winner with
              | none => .panic "revision_tree_invalid_state"
              | some w1 =>
                let t2 := t1.leafs.foldl (fun (t : RevTree) r =>
                  if r ≠ w1 then (t.add (Rev.res H r) (some r) true).1 else t) t1
                .ok (st1.withTree u t2, w1.render)

/-- `stage_full_snapshot` -/
def snapshot (H : Bytes → Str) (src : Src) (st : DState) : Res DState :=
  st.p.docs.foldl (fun (acc : Res DState) p =>
    match acc with
    | .ok st =>
      let u := p.1
      if !isArrayDescriptor u then .ok st
      else match st.treeOf u with
        | none => .ok st
        | some t =>
          match t.winner with
          | none => .err "no_winner"
          | some w =>
            if w.isDeleted then .ok st
            else
              -- first leaf that is a delta descriptor triggers the snapshot
              let rec firstDiff : List Rev → Res Bool
                | [] => .ok false
                | l :: ls => match readDesc src st l with
                  | .panic m => .panic m
                  | .err e => .err e
                  | .ok (.inr _) => .ok true
                  | .ok (.inl _) => firstDiff ls
              match firstDiff t.leafs with
              | .panic m => .panic m
              | .err e => .err e
              | .ok false => .ok st
              | .ok true =>
                match readAt src st u t w with
                | .panic m => .panic m
                | .err e => .err e
                | .ok (obj, c) =>
                  match digestObject H obj with
                  | .error _ => .panic "digest_object"
                  | .ok d =>
                    let rev := Rev.upd H d w
                    let (t', _) := t.add rev (some w) true
                    .ok (({ st with acache := c }.withTree u t').writeObject rev obj)
    | e => e) (.ok st)

/-- `update`: flatten, delete what disappeared, create / update the rest -/
def update (H : Bytes → Str) (src : Src) (st : DState) (doc : JObj) : Res (DState × Str) :=
  match flatten H [] (.obj doc) [] with
  | .error e => .panic e
  | .ok (pool, root) =>
    match root with
    | .str rootId =>
      let gone := (st.p.docs.map (·.1)).filter (fun u => !(objHas u pool))
      let r1 : Res DState := gone.foldl (fun acc u => match acc with
        | .ok s => (match deleteObject H s u with
          | .ok (s', _) => .ok s'
          | .err _ => .panic "unable_to_delete_object"
          | .panic m => .panic m)
        | e => e) (.ok st)
      let r2 : Res DState := pool.foldl (fun acc p => match acc with
        | .ok s => (match p.2 with
          | .obj o => (match updateObject H src s p.1 o with
            | .ok (s', _) => .ok s'
            | .err _ => .panic "unable_to_update_object"
            | .panic m => .panic m)
          | _ => .panic "pool_value_not_an_object")
        | e => e) r1
      match r2 with
      | .ok s => .ok (s, rootId)
      | .err e => .err e
      | .panic m => .panic m
    | _ => .panic "root_identifier_not_a_string"

/-! ### The public entry points with their nesting guard

  `create_object`, `update_object` and `update` begin with `is_too_deep`; `commit` checks its information
  (after the "nothing staged" shortcut).  The calls `update` and `resolve_as` make to `update_object` pass the
  guard again in the code; `Props.C03c.update_inner_guards_pass` shows that it cannot fire there once the
  outer guard has passed, which is why the unguarded functions are used inside. -/

def createObjectG (H : Bytes → Str) (st : DState) (u : Str) (o : JObj) : Res (DState × Option Str) :=
  if isTooDeep o then .err "object_nested_too_deeply" else createObject H st u o

def updateObjectG (H : Bytes → Str) (src : Src) (st : DState) (u : Str) (o : JObj) : Res (DState × Option Str) :=
  if isTooDeep o then .err "object_nested_too_deeply" else updateObject H src st u o

def updateG (H : Bytes → Str) (src : Src) (st : DState) (doc : JObj) : Res (DState × Str) :=
  if isTooDeep doc then .err "document_nested_too_deeply" else update H src st doc

/-- `commit` refuses (before anything is resolved or written) when something is staged and the information is
    nested too deeply -/
def commitRefusesInfo (info : Option JVal) : Bool :=
  match info with
  | some (.obj i) => isTooDeep i
  | _ => false

/-- `Melda::reload` / `Melda::reload_until` at document level: refused, with the replica untouched, when a
    revision OR an object body is staged (a body can be staged without a revision: an object created and
    removed again through the object API leaves its body in `DataStorage.stage`) -/
def reload (st : DState) (v : View) : Except PState.PErr DState :=
  if st.p.hasStaging || !st.stage.isEmpty then .error .stageNotEmpty
  else match PState.reload st.p v with
    | .ok p' => .ok { st with p := p' }
    | .error e => .error e

def reloadUntil (st : DState) (v : View) (anchors : List BlockId) : Except PState.PErr DState :=
  if anchors.isEmpty then reload st v
  else if st.p.hasStaging || !st.stage.isEmpty then .error .stageNotEmpty
  else match PState.reloadUntil st.p v anchors with
    | .ok p' => .ok { st with p := p' }
    | .error e => .error e

/-- `read(None)` -/
def read (src : Src) (st : DState) : Res (JVal × Lru Rev (List JVal)) :=
  if (st.treeOf ROOT_ID).isNone then .err "no_root"
  else
    let collected : Res (JObj × Lru Rev (List JVal)) := st.p.docs.foldl (fun acc p =>
      match acc with
      | .ok (pool, c) =>
        (match p.2.winner with
         | none => .ok (pool, c)
         | some w =>
           if w.isDeleted then .ok (pool, c)
           else match readAt src { st with acache := c } p.1 p.2 w with
             | .ok (o, c') => .ok (objInsert p.1 (.obj (objInsert ID_FIELD (.str p.1) o)) pool, c')
             | .err e => .panic e
             | .panic m => .panic m)
      | e => e) (.ok ([], st.acache))
    match collected with
    | .err e => .err e
    | .panic m => .panic m
    | .ok (pool, c) =>
      match objGet ROOT_ID pool with
      | none => .err "root_object_not_found"
      | some rootObj =>
        match unflatten (unflattenFuel pool rootObj) pool rootObj with
        | .ok _ v => (match v with
          | .obj _ => .ok (v, c)
          | _ => .panic "not_an_object")
        | .panic m => .panic m
        | .fuel => .panic "fuel"

/-- the automatic resolution of array conflicts at the start of `commit` -/
def autoResolve (H : Bytes → Str) (src : Src) (st : DState) : Res DState :=
  let todo := st.p.docs.filterMap (fun p =>
    if isArrayDescriptor p.1 && p.2.leafs.length > 1 then p.2.winner.map (fun w => (p.1, w.render)) else none)
  todo.foldl (fun acc uw => match acc with
    | .ok s => (match resolveAs H src s uw.1 uw.2 with
      | .ok (s', _) => .ok s'
      | .err _ => .panic "cannot_automatically_resolve_array_descriptor_conflict"
      | .panic m => .panic m)
    | e => e) (.ok st)

/-! ### `stage` (export) and `replay_stage` -/

/-- `Melda::stage`: the staged object bodies (`"o"`) and the staged revisions as change records (`"c"`,
    tree by tree; the order of the records of one tree is a hash-map order in the code) -/
def stageExport (st : DState) : Option JVal :=
  let o : List (Str × JVal) := if st.stage.isEmpty then [] else
    [(['o'], .obj (objOfList (st.stage.map (fun p => (p.1, JVal.obj p.2)))))]
  let cs := PState.stagedChanges st.p.docs
  let c : List (Str × JVal) := if !st.p.hasStaging then [] else
    [(['c'], .arr (cs.map (fun c => match c.parent with
      | some p => .arr [.str c.uuid, .str p.render, .str c.rev.digest]
      | none => .arr [.str c.uuid, .str c.rev.digest])))]
  if o.isEmpty && c.isEmpty then none else some (.obj (objOfList (o ++ c)))

/-- `Melda::replay_stage` -/
def replayStage (H : Bytes → Str) (st : DState) (s : JVal) : Res DState :=
  match s with
  | .obj so =>
    let st1 : Res DState := match objGet ['o'] so with
      | none => .ok st
      | some (.obj bodies) =>
        .ok { st with stage := bodies.foldl (fun (stage : List (Str × JObj)) p =>
          if st.p.objects.contains p.1 then stage
          else match p.2 with
            | .obj b => (stage.filter (fun q => q.1 ≠ p.1)) ++ [(p.1, b)]
            | _ => stage) st.stage }
      | some _ => .err "expecting_stage_object"
    match st1 with
    | .ok st1 =>
      (match objGet ['c'] so with
       | some (.arr recs) =>
         recs.foldl (fun (acc : Res DState) rec => match acc with
           | .ok d =>
             (match rec with
              | .arr [.str u, .str dg] =>
                let r := Rev.mk1 dg
                let t := (d.treeOf u).getD RevTree.empty
                .ok (d.withTree u (t.add r none true).1)
              | .arr [.str u, .str prev, .str dg] =>
                (match Rev.parse prev with
                 | none => .err "invalid_revision_string"
                 | some p =>
                   let r := Rev.new H (p.index + 1) dg (some p)
                   let t := (d.treeOf u).getD RevTree.empty
                   .ok (d.withTree u (t.add r (some p) true).1))
              | .arr [_, _] => .err "expecting_uuid_string"
              | .arr [_, _, _] => .err "expecting_uuid_string"
              | _ => .ok d)
           | e => e) (.ok st1)
       | _ => .ok st1)
    | e => e
  | _ => .err "expecting_stage_object"

/-! ### `commit`: what is written, in which order

  The code iterates two hash maps (staged objects, staged revisions per tree), so the order of the
  objects inside the pack and of the change records inside the block is not determined. The model
  takes both orders as parameters (`objOrder`, `chgOrder`: any permutation is a possible execution);
  the driver instantiates them with the orders found in the bytes the implementation wrote and
  compares the resulting bytes literally. -/

/-- the pack `DataStorage::pack` writes for the staged objects in the given order -/
def packOf (stageOrdered : List (Str × JObj)) : Bytes :=
  packBytes (stageOrdered.map (fun p => (JVal.obj p.2).renderBytes))

structure CommitOut where
  /-- the writes, in the order they are issued -/
  writes : List (Str × Bytes)
  block : Block
  packName : Option Str

/-- the writes of a commit (after the automatic resolution step), for one choice of iteration orders -/
def commitWrites (H : Bytes → Str) (st : DState) (info : Option JVal)
    (objOrder : List (Str × JObj)) (chgOrder : List Change) : CommitOut :=
  let packName : Option Str := if objOrder.isEmpty then none else some (H (packOf objOrder))
  let parents := st.p.anchors
  let proto : Block := { id := ⟨0, []⟩, parents := parents.foldl (fun acc b => insertSet BlockId.lt b acc) [],
                         packs := match packName with | some k => [k] | none => [], changes := chgOrder, info := info }
  let bytes := (proto.toJson).renderBytes
  let id : BlockId := ⟨PState.nextIndex parents, H bytes⟩
  let block := { proto with id := id }
  { writes := (match packName with | some k => [(k ++ PACK_EXT, packOf objOrder)] | none => []) ++ [(id.key, bytes)],
    block := block, packName := packName }

/-- the replica after a successful commit -/
def commitDone (st : DState) (out : CommitOut) (newObjects : List Str) : DState :=
  { st with
    p := PState.validateAll
      { st.p with
        deltas := PState.insertDelta out.block .applied st.p.deltas,
        docs := st.p.docs.map (fun p => (p.1, p.2.commit)),
        objects := st.p.objects ++ newObjects,
        appliedPacks := match out.packName with | some k => st.p.appliedPacks ++ [k] | none => st.p.appliedPacks },
    stage := [] }

end DState
end Melda
