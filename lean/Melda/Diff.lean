/-
  Model of the array diff/patch machinery:
    * `yavomrs::yavom::myers_unfilled` (divide-and-conquer skeleton: trim, base cases,
      merging of adjacent moves), parametric in the middle-snake function;
    * an executable port of `myers_middle_move` (`Melda.middleSnake`) used by the driver;
    * `utils::make_diff_patch` and `utils::apply_diff_patch` over the model's JSON.
  Import-free.
-/
import Melda.Json
import Melda.Revision
namespace Melda

variable {α : Type} [DecidableEq α]

structure Pt where
  x : Nat
  y : Nat
deriving DecidableEq, Repr, Inhabited

structure Area where
  tl : Pt
  br : Pt
deriving DecidableEq, Repr, Inhabited

def Area.n (r : Area) : Nat := r.br.x - r.tl.x
def Area.m (r : Area) : Nat := r.br.y - r.tl.y

/-- first loop of `Area::trim` -/
def trimFront (a b : List α) : Nat → Pt → Pt → Pt
  | 0, tl, _ => tl
  | fuel + 1, tl, br =>
    if tl.x < br.x ∧ tl.y < br.y ∧ a[tl.x]? = b[tl.y]? ∧ a[tl.x]?.isSome then
      trimFront a b fuel ⟨tl.x + 1, tl.y + 1⟩ br
    else tl

/-- second loop of `Area::trim` -/
def trimBack (a b : List α) : Nat → Pt → Pt → Pt
  | 0, _, br => br
  | fuel + 1, tl, br =>
    if br.x > tl.x ∧ br.y > tl.y ∧ a[br.x - 1]? = b[br.y - 1]? ∧ a[br.x - 1]?.isSome then
      trimBack a b fuel tl ⟨br.x - 1, br.y - 1⟩
    else br

def trim (a b : List α) (tl br : Pt) : Area :=
  let tl' := trimFront a b (br.x - tl.x + 1) tl br
  let br' := trimBack a b (br.x - tl'.x + 1) tl' br
  ⟨tl', br'⟩

inductive MoveOp | ins | del
deriving DecidableEq, Repr

structure Move where
  op : MoveOp
  s : Pt
  t : Pt
deriving DecidableEq, Repr

/-- `myers_moves`; `acc` is the result vector in reverse order (head = last pushed).
    `middle` is the middle-snake search; `none` = it panicked ("This can't be") or fuel ran out. -/
def myersMoves (a b : List α) (middle : List α → List α → Area → Option (Pt × Pt)) :
    Nat → Area → List Move → Option (List Move)
  | 0, _, _ => none
  | fuel + 1, r, acc =>
    if r.n = 0 ∧ r.m = 0 then some acc
    else if r.n = 0 then
      match acc with
      | last :: rest =>
        if last.op = .ins ∧ last.t = r.tl then some ({ last with t := r.br } :: rest)
        else some (⟨.ins, r.tl, r.br⟩ :: acc)
      | [] => some [⟨.ins, r.tl, r.br⟩]
    else if r.m = 0 then
      match acc with
      | last :: rest =>
        if last.op = .del ∧ last.t = r.tl then some ({ last with t := r.br } :: rest)
        else some (⟨.del, r.tl, r.br⟩ :: acc)
      | [] => some [⟨.del, r.tl, r.br⟩]
    else
      match middle a b r with
      | none => none
      | some (top, bottom) =>
        match myersMoves a b middle fuel (trim a b r.tl top) acc with
        | none => none
        | some acc1 =>
          match myersMoves a b middle fuel (trim a b top bottom) acc1 with
          | none => none
          | some acc2 => myersMoves a b middle fuel (trim a b bottom r.br) acc2

/-- `myers_unfilled` -/
def myersUnfilled (a b : List α) (middle : List α → List α → Area → Option (Pt × Pt)) : Option (List Move) :=
  (myersMoves a b middle (a.length + b.length + 2) (trim a b ⟨0, 0⟩ ⟨a.length, b.length⟩) []).map List.reverse

/-! ### Port of `myers_middle_move` (i64 arithmetic as `Int`) -/

section Snake

def vget (v : Array Int) (i : Int) : Int := if i < 0 then 0 else v.getD i.toNat 0
def vset (v : Array Int) (i : Int) (x : Int) : Array Int := if i < 0 then v else v.setIfInBounds i.toNat x

/-- follow a diagonal: `while x < n && y < m && at x == at y` -/
def follow (eqAt : Int → Int → Bool) (n m : Int) : Nat → Int → Int → Int × Int
  | 0, x, y => (x, y)
  | fuel + 1, x, y => if x < n ∧ y < m ∧ eqAt x y then follow eqAt n m fuel (x + 1) (y + 1) else (x, y)

inductive KRes where
  | ret (top bottom : Pt)
  | atDest (v : Array Int)
  | cont (v : Array Int)

/-- one sweep over the diagonals `k = kmin, kmin+2, .. ≤ kmax` (forward when `fwd`, else backward) -/
def sweep (a b : List α) (r : Area) (fwd : Bool) (d : Int) (max : Int) (other : Array Int) :
    Nat → Int → Int → Array Int → KRes
  | 0, _, _, v => .cont v
  | fuel + 1, k, kmax, v =>
    if k > kmax then .cont v
    else
      let n : Int := r.n
      let m : Int := r.m
      let tk := fun (i : Int) => i + max
      let x0 : Int :=
        if k = -d ∨ (k ≠ d ∧ vget v (tk (k - 1)) < vget v (tk (k + 1))) then vget v (tk (k + 1))
        else vget v (tk (k - 1)) + 1
      let px := x0
      let y0 := x0 - k
      let eqAt : Int → Int → Bool := fun x y =>
        if fwd then
          (a[(r.tl.x + x.toNat)]? == b[(r.tl.y + y.toNat)]?) && a[(r.tl.x + x.toNat)]?.isSome
        else
          (a[(r.br.x - 1 - x.toNat)]? == b[(r.br.y - 1 - y.toNat)]?) && a[(r.br.x - 1 - x.toNat)]?.isSome
      let (x, y) := follow eqAt n m (r.n + r.m + 1) x0 y0
      let v := vset v (tk k) x
      let rk := -k + n - m
      let crossed : Option (Pt × Pt) :=
        if d > 0 ∧ x ≥ n - vget other (tk rk) then
          let contains := fun (px py : Int) =>
            px ≥ r.tl.x ∧ px ≤ r.br.x ∧ py ≥ r.tl.y ∧ py ≤ r.br.y
          if fwd then
            let tx : Int := r.tl.x + px
            let ty : Int := r.tl.y + (px - k)
            let bx : Int := r.tl.x + x
            let by' : Int := r.tl.y + y
            if contains tx ty ∧ contains bx by' then some (⟨tx.toNat, ty.toNat⟩, ⟨bx.toNat, by'.toNat⟩) else none
          else
            let tx : Int := r.tl.x + n - x
            let ty : Int := r.tl.y + m - y
            let bx : Int := r.tl.x + n - px
            let by' : Int := r.tl.y + m - (px - k)
            if contains tx ty ∧ contains bx by' then some (⟨tx.toNat, ty.toNat⟩, ⟨bx.toNat, by'.toNat⟩) else none
        else none
      match crossed with
      | some (t, bo) => .ret t bo
      | none =>
        if x ≥ n ∧ y ≥ m then .atDest v
        else sweep a b r fwd d max other fuel (k + 2) kmax v

def snakeLoop (a b : List α) (r : Area) (max : Int) : Nat → Int → Array Int → Array Int → Option (Pt × Pt)
  | 0, _, _, _ => none
  | fuel + 1, d, vf, vb =>
    if d > max then none
    else
      let n : Int := r.n
      let m : Int := r.m
      let kmin := -d + (if d - m > 0 then d - m else 0) * 2
      let kmax := d - (if d - n > 0 then d - n else 0) * 2
      match sweep a b r true d max vb (r.n + r.m + 2) kmin kmax vf with
      | .ret t bo => some (t, bo)
      | fr =>
        let (vf', atDest1) := match fr with | .atDest v => (v, true) | .cont v => (v, false) | .ret _ _ => (vf, false)
        match sweep a b r false d max vf' (r.n + r.m + 2) kmin kmax vb with
        | .ret t bo => some (t, bo)
        | br =>
          let (vb', atDest2) := match br with | .atDest v => (v, true) | .cont v => (v, false) | .ret _ _ => (vb, false)
          if atDest1 || atDest2 then none
          else snakeLoop a b r max fuel (d + 1) vf' vb'

/-- `myers_middle_move`; `none` models `panic!("This can't be")` -/
def middleSnake (a b : List α) (r : Area) : Option (Pt × Pt) :=
  let max : Int := r.n + r.m
  let v : Array Int := Array.replicate (2 * (r.n + r.m) + 1) 0
  snakeLoop a b r max (r.n + r.m + 2) 0 v v

end Snake

/-! ### `make_diff_patch` / `apply_diff_patch` over JSON values -/

def numJ (n : Nat) : JVal := .num (natStr n)

/-- `make_diff_patch` given the move list -/
def patchOfMoves (new : List JVal) (ms : List Move) : List JVal :=
  ms.map fun mv =>
    match mv.op with
    | .ins => .arr [.str ['i'], numJ mv.s.y, .arr ((new.drop mv.s.y).take (mv.t.y - mv.s.y))]
    | .del => .arr [.str ['d'], numJ (mv.t.x - mv.s.x), numJ mv.s.y]

/-- `make_diff_patch(old, new)`; `none` = the diff crate panicked -/
def makeDiffPatch (old new : List JVal) : Option (List JVal) :=
  (myersUnfilled old new middleSnake).map (patchOfMoves new)

inductive PatchRes where
  | ok (l : List JVal)
  | err (e : String)
  | panic (e : String)

def asNat? : JVal → Option Nat
  | .num t => if !t.isEmpty && t.all isDigit then some (natOfDigits t) else none
  | _ => none

/-- `op[i]` on a `Value` (Null when not an array or out of range) -/
def jIdx (v : JVal) (i : Nat) : JVal := match v with | .arr l => l.getD i .null | _ => .null

/-- `apply_diff_patch` -/
def applyDiffPatch : List JVal → List JVal → PatchRes
  | old, [] => .ok old
  | old, op :: rest =>
    match jIdx op 0 with
    | .str s =>
      if s = ['d'] then
        match asNat? (jIdx op 1) with
        | none => .err "invalid_patch_length_not_a_number"
        | some len =>
          match asNat? (jIdx op 2) with
          | none => .err "invalid_patch_index_not_a_number"
          | some idx =>
            if idx + len > old.length then .panic "drain_out_of_range"
            else applyDiffPatch (old.take idx ++ old.drop (idx + len)) rest
      else if s = ['i'] then
        match asNat? (jIdx op 1) with
        | none => .err "invalid_patch_index_not_a_number"
        | some idx =>
          match jIdx op 2 with
          | .arr items =>
            if idx > old.length then .panic "splice_out_of_range"
            else applyDiffPatch (old.take idx ++ items ++ old.drop idx) rest
          | _ => .err "invalid_patch_items_not_an_array"
      else .err "invalid_patch_op"
    | _ => .err "invalid_patch_op_not_a_string"

end Melda
