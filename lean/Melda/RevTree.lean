/-
  Model of `src/revisiontree.rs`.
  The `HashMap<Revision, RevisionTreeEntry>` is an association list with first-write-wins `add`
  (no observable behaviour of the code depends on hash-map order: C05/C18 theorems).
  The leaf cache (`BTreeSet`) is a list sorted by `Rev.cmp`; `validated` models `ValidationState`.
  Import-free.
-/
import Melda.Revision
namespace Melda

structure RtEntry where
  rev : Rev
  parent : Option Rev
  staging : Bool
deriving DecidableEq, Inhabited

structure RevTree where
  entries : List RtEntry := []
  staging : Bool := false
  leafs : List Rev := []
  winner : Option Rev := none
  validated : Bool := true
deriving Inhabited

namespace RevTree

def empty : RevTree := {}

def find? (es : List RtEntry) (r : Rev) : Option RtEntry := es.find? (fun e => e.rev = r)

def contains (t : RevTree) (r : Rev) : Bool := (find? t.entries r).isSome

/-- `unvalidated_add` -/
def unvalidatedAdd (t : RevTree) (r : Rev) (parent : Option Rev) (staging : Bool) : RevTree × Bool :=
  if t.contains r then (t, false)
  else ({ t with entries := t.entries ++ [⟨r, parent, staging⟩],
                 staging := t.staging || staging, validated := false }, true)

/-- the root-reachability walk of `is_valid_cached` (without the pointer-keyed memo) -/
def reachesRoot (es : List RtEntry) : Nat → Rev → Bool
  | 0, _ => false
  | fuel + 1, r =>
    match find? es r with
    | none => false
    | some e =>
      match e.parent with
      | none => r.index == 1
      | some p => reachesRoot es fuel p

def isParent (es : List RtEntry) (r : Rev) : Bool := es.any (fun e => e.parent = some r)

/-- candidate leaves in entry order -/
def liveLeafs (es : List RtEntry) : List Rev :=
  (es.filter (fun e => !e.rev.isResolved && !isParent es e.rev && reachesRoot es (es.length + 1) e.rev)).map (·.rev)

/-- insertion into a list sorted by `Rev.cmp` (BTreeSet::insert) -/
def insertSorted (r : Rev) : List Rev → List Rev
  | [] => [r]
  | x :: t => match Rev.cmp r x with
    | .lt => r :: x :: t
    | .eq => x :: t
    | .gt => x :: insertSorted r t

def sortRevs (l : List Rev) : List Rev := l.foldl (fun acc r => insertSorted r acc) []

/-- greatest element under `Rev.cmp`, scanning in order (`best.is_none_or(|b| r > b)`) -/
def maxRev (l : List Rev) : Option Rev :=
  l.foldl (fun best r => match best with
    | none => some r
    | some b => if Rev.cmp r b = .gt then some r else some b) none

/-- `validate` -/
def validate (t : RevTree) : RevTree :=
  let ls := liveLeafs t.entries
  { t with leafs := sortRevs ls, winner := maxRev ls, validated := true }

/-- `add` -/
def add (t : RevTree) (r : Rev) (parent : Option Rev) (staging : Bool) : RevTree × Bool :=
  let (t', ok) := t.unvalidatedAdd r parent staging
  if ok then (t'.validate, true) else (t', false)

/-- `commit` (caller must have checked `validated`; the panic is modelled by the caller) -/
def commit (t : RevTree) : RevTree :=
  if t.staging then { t with entries := t.entries.map (fun e => { e with staging := false }), staging := false }
  else t

/-- `unstage` -/
def unstage (t : RevTree) : RevTree :=
  let t' := if t.staging then { t with entries := t.entries.filter (fun e => !e.staging), staging := false, validated := false } else t
  t'.validate

def getParent (t : RevTree) (r : Rev) : Option Rev := (find? t.entries r).bind (·.parent)

def isEmpty (t : RevTree) : Bool := t.entries.isEmpty

end RevTree
end Melda
