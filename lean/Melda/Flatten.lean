/-
  Model of `utils::flatten`, `unflatten`, `generate_identifier`, `digest_object`, `escape`.
  The object pool (`HashMap<String, Map>`) is a key-sorted association list `JObj` whose values are
  `.obj` values; every read of the pool is by key, so the representation is unobservable.
  Import-free.
-/
import Melda.Json
import Melda.Revision
namespace Melda

def FLAT : Char := Char.ofNat 0x266D   -- ♭
def ROOT_ID : Str := [Char.ofNat 0x221A]  -- √
def ID_FIELD : Str := "_id".toList
def HASH_FIELD : Str := ['#']
def ORDER_FIELD : Str := ['A']
def DELTA_ORDER_FIELD : Str := ['a']

def isFlattenedField (k : Str) : Bool := k.getLast? = some FLAT
def isArrayDescriptor (k : Str) : Bool := k.head? = some '^'

def escapeStr (s : Str) : Str := '!' :: s
def unescapeStr : Str → Str
  | '!' :: t => t
  | s => s

/-! ### `is_too_deep`: the guard in front of `create_object`, `update_object`, `update`, `commit` -/

/-- `utils::MAX_NESTING_DEPTH` -/
def MAX_NESTING_DEPTH : Nat := 100

mutual
/-- `utils::nested_deeper_than(value, levels)` -/
def nestedDeeperThan : JVal → Nat → Bool
  | .arr l, levels => levels == 0 || nestedDeeperThanL l (levels - 1)
  | .obj o, levels => levels == 0 || nestedDeeperThanO o (levels - 1)
  | _, _ => false
def nestedDeeperThanL : List JVal → Nat → Bool
  | [], _ => false
  | v :: t, levels => nestedDeeperThan v levels || nestedDeeperThanL t levels
def nestedDeeperThanO : JObj → Nat → Bool
  | [], _ => false
  | (_, v) :: t, levels => nestedDeeperThan v levels || nestedDeeperThanO t levels
end

/-- `utils::is_too_deep(obj)` -/
def isTooDeep (o : JObj) : Bool := nestedDeeperThanO o (MAX_NESTING_DEPTH - 1)

/-- `digest_object`; `Except` error = the `bail!` messages -/
def digestObject (H : Bytes → Str) (o : JObj) : Except String Str :=
  if o.isEmpty then .ok Rev.EMPTY
  else if objHas ID_FIELD o then .error "identifier_in_object"
  else match objGet HASH_FIELD o with
    | some (.str s) => .ok s
    | some (.num t) => .ok t   -- canonical integer tokens only (see DESIGN 2.1)
    | some _ => .error "invalid_hash_value_type"
    | none => .ok (H (utf8 (JVal.obj o).render))

/-- `generate_identifier`; error = message of the `Err` that `flatten` unwraps (a panic there) -/
def generateIdentifier (H : Bytes → Str) (o : JObj) (path : List Str) : Except String Str :=
  match objGet ID_FIELD o with
  | some (.str v) =>
    if isArrayDescriptor v then .error "user_object_identifier_cannot_begin_with_array_descriptor_prefix"
    else .ok v
  | some _ => .error "invalid_user_object_identifier"
  | none => if path.isEmpty then .ok ROOT_ID else .ok (H (utf8 path.flatten))

mutual
/-- `flatten(c, value, path)`: returns the new pool and the flattened value -/
def flatten (H : Bytes → Str) : JObj → JVal → List Str → Except String (JObj × JVal)
  | c, .str s, _ => .ok (c, .str (escapeStr s))
  | c, .arr l, path =>
    match flattenList H c l path with
    | .ok (c', l') => .ok (c', .arr l')
    | .error e => .error e
  | c, .obj o, path =>
    match generateIdentifier H o path with
    | .error e => .error e
    | .ok uuid =>
      match flattenFields H c o uuid (path ++ [uuid]) with
      | .error e => .error e
      | .ok (c', fields) => .ok (objInsert uuid (.obj (objOfList fields)) c', .str uuid)
  | c, v, _ => .ok (c, v)
def flattenList (H : Bytes → Str) : JObj → List JVal → List Str → Except String (JObj × List JVal)
  | c, [], _ => .ok (c, [])
  | c, v :: t, path =>
    match flatten H c v path with
    | .error e => .error e
    | .ok (c1, v') =>
      match flattenList H c1 t path with
      | .error e => .error e
      | .ok (c2, t') => .ok (c2, v' :: t')
def flattenFields (H : Bytes → Str) : JObj → JObj → Str → List Str → Except String (JObj × List (Str × JVal))
  | c, [], _, _ => .ok (c, [])
  | c, (k, v) :: t, uuid, fpath =>
    if k = ID_FIELD then flattenFields H c t uuid fpath
    else if isFlattenedField k then
      match flatten H c v (fpath ++ [k]) with
      | .error e => .error e
      | .ok (c1, fl) =>
        let (c2, kv) : JObj × (Str × JVal) := match fl with
          | .arr _ =>
            let duuid := '^' :: (uuid ++ '@' :: k)
            (objInsert duuid (.obj [(ORDER_FIELD, fl)]) c1, (k, .str duuid))
          | _ => (c1, (k, fl))
        match flattenFields H c2 t uuid fpath with
        | .error e => .error e
        | .ok (c3, t') => .ok (c3, kv :: t')
    else
      match flattenFields H c t uuid fpath with
      | .error e => .error e
      | .ok (c3, t') => .ok (c3, (k, v) :: t')
end

mutual
def JVal.size : JVal → Nat
  | .arr l => 1 + JVal.sizeL l
  | .obj o => 1 + JVal.sizeO o
  | _ => 1
def JVal.sizeL : List JVal → Nat
  | [] => 0
  | v :: t => v.size + JVal.sizeL t
def JVal.sizeO : JObj → Nat
  | [] => 0
  | (_, v) :: t => v.size + JVal.sizeO t
end

/-- result of `unflatten`: `panic msg`, or the new pool with `Option` value (`None` never occurs
    in the Rust code on a non-panicking path, kept for fidelity of `filter_map`) -/
inductive UnflRes (β : Type) where
  | ok (c : JObj) (v : β)
  | panic (msg : String)
  | fuel

mutual
/-- `unflatten(c, value)` with fuel (depth bound) -/
def unflatten : Nat → JObj → JVal → UnflRes JVal
  | 0, _, _ => .fuel
  | fuel + 1, c, .str s =>
    match s with
    | '!' :: t => .ok c (.str t)
    | _ =>
      if isArrayDescriptor s then
        match objGet s c with
        | none => .ok c (.arr [])          -- descriptor absent (deleted): empty array
        | some d =>
          let c1 := objRemove s c
          match d with
          | .obj dobj =>
            match objGet ORDER_FIELD dobj with
            | none => .panic "expecting_order_field_in_descriptor"
            | some (.arr order) => 
              match unflattenOrder fuel c1 order with
              | .ok c2 items => .ok c2 (.arr items)
              | .panic m => .panic m
              | .fuel => .fuel
            | some _ => .panic "expecting_order_field_in_descriptor_as_array"
          | _ => .panic "pool_value_not_an_object"
      else
        match objGet s c with
        | none => .ok c .null
        | some v => unflatten fuel (objRemove s c) v
  | fuel + 1, c, .arr l =>
    match unflattenList fuel c l with
    | .ok c' l' => .ok c' (.arr l')
    | .panic m => .panic m
    | .fuel => .fuel
  | fuel + 1, c, .obj o =>
    match unflattenFields fuel c o with
    | .ok c' o' => .ok c' (.obj (objOfList o'))
    | .panic m => .panic m
    | .fuel => .fuel
  | _ + 1, c, v => .ok c v
/-- the loop over the order of a descriptor -/
def unflattenOrder : Nat → JObj → List JVal → UnflRes (List JVal)
  | 0, _, _ => .fuel
  | _ + 1, c, [] => .ok c []
  | fuel + 1, c, u :: t =>
    match u with
    | .str uuid =>
      match objGet uuid c with
      | some o =>
        match unflatten fuel (objRemove uuid c) o with
        | .ok c1 item =>
          match unflattenOrder fuel c1 t with
          | .ok c2 items => .ok c2 (item :: items)
          | .panic m => .panic m
          | .fuel => .fuel
        | .panic m => .panic m
        | .fuel => .fuel
      | none => unflattenOrder fuel c t
    | _ => unflattenOrder fuel c t
def unflattenList : Nat → JObj → List JVal → UnflRes (List JVal)
  | 0, _, _ => .fuel
  | _ + 1, c, [] => .ok c []
  | fuel + 1, c, v :: t =>
    match unflatten fuel c v with
    | .ok c1 v' =>
      match unflattenList fuel c1 t with
      | .ok c2 t' => .ok c2 (v' :: t')
      | .panic m => .panic m
      | .fuel => .fuel
    | .panic m => .panic m
    | .fuel => .fuel
def unflattenFields : Nat → JObj → JObj → UnflRes (List (Str × JVal))
  | 0, _, _ => .fuel
  | _ + 1, c, [] => .ok c []
  | fuel + 1, c, (k, v) :: t =>
    if !isFlattenedField k then
      match unflattenFields fuel c t with
      | .ok c2 t' => .ok c2 ((k, v) :: t')
      | .panic m => .panic m
      | .fuel => .fuel
    else
      match unflatten fuel c v with
      | .ok c1 v' =>
        match unflattenFields fuel c1 t with
        | .ok c2 t' => .ok c2 ((k, v') :: t')
        | .panic m => .panic m
        | .fuel => .fuel
      | .panic m => .panic m
      | .fuel => .fuel
end

/-- enough fuel for any pool/value -/
def unflattenFuel (c : JObj) (v : JVal) : Nat := 2 * (JVal.sizeO c + v.size) + 2 * c.length + 4

end Melda
