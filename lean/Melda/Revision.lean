/-
  Model of `src/revision.rs`.
  The hash used for the 7-character tail is a parameter `H : Bytes → Str`
  (the driver instantiates it with real SHA-256 hex).
  Import-free.
-/
import Melda.Json
namespace Melda

/-- decimal rendering of a natural number (most significant digit first) -/
def natDigits : Nat → Nat → Str
  | 0, _ => []
  | fuel + 1, n => if n < 10 then [Char.ofNat (48 + n)] else natDigits fuel (n / 10) ++ [Char.ofNat (48 + n % 10)]

def natStr (n : Nat) : Str := natDigits (n + 1) n

def digitVal (c : Char) : Nat := c.val.toNat - 48

/-- value of a digit string -/
def natOfDigits (s : Str) : Nat := s.foldl (fun acc c => acc * 10 + digitVal c) 0

def isWordChar (c : Char) : Bool :=
  isDigit c || ('a'.val ≤ c.val && c.val ≤ 'z'.val) || ('A'.val ≤ c.val && c.val ≤ 'Z'.val) || c = '_'

structure Rev where
  index : Nat
  digest : Str
  tail : Option Str
deriving DecidableEq, Inhabited

namespace Rev

def DELETED : Str := ['d']
def EMPTY : Str := ['e']
def RESOLVED : Str := ['r']

/-- `Display` -/
def render (r : Rev) : Str :=
  if r.index > 1 then natStr r.index ++ '-' :: (r.digest ++ '_' :: r.tail.getD [])
  else natStr r.index ++ '-' :: r.digest

def isDeleted (r : Rev) : Bool := r.digest = DELETED
def isResolved (r : Rev) : Bool := r.digest = RESOLVED
def isEmpty (r : Rev) : Bool := r.digest = EMPTY

def isHexChar (c : Char) : Bool := (hexVal? c).isSome

/-- `digest.len() <= 8 && u32::from_str_radix(digest, 16).is_ok()` -/
def isCharcode (r : Rev) : Bool :=
  r.digest.length ≤ 8 &&
  (match r.digest with
   | '+' :: t => !t.isEmpty && t.all isHexChar
   | d => !d.isEmpty && d.all isHexChar)

/-- first seven characters of the hash of the parent's text -/
def tailOf (H : Bytes → Str) (p : Rev) : Str := (H (utf8 p.render)).take 7

/-- `Revision::new(index, digest, parent)` -/
def new (H : Bytes → Str) (index : Nat) (digest : Str) (parent : Option Rev) : Rev :=
  ⟨index, digest, parent.map (tailOf H)⟩

def mk1 (digest : Str) : Rev := ⟨1, digest, none⟩
def upd (H : Bytes → Str) (digest : Str) (p : Rev) : Rev := ⟨p.index + 1, digest, some (tailOf H p)⟩
def del (H : Bytes → Str) (p : Rev) : Rev := upd H DELETED p
def res (H : Bytes → Str) (p : Rev) : Rev := upd H RESOLVED p

/-- three-way comparison on rendered text -/
def cmpStr (a b : Str) : Ordering := if strLt a b then .lt else if strLt b a then .gt else .eq

/-- `Ord for Revision` -/
def cmp (a b : Rev) : Ordering :=
  if a.isResolved && b.isResolved then cmpStr a.render b.render
  else if a.isResolved then .lt
  else if b.isResolved then .gt
  else if a.index < b.index then .lt
  else if a.index > b.index then .gt
  else cmpStr a.render b.render

def lt (a b : Rev) : Bool := cmp a b = .lt

/-! ### `Revision::from`: the two unanchored leftmost-first regexes, on ASCII text -/

def spanP (p : Char → Bool) : Str → Str × Str
  | [] => ([], [])
  | c :: t => if p c then let (a, b) := spanP p t; (c :: a, b) else ([], c :: t)

/-- split a word run `w` at its last `_` that has at least one character before and after it
    (greedy `(\w+)_(\w+)` with backtracking); scans from the left keeping the last candidate -/
def splitLastUnderscore (w : Str) : Option (Str × Str) :=
  let rec go (pre : Str) (rest : Str) (best : Option (Str × Str)) : Option (Str × Str) :=
    match rest with
    | [] => best
    | c :: t =>
      let best' := if c = '_' && !pre.isEmpty && !t.isEmpty then some (pre.reverse, t) else best
      go (c :: pre) t best'
  go [] w none

/-- try `FULL_REV` with the match starting exactly at the head of `s` -/
def matchFullAt (s : Str) : Option Rev :=
  let (ds, r) := spanP isDigit s
  if ds.isEmpty then none
  else match r with
    | '-' :: r' =>
      let (w, _) := spanP isWordChar r'
      match splitLastUnderscore w with
      | some (d, t) => some ⟨natOfDigits ds, d, some t⟩
      | none => none
    | _ => none

def matchFirstAt (s : Str) : Option Rev :=
  let (ds, r) := spanP isDigit s
  if ds.isEmpty then none
  else match r with
    | '-' :: r' =>
      let (w, _) := spanP isWordChar r'
      if w.isEmpty then none else some ⟨natOfDigits ds, w, none⟩
    | _ => none

def findAt (m : Str → Option Rev) : Str → Option Rev
  | [] => none
  | c :: t => match m (c :: t) with
    | some r => some r
    | none => findAt m t

/-- `Revision::from` -/
def parse (s : Str) : Option Rev :=
  match findAt matchFullAt s with
  | some r => some r
  | none => findAt matchFirstAt s

end Rev
end Melda
