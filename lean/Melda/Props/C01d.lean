/-
  C01d — the bridge between the two document-level invariant frameworks: a state satisfying `C04c.InvA`
  (the invariant kept by `update`) satisfies `C12b.ReadInv` (the invariant under which `read` is analysed:
  `read_sim`, snapshots, resolutions, `C01c.read_converge` / `read_of_agree`), so the convergence theorem for
  `read` applies to states reached by `update`.

  1. `goodTree_of_treeOK`: `C04b.TreeOK` + valid leaf cache + `validated = true` ⇒ `C12.GoodTree`.
     `ordOf src st u l` := THE array `l` denotes in the tree of `u` (`TrueOrder` is functional).
     MAIN `readInv_of_invA_N` (any `N` with `NFresh N st`), `readInv_of_invA` (`N := fun _ _ => False`),
     `readInv_of_invA_noCross`.  Which clause of `ReadInv` comes from which clause of `InvA`: see the doc comment
     of `readInv_of_invA_N`.
  2. `update_allVal`: `update` keeps every tree validated (`AllVal`, equivalent to `C01.AllValidated`).
  3. COROLLARIES `read_after_update_converges`, `read_after_updates_converge` (both replicas ran `update`:
     `UpdatedFrom`), `updates_same_document`, `read_update_then_converge`.  `readInv_cold`: dropping the cache.
  4. Non-vacuity on `C04c`'s concrete states `stA`, `stB` (delta path), `stC1` (two array trees); `stB'`.

  Hypotheses beyond `InvA` (each shown satisfiable in section `Examples`):
  * `AgreeParents st` (or `NoCrossTreeRev st`): needed for `coherent` and `cache` (first half of `CacheP`);
    cannot be dropped (`C04c.agreeParents_needed`).
  * `NoArrayConflict st`: needed for `orders`; `InvA.winners` speaks of the winner only.
  * `ArrValidated st` (the array trees carry `validated = true`): needed for `good`; FINDING
    `arrValidated_needed`: no clause of `InvA` mentions the flag — `unval stA` satisfies `InvA`, `AgreeParents`,
    `NoArrayConflict` and no `ReadInv` at all.  `update` keeps the flag up (`update_allVal`), so the gap is in the
    statement of `C04b.TreeOK`/`InvA`, not in the model.
  * `NFresh N st` for the second half of `CacheP` (trivial for `N := fun _ _ => False`).
-/
import Melda.Doc
import Melda.Props.C01
import Melda.Props.C01c
import Melda.Props.C04b
import Melda.Props.C04c
import Melda.Props.C12
import Melda.Props.C12b
import Melda.Props.C15
import Melda.Props.C16b
namespace Melda.Props.C01d
open Melda Melda.DState Melda.RevTree
open C05 (KeysNodup WellIndexed)
open C12 (GoodTree Closed SameBodies)
open C12b (ReadInv CacheP InTree IsDelta)
open C16b (TrueOrder)
open C04b (TreeOK)
open C04c (InvA AgreeParents NoCrossTreeRev NoArrayConflict ArrTree WinnersTO)

/-! ## 1. the bridge between the two tree invariants -/

/-- every array-descriptor tree of the state carries `validated = true` (the `ValidationState` flag).
    NOT part of `C04b.TreeOK` / `C04c.InvA`; part of `C15.Validated`, hence of `C12.GoodTree`. -/
def ArrValidated (st : DState) : Prop := ∀ u t, ArrTree st u t → t.validated = true

/-- **bridge** `C04b.TreeOK` + valid leaf cache + the validation flag give `C12.GoodTree` -/
theorem goodTree_of_treeOK {t : RevTree} (ht : TreeOK t) (hl : t.leafs = sortRevs (liveLeafs t.entries))
    (hv : t.validated = true) : GoodTree t :=
  ⟨(C15.validated_iff t).mpr ⟨hl, ht.winner_eq, hv⟩, ht.keys, ht.idx, ht.closed, ht.canon⟩

/-- the converse direction, for what `GoodTree` knows (the clause `beyond` of `TreeOK` is not in `GoodTree`) -/
theorem treeOK_parts_of_goodTree {t : RevTree} (g : GoodTree t) :
    t.winner = maxRev (liveLeafs t.entries) ∧ t.leafs = sortRevs (liveLeafs t.entries) ∧ t.validated = true ∧
    KeysNodup t.entries ∧ WellIndexed t.entries ∧ C04b.ParentClosed t.entries ∧
    (∀ e ∈ t.entries, C19.Canonical e.rev) := by
  obtain ⟨h1, h2, h3⟩ := (C15.validated_iff t).mp g.valid
  exact ⟨h2, h1, h3, g.keys, g.widx, g.closed, g.canon⟩

theorem readDesc_deleted (src : Src) (st : DState) {r : Rev} (h : r.isDeleted = true) :
    readDesc src st r = .ok (.inl []) := by
  unfold readDesc
  rw [C07.readObject_deleted src st h]
  rfl

/-- in a good tree without conflict the only leaf is the winner -/
theorem leaf_is_winner {t : RevTree} (g : GoodTree t) (h1 : t.leafs.length ≤ 1) {l : Rev} (hl : l ∈ t.leafs) :
    t.winner = some l := by
  obtain ⟨w, hw⟩ := g.winner_isSome (fun e => by rw [e] at hl; cases hl)
  rw [hw, C04c.eq_of_mem_len_le_one h1 hl (g.winner_mem hw)]

/-! ## 2. the order assignment -/

/-- `ord u l`: THE array the revision `l` denotes in the tree of `u` (unique by `C16b.trueOrder_functional`) -/
noncomputable def ordOf (src : Src) (st : DState) : Str → Rev → List JVal :=
  fun u l => Classical.epsilon (fun o => ∃ t, st.treeOf u = some t ∧ TrueOrder src st t l o)

theorem ordOf_spec {src : Src} {st : DState} {u : Str} {t : RevTree} {l : Rev} {o : List JVal}
    (ht : st.treeOf u = some t) (h : TrueOrder src st t l o) : TrueOrder src st t l (ordOf src st u l) := by
  have := Classical.epsilon_spec (p := fun o => ∃ t, st.treeOf u = some t ∧ TrueOrder src st t l o) ⟨o, t, ht, h⟩
  obtain ⟨t', ht', h'⟩ := this
  rw [ht] at ht'
  cases ht'
  exact h'

theorem ordOf_eq {src : Src} {st : DState} {u : Str} {t : RevTree} {l : Rev} {o : List JVal}
    (ht : st.treeOf u = some t) (h : TrueOrder src st t l o) : ordOf src st u l = o :=
  C16b.trueOrder_functional (ordOf_spec ht h) h

/-- what is asked of `N` (the revisions a tree may still receive): a revision that is recorded in some array
    tree of the state and not in the array tree of `u₂` is not among the revisions the tree of `u₂` may receive.
    (`fun _ _ => False` satisfies it; with a single array tree every `N` does.) -/
def NFresh (N : Str → Rev → Prop) (st : DState) : Prop :=
  ∀ u1 t1 u2 t2 r, ArrTree st u1 t1 → ArrTree st u2 t2 → t1.contains r = true → t2.contains r = false → ¬ N u2 r

theorem nFresh_false (st : DState) : NFresh (fun _ _ => False) st := fun _ _ _ _ _ _ _ _ _ h => h

/-- it is enough that `N u₂` avoids the revisions recorded in the OTHER array trees -/
theorem nFresh_of_other {N : Str → Rev → Prop} {st : DState}
    (hN : ∀ u1 t1 u2 r, ArrTree st u1 t1 → u1 ≠ u2 → t1.contains r = true → ¬ N u2 r) : NFresh N st := by
  intro u1 t1 u2 t2 r a b c d
  refine hN u1 t1 u2 r a ?_ c
  intro e
  subst e
  have : t1 = t2 := Option.some.inj (a.2.symm.trans b.2)
  rw [this, d] at c
  cases c

/-! ## 3. MAIN -/

section Main
variable {H : Bytes → Str} {src : Src} {S : JObj → Prop} {st : DState}

theorem arrTree_of_mem (inv : InvA H src S st) {p : Str × RevTree} (hp : p ∈ st.p.docs)
    (ha : isArrayDescriptor p.1 = true) : ArrTree st p.1 p.2 :=
  ⟨ha, C04b.treeOf_of_mem inv.base.sorted hp⟩

/-- clause `good` of `ReadInv`: from `TreeOK` (in `InvA.base`), `InvA.leafsValid` and the validation flag -/
theorem good_of_invA (inv : InvA H src S st) (hv : ArrValidated st) {u : Str} {t : RevTree}
    (ht : ArrTree st u t) : GoodTree t :=
  goodTree_of_treeOK (inv.base.goodAll u t ht.2).1 (inv.leafsValid u t ht) (hv u t ht)

/-- every leaf of an array tree denotes an array: it is the winner (`NoArrayConflict`), and the winner denotes
    an array by `WinnersTO` when live, the empty array when it is a deletion -/
theorem leaf_trueOrder (inv : InvA H src S st) (hnc : NoArrayConflict st) (hv : ArrValidated st)
    {u : Str} {t : RevTree} (ht : ArrTree st u t) {l : Rev} (hl : l ∈ t.leafs) :
    ∃ o, TrueOrder src st t l o := by
  have hw := leaf_is_winner (good_of_invA inv hv ht) (hnc u t ht.1 ht.2) hl
  cases hd : l.isDeleted with
  | true => exact ⟨[], .full (readDesc_deleted src st hd)⟩
  | false => exact inv.winners u t l ht hw hd

theorem contains_of_inTree {t : RevTree} {r : Rev} (h : InTree t r) : t.contains r = true :=
  (C12b.inTree_iff t r).mpr h

theorem not_contains_of_not_inTree {t : RevTree} {r : Rev} (h : ¬ InTree t r) : t.contains r = false := by
  cases hc : t.contains r with
  | false => rfl
  | true => exact absurd ((C12b.inTree_iff t r).mp hc) h

/-- what a revision denotes in one array tree it denotes in every array tree that records it (`AgreeParents`) -/
theorem trueOrder_across (inv : InvA H src S st) (hag : AgreeParents st) {u1 u2 : Str} {t1 t2 : RevTree}
    (h1 : ArrTree st u1 t1) (h2 : ArrTree st u2 t2) {r : Rev} {o : List JVal} (hto : TrueOrder src st t1 r o)
    (c1 : t1.contains r = true) (c2 : t2.contains r = true) : TrueOrder src st t2 r o :=
  C04c.trueOrder_transfer (inv.base.goodAll u1 t1 h1.2).1.closed (inv.base.goodAll u2 t2 h2.2).1.closed
    (fun r a b => hag u1 t1 u2 t2 r h1 h2 a b) hto c1 c2

/-- **MAIN (general `N`)** a state satisfying `C04c.InvA` whose array trees agree on shared revisions
    (`AgreeParents`), have no conflict (`NoArrayConflict`) and carry the validation flag (`ArrValidated`)
    satisfies `C12b.ReadInv N src st (ordOf src st)` for every `N` with `NFresh N st`.

    Clause by clause:
    * `sorted`   ⇐ `InvA.base.sorted`;
    * `good`     ⇐ `InvA.base.trees` (`TreeOK`: keys, indices, closure, canonical, `winner_eq`) + `InvA.leafsValid`
                   + `ArrValidated` (EXTRA: `validated = true` is in `C15.Validated` but in no clause of `InvA`);
    * `orders`   ⇐ `NoArrayConflict` (the only leaf is the winner) + `InvA.winners` (`WinnersTO`), deletions
                   denote `[]`; without `NoArrayConflict` `InvA` says nothing about the other leaves;
    * `coherent` ⇐ `AgreeParents` + `ParentClosed` (`C04c.trueOrder_transfer`) for the first half of `CacheP`,
                   `NFresh` for the second half;
    * `cache`    ⇐ `InvA.cache` + `AgreeParents` (`C04c.cacheOK_guard`) for the first half, `NFresh` (every cache
                   entry is recorded in some array tree, by `C04c.CacheOK`) for the second half. -/
theorem readInv_of_invA_N {N : Str → Rev → Prop} (inv : InvA H src S st) (hag : AgreeParents st)
    (hnc : NoArrayConflict st) (hv : ArrValidated st) (hN : NFresh N st) :
    ReadInv N src st (ordOf src st) where
  sorted := inv.base.sorted
  good := fun p hp ha => good_of_invA inv hv (arrTree_of_mem inv hp ha)
  orders := by
    intro p hp ha l hl
    have ht := arrTree_of_mem inv hp ha
    obtain ⟨o, ho⟩ := leaf_trueOrder inv hnc hv ht hl
    exact ordOf_spec ht.2 ho
  coherent := by
    intro p hp ha l hl _ q hq haq
    have ht := arrTree_of_mem inv hp ha
    have hq' := arrTree_of_mem inv hq haq
    obtain ⟨o, ho⟩ := leaf_trueOrder inv hnc hv ht hl
    have hin : p.2.contains l = true :=
      contains_of_inTree (C12b.leaf_inTree (good_of_invA inv hv ht) hl)
    exact ⟨fun hi => trueOrder_across inv hag ht hq' (ordOf_spec ht.2 ho) hin (contains_of_inTree hi),
      fun hn => hN p.1 p.2 q.1 q.2 l ht hq' hin (not_contains_of_not_inTree hn)⟩
  cache := by
    intro q hq haq kv hkv
    have hq' := arrTree_of_mem inv hq haq
    obtain ⟨u3, t3, h3, hc3, _⟩ := inv.cache kv hkv
    exact ⟨fun hi => C04c.cacheOK_guard hag (C04c.closedAll_of_good inv.base.goodAll) inv.cache hq' kv hkv
        (contains_of_inTree hi),
      fun hn => hN u3 t3 q.1 q.2 kv.1 h3 hq' hc3 (not_contains_of_not_inTree hn)⟩

/-- **MAIN `readInv_of_invA`**: with `N := fun _ _ => False` -/
theorem readInv_of_invA (inv : InvA H src S st) (hag : AgreeParents st) (hnc : NoArrayConflict st)
    (hv : ArrValidated st) : ReadInv (fun _ _ => False) src st (ordOf src st) :=
  readInv_of_invA_N inv hag hnc hv (nFresh_false st)

/-- … under `NoCrossTreeRev` -/
theorem readInv_of_invA_noCross (inv : InvA H src S st) (hx : NoCrossTreeRev st) (hnc : NoArrayConflict st)
    (hv : ArrValidated st) : ReadInv (fun _ _ => False) src st (ordOf src st) :=
  readInv_of_invA inv (C04c.agree_of_noCross hx) hnc hv

end Main

/-! ## 4. `update` keeps every tree validated

  `InvA` does not record the validation flag (nor the leaf cache of the plain trees), and `C01.AllValidated`
  is what `C01c.read_of_agree` asks of both replicas; so it is carried separately through `update`. -/

/-- every tree of the state is validated (`C15.Validated`: cached leaves, cached winner, flag) -/
def AllVal (st : DState) : Prop := ∀ u t, st.treeOf u = some t → C15.Validated t

theorem validated_add {t : RevTree} (h : C15.Validated t) (r : Rev) (p : Option Rev) (s : Bool) :
    C15.Validated (t.add r p s).1 := by
  rw [C15.add_fst]
  split
  · exact h
  · exact C15.validate_idem _

theorem validated_empty : C15.Validated RevTree.empty := rfl

theorem allVal_withTree {st : DState} {u : Str} {t : RevTree} (h : AllVal st) (ht : C15.Validated t) :
    AllVal (st.withTree u t) := by
  intro u' t' h'
  by_cases hne : u' = u
  · subst hne
    rw [C04b.treeOf_withTree_self] at h'
    cases h'
    exact ht
  · rw [C04b.treeOf_withTree_other _ _ _ _ hne] at h'
    exact h _ _ h'

theorem allVal_writeObject {st : DState} (h : AllVal st) (r : Rev) (o : JObj) : AllVal (st.writeObject r o) :=
  fun u t h' => h u t (by rw [C04b.treeOf_writeObject] at h'; exact h')

theorem allVal_acache {st : DState} (h : AllVal st) (c : C12b.Cache) : AllVal { st with acache := c } := h

theorem allVal_getD {st : DState} (h : AllVal st) (u : Str) : C15.Validated ((st.treeOf u).getD RevTree.empty) := by
  cases ht : st.treeOf u with
  | none => exact validated_empty
  | some t => exact h u t ht

theorem createObject_allVal {H : Bytes → Str} {st st' : DState} {u : Str} {o : JObj} {rv : Option Str}
    (hv : AllVal st) (h : createObject H st u o = .ok (st', rv)) : AllVal st' := by
  unfold createObject at h
  cases hd : digestObject H o with
  | error e => simp [hd] at h
  | ok d =>
    simp only [hd, C04b.treeOf_writeObject] at h
    have key : ∀ T : RevTree × Bool, T = ((st.treeOf u).getD RevTree.empty).add (Rev.mk1 d) none true →
        AllVal ((st.writeObject (Rev.mk1 d) o).withTree u T.1) := by
      intro T hT
      rw [hT]
      exact allVal_withTree (allVal_writeObject hv _ _) (validated_add (allVal_getD hv u) _ _ _)
    generalize hT : ((st.treeOf u).getD RevTree.empty).add (Rev.mk1 d) none true = T at h
    have := key T hT.symm
    obtain ⟨t', added⟩ := T
    simp only [Res.ok.injEq, Prod.mk.injEq] at h
    obtain ⟨rfl, _⟩ := h
    exact this

theorem updateObject_allVal {H : Bytes → Str} {src : Src} {st st' : DState} {u : Str} {o : JObj} {rv : Option Str}
    (hv : AllVal st) (h : updateObject H src st u o = .ok (st', rv)) : AllVal st' := by
  unfold updateObject at h
  cases htu : st.treeOf u with
  | none => rw [htu] at h; exact createObject_allVal hv h
  | some t =>
    rw [htu] at h
    simp only at h
    cases hw : t.winner with
    | none => simp [hw] at h
    | some w =>
      simp only [hw] at h
      generalize (if isArrayDescriptor u = true then deltaDescriptor src st t o else Res.ok (some o, st.acache)) = x at h
      cases x with
      | panic m => cases h
      | err e => cases h
      | ok y =>
        obtain ⟨ob, c⟩ := y
        cases ob with
        | none =>
          simp only [Res.ok.injEq, Prod.mk.injEq] at h
          obtain ⟨rfl, _⟩ := h
          exact allVal_acache hv c
        | some obj =>
          simp only at h
          cases hd : digestObject H obj with
          | error e => simp [hd] at h
          | ok d =>
            simp only [hd] at h
            by_cases hc : (isArrayDescriptor u || decide (d ≠ w.digest)) = true
            · simp only [hc, if_true, Res.ok.injEq, Prod.mk.injEq] at h
              obtain ⟨rfl, _⟩ := h
              exact allVal_writeObject (allVal_withTree (allVal_acache hv c) (validated_add (hv u t htu) _ _ _)) _ _
            · simp only [hc, Bool.false_eq_true, if_false, Res.ok.injEq, Prod.mk.injEq] at h
              obtain ⟨rfl, _⟩ := h
              exact allVal_acache hv c

theorem deleteObject_allVal {H : Bytes → Str} {st st' : DState} {u : Str} {rv : Option Str}
    (hv : AllVal st) (h : deleteObject H st u = .ok (st', rv)) : AllVal st' := by
  unfold deleteObject at h
  cases htu : st.treeOf u with
  | none =>
    simp only [htu, Res.ok.injEq, Prod.mk.injEq] at h
    obtain ⟨rfl, _⟩ := h; exact hv
  | some t =>
    simp only [htu] at h
    cases hw : t.winner with
    | none => simp [hw] at h
    | some w =>
      simp only [hw] at h
      by_cases hc : (!w.isDeleted && !w.isResolved) = true
      · simp only [hc, if_true, Res.ok.injEq, Prod.mk.injEq] at h
        obtain ⟨rfl, _⟩ := h
        exact allVal_withTree hv (validated_add (hv u t htu) _ _ _)
      · simp only [hc, Bool.false_eq_true, if_false, Res.ok.injEq, Prod.mk.injEq] at h
        obtain ⟨rfl, _⟩ := h; exact hv

theorem goneFold_allVal {H : Bytes → Str} : ∀ (l : List Str) (s s' : DState),
    AllVal s → l.foldl (C04b.goneStep H) (.ok s) = .ok s' → AllVal s'
  | [], s, s', hv, h => by
    simp only [List.foldl_nil, Res.ok.injEq] at h; subst h; exact hv
  | u :: rest, s, s', hv, h => by
    rw [List.foldl_cons] at h
    cases h2 : C04b.goneStep H (.ok s) u with
    | ok s2 =>
      rw [h2] at h
      obtain ⟨rv, hdel⟩ := C04b.goneStep_ok h2
      exact goneFold_allVal rest s2 s' (deleteObject_allVal hv hdel) h
    | err e => rw [h2] at h; exact absurd h (C04b.goneFold_not_ok H rest _ (by simp) s')
    | panic m => rw [h2] at h; exact absurd h (C04b.goneFold_not_ok H rest _ (by simp) s')

theorem poolFold_allVal {H : Bytes → Str} {src : Src} : ∀ (l : List (Str × JVal)) (s s' : DState),
    AllVal s → l.foldl (C04b.poolStep H src) (.ok s) = .ok s' → AllVal s'
  | [], s, s', hv, h => by
    simp only [List.foldl_nil, Res.ok.injEq] at h; subst h; exact hv
  | p :: rest, s, s', hv, h => by
    rw [List.foldl_cons] at h
    cases h2 : C04b.poolStep H src (.ok s) p with
    | ok s2 =>
      rw [h2] at h
      obtain ⟨o, rv, _, hupd⟩ := C04b.poolStep_ok h2
      exact poolFold_allVal rest s2 s' (updateObject_allVal hv hupd) h
    | err e => rw [h2] at h; exact absurd h (C04b.poolFold_not_ok H src rest _ (by simp) s')
    | panic m => rw [h2] at h; exact absurd h (C04b.poolFold_not_ok H src rest _ (by simp) s')

/-- **`update` keeps every tree validated** (no hypothesis on the document) -/
theorem update_allVal {H : Bytes → Str} {src : Src} {st st' : DState} {doc : JObj} {root : Str}
    (hv : AllVal st) (h : update H src st doc = .ok (st', root)) : AllVal st' := by
  rw [C04b.update_eq] at h
  cases hf : flatten H [] (.obj doc) [] with
  | error e => rw [hf] at h; cases h
  | ok pr =>
    obtain ⟨pool, rootv⟩ := pr
    rw [hf] at h
    simp only at h
    cases rootv with
    | str rootId =>
      simp only at h
      cases r1 : ((st.p.docs.map (·.1)).filter (fun u => !(objHas u pool))).foldl (C04b.goneStep H) (.ok st) with
      | err e =>
        rw [r1] at h
        cases r2 : pool.foldl (C04b.poolStep H src) (.err e) with
        | ok s => exact absurd r2 (C04b.poolFold_not_ok H src _ _ (by simp) s)
        | err e' => rw [r2] at h; cases h
        | panic m => rw [r2] at h; cases h
      | panic m =>
        rw [r1] at h
        cases r2 : pool.foldl (C04b.poolStep H src) (.panic m) with
        | ok s => exact absurd r2 (C04b.poolFold_not_ok H src _ _ (by simp) s)
        | err e' => rw [r2] at h; cases h
        | panic m => rw [r2] at h; cases h
      | ok s1 =>
        rw [r1] at h
        cases r2 : pool.foldl (C04b.poolStep H src) (.ok s1) with
        | err e => rw [r2] at h; cases h
        | panic m => rw [r2] at h; cases h
        | ok s2 =>
          rw [r2] at h
          simp only [Res.ok.injEq, Prod.mk.injEq] at h
          obtain ⟨rfl, _⟩ := h
          exact poolFold_allVal _ _ _ (goneFold_allVal _ _ _ hv r1) r2
    | null => cases h
    | bool b => cases h
    | num n => cases h
    | arr a => cases h
    | obj o => cases h

theorem allVal_empty : AllVal {} := fun u t h => by cases h

/-! ### the forms of "validated" used by the other files -/

theorem c15_treeOf_eq {st : DState} {u : Str} {t : RevTree} (h : st.treeOf u = some t) :
    C15.treeOf st.p.docs u = t := by
  unfold DState.treeOf at h
  unfold C15.treeOf
  cases hf : st.p.docs.find? (fun p => p.1 = u) with
  | none => rw [hf] at h; cases h
  | some p => rw [hf] at h; exact Option.some.inj h

theorem allVal_iff_allValidated (st : DState) : AllVal st ↔ C01.AllValidated st.p.docs := by
  constructor
  · intro h u
    rcases C15.treeOf_mem_or st.p.docs u with he | ⟨p, hp, hk, ht⟩
    · rw [he]; rfl
    · cases hs : st.treeOf u with
      | none =>
        exfalso
        unfold DState.treeOf at hs
        simp only [Option.map_eq_none_iff] at hs
        have := List.find?_eq_none.mp hs p hp
        simp [hk] at this
      | some t => rw [c15_treeOf_eq hs]; exact h u t hs
  · intro h u t ht
    have := h u
    rw [c15_treeOf_eq ht] at this
    exact this

theorem arrValidated_of_allVal {st : DState} (h : AllVal st) : ArrValidated st := fun u t ht =>
  ((C15.validated_iff t).mp (h u t ht.2)).2.2

theorem arrValidated_of_allValidated {st : DState} (h : C01.AllValidated st.p.docs) : ArrValidated st :=
  arrValidated_of_allVal ((allVal_iff_allValidated st).mpr h)

/-! ## 5. corollaries: convergence of `read` on states reached by `update` -/

open C01 (Agree AllValidated)
open C19 (HexOut)
open C04b (CollisionFree NoHash)
open C04c (Univ)

/-- **COROLLARY `read_after_update_converges`.** Two replicas that both satisfy `InvA` (with `AgreeParents`, no
    array conflict), whose protocol states `Agree` (C01) and are validated, and whose bodies agree, return the
    same `read` result with the returned cache dropped: same JSON value, or same error, or same panic. -/
theorem read_after_update_converges {H₁ H₂ : Bytes → Str} {src₁ src₂ : Src} {S₁ S₂ : JObj → Prop} {st₁ st₂ : DState}
    (inv₁ : InvA H₁ src₁ S₁ st₁) (inv₂ : InvA H₂ src₂ S₂ st₂)
    (ag₁ : AgreeParents st₁) (ag₂ : AgreeParents st₂) (nc₁ : NoArrayConflict st₁) (nc₂ : NoArrayConflict st₂)
    (ha : Agree st₁.p st₂.p) (v1 : AllValidated st₁.p.docs) (v2 : AllValidated st₂.p.docs)
    (hb : SameBodies src₁ st₁ src₂ st₂) :
    C01c.val (read src₁ st₁) = C01c.val (read src₂ st₂) :=
  C01c.read_of_agree ha v1 v2 (readInv_of_invA inv₁ ag₁ nc₁ (arrValidated_of_allValidated v1))
    (readInv_of_invA inv₂ ag₂ nc₂ (arrValidated_of_allValidated v2)) hb

/-- everything `C04c.update_read` asks of a run of `update`, plus: the trees of the prior state are validated -/
structure UpdatedFrom (H : Bytes → Str) (src : Src) (st : DState) (doc : JObj) (st' : DState) : Prop where
  hex : HexOut H
  wf : C04.WFDoc (.obj doc)
  nb : C04.NoBangIds (.obj doc)
  dd : C04.DescIdsDistinct (.obj doc)
  root : C04.objId doc = ROOT_ID
  nh : ∀ o, C04b.PoolObj doc o → NoHash o
  inv : InvA H src (fun _ => True) st
  nc : NoArrayConflict st
  val : AllVal st
  cf : CollisionFree H (Univ src st doc)
  ag : AgreeParents st'
  run : ∃ r, update H src st doc = .ok (st', r)

namespace UpdatedFrom
variable {H : Bytes → Str} {src : Src} {st st' : DState} {doc : JObj}

theorem invA (h : UpdatedFrom H src st doc st') : InvA H src (fun _ => True) st' ∧ NoArrayConflict st' := by
  obtain ⟨r, hr⟩ := h.run
  obtain ⟨h1, h2, _⟩ := C04c.update_keeps_invA h.hex h.wf h.nb h.dd h.root h.nh h.inv h.nc h.cf h.ag hr
  exact ⟨h1, h2⟩

theorem allVal (h : UpdatedFrom H src st doc st') : AllVal st' := by
  obtain ⟨r, hr⟩ := h.run
  exact update_allVal h.val hr

/-- **a state produced by `update` satisfies `ReadInv`** -/
theorem readInv (h : UpdatedFrom H src st doc st') : ReadInv (fun _ _ => False) src st' (ordOf src st') :=
  readInv_of_invA h.invA.1 h.ag h.invA.2 (arrValidated_of_allVal h.allVal)

theorem read (h : UpdatedFrom H src st doc st') : ∃ c, DState.read src st' = .ok (C04.addIds (.obj doc), c) := by
  obtain ⟨r, hr⟩ := h.run
  exact C04c.update_read h.hex h.wf h.nb h.dd h.root h.nh h.inv h.nc h.cf h.ag hr

end UpdatedFrom

/-- `read_after_update_converges` for two replicas that each ran `update` (possibly with different documents,
    hashes, sources): if afterwards their protocol states agree and they read the same bodies, they show the
    same document -/
theorem read_after_updates_converge {H₁ H₂ : Bytes → Str} {src₁ src₂ : Src} {s₁ s₂ st₁ st₂ : DState}
    {doc₁ doc₂ : JObj} (u₁ : UpdatedFrom H₁ src₁ s₁ doc₁ st₁) (u₂ : UpdatedFrom H₂ src₂ s₂ doc₂ st₂)
    (ha : Agree st₁.p st₂.p) (hb : SameBodies src₁ st₁ src₂ st₂) :
    C01c.val (read src₁ st₁) = C01c.val (read src₂ st₂) :=
  read_after_update_converges u₁.invA.1 u₂.invA.1 u₁.ag u₂.ag u₁.invA.2 u₂.invA.2 ha
    ((allVal_iff_allValidated _).mp u₁.allVal) ((allVal_iff_allValidated _).mp u₂.allVal) hb

/-- … in particular both show the document of the first (hence `addIds doc₁ = addIds doc₂`) -/
theorem updates_same_document {H₁ H₂ : Bytes → Str} {src₁ src₂ : Src} {s₁ s₂ st₁ st₂ : DState}
    {doc₁ doc₂ : JObj} (u₁ : UpdatedFrom H₁ src₁ s₁ doc₁ st₁) (u₂ : UpdatedFrom H₂ src₂ s₂ doc₂ st₂)
    (ha : Agree st₁.p st₂.p) (hb : SameBodies src₁ st₁ src₂ st₂) :
    C04.addIds (.obj doc₁) = C04.addIds (.obj doc₂) := by
  have h := read_after_updates_converge u₁ u₂ ha hb
  obtain ⟨c1, h1⟩ := u₁.read
  obtain ⟨c2, h2⟩ := u₂.read
  rw [h1, h2] at h
  simp only [C01c.val] at h
  exact Res.ok.inj h

/-- **COROLLARY `read_update_then_converge`.** Replica 1 runs `update H src st doc = .ok (st', _)` from an
    `InvA` state without array conflict whose trees are validated (hypotheses of `C04c.update_read`).  Replica 2
    is ANY state satisfying `ReadInv` (its own `N₂`, `ord₂`, source, cache) whose protocol state `Agree`s with
    `st'.p`, is validated, and which reads the same bodies.  Then `read` on replica 2 returns `doc` with the
    identifiers added: exactly what `C04c.update_read` says replica 1 reads. -/
theorem read_update_then_converge {H : Bytes → Str} (hH : HexOut H) {src : Src} {st st' : DState} {doc : JObj}
    {root : Str}
    (hwf : C04.WFDoc (.obj doc)) (hnb : C04.NoBangIds (.obj doc)) (hdd : C04.DescIdsDistinct (.obj doc))
    (hroot : C04.objId doc = ROOT_ID) (hnh : ∀ o, C04b.PoolObj doc o → NoHash o)
    (hinv : InvA H src (fun _ => True) st) (hnc : NoArrayConflict st) (hval : AllValidated st.p.docs)
    (hcf : CollisionFree H (Univ src st doc)) (hag : AgreeParents st')
    (h : update H src st doc = .ok (st', root))
    {N₂ : Str → Rev → Prop} {src₂ : Src} {st₂ : DState} {ord₂ : Str → Rev → List JVal}
    (inv₂ : ReadInv N₂ src₂ st₂ ord₂) (ha : Agree st'.p st₂.p) (v2 : AllValidated st₂.p.docs)
    (hb : SameBodies src st' src₂ st₂) :
    ∃ c, DState.read src₂ st₂ = .ok (C04.addIds (.obj doc), c) := by
  have u : UpdatedFrom H src st doc st' :=
    ⟨hH, hwf, hnb, hdd, hroot, hnh, hinv, hnc, (allVal_iff_allValidated st).mpr hval, hcf, hag, root, h⟩
  obtain ⟨c, hc⟩ := u.read
  exact C01c.read_of_agree_ok ha ((allVal_iff_allValidated _).mp u.allVal) v2 u.readInv inv₂ hb hc

/-- a replica restarted with a cold descriptor cache still satisfies `ReadInv` -/
theorem readInv_cold {N : Str → Rev → Prop} {src : Src} {st : DState} {ord : Str → Rev → List JVal}
    (inv : ReadInv N src st ord) (cap : Nat) : ReadInv N src { st with acache := Lru.empty cap } ord where
  sorted := inv.sorted
  good := inv.good
  orders := fun p hp ha l hl => (C12b.trueOrder_acache _).mpr (inv.orders p hp ha l hl)
  coherent := fun p hp ha l hl hd q hq haq =>
    ⟨fun hi => (C12b.trueOrder_acache _).mpr ((inv.coherent p hp ha l hl hd q hq haq).1 hi),
     (inv.coherent p hp ha l hl hd q hq haq).2⟩
  cache := fun _ _ _ => C12b.cacheOK_empty _ _ _ _ cap

/-- … and still satisfies `InvA` -/
theorem invA_cold {H : Bytes → Str} {src : Src} {S : JObj → Prop} {st : DState} (inv : InvA H src S st)
    (cap : Nat) : InvA H src S { st with acache := Lru.empty cap } where
  base := ⟨inv.base.sorted, ⟨inv.base.store.src_ok, inv.base.store.stage_ok, inv.base.store.objs_ok⟩,
    fun p hp => ⟨(inv.base.trees p hp).1, fun w hw hs => (inv.base.trees p hp).2 w hw hs⟩⟩
  cache := fun kv hkv => by cases hkv
  winners := fun u t w ht hw hd => by
    obtain ⟨o, ho⟩ := inv.winners u t w ht hw hd
    exact ⟨o, (C12b.trueOrder_acache _).mpr ho⟩
  leafsValid := fun u t ht => inv.leafsValid u t ht

theorem agree_refl (s : PState) : Agree s s where
  status := fun _ => rfl
  anchors := fun _ => Iff.rfl
  objects := fun _ => Iff.rfl
  packs := fun _ => Iff.rfl
  keys := rfl
  pairs := fun _ _ => Iff.rfl
  perm := fun _ => List.Perm.refl _
  leafs := fun _ => rfl
  winner := fun _ => rfl

/-! ### `InvA` does not see the validation flag -/

def unvalT (t : RevTree) : RevTree := { t with validated := false }

/-- the same state with the validation flag of every tree down -/
def unval (st : DState) : DState :=
  { st with p := { st.p with docs := st.p.docs.map (fun p => (p.1, unvalT p.2)) } }

theorem treeOf_unval (st : DState) (u : Str) : (unval st).treeOf u = (st.treeOf u).map unvalT := by
  unfold DState.treeOf unval
  simp only [List.find?_map, Option.map_map]
  rfl

theorem treeOf_unval_some {st : DState} {u : Str} {t' : RevTree} (h : (unval st).treeOf u = some t') :
    ∃ t, st.treeOf u = some t ∧ t' = unvalT t := by
  rw [treeOf_unval] at h
  cases ht : st.treeOf u with
  | none => rw [ht] at h; cases h
  | some t => rw [ht] at h; exact ⟨t, rfl, (Option.some.inj h).symm⟩

theorem treeOK_unvalT {t : RevTree} (h : TreeOK t) : TreeOK (unvalT t) :=
  ⟨h.winner_eq, h.keys, h.idx, h.canon, h.closed, h.beyond⟩

theorem to_unval {src : Src} {st : DState} {t : RevTree} {r : Rev} {o : List JVal} :
    TrueOrder src (unval st) (unvalT t) r o ↔ TrueOrder src st t r o :=
  ⟨C12b.trueOrder_congr (src := src) (st := unval st) (t := unvalT t) (src' := src) (st' := st) (t' := t)
      (fun _ => rfl) (fun _ => rfl),
   C12b.trueOrder_congr (src := src) (st := st) (t := t) (src' := src) (st' := unval st) (t' := unvalT t)
      (fun _ => rfl) (fun _ => rfl)⟩

theorem arrTree_unval {st : DState} {u : Str} {t' : RevTree} (h : ArrTree (unval st) u t') :
    ∃ t, ArrTree st u t ∧ t' = unvalT t := by
  obtain ⟨t, ht, e⟩ := treeOf_unval_some h.2
  exact ⟨t, ⟨h.1, ht⟩, e⟩

theorem arrTree_unval' {st : DState} {u : Str} {t : RevTree} (h : ArrTree st u t) :
    ArrTree (unval st) u (unvalT t) := ⟨h.1, by rw [treeOf_unval, h.2]; rfl⟩

theorem invA_unval {H : Bytes → Str} {src : Src} {S : JObj → Prop} {st : DState} (inv : InvA H src S st) :
    InvA H src S (unval st) where
  base := {
    sorted := by
      have : (unval st).p.docs = st.p.docs.map (fun p => (p.1, unvalT p.2)) := rfl
      rw [this]
      unfold C04b.DocsSorted
      rw [List.pairwise_map]
      exact inv.base.sorted
    store := ⟨inv.base.store.src_ok, inv.base.store.stage_ok, inv.base.store.objs_ok⟩
    trees := by
      intro p hp
      have : (unval st).p.docs = st.p.docs.map (fun p => (p.1, unvalT p.2)) := rfl
      rw [this] at hp
      obtain ⟨q, hq, rfl⟩ := List.mem_map.mp hp
      obtain ⟨h1, h2⟩ := inv.base.trees q hq
      exact ⟨treeOK_unvalT h1, fun w hw hs => h2 w hw hs⟩ }
  cache := by
    intro kv hkv
    obtain ⟨u, t, ht, hc, hto⟩ := inv.cache kv hkv
    exact ⟨u, unvalT t, arrTree_unval' ht, hc, to_unval.mpr hto⟩
  winners := by
    intro u t' w ht' hw hd
    obtain ⟨t, ht, rfl⟩ := arrTree_unval ht'
    obtain ⟨o, ho⟩ := inv.winners u t w ht hw hd
    exact ⟨o, to_unval.mpr ho⟩
  leafsValid := by
    intro u t' ht'
    obtain ⟨t, ht, rfl⟩ := arrTree_unval ht'
    exact inv.leafsValid u t ht

theorem agreeParents_unval {st : DState} (h : AgreeParents st) : AgreeParents (unval st) := by
  intro u1 t1' u2 t2' r a b c d
  obtain ⟨t1, a', rfl⟩ := arrTree_unval a
  obtain ⟨t2, b', rfl⟩ := arrTree_unval b
  exact h u1 t1 u2 t2 r a' b' c d

theorem noArrayConflict_unval {st : DState} (h : NoArrayConflict st) : NoArrayConflict (unval st) := by
  intro u t' hu ht'
  obtain ⟨t, ht, rfl⟩ := treeOf_unval_some ht'
  exact h u t hu ht

/-- a state with an array tree whose flag is down does not satisfy `ReadInv`, whatever `N`, `ord` -/
theorem not_readInv_unval {src : Src} {st : DState} {u : Str} (hu : isArrayDescriptor u = true)
    (ht : (st.treeOf u).isSome = true) (N : Str → Rev → Prop) (ord : Str → Rev → List JVal) :
    ¬ ReadInv N src (unval st) ord := by
  intro inv
  obtain ⟨t, ht⟩ := Option.isSome_iff_exists.mp ht
  have h' : (unval st).treeOf u = some (unvalT t) := by rw [treeOf_unval, ht]; rfl
  have g := inv.good (u, unvalT t) (C04b.mem_of_treeOf h') hu
  have := ((C15.validated_iff _).mp g.valid).2.2
  cases this

/-! ## 6. non-vacuity: the concrete states of `C04c`'s `Examples` section -/

section Examples
open C04b (Hx hexOut_Hx src0)
open C04c (stA stB stC1 docArr docArr2 docC1 kA kB)

/-- first submission (one array tree, full descriptor) -/
theorem updated_stA : UpdatedFrom Hx src0 {} docArr stA :=
  ⟨hexOut_Hx, by decide, by decide, by decide, by decide, C04c.noHash_docArr, C04c.invA_empty Hx,
    C04c.noConflict_empty, allVal_empty, C04c.cf_docArr, C04c.agree_stA, _, C04c.update_docArr⟩

/-- second submission from `stA` (the descriptor tree receives a DELTA descriptor) -/
theorem updated_stB : UpdatedFrom Hx src0 stA docArr2 stB :=
  ⟨hexOut_Hx, by decide, by decide, by decide, by decide, C04c.noHash_docArr2, C04c.invA_stA.1,
    C04c.invA_stA.2, updated_stA.allVal, C04c.cf_docArr2, C04c.agree_stB, _, C04c.update_docArr2⟩

/-- **MAIN instantiated**: the hypotheses of `readInv_of_invA` hold on `stA` and on `stB` … -/
theorem readInv_stA : ReadInv (fun _ _ => False) src0 stA (ordOf src0 stA) :=
  readInv_of_invA C04c.invA_stA.1 C04c.agree_stA C04c.invA_stA.2 (arrValidated_of_allVal updated_stA.allVal)

theorem readInv_stB : ReadInv (fun _ _ => False) src0 stB (ordOf src0 stB) := updated_stB.readInv

/-- … and on `stC1`, which has TWO array trees (sharing no revision) -/
theorem readInv_stC1 : ReadInv (fun _ _ => False) src0 stC1 (ordOf src0 stC1) :=
  readInv_of_invA C04c.invA_stC1.1 (C04c.agreeB_sound (by decide)) C04c.invA_stC1.2
    (arrValidated_of_allVal (update_allVal allVal_empty C04c.update_docC1))

/-- the invariant is not vacuous there: `stB` has an array tree with two revisions, one leaf, whose stored
    descriptor is a delta, and `ordOf` says the leaf denotes `["x"]` -/
example : (stB.treeOf kA).map (fun t => (t.entries.length, t.leafs.length)) = some (2, 1) ∧
    isArrayDescriptor kA = true := by decide

example : ∀ t l, stB.treeOf kA = some t → l ∈ t.leafs → ordOf src0 stB kA l = [.str "x".toList] := by
  intro t l ht hl
  have hk : isArrayDescriptor kA = true := by decide
  have hto := readInv_stB.orders (kA, t) (C04b.mem_of_treeOf ht) hk l hl
  have hw : TrueOrder src0 stB t l [.str "x".toList] := by
    have e : stB.treeOf kA = some ((stB.treeOf kA).getD {}) := by decide
    rw [e] at ht
    cases ht
    have hl' : l = ((stB.treeOf kA).getD {}).winner.getD default := by
      have : ((stB.treeOf kA).getD {}).leafs = [((stB.treeOf kA).getD {}).winner.getD default] := by decide
      rw [this] at hl
      simpa using hl
    subst hl'
    have h1 : TrueOrder src0 stB ((stB.treeOf kA).getD {}) C04c.wA [.str "x".toList, .str "y".toList] :=
      .full (by rfl)
    exact .delta (patch := C04c.pDelta) (par := C04c.wA) (by rfl) (by rfl) h1 (by rfl)
  exact C16b.trueOrder_functional hto hw

/-- `NFresh` with a non-trivial `N`: in `stB` (one array tree) every `N` is fine -/
example : NFresh (fun _ r => 3 ≤ r.index) stB := by
  intro u1 t1 u2 t2 r a b c d
  have h1 : u1 = kA := by
    have := C04b.mem_of_treeOf a.2
    have hall : ∀ p ∈ stB.p.docs, isArrayDescriptor p.1 = true → p.1 = kA := by decide
    exact hall _ this a.1
  have h2 : u2 = kA := by
    have := C04b.mem_of_treeOf b.2
    have hall : ∀ p ∈ stB.p.docs, isArrayDescriptor p.1 = true → p.1 = kA := by decide
    exact hall _ this b.1
  subst h1; subst h2
  have : t1 = t2 := Option.some.inj (a.2.symm.trans b.2)
  rw [this, d] at c
  cases c

/-- replica 2: `stB` restarted with a cold cache of another capacity -/
def stB' : DState := { stB with acache := Lru.empty 3 }

/-- **`read_update_then_converge` instantiated**: replica 1 goes from `stA` to `stB` by `update`; replica 2 is
    `stB'`; all hypotheses hold and replica 2 shows the submitted document -/
example : ∃ c, DState.read src0 stB' = .ok (C04.addIds (.obj docArr2), c) :=
  read_update_then_converge hexOut_Hx (by decide) (by decide) (by decide) (by decide) C04c.noHash_docArr2
    C04c.invA_stA.1 C04c.invA_stA.2 ((allVal_iff_allValidated _).mp updated_stA.allVal) C04c.cf_docArr2
    C04c.agree_stB C04c.update_docArr2 (readInv_cold readInv_stB 3) (agree_refl _)
    ((allVal_iff_allValidated stB).mp updated_stB.allVal) (fun _ => rfl)

/-- **`read_after_update_converges` instantiated** on `stB` / `stB'` via `UpdatedFrom` on one side and the raw
    invariant on the other -/
example : C01c.val (DState.read src0 stB) = C01c.val (DState.read src0 stB') :=
  C01c.read_of_agree (agree_refl _) ((allVal_iff_allValidated stB).mp updated_stB.allVal)
    ((allVal_iff_allValidated stB).mp updated_stB.allVal) readInv_stB (readInv_cold readInv_stB 3) (fun _ => rfl)

example : C01c.val (DState.read src0 stB) = C01c.val (DState.read src0 stB') :=
  read_after_update_converges updated_stB.invA.1 (invA_cold updated_stB.invA.1 3) C04c.agree_stB C04c.agree_stB
    updated_stB.invA.2 updated_stB.invA.2 (agree_refl _) ((allVal_iff_allValidated stB).mp updated_stB.allVal)
    ((allVal_iff_allValidated stB).mp updated_stB.allVal) (fun _ => rfl)

example : C01c.val (DState.read src0 stB) = C01c.val (DState.read src0 stB) :=
  read_after_updates_converge updated_stB updated_stB (agree_refl _) (fun _ => rfl)

/-- `ArrValidated` is a real extra hypothesis: `stA` with the validation flags down still satisfies `InvA`,
    `AgreeParents`, `NoArrayConflict`, but `ReadInv` (clause `good`) for NO `N`, `ord` -/
theorem arrValidated_needed :
    InvA Hx src0 (fun _ => True) (unval stA) ∧ AgreeParents (unval stA) ∧ NoArrayConflict (unval stA) ∧
    ¬ ArrValidated (unval stA) ∧
    ∀ N ord, ¬ ReadInv N src0 (unval stA) ord :=
  ⟨invA_unval C04c.invA_stA.1, agreeParents_unval C04c.agree_stA, noArrayConflict_unval C04c.invA_stA.2,
    fun h => not_readInv_unval (u := kA) (by decide) (by decide) _ _
      (readInv_of_invA (invA_unval C04c.invA_stA.1) (agreeParents_unval C04c.agree_stA)
        (noArrayConflict_unval C04c.invA_stA.2) h),
    fun N ord => not_readInv_unval (u := kA) (by decide) (by decide) N ord⟩

end Examples

end Melda.Props.C01d

section Audit
open Melda.Props.C01d
#print axioms goodTree_of_treeOK
#print axioms readInv_of_invA_N
#print axioms readInv_of_invA
#print axioms readInv_of_invA_noCross
#print axioms update_allVal
#print axioms read_after_update_converges
#print axioms read_after_updates_converge
#print axioms updates_same_document
#print axioms read_update_then_converge
#print axioms readInv_cold
#print axioms readInv_stA
#print axioms readInv_stB
#print axioms readInv_stC1
#print axioms arrValidated_needed
end Audit
