/-
  C04 (document level, WITH flattened arrays) — after a document is submitted with `update`, reading
  the replica returns that document exactly, from any prior state satisfying `InvA` in which no
  flattened array is in conflict. Removes the hypothesis `NoArrays doc` of `C04b.update_read_plain`.

  (a) `to16`, `to04`, `trueOrder_iff`: C04b's local `TrueOrder` and C16b's coincide for a revision
      recorded in a parent-closed tree (C16b's `orphan` case does not ask the revision to be recorded, and
      is therefore not monotone under tree growth; C04b's is). `trueOrder_mono`, `trueOrder_transfer`.
  Shared cache. The array cache is keyed by `Rev` only and shared by all descriptor trees, so
      `C16b.rebuild_sound` (which wants EVERY cache entry to be a true order of the tree walked) does
      not apply directly. `rebuild_sound_g` / `rebuild_complete_g`: only the entries of revisions
      recorded in the tree matter (proved by restricting the cache to the tree, `filt`, and showing
      that `rebuildOrder` computes the same order, `rebuildVal_filt`).
      Cache invariant `CacheOK src st c`: every entry `(r, order)` is the true order of `r` in SOME
      descriptor tree of the state that records `r` (maintainable without further assumptions);
      together with `AgreeParents st` (descriptor trees agree on the parent of every revision they
      share; implied by `NoCrossTreeRev`, `agree_of_noCross`) it gives the "for EVERY tree that records
      `r`" form, `cacheOK_guard`.
  Stage 1 `updateObject_array_full`: after `updateObject` on a descriptor identifier with `{"A": newOrder}`
      the winner is live and denotes `newOrder`, the tree keeps a single leaf, the cache stays sound;
      no assumed soundness of `rebuildOrder`.
  Stage 2 `readAt_array_single_leaf` (+ `_sound`): with ≤ 1 leaf, `TrueOrder w order` and a sound cache,
      `readAt = .ok ([("A", .arr order)], c')` and `c'` is sound.
  Stage 3 `update_read` (main), `update_keeps_invA` (`InvA` and `NoArrayConflict` are kept, root is `√`),
      `update_read_coreA` (arbitrary collision-free universe), `update_read_noCross`.
  FINDING `agreeParents_needed`: without `AgreeParents st'` the statement is FALSE for the model
      (concrete witness, every other hypothesis holds): two descriptor trees sharing a revision with
      different parents make `read` serve the order cached for one array to the other.

  Hypotheses beyond the task text, all shown satisfiable together in the `Examples` section (first
  submission, and a second submission from a non-empty state taking the delta path):
  * `AgreeParents st'` on the RESULTING state (it is inherited by every intermediate state because trees
    only grow, `agree_of_grow`); it cannot be dropped (`agreeParents_needed`).
  * `InvA` = `C04b.Inv` + (i) `CacheOK` + (ii) `WinnersTO` + (iv) valid leaf cache of descriptor trees
    (`TreeOK` says nothing about `t.leafs`; `NoArrayConflict` is stated on `t.leafs` as in the task).
  * collision freedom on `Univ src st doc`: stored bodies, pool objects, and the delta descriptors
    `update` generates (`GenDelta`, at most one per array of the document).
-/
import Melda.Doc
import Melda.Props.C04
import Melda.Props.C04b
import Melda.Props.C16
import Melda.Props.C16b
namespace Melda.Props.C04c
open Melda Melda.RevTree Melda.DState
open Melda.Props.C05 (CmpOrder KeysNodup WellIndexed Reaches LiveLeaf)
open Melda.Props.C19 (Canonical AlnumStr HexOut)
open Melda.Props.C16 (Sound)
open Melda.Props.C04b (TreeOK ParentClosed StoreOK CollisionFree NoHash WinnerBody GoodAll DocsSorted Cache
  Faithful Frame Glob)

/-! ## (a) the two `TrueOrder`s -/

/-- the declarative meaning of a stored array version used throughout: C16b's -/
abbrev TO := @C16b.TrueOrder

theorem to16 {src : Src} {st : DState} {t : RevTree} {r : Rev} {o : List JVal}
    (h : C04b.TrueOrder src st t r o) : TO src st t r o := by
  induction h with
  | full h1 => exact .full h1
  | delta h1 h2 _ h4 ih => exact .delta h1 h2 ih h4
  | deltaRoot h1 _ h3 h4 => exact .orphan h1 h3 h4

theorem contains_parent {t : RevTree} (hcl : ParentClosed t.entries) {r par : Rev}
    (h : t.getParent r = some par) : t.contains par = true := by
  obtain ⟨e, he, _, hep⟩ := C16b.getParent_some h
  exact (C05.contains_iff t par).mpr (hcl e he par hep)

theorem to04 {src : Src} {st : DState} {t : RevTree} (hcl : ParentClosed t.entries) {r : Rev} {o : List JVal}
    (h : TO src st t r o) : t.contains r = true → C04b.TrueOrder src st t r o := by
  induction h with
  | full h1 => exact fun _ => .full h1
  | delta h1 h2 _ h4 ih => exact fun _ => .delta h1 h2 (ih (contains_parent hcl h2)) h4
  | orphan h1 h3 h4 => exact fun hc => .deltaRoot h1 hc h3 h4

/-- **(a)** on a parent-closed tree and for a recorded revision the two definitions coincide -/
theorem trueOrder_iff {src : Src} {st : DState} {t : RevTree} (hcl : ParentClosed t.entries) {r : Rev}
    (hc : t.contains r = true) (o : List JVal) : C04b.TrueOrder src st t r o ↔ TO src st t r o :=
  ⟨to16, fun h => to04 hcl h hc⟩

/-- what a recorded revision denotes is kept when the stage and the tree grow -/
theorem trueOrder_mono {src : Src} {st st' : DState} {t t' : RevTree} {l : List RtEntry}
    (hcl : ParentClosed t.entries)
    (hr : ∀ r x, readObject src st r = .ok x → readObject src st' r = .ok x)
    (ht : t'.entries = t.entries ++ l) {r : Rev} {o : List JVal} (hc : t.contains r = true)
    (h : TO src st t r o) : TO src st' t' r o :=
  to16 (C04b.trueOrder_mono hr ht (to04 hcl h hc))

theorem trueOrder_congr {src : Src} {st st' : DState} {t : RevTree}
    (hr : ∀ r, readDesc src st' r = readDesc src st r) {r : Rev} {o : List JVal}
    (h : TO src st t r o) : TO src st' t r o := by
  induction h with
  | full h1 => exact .full (by rw [hr]; exact h1)
  | delta h1 h2 _ h4 ih => exact .delta (by rw [hr]; exact h1) h2 ih h4
  | orphan h1 h3 h4 => exact .orphan (by rw [hr]; exact h1) h3 h4

theorem readDesc_acache (src : Src) (st : DState) (c : Cache) (r : Rev) :
    readDesc src ({ st with acache := c } : DState) r = readDesc src st r := by
  unfold readDesc
  rw [C04b.readObject_congr src (st' := { st with acache := c }) (st := st) rfl]

/-- two trees that record the same parents for the revisions they share give them the same meaning -/
theorem trueOrder_transfer {src : Src} {st : DState} {t1 t2 : RevTree}
    (hc1 : ParentClosed t1.entries) (hc2 : ParentClosed t2.entries)
    (hag : ∀ r, t1.contains r = true → t2.contains r = true → t1.getParent r = t2.getParent r)
    {r : Rev} {o : List JVal} (h : TO src st t1 r o) :
    t1.contains r = true → t2.contains r = true → TO src st t2 r o := by
  induction h with
  | full h1 => exact fun _ _ => .full h1
  | @delta r par _ _ _ h1 h2 _ h4 ih =>
    intro a b
    have h2' : t2.getParent r = some par := by rw [← hag _ a b]; exact h2
    exact .delta h1 h2' (ih (contains_parent hc1 h2) (contains_parent hc2 h2')) h4
  | orphan h1 h3 h4 =>
    intro a b
    exact .orphan h1 (by rw [← hag _ a b]; exact h3) h4

/-! ## `rebuildOrder` only looks at cache entries of the tree it walks -/

/-- the cache restricted to the revisions recorded in `t` -/
def filt (t : RevTree) (c : Cache) : Cache := { c with items := c.items.filter (fun kv => t.contains kv.1) }

theorem find_filt (t : RevTree) {k : Rev} (hk : t.contains k = true) : ∀ (l : List (Rev × List JVal)),
    (l.filter (fun kv => t.contains kv.1)).find? (fun p => p.1 = k) = l.find? (fun p => p.1 = k)
  | [] => rfl
  | x :: xs => by
    by_cases hx : x.1 = k
    · simp [List.filter_cons, hx, hk]
    · cases hcx : t.contains x.1
      · simp [List.filter_cons, hcx, hx, find_filt t hk xs]
      · simp [List.filter_cons, hcx, hx, find_filt t hk xs]

theorem peek_filt (t : RevTree) (c : Cache) {k : Rev} (hk : t.contains k = true) :
    (filt t c).peek k = c.peek k := by
  unfold Lru.peek filt; simp only; rw [find_filt t hk]

theorem get_fst_eq_peek (c : Cache) (k : Rev) : (c.get k).1 = c.peek k := by
  unfold Lru.get Lru.peek
  cases c.items.find? (fun p => p.1 = k) <;> rfl

theorem collectChain_filt {src : Src} {st : DState} {t : RevTree} (hcl : ParentClosed t.entries) (c : Cache) :
    ∀ (fuel : Nat) (cur : Rev) (acc : List (List JVal)),
      collectChain src st t (filt t c) fuel cur acc = collectChain src st t c fuel cur acc := by
  intro fuel
  induction fuel with
  | zero => intro cur acc; rfl
  | succ n ih =>
    intro cur acc
    simp only [collectChain]
    cases hp : t.getParent cur with
    | none => rfl
    | some par =>
      simp only
      rw [peek_filt t c (contains_parent hcl hp)]
      cases c.peek par with
      | some o => rfl
      | none =>
        simp only
        cases readDesc src st par with
        | panic m => rfl
        | err e => rfl
        | ok d =>
          cases d with
          | inl o => rfl
          | inr p => exact ih par _

/-- the order part of a result -/
def ordOf {α β : Type} : Res (α × β) → Res α
  | .ok x => .ok x.1
  | .err e => .err e
  | .panic m => .panic m

theorem ordOf_ok {α β : Type} {r : Res (α × β)} {o : α} : ordOf r = .ok o ↔ ∃ c, r = .ok (o, c) := by
  cases r with
  | ok x => obtain ⟨a, b⟩ := x; simp [ordOf]
  | err e => simp [ordOf]
  | panic m => simp [ordOf]

/-- the order `rebuildOrder` computes, without the cache bookkeeping -/
def rebuildVal (src : Src) (st : DState) (t : RevTree) (c : Cache) (base : Rev) : Res (List JVal) :=
  match c.peek base with
  | some order => .ok order
  | none =>
    match readDesc src st base with
    | .panic m => .panic m
    | .err e => .err e
    | .ok (.inl order) => .ok order
    | .ok (.inr patch) =>
      match collectChain src st t c (t.entries.length + 1) base [patch] with
      | .panic m => .panic m
      | .err e => .err e
      | .ok (start, patches) => applyPatches start patches

theorem rebuild_val (src : Src) (st : DState) (t : RevTree) (c : Cache) (base : Rev) :
    ordOf (rebuildOrder src st t c base) = rebuildVal src st t c base := by
  unfold rebuildOrder rebuildVal
  rw [← get_fst_eq_peek]
  rcases hg : c.get base with ⟨_ | order, c'⟩
  · simp only
    cases readDesc src st base with
    | panic m => rfl
    | err e => rfl
    | ok d =>
      cases d with
      | inl o => rfl
      | inr p =>
        simp only
        cases collectChain src st t c (t.entries.length + 1) base [p] with
        | panic m => rfl
        | err e => rfl
        | ok x =>
          obtain ⟨s, ps⟩ := x
          simp only
          cases applyPatches s ps <;> rfl
  · rfl

theorem rebuildVal_filt {src : Src} {st : DState} {t : RevTree} (hcl : ParentClosed t.entries) (c : Cache)
    {base : Rev} (hb : t.contains base = true) :
    rebuildVal src st t (filt t c) base = rebuildVal src st t c base := by
  unfold rebuildVal
  rw [peek_filt t c hb]
  simp only [collectChain_filt hcl]

theorem sound_filt {src : Src} {st : DState} {t : RevTree} {c : Cache}
    (hc : ∀ kv ∈ c.items, t.contains kv.1 = true → TO src st t kv.1 kv.2) :
    Sound (C16b.TrueOrder src st t) (filt t c) := by
  intro kv hkv
  obtain ⟨h1, h2⟩ := List.mem_filter.mp hkv
  exact hc kv h1 h2

/-- **soundness of `rebuildOrder` for a cache shared by several trees**: only the entries of
    revisions recorded in `t` need to be true orders of `t` -/
theorem rebuild_sound_g {src : Src} {st : DState} {t : RevTree} (hw : WellIndexed t.entries)
    (hcl : ParentClosed t.entries) {c c' : Cache} {base : Rev} {o : List JVal}
    (hc : ∀ kv ∈ c.items, t.contains kv.1 = true → TO src st t kv.1 kv.2)
    (hb : t.contains base = true) (h : rebuildOrder src st t c base = .ok (o, c')) :
    TO src st t base o := by
  have h1 : rebuildVal src st t c base = .ok o := by rw [← rebuild_val, h]; rfl
  rw [← rebuildVal_filt hcl c hb, ← rebuild_val] at h1
  obtain ⟨c1, hc1⟩ := ordOf_ok.mp h1
  exact (C16b.rebuild_sound hw (sound_filt hc) hc1).1

/-- **completeness, same setting** -/
theorem rebuild_complete_g {src : Src} {st : DState} {t : RevTree} (hw : WellIndexed t.entries)
    (hcl : ParentClosed t.entries) {c : Cache} {base : Rev} {o : List JVal}
    (hc : ∀ kv ∈ c.items, t.contains kv.1 = true → TO src st t kv.1 kv.2)
    (hb : t.contains base = true) (hto : TO src st t base o) :
    ∃ c', rebuildOrder src st t c base = .ok (o, c') := by
  obtain ⟨c1, hc1⟩ := C16b.rebuild_complete hw (sound_filt hc) hto
  have h1 : rebuildVal src st t (filt t c) base = .ok o := by rw [← rebuild_val, hc1]; rfl
  rw [rebuildVal_filt hcl c hb, ← rebuild_val] at h1
  exact ordOf_ok.mp h1

theorem get_items (c : Cache) (k : Rev) : ∀ kv ∈ (c.get k).2.items, kv ∈ c.items := by
  unfold Lru.get
  cases hf : c.items.find? (fun p => p.1 = k) with
  | none => exact fun kv h => h
  | some p =>
    intro kv h
    rcases List.mem_cons.mp h with rfl | h
    · exact List.mem_of_find?_eq_some hf
    · exact (List.mem_filter.mp h).1

theorem put_items (c : Cache) (k : Rev) (v : List JVal) : ∀ kv ∈ (c.put k v).items, kv = (k, v) ∨ kv ∈ c.items := by
  intro kv h
  simp only [Lru.put] at h
  rcases List.mem_cons.mp (List.mem_of_mem_take h) with rfl | h
  · exact Or.inl rfl
  · exact Or.inr (List.mem_filter.mp h).1

/-- the cache after `rebuildOrder` holds old entries and possibly the answer just computed -/
theorem rebuild_items {src : Src} {st : DState} {t : RevTree} {c c' : Cache} {base : Rev} {o : List JVal}
    (h : rebuildOrder src st t c base = .ok (o, c')) : ∀ kv ∈ c'.items, kv ∈ c.items ∨ kv = (base, o) := by
  unfold rebuildOrder at h
  split at h
  · next order cache' hget =>
    obtain ⟨rfl, rfl⟩ := Prod.mk.inj (C16b.Res.ok_inj h)
    intro kv hkv
    have : cache' = (c.get base).2 := by rw [hget]
    rw [this] at hkv
    exact Or.inl (get_items c base kv hkv)
  · split at h
    · cases h
    · cases h
    · obtain ⟨rfl, rfl⟩ := Prod.mk.inj (C16b.Res.ok_inj h)
      exact fun kv hkv => Or.inl hkv
    · split at h
      · cases h
      · cases h
      · split at h
        · obtain ⟨rfl, rfl⟩ := Prod.mk.inj (C16b.Res.ok_inj h)
          intro kv hkv
          rcases put_items _ _ _ kv hkv with h | h
          · exact Or.inr h
          · exact Or.inl h
        · cases h
        · cases h


/-! ## state-level predicates -/

/-- `t` is the tree of the array descriptor `u` -/
def ArrTree (st : DState) (u : Str) (t : RevTree) : Prop := isArrayDescriptor u = true ∧ st.treeOf u = some t

/-- **The cross-tree assumption.** The array cache is keyed by revision only and shared by all
    descriptor trees; a revision recorded in two descriptor trees has the same parent in both.
    (A revision string contains a 7-character hash of its parent, so this follows from collision
    freedom of those tails; it is implied by `NoCrossTreeRev`. Two arrays with the same scalar
    content DO share their first revision, so `NoCrossTreeRev` itself is too strong.) -/
def AgreeParents (st : DState) : Prop :=
  ∀ u1 t1 u2 t2 r, ArrTree st u1 t1 → ArrTree st u2 t2 → t1.contains r = true → t2.contains r = true →
    t1.getParent r = t2.getParent r

def NoCrossTreeRev (st : DState) : Prop :=
  ∀ u1 t1 u2 t2 r, ArrTree st u1 t1 → ArrTree st u2 t2 → t1.contains r = true → t2.contains r = true → u1 = u2

theorem agree_of_noCross {st : DState} (h : NoCrossTreeRev st) : AgreeParents st := by
  intro u1 t1 u2 t2 r a b c d
  have e := h u1 t1 u2 t2 r a b c d
  subst e
  have : t1 = t2 := by have := a.2.symm.trans b.2; exact Option.some.inj this
  rw [this]

/-- **(i) soundness of the shared array cache**: every entry is the true order of its revision in
    some descriptor tree that records it (with `AgreeParents`: in every such tree, `cacheOK_guard`) -/
def CacheOK (src : Src) (st : DState) (c : Cache) : Prop :=
  ∀ kv ∈ c.items, ∃ u t, ArrTree st u t ∧ t.contains kv.1 = true ∧ TO src st t kv.1 kv.2

def ClosedAll (st : DState) : Prop := ∀ u t, ArrTree st u t → ParentClosed t.entries

theorem closedAll_of_good {H : Bytes → Str} {src : Src} {st : DState} (h : GoodAll H src st) : ClosedAll st :=
  fun u t ht => (h u t ht.2).1.closed

theorem cacheOK_guard {src : Src} {st : DState} {c : Cache} (hag : AgreeParents st) (hcl : ClosedAll st)
    (hc : CacheOK src st c) {u : Str} {t : RevTree} (ht : ArrTree st u t) :
    ∀ kv ∈ c.items, t.contains kv.1 = true → TO src st t kv.1 kv.2 := by
  intro kv hkv hcon
  obtain ⟨u3, t3, h3, hc3, hto⟩ := hc kv hkv
  exact trueOrder_transfer (hcl _ _ h3) (hcl _ _ ht) (fun r a b => hag u3 t3 u t r h3 ht a b) hto hc3 hcon

/-- the stage and the trees only grow -/
structure Grow (src : Src) (st st' : DState) : Prop where
  reads : ∀ r x, readObject src st r = .ok x → readObject src st' r = .ok x
  ext : ∀ u t, st.treeOf u = some t → ∃ t' l, st'.treeOf u = some t' ∧ t'.entries = t.entries ++ l

theorem Grow.refl (src : Src) (st : DState) : Grow src st st :=
  ⟨fun _ _ h => h, fun _ t h => ⟨t, [], h, by simp⟩⟩

theorem Grow.trans {src : Src} {a b c : DState} (h1 : Grow src a b) (h2 : Grow src b c) : Grow src a c := by
  refine ⟨fun r x h => h2.reads r x (h1.reads r x h), ?_⟩
  intro u t ht
  obtain ⟨t1, l1, e1, f1⟩ := h1.ext u t ht
  obtain ⟨t2, l2, e2, f2⟩ := h2.ext u t1 e1
  exact ⟨t2, l1 ++ l2, e2, by rw [f2, f1, List.append_assoc]⟩

theorem contains_append {t t' : RevTree} {l : List RtEntry} (ht : t'.entries = t.entries ++ l) {r : Rev}
    (h : t.contains r = true) : t'.contains r = true := by
  unfold RevTree.contains at h ⊢
  cases hf : find? t.entries r with
  | none => simp [hf] at h
  | some e => rw [ht, C04b.find_append_some hf]; rfl

theorem getParent_append {t t' : RevTree} {l : List RtEntry} (ht : t'.entries = t.entries ++ l) {r : Rev}
    (h : t.contains r = true) : t'.getParent r = t.getParent r := by
  unfold RevTree.contains at h
  unfold getParent
  cases hf : find? t.entries r with
  | none => simp [hf] at h
  | some e => rw [ht, C04b.find_append_some hf]

theorem agree_of_grow {src : Src} {st st' : DState} (hg : Grow src st st') (h : AgreeParents st') :
    AgreeParents st := by
  intro u1 t1 u2 t2 r a b c d
  obtain ⟨t1', l1, e1, f1⟩ := hg.ext u1 t1 a.2
  obtain ⟨t2', l2, e2, f2⟩ := hg.ext u2 t2 b.2
  have := h u1 t1' u2 t2' r ⟨a.1, e1⟩ ⟨b.1, e2⟩ (contains_append f1 c) (contains_append f2 d)
  rw [getParent_append f1 c, getParent_append f2 d] at this
  exact this

theorem cacheOK_grow {src : Src} {st st' : DState} {c : Cache} (hg : Grow src st st') (hcl : ClosedAll st)
    (hc : CacheOK src st c) : CacheOK src st' c := by
  intro kv hkv
  obtain ⟨u, t, ht, hcon, hto⟩ := hc kv hkv
  obtain ⟨t', l, e, f⟩ := hg.ext u t ht.2
  exact ⟨u, t', ⟨ht.1, e⟩, contains_append f hcon, trueOrder_mono (hcl u t ht) hg.reads f hcon hto⟩

theorem grow_acache (src : Src) (st : DState) (c : Cache) : Grow src st { st with acache := c } :=
  ⟨fun r x h => by rw [C04b.readObject_congr src (st' := { st with acache := c }) (st := st) rfl]; exact h,
   fun _ t h => ⟨t, [], h, by simp⟩⟩

theorem grow_acache' (src : Src) (st : DState) (c : Cache) : Grow src { st with acache := c } st :=
  ⟨fun r x h => by rw [← C04b.readObject_congr src (st' := { st with acache := c }) (st := st) rfl]; exact h,
   fun _ t h => ⟨t, [], h, by simp⟩⟩

/-! ## leaves of a descriptor tree without conflict -/

theorem eq_of_mem_len_le_one {α : Type} : ∀ {l : List α}, l.length ≤ 1 → ∀ {a b : α}, a ∈ l → b ∈ l → a = b
  | [], _, _, _, ha, _ => by cases ha
  | [x], _, a, b, ha, hb => by
    simp only [List.mem_singleton] at ha hb; rw [ha, hb]
  | _ :: _ :: _, h, _, _, _, _ => by simp at h

theorem len_le_one_of_nodup {α : Type} (r : α) : ∀ {l : List α}, l.Nodup → (∀ x ∈ l, x = r) → l.length ≤ 1
  | [], _, _ => by simp
  | [_], _, _ => by simp
  | a :: b :: _, hn, h => by
    have ha := h a (by simp)
    have hb := h b (by simp)
    rw [ha, hb] at hn
    simp at hn

/-- the shape of the leaf cache: it is valid and holds at most one leaf -/
def Shape (t : RevTree) : Prop := t.leafs.length ≤ 1 ∧ t.leafs = sortRevs (liveLeafs t.entries)

theorem mem_leafs_of_live {t : RevTree} (ht : TreeOK t) (hl : t.leafs = sortRevs (liveLeafs t.entries)) {l : Rev}
    (h : LiveLeaf t.entries l) : l ∈ t.leafs := by
  rw [hl, ← C05.validate_leafs, C05.mem_leafs_iff C04b.cmpOrder t ht.keys ht.idx ht.canon]; exact h

/-- a fresh child of the winner of a conflict-free tree gives a conflict-free tree -/
theorem add_child_shape {t : RevTree} (ht : TreeOK t) {w r : Rev} (hw : t.winner = some w)
    (hidx : r.index = w.index + 1) (hcan : Canonical r) (hres : ¬ r.isResolved = true)
    (hnew : t.contains r = false) (s : Bool) (hs : Shape t) : Shape (t.add r (some w) s).1 := by
  obtain ⟨_, hmem, hsorted, _⟩ := C04b.add_child_general ht hw hidx hcan hres hnew s
  refine ⟨?_, ?_⟩
  · apply len_le_one_of_nodup r (C05.sorted_nodup C04b.cmpOrder hsorted)
    intro x hx
    rcases (hmem x).mp hx with h | ⟨h1, h2⟩
    · exact h
    · exact absurd (eq_of_mem_len_le_one hs.1 (mem_leafs_of_live ht hs.2 h1)
        (mem_leafs_of_live ht hs.2 (C04b.winner_live ht hw).1)) h2
  · rw [C15.add_fst, hnew]
    simp only [Bool.false_eq_true, if_false]
    rfl

theorem singleton_shape (r : Rev) (hidx : r.index = 1) (hres : ¬ r.isResolved = true) :
    Shape (RevTree.empty.add r none true).1 := by
  have hres' : r.isResolved = false := by simpa using hres
  have hll : liveLeafs [(⟨r, none, true⟩ : RtEntry)] = [r] := by
    simp [liveLeafs, isParent, reachesRoot, find?, hres', hidx]
  have hl : (RevTree.empty.add r none true).1.leafs = sortRevs (liveLeafs [(⟨r, none, true⟩ : RtEntry)]) := by
    rw [C15.add_fst]
    simp only [RevTree.empty, contains, find?, List.find?_nil, Option.isSome_none, Bool.false_eq_true, if_false]
    rfl
  have he : (RevTree.empty.add r none true).1.entries = [⟨r, none, true⟩] := by
    rw [C15.add_entries]; simp [RevTree.empty, contains, find?]
  refine ⟨?_, by rw [hl, he]⟩
  rw [hl, hll]; simp [sortRevs, insertSorted]

theorem winner_contains {t : RevTree} (ht : TreeOK t) {w : Rev} (hw : t.winner = some w) : t.contains w = true :=
  (C05.contains_iff t w).mpr (C04b.winner_live ht hw).1.1


/-! ## Stage 1: `updateObject` on an array descriptor, with nothing assumed about `rebuildOrder` -/

/-- the tree of the live array `u` and what its winner denotes -/
def ArrLive (H : Bytes → Str) (src : Src) (st : DState) (u : Str) (ord : List JVal) : Prop :=
  ∃ t w, st.treeOf u = some t ∧ t.winner = some w ∧ w.isDeleted = false ∧ TreeOK t ∧ WinnerBody H src st t ∧
    TO src st t w ord ∧ Shape t

theorem createObject_tree {H : Bytes → Str} {st st' : DState} {u : Str} {o : JObj} {rv : Option Str}
    (htu : st.treeOf u = none) (h : createObject H st u o = .ok (st', rv)) :
    ∃ d, digestObject H o = .ok d ∧ st'.treeOf u = some (RevTree.empty.add (Rev.mk1 d) none true).1 := by
  unfold createObject at h
  cases hd : digestObject H o with
  | error e => simp [hd] at h
  | ok d =>
    simp only [hd, C04b.treeOf_writeObject, htu, Option.getD_none] at h
    refine ⟨d, rfl, ?_⟩
    generalize RevTree.empty.add (Rev.mk1 d) none true = T at h
    obtain ⟨t', added⟩ := T
    simp only [Res.ok.injEq, Prod.mk.injEq] at h
    obtain ⟨rfl, _⟩ := h
    exact C04b.treeOf_withTree_self _ _ _

theorem not_deleted_of_ne {r : Rev} (h : r.digest ≠ Rev.DELETED) : r.isDeleted = false := by
  simpa [Rev.isDeleted] using h

/-- the step `add`, `withTree`, `writeObject` of `updateObject`, for a descriptor body, once the new
    winner is known to denote `newOrder` -/
theorem array_step {H : Bytes → Str} (hH : HexOut H) {src : Src} {S : JObj → Prop}
    {st : DState} {c : Cache} {u : Str} {t : RevTree} {w : Rev} {obj : JObj} {d : Str} {newOrder : List JVal}
    (hu : isArrayDescriptor u = true) (hS : StoreOK H src S st) (hcf : CollisionFree H S)
    (hcl : ClosedAll st) (htu : st.treeOf u = some t) (ht : TreeOK t) (hw : t.winner = some w)
    (hshape : Shape t) (hcc : CacheOK src st c)
    (hSobj : S obj) (hn : NoHash obj) (hd : digestObject H obj = .ok d) :
    let st1 := (({ st with acache := c } : DState).withTree u (t.add (Rev.upd H d w) (some w) true).1).writeObject
      (Rev.upd H d w) obj
    TO src st1 (t.add (Rev.upd H d w) (some w) true).1 (Rev.upd H d w) newOrder →
    (ArrLive H src st1 u newOrder ∧
    (∀ u', u' ≠ u → st1.treeOf u' = st.treeOf u') ∧
    (∀ r x, readObject src st r = .ok x → readObject src st1 r = .ok x) ∧
    StoreOK H src S st1 ∧ (DocsSorted st.p.docs → DocsSorted st1.p.docs) ∧
    CacheOK src st1 st1.acache ∧ Grow src st st1) := by
  intro st1 hnew
  have hSc := C04b.storeOK_acache hS c
  have hg0 := grow_acache src st c
  obtain ⟨a1, a2, a3, a4, a5, a6⟩ := C04b.array_add_step hH (src := src) (u := u) hSc hcf hSobj hn ht hw hd
  have hfa := C04b.faithful_of_noHash hH hn hd
  have hfresh := C04b.child_fresh ht hw (r := Rev.upd H d w) rfl (C04b.upd_not_resolved H d w hfa.2.2.1)
  have hcan : Canonical w := by
    obtain ⟨⟨e, he, hr⟩, _⟩ := (C04b.winner_live ht hw).1
    exact hr ▸ ht.canon e he
  have hgrow : Grow src st st1 := by
    refine hg0.trans ⟨a6.reads, ?_⟩
    intro u' t0 ht0
    by_cases hne : u' = u
    · subst hne
      have : t0 = t := by
        have : ({ st with acache := c } : DState).treeOf u' = st.treeOf u' := rfl
        rw [this, htu] at ht0; exact (Option.some.inj ht0).symm
      subst this
      exact ⟨_, _, a1, a4⟩
    · exact ⟨t0, [], by rw [a6.other u' hne]; exact ht0, by simp⟩
  refine ⟨⟨_, _, a1, a2, not_deleted_of_ne (by simpa [Rev.upd] using hfa.2.1), a3, ?_, hnew, ?_⟩,
    a6.other, fun r x hx => a6.reads r x (hg0.reads r x hx), a6.store, a6.sorted, ?_, hgrow⟩
  · intro w' hw' _
    rw [a2] at hw'; cases hw'
    exact ⟨obj, a5, hd⟩
  · exact add_child_shape ht hw rfl (C19.upd_canonical hH d hfa.1 w hcan)
      (C04b.upd_not_resolved H d w hfa.2.2.1) hfresh true hshape
  · have : st1.acache = c := a6.acache
    rw [this]; exact cacheOK_grow hgrow hcl hcc

/-- **Stage 1.** After `updateObject` on an array-descriptor identifier with the full descriptor
    `{"A": newOrder}`: the winner of its tree is live and DENOTES `newOrder`, the tree stays free of
    conflict, the shared cache stays sound, the other trees and all earlier reads are unchanged.
    Nothing is assumed about `rebuildOrder`: its soundness comes from `rebuild_sound_g`. -/
theorem updateObject_array_full {H : Bytes → Str} (hH : HexOut H) {src : Src} {S : JObj → Prop}
    {st st' : DState} {u : Str} {newOrder : List JVal} {rv : Option Str}
    (hu : isArrayDescriptor u = true)
    (hS : StoreOK H src S st) (hcf : CollisionFree H S) (hSo : S [(ORDER_FIELD, .arr newOrder)])
    (hgood : GoodAll H src st) (hag : AgreeParents st) (hcache : CacheOK src st st.acache)
    (hshape : ∀ t, st.treeOf u = some t → Shape t)
    (hSd : ∀ t w order patch, st.treeOf u = some t → t.winner = some w → w.isDeleted = false →
      TO src st t w order → makeDiffPatch order newOrder = some patch → S [(DELTA_ORDER_FIELD, .arr patch)])
    (h : updateObject H src st u [(ORDER_FIELD, .arr newOrder)] = .ok (st', rv)) :
    ArrLive H src st' u newOrder ∧
    (∀ u', u' ≠ u → st'.treeOf u' = st.treeOf u') ∧
    (∀ r x, readObject src st r = .ok x → readObject src st' r = .ok x) ∧
    StoreOK H src S st' ∧ (DocsSorted st.p.docs → DocsSorted st'.p.docs) ∧
    CacheOK src st' st'.acache ∧ Grow src st st' := by
  have hcl := closedAll_of_good hgood
  cases htu : st.treeOf u with
  | none =>
    unfold updateObject at h
    rw [htu] at h
    simp only at h
    obtain ⟨⟨t', w', h1, h2, h3, _, h5, h6, h7⟩, hfr⟩ :=
      C04b.createObject_spec (src := src) hS hcf hSo
        (fun d hd => C04b.faithful_of_noHash hH (C04b.noHash_order _) hd) htu h
    obtain ⟨d, hd, htree⟩ := createObject_tree htu h
    have hfa := C04b.faithful_of_noHash hH (C04b.noHash_order newOrder) hd
    have hgrow : Grow src st st' := by
      refine ⟨hfr.reads, ?_⟩
      intro u' t ht
      by_cases hne : u' = u
      · subst hne; rw [htu] at ht; cases ht
      · exact ⟨t, [], by rw [hfr.other u' hne]; exact ht, by simp⟩
    refine ⟨⟨t', w', h1, h2, not_deleted_of_ne (C04b.faithful_of_noHash hH (C04b.noHash_order _) h3).2.1, h6, h7,
      .full (C04b.readDesc_of_read h5 (C04b.descOfObject_order _)), ?_⟩,
      hfr.other, hfr.reads, hfr.store, hfr.sorted, ?_, hgrow⟩
    · rw [htree] at h1; cases h1
      exact singleton_shape (Rev.mk1 d) rfl (by simp [Rev.isResolved, Rev.mk1, hfa.2.2.1])
    · rw [hfr.acache]; exact cacheOK_grow hgrow hcl hcache
  | some t =>
    obtain ⟨ht, hwb⟩ := hgood u t htu
    unfold updateObject at h
    rw [htu] at h
    simp only at h
    cases hw : t.winner with
    | none => simp [hw] at h
    | some w =>
      have hwc := winner_contains ht hw
      simp only [hw, hu, if_true, deltaDescriptor, C04b.descOfObject_order] at h
      cases hro : rebuildOrder src st t st.acache w with
      | err e => simp [hro] at h
      | panic m => simp [hro] at h
      | ok x =>
        obtain ⟨winOrder, c⟩ := x
        have hto : TO src st t w winOrder :=
          rebuild_sound_g ht.idx ht.closed (cacheOK_guard hag hcl hcache ⟨hu, htu⟩) hwc hro
        have hcc : CacheOK src st c := by
          intro kv hkv
          rcases rebuild_items hro kv hkv with h' | rfl
          · exact hcache kv h'
          · exact ⟨u, t, ⟨hu, htu⟩, hwc, hto⟩
        simp only [hro] at h
        cases hmp : makeDiffPatch winOrder newOrder with
        | none => simp [hmp] at h
        | some patch =>
          have hrt := C16.makeDiffPatch_roundtrip winOrder newOrder patch hmp
          simp only [hmp] at h
          have hSc := C04b.storeOK_acache hS c
          have hg0 := grow_acache src st c
          by_cases hdel : w.isDeleted = true
          · -- full descriptor after a deletion
            simp only [hdel, if_true] at h
            cases hd : digestObject H [(ORDER_FIELD, JVal.arr newOrder)] with
            | error e => simp [hd] at h
            | ok d =>
              simp only [hd, Bool.true_or, if_true, Res.ok.injEq, Prod.mk.injEq] at h
              obtain ⟨rfl, rfl⟩ := h
              obtain ⟨_, _, _, _, a5, _⟩ := C04b.array_add_step hH (src := src) (u := u) hSc hcf hSo
                (C04b.noHash_order newOrder) ht hw hd
              exact array_step hH hu hS hcf hcl htu ht hw (hshape t htu) hcc hSo (C04b.noHash_order newOrder) hd
                (.full (C04b.readDesc_of_read a5 (C04b.descOfObject_order _)))
          · simp only [hdel, Bool.false_eq_true, if_false] at h
            have hdel' : w.isDeleted = false := by simpa using hdel
            by_cases hpe : patch.isEmpty = true
            · -- no change
              simp only [hpe, if_true, Res.ok.injEq, Prod.mk.injEq] at h
              obtain ⟨rfl, rfl⟩ := h
              have hp : patch = [] := by simpa using hpe
              subst hp
              have hEq : winOrder = newOrder := by
                simp only [applyDiffPatch, PatchRes.ok.injEq] at hrt; exact hrt
              subst hEq
              refine ⟨⟨t, w, htu, hw, hdel', ht, C04b.winnerBody_mono hg0.reads hwb, ?_, hshape t htu⟩,
                fun _ _ => rfl, hg0.reads, hSc, fun hs => hs, cacheOK_grow hg0 hcl hcc, hg0⟩
              exact trueOrder_mono (l := []) ht.closed hg0.reads (by simp) hwc hto
            · -- delta descriptor
              simp only [hpe, Bool.false_eq_true, if_false] at h
              cases hd : digestObject H [(DELTA_ORDER_FIELD, JVal.arr patch)] with
              | error e => simp [hd] at h
              | ok d =>
                simp only [hd, Bool.true_or, if_true, Res.ok.injEq, Prod.mk.injEq] at h
                obtain ⟨rfl, rfl⟩ := h
                have hSp := hSd t w winOrder patch htu hw hdel' hto hmp
                obtain ⟨_, _, _, a4, a5, a6⟩ := C04b.array_add_step hH (src := src) (u := u) hSc hcf hSp
                  (C04b.noHash_delta patch) ht hw hd
                have hfresh := C04b.child_fresh ht hw (r := Rev.upd H d w) rfl
                  (C04b.upd_not_resolved H d w (C04b.faithful_of_noHash hH (C04b.noHash_delta patch) hd).2.2.1)
                refine array_step hH hu hS hcf hcl htu ht hw (hshape t htu) hcc hSp (C04b.noHash_delta patch) hd ?_
                refine .delta (C04b.readDesc_of_read a5 (C04b.descOfObject_delta _)) ?_
                  (trueOrder_mono ht.closed (fun r x hx => a6.reads r x (hg0.reads r x hx)) a4 hwc hto) hrt
                unfold getParent
                exact C04b.getParent_new hfresh a4


/-! ## Stage 2: `readAt` on a descriptor tree with a single leaf -/

/-- **Stage 2.** For a descriptor tree with at most one leaf whose revision `w` denotes `order`, and a
    cache whose entries for revisions of this tree are true orders, `readAt` answers exactly
    `{"A": order}`; the new cache holds old entries and possibly `(w, order)`. -/
theorem readAt_array_single_leaf {src : Src} {st : DState} {u : Str} {t : RevTree} {w : Rev} {order : List JVal}
    (hu : isArrayDescriptor u = true) (hw : WellIndexed t.entries) (hcl : ParentClosed t.entries)
    (hlen : t.leafs.length ≤ 1) (hwc : t.contains w = true)
    (hc : ∀ kv ∈ st.acache.items, t.contains kv.1 = true → TO src st t kv.1 kv.2)
    (hto : TO src st t w order) :
    ∃ c', readAt src st u t w = .ok ([(ORDER_FIELD, .arr order)], c') ∧
      ∀ kv ∈ c'.items, kv ∈ st.acache.items ∨ kv = (w, order) := by
  obtain ⟨c', h⟩ := rebuild_complete_g hw hcl hc hwc hto
  refine ⟨c', ?_, rebuild_items h⟩
  unfold readAt mergedOrderAt
  simp [hu, Nat.not_lt.mpr hlen, h]

/-- Stage 2 with the state-level cache invariant: the cache stays sound -/
theorem readAt_array_single_leaf_sound {src : Src} {st : DState} {u : Str} {t : RevTree} {w : Rev} {order : List JVal}
    (hag : AgreeParents st) (hcl : ClosedAll st) (hcache : CacheOK src st st.acache) (ht : ArrTree st u t)
    (hw : WellIndexed t.entries) (hlen : t.leafs.length ≤ 1) (hwc : t.contains w = true)
    (hto : TO src st t w order) :
    ∃ c', readAt src st u t w = .ok ([(ORDER_FIELD, .arr order)], c') ∧ CacheOK src st c' := by
  obtain ⟨c', h1, h2⟩ := readAt_array_single_leaf ht.1 hw (hcl u t ht) hlen hwc (cacheOK_guard hag hcl hcache ht) hto
  refine ⟨c', h1, ?_⟩
  intro kv hkv
  rcases h2 kv hkv with h | rfl
  · exact hcache kv h
  · exact ⟨u, t, ht, hwc, hto⟩

/-! ## the stage and the trees only grow: `updateObject`, `deleteObject`, the two loops -/

theorem add_entries_ext (t : RevTree) (r : Rev) (p : Option Rev) (s : Bool) :
    ∃ l, (t.add r p s).1.entries = t.entries ++ l := by
  rw [C15.add_entries]; split
  · exact ⟨[], by simp⟩
  · exact ⟨_, rfl⟩

theorem grow_withTree (src : Src) (st : DState) {u : Str} {t : RevTree} (r : Rev) (p : Option Rev) (b : Bool)
    (htu : st.treeOf u = some t ∨ (st.treeOf u = none)) :
    Grow src st (st.withTree u (t.add r p b).1) := by
  refine ⟨fun r x h => by rw [C04b.readObject_withTree]; exact h, ?_⟩
  intro u' t0 ht0
  by_cases hne : u' = u
  · subst hne
    rcases htu with htu | htu
    · obtain ⟨l, hl⟩ := add_entries_ext t r p b
      rw [htu] at ht0; cases ht0
      exact ⟨_, l, C04b.treeOf_withTree_self _ _ _, hl⟩
    · rw [htu] at ht0; cases ht0
  · exact ⟨t0, [], by rw [C04b.treeOf_withTree_other _ _ _ _ hne]; exact ht0, by simp⟩

theorem grow_writeObject (src : Src) (st : DState) (r : Rev) (o : JObj) : Grow src st (st.writeObject r o) :=
  ⟨fun _ _ h => C04b.readObject_writeObject_mono src st r o h,
   fun u t h => ⟨t, [], by rw [C04b.treeOf_writeObject]; exact h, by simp⟩⟩

theorem createObject_grow {H : Bytes → Str} (src : Src) {st st' : DState} {u : Str} {o : JObj} {rv : Option Str}
    (htu : st.treeOf u = none) (h : createObject H st u o = .ok (st', rv)) : Grow src st st' := by
  unfold createObject at h
  cases hd : digestObject H o with
  | error e => simp [hd] at h
  | ok d =>
    simp only [hd, C04b.treeOf_writeObject, htu, Option.getD_none] at h
    have key : ∀ T : RevTree × Bool, T = RevTree.empty.add (Rev.mk1 d) none true →
        Grow src st ((st.writeObject (Rev.mk1 d) o).withTree u T.1) := by
      intro T hT
      rw [hT]
      exact (grow_writeObject src st _ o).trans
        (grow_withTree src _ _ _ _ (Or.inr (by rw [C04b.treeOf_writeObject]; exact htu)))
    generalize hT : RevTree.empty.add (Rev.mk1 d) none true = T at h
    have := key T hT.symm
    obtain ⟨t', added⟩ := T
    simp only [Res.ok.injEq, Prod.mk.injEq] at h
    obtain ⟨rfl, _⟩ := h
    exact this

theorem updateObject_grow {H : Bytes → Str} {src : Src} {st st' : DState} {u : Str} {o : JObj} {rv : Option Str}
    (h : updateObject H src st u o = .ok (st', rv)) : Grow src st st' := by
  unfold updateObject at h
  cases htu : st.treeOf u with
  | none => rw [htu] at h; exact createObject_grow src htu h
  | some t =>
    rw [htu] at h
    simp only at h
    cases hw : t.winner with
    | none => simp [hw] at h
    | some w =>
      simp only [hw] at h
      generalize (if isArrayDescriptor u = true then deltaDescriptor src st t o else Res.ok (some o, st.acache)) = x at h
      cases x with
      | panic m => cases h
      | err e => cases h
      | ok y =>
        obtain ⟨ob, c⟩ := y
        cases ob with
        | none =>
          simp only [Res.ok.injEq, Prod.mk.injEq] at h
          obtain ⟨rfl, _⟩ := h
          exact grow_acache src st c
        | some obj =>
          simp only at h
          cases hd : digestObject H obj with
          | error e => simp [hd] at h
          | ok d =>
            simp only [hd] at h
            by_cases hc : (isArrayDescriptor u || decide (d ≠ w.digest)) = true
            · simp only [hc, if_true, Res.ok.injEq, Prod.mk.injEq] at h
              obtain ⟨rfl, _⟩ := h
              exact (grow_acache src st c).trans
                ((grow_withTree src _ _ _ _ (Or.inl (show ({ st with acache := c } : DState).treeOf u = some t from htu))).trans
                  (grow_writeObject src _ _ _))
            · simp only [hc, Bool.false_eq_true, if_false, Res.ok.injEq, Prod.mk.injEq] at h
              obtain ⟨rfl, _⟩ := h
              exact grow_acache src st c

theorem deleteObject_grow {H : Bytes → Str} (src : Src) {st st' : DState} {u : Str} {rv : Option Str}
    (h : deleteObject H st u = .ok (st', rv)) : Grow src st st' := by
  unfold deleteObject at h
  cases htu : st.treeOf u with
  | none =>
    simp only [htu, Res.ok.injEq, Prod.mk.injEq] at h
    obtain ⟨rfl, _⟩ := h; exact Grow.refl src _
  | some t =>
    simp only [htu] at h
    cases hw : t.winner with
    | none => simp [hw] at h
    | some w =>
      simp only [hw] at h
      by_cases hc : (!w.isDeleted && !w.isResolved) = true
      · simp only [hc, if_true, Res.ok.injEq, Prod.mk.injEq] at h
        obtain ⟨rfl, _⟩ := h
        exact grow_withTree src _ _ _ _ (Or.inl htu)
      · simp only [hc, Bool.false_eq_true, if_false, Res.ok.injEq, Prod.mk.injEq] at h
        obtain ⟨rfl, _⟩ := h; exact Grow.refl src _

theorem goneFold_grow {H : Bytes → Str} (src : Src) : ∀ (l : List Str) (s s' : DState),
    l.foldl (C04b.goneStep H) (.ok s) = .ok s' → Grow src s s'
  | [], s, s', h => by
    simp only [List.foldl_nil, Res.ok.injEq] at h; subst h; exact Grow.refl src _
  | u :: rest, s, s', h => by
    rw [List.foldl_cons] at h
    cases h2 : C04b.goneStep H (.ok s) u with
    | ok s2 =>
      rw [h2] at h
      obtain ⟨rv, hdel⟩ := C04b.goneStep_ok h2
      exact (deleteObject_grow src hdel).trans (goneFold_grow src rest s2 s' h)
    | err e => rw [h2] at h; exact absurd h (C04b.goneFold_not_ok H rest _ (by simp) s')
    | panic m => rw [h2] at h; exact absurd h (C04b.goneFold_not_ok H rest _ (by simp) s')

theorem poolFold_grow {H : Bytes → Str} (src : Src) : ∀ (l : List (Str × JVal)) (s s' : DState),
    l.foldl (C04b.poolStep H src) (.ok s) = .ok s' → Grow src s s'
  | [], s, s', h => by
    simp only [List.foldl_nil, Res.ok.injEq] at h; subst h; exact Grow.refl src _
  | p :: rest, s, s', h => by
    rw [List.foldl_cons] at h
    cases h2 : C04b.poolStep H src (.ok s) p with
    | ok s2 =>
      rw [h2] at h
      obtain ⟨o, rv, _, hupd⟩ := C04b.poolStep_ok h2
      exact (updateObject_grow hupd).trans (poolFold_grow src rest s2 s' h)
    | err e => rw [h2] at h; exact absurd h (C04b.poolFold_not_ok H src rest _ (by simp) s')
    | panic m => rw [h2] at h; exact absurd h (C04b.poolFold_not_ok H src rest _ (by simp) s')


/-! ## the invariant carried through the two loops of `update` -/

/-- (ii) the live winner of every descriptor tree denotes an array -/
def WinnersTO (src : Src) (st : DState) : Prop :=
  ∀ u t w, ArrTree st u t → t.winner = some w → w.isDeleted = false → ∃ o, TO src st t w o

structure FI (H : Bytes → Str) (src : Src) (S : JObj → Prop) (s : DState) : Prop where
  store : StoreOK H src S s
  good : GoodAll H src s
  cache : CacheOK src s s.acache
  shape : ∀ u t, ArrTree s u t → Shape t
  winners : WinnersTO src s
  sorted : DocsSorted s.p.docs

/-- one object-level step on `u` keeps the invariant -/
theorem fi_step {H : Bytes → Str} {src : Src} {S : JObj → Prop} {s s' : DState} {u : Str}
    (hfi : FI H src S s) (hgrow : Grow src s s') (hother : ∀ u', u' ≠ u → s'.treeOf u' = s.treeOf u')
    (hstore : StoreOK H src S s') (hsorted : DocsSorted s.p.docs → DocsSorted s'.p.docs)
    (hcache : CacheOK src s' s'.acache)
    (hu : ∀ t, s'.treeOf u = some t → TreeOK t ∧ WinnerBody H src s' t ∧
      (isArrayDescriptor u = true → Shape t ∧ ∀ w, t.winner = some w → w.isDeleted = false → ∃ o, TO src s' t w o)) :
    FI H src S s' := by
  refine ⟨hstore, ?_, hcache, ?_, ?_, hsorted hfi.sorted⟩
  · intro u' t ht
    by_cases hne : u' = u
    · subst hne; exact ⟨(hu t ht).1, (hu t ht).2.1⟩
    · rw [hother u' hne] at ht
      obtain ⟨h1, h2⟩ := hfi.good u' t ht
      exact ⟨h1, C04b.winnerBody_mono hgrow.reads h2⟩
  · intro u' t ht
    by_cases hne : u' = u
    · subst hne; exact ((hu t ht.2).2.2 ht.1).1
    · exact hfi.shape u' t ⟨ht.1, by rw [← hother u' hne]; exact ht.2⟩
  · intro u' t w ht hw hd
    by_cases hne : u' = u
    · subst hne; exact ((hu t ht.2).2.2 ht.1).2 w hw hd
    · have ht' : ArrTree s u' t := ⟨ht.1, by rw [← hother u' hne]; exact ht.2⟩
      obtain ⟨o, ho⟩ := hfi.winners u' t w ht' hw hd
      have hok := (hfi.good u' t ht'.2).1
      exact ⟨o, trueOrder_mono (l := []) hok.closed hgrow.reads (by simp) (winner_contains hok hw) ho⟩

theorem deleteObject_shape {H : Bytes → Str} (hH : HexOut H) {st st' : DState} {u : Str} {rv : Option Str}
    (htree : ∀ t, st.treeOf u = some t → TreeOK t ∧ Shape t)
    (h : deleteObject H st u = .ok (st', rv)) : ∀ t', st'.treeOf u = some t' → Shape t' := by
  unfold deleteObject at h
  cases htu : st.treeOf u with
  | none =>
    simp only [htu, Res.ok.injEq, Prod.mk.injEq] at h
    obtain ⟨rfl, _⟩ := h
    intro t' ht'; rw [htu] at ht'; cases ht'
  | some t =>
    obtain ⟨ht, hs⟩ := htree t htu
    simp only [htu] at h
    cases hw : t.winner with
    | none => simp [hw] at h
    | some w =>
      simp only [hw] at h
      by_cases hc : (!w.isDeleted && !w.isResolved) = true
      · simp only [hc, if_true, Res.ok.injEq, Prod.mk.injEq] at h
        obtain ⟨rfl, _⟩ := h
        intro t' ht'
        rw [C04b.treeOf_withTree_self] at ht'; cases ht'
        have hcan : Canonical w := by
          obtain ⟨⟨e, he, hr⟩, _⟩ := (C04b.winner_live ht hw).1
          exact hr ▸ ht.canon e he
        have hnr := C04b.upd_not_resolved H Rev.DELETED w (by decide)
        exact add_child_shape ht hw rfl (C19.upd_canonical hH _ C19.DELETED_alnum w hcan) hnr
          (C04b.child_fresh ht hw rfl hnr) true hs
      · simp only [hc, Bool.false_eq_true, if_false, Res.ok.injEq, Prod.mk.injEq] at h
        obtain ⟨rfl, _⟩ := h
        intro t' ht'; rw [htu] at ht'; cases ht'; exact hs

/-- the deletion loop, with the array invariant -/
theorem goneFoldA_spec {H : Bytes → Str} (hH : HexOut H) {src : Src} {S : JObj → Prop} :
    ∀ (l : List Str) (s s' : DState), l.Nodup → FI H src S s →
      l.foldl (C04b.goneStep H) (.ok s) = .ok s' →
      (∀ u ∈ l, C04b.Dead s' u) ∧ (∀ u, u ∉ l → s'.treeOf u = s.treeOf u) ∧ FI H src S s'
  | [], s, s', _, hfi, h => by
    simp only [List.foldl_nil, Res.ok.injEq] at h; subst h
    exact ⟨fun _ h => (by cases h), fun _ _ => rfl, hfi⟩
  | u :: rest, s, s', hn, hfi, h => by
    rw [List.foldl_cons] at h
    cases h2 : C04b.goneStep H (.ok s) u with
    | ok s2 =>
      rw [h2] at h
      obtain ⟨rv, hdel⟩ := C04b.goneStep_ok h2
      obtain ⟨hdead, hgood, hfr⟩ := C04b.deleteObject_spec hH (src := src) hfi.store (hfi.good u) hdel
      have hgrow := deleteObject_grow src hdel
      have hfi2 : FI H src S s2 := by
        refine fi_step hfi hgrow hfr.other hfr.store hfr.sorted ?_ ?_
        · rw [hfr.acache]; exact cacheOK_grow hgrow (closedAll_of_good hfi.good) hfi.cache
        · intro t ht
          refine ⟨(hgood t ht).1, (hgood t ht).2, fun hu => ⟨?_, ?_⟩⟩
          · exact deleteObject_shape hH (fun t0 ht0 => ⟨(hfi.good u t0 ht0).1, hfi.shape u t0 ⟨hu, ht0⟩⟩) hdel t ht
          · intro w hw hd
            obtain ⟨w', hw', hd'⟩ := hdead t ht
            rw [hw] at hw'; cases hw'
            rw [hd] at hd'; cases hd'
      have hn' := List.nodup_cons.mp hn
      obtain ⟨i1, i2, i3⟩ := goneFoldA_spec hH rest s2 s' hn'.2 hfi2 h
      refine ⟨?_, ?_, i3⟩
      · intro u' hu'
        rcases List.mem_cons.mp hu' with rfl | hu'
        · intro t ht; rw [i2 _ hn'.1] at ht; exact hdead t ht
        · exact i1 u' hu'
      · intro u' hu'
        simp only [List.mem_cons, not_or] at hu'
        rw [i2 u' hu'.2, hfr.other u' hu'.1]
    | err e => rw [h2] at h; exact absurd h (C04b.goneFold_not_ok H rest _ (by simp) s')
    | panic m => rw [h2] at h; exact absurd h (C04b.goneFold_not_ok H rest _ (by simp) s')

/-! ### the create / update loop -/

/-- what is assumed of a pool entry: a tracked object in the universe `S` reading back faithfully, or
    a full array descriptor in `S` -/
def EntryA (H : Bytes → Str) (S : JObj → Prop) (p : Str × JVal) : Prop :=
  (isArrayDescriptor p.1 = false ∧ ∀ o, p.2 = .obj o → S o ∧ ∀ d, digestObject H o = .ok d → Faithful d o) ∨
  (isArrayDescriptor p.1 = true ∧ ∀ o, p.2 = .obj o → S o ∧ ∃ ord, o = [(ORDER_FIELD, .arr ord)])

/-- the delta descriptor `updateObject` may generate for array `u` belongs to the universe `S` -/
def DeltaIn (S : JObj → Prop) (src : Src) (s : DState) (u : Str) (ord : List JVal) : Prop :=
  ∀ t w o0 patch, s.treeOf u = some t → t.winner = some w → w.isDeleted = false → TO src s t w o0 →
    makeDiffPatch o0 ord = some patch → S [(DELTA_ORDER_FIELD, .arr patch)]

theorem deltaIn_mono {H : Bytes → Str} {S : JObj → Prop} {src : Src} {s s2 : DState} {u : Str} {ord : List JVal}
    (hu : isArrayDescriptor u = true) (hfi : FI H src S s) (hsame : s2.treeOf u = s.treeOf u)
    (hr : ∀ r x, readObject src s r = .ok x → readObject src s2 r = .ok x)
    (h : DeltaIn S src s u ord) : DeltaIn S src s2 u ord := by
  intro t w o0 patch ht hw hd hto hmp
  rw [hsame] at ht
  obtain ⟨o1, ho1⟩ := hfi.winners u t w ⟨hu, ht⟩ hw hd
  have hok := (hfi.good u t ht).1
  have ho1' : TO src s2 t w o1 := trueOrder_mono (l := []) hok.closed hr (by simp) (winner_contains hok hw) ho1
  have : o0 = o1 := C16b.trueOrder_functional hto ho1'
  subst this
  exact h t w o0 patch ht hw hd ho1 hmp

/-- what the loop guarantees for a pool entry -/
def PLive (H : Bytes → Str) (src : Src) (s : DState) (p : Str × JVal) : Prop :=
  ∃ o, p.2 = .obj o ∧
    ((isArrayDescriptor p.1 = false ∧ C04b.Live src s p.1 o) ∨
     (isArrayDescriptor p.1 = true ∧ ∃ ord, o = [(ORDER_FIELD, .arr ord)] ∧ ArrLive H src s p.1 ord))

theorem pLive_mono {H : Bytes → Str} {src : Src} {s s' : DState} {p : Str × JVal}
    (hsame : s'.treeOf p.1 = s.treeOf p.1)
    (hr : ∀ r x, readObject src s r = .ok x → readObject src s' r = .ok x)
    (h : PLive H src s p) : PLive H src s' p := by
  obtain ⟨o, hpo, h⟩ := h
  refine ⟨o, hpo, ?_⟩
  rcases h with ⟨ha, t, w, h1, h2, h3, h4⟩ | ⟨ha, ord, ho, t, w, h1, h2, h3, h4, h5, h6, h7⟩
  · exact Or.inl ⟨ha, t, w, by rw [hsame]; exact h1, h2, h3, hr _ _ h4⟩
  · exact Or.inr ⟨ha, ord, ho, t, w, by rw [hsame]; exact h1, h2, h3, h4, C04b.winnerBody_mono hr h5,
      trueOrder_mono (l := []) h4.closed hr (by simp) (winner_contains h4 h2) h6, h7⟩

theorem poolFoldA_spec {H : Bytes → Str} (hH : HexOut H) {src : Src} {S : JObj → Prop} (hcf : CollisionFree H S) :
    ∀ (l : List (Str × JVal)) (s s' : DState), (C04.keys l).Nodup → (∀ p ∈ l, EntryA H S p) →
      (∀ p ∈ l, ∀ ord, isArrayDescriptor p.1 = true → p.2 = .obj [(ORDER_FIELD, .arr ord)] → DeltaIn S src s p.1 ord) →
      FI H src S s → AgreeParents s' →
      l.foldl (C04b.poolStep H src) (.ok s) = .ok s' →
      (∀ p ∈ l, PLive H src s' p) ∧ (∀ u, u ∉ C04.keys l → s'.treeOf u = s.treeOf u) ∧ FI H src S s'
  | [], s, s', _, _, _, hfi, _, h => by
    simp only [List.foldl_nil, Res.ok.injEq] at h; subst h
    exact ⟨fun _ h => (by cases h), fun _ _ => rfl, hfi⟩
  | p :: rest, s, s', hn, he, hdl, hfi, hag, h => by
    have hgrowAll := poolFold_grow src (p :: rest) s s' h
    have hags : AgreeParents s := agree_of_grow hgrowAll hag
    rw [List.foldl_cons] at h
    cases h2 : C04b.poolStep H src (.ok s) p with
    | ok s2 =>
      rw [h2] at h
      obtain ⟨o, rv, hpo, hupd⟩ := C04b.poolStep_ok h2
      simp only [C04.keys, List.map_cons, List.nodup_cons] at hn
      have hgrow := updateObject_grow hupd
      -- the step
      have hstep : PLive H src s2 p ∧ (∀ u', u' ≠ p.1 → s2.treeOf u' = s.treeOf u') ∧ FI H src S s2 := by
        rcases he p List.mem_cons_self with ⟨hpa, hpS⟩ | ⟨hpa, hpS⟩
        · obtain ⟨hSo, hfa⟩ := hpS o hpo
          obtain ⟨⟨t', w', h1, h2', h3, _, h5, h6, h7⟩, hfr⟩ :=
            C04b.updateObject_spec hH hpa hfi.store hcf hSo hfa (hfi.good p.1) hupd
          refine ⟨⟨o, hpo, Or.inl ⟨hpa, t', w', h1, h2', ?_, h5⟩⟩, hfr.other, ?_⟩
          · have := (hfa _ h3).2.1
            simpa [Rev.isDeleted] using this
          · refine fi_step hfi hgrow hfr.other hfr.store hfr.sorted ?_ ?_
            · rw [hfr.acache]; exact cacheOK_grow hgrow (closedAll_of_good hfi.good) hfi.cache
            · intro t ht
              rw [h1] at ht; cases ht
              exact ⟨h6, h7, fun hu => by rw [hpa] at hu; cases hu⟩
        · obtain ⟨hSo, ord, rfl⟩ := hpS o hpo
          obtain ⟨hlive, hoth, hrd, hst, hso, hca, _⟩ :=
            updateObject_array_full hH hpa hfi.store hcf hSo hfi.good hags hfi.cache
              (fun t ht => hfi.shape p.1 t ⟨hpa, ht⟩)
              (fun t w order patch ht hw hd hto hmp =>
                hdl p List.mem_cons_self ord hpa hpo t w order patch ht hw hd hto hmp) hupd
          refine ⟨⟨_, hpo, Or.inr ⟨hpa, ord, rfl, hlive⟩⟩, hoth, ?_⟩
          refine fi_step hfi hgrow hoth hst hso hca ?_
          obtain ⟨t', w', h1, h2', h3, h4, h5, h6, h7⟩ := hlive
          intro t ht
          rw [h1] at ht; cases ht
          refine ⟨h4, h5, fun _ => ⟨h7, ?_⟩⟩
          intro w hw _
          rw [h2'] at hw; cases hw
          exact ⟨ord, h6⟩
      obtain ⟨hpl, hoth, hfi2⟩ := hstep
      have hdl2 : ∀ q ∈ rest, ∀ ord, isArrayDescriptor q.1 = true → q.2 = .obj [(ORDER_FIELD, .arr ord)] →
          DeltaIn S src s2 q.1 ord := by
        intro q hq ord hqa hqo
        have hne : q.1 ≠ p.1 := by
          intro e
          exact hn.1 (by rw [← e]; exact List.mem_map_of_mem (f := (·.1)) hq)
        exact deltaIn_mono hqa hfi (hoth q.1 hne) hgrow.reads (hdl q (List.mem_cons_of_mem _ hq) ord hqa hqo)
      obtain ⟨i1, i2, i3⟩ := poolFoldA_spec hH hcf rest s2 s' hn.2
        (fun q hq => he q (List.mem_cons_of_mem _ hq)) hdl2 hfi2 hag h
      have hgrow2 := poolFold_grow src rest s2 s' h
      refine ⟨?_, ?_, i3⟩
      · intro q hq
        rcases List.mem_cons.mp hq with rfl | hq
        · exact pLive_mono (i2 _ hn.1) hgrow2.reads hpl
        · exact i1 q hq
      · intro u' hu'
        simp only [C04.keys, List.map_cons, List.mem_cons, not_or] at hu'
        rw [i2 u' hu'.2, hoth u' hu'.1]
    | err e => rw [h2] at h; exact absurd h (C04b.poolFold_not_ok H src rest _ (by simp) s')
    | panic m => rw [h2] at h; exact absurd h (C04b.poolFold_not_ok H src rest _ (by simp) s')


/-! ## the pool entries of array descriptors -/

theorem rootId_not_arr {o : JObj} (h : C04.rootIdOk o = true) : isArrayDescriptor (C04.objId o) = false := by
  unfold C04.rootIdOk at h
  unfold C04.objId
  split at h
  · next hn => simp [hn]; decide
  · next s hs => simp only [hs]; simpa using h
  · cases h

mutual
theorem entV_desc : ∀ (v : JVal), C04.wfV v = true → ∀ e ∈ C04.entV v, isArrayDescriptor e.1 = true →
    ∃ l, e.2 = .obj [(ORDER_FIELD, .arr l)]
  | .obj o, h, e, he, ha => by
    simp only [C04.wfV, Bool.and_eq_true, Bool.not_eq_true'] at h
    obtain ⟨⟨⟨_, h2⟩, _⟩, h4⟩ := h
    simp only [C04.entV, List.mem_append, List.mem_singleton] at he
    rcases he with he | rfl
    · exact entF_desc (C04.objId o) o h4 e he ha
    · simp only at ha; rw [h2] at ha; cases ha
  | .arr l, h, e, he, ha => by
    simp only [C04.wfV] at h
    simp only [C04.entV] at he
    exact entL_desc l h e he ha
  | .null, _, e, he, _ => by simp [C04.entV] at he
  | .bool _, _, e, he, _ => by simp [C04.entV] at he
  | .num _, _, e, he, _ => by simp [C04.entV] at he
  | .str _, _, e, he, _ => by simp [C04.entV] at he
theorem entL_desc : ∀ (l : List JVal), C04.wfL l = true → ∀ e ∈ C04.entL l, isArrayDescriptor e.1 = true →
    ∃ l', e.2 = .obj [(ORDER_FIELD, .arr l')]
  | [], _, e, he, _ => by simp [C04.entL] at he
  | v :: t, h, e, he, ha => by
    simp only [C04.wfL, Bool.and_eq_true] at h
    simp only [C04.entL, List.mem_append] at he
    rcases he with he | he
    · exact entV_desc v h.1.2 e he ha
    · exact entL_desc t h.2 e he ha
theorem entF_desc : ∀ (u : Str) (o : JObj), C04.wfF o = true → ∀ e ∈ C04.entF u o, isArrayDescriptor e.1 = true →
    ∃ l, e.2 = .obj [(ORDER_FIELD, .arr l)]
  | _, [], _, e, he, _ => by simp [C04.entF] at he
  | u, (k, v) :: t, h, e, he, ha => by
    simp only [C04.wfF, Bool.and_eq_true, Bool.or_eq_true, Bool.not_eq_true'] at h
    unfold C04.entF at he
    split at he
    · next hk =>
      have hv : C04.wfV v = true := by
        rcases h.1 with h' | h'
        · rw [hk] at h'; cases h'
        · exact h'
      simp only [List.mem_append] at he
      rcases he with (he | he) | he
      · exact entV_desc v hv e he ha
      · cases v with
        | arr l => simp only [List.mem_singleton] at he; subst he; exact ⟨_, rfl⟩
        | _ => simp at he
      · exact entF_desc u t h.2 e he ha
    · exact entF_desc u t h.2 e he ha
end

theorem mem_insAll : ∀ (es : List (Str × JVal)) (c : JObj) (e : Str × JVal), e ∈ C04.insAll es c → e ∈ es ∨ e ∈ c
  | [], _, _, h => Or.inr h
  | x :: xs, c, e, h => by
    have h' : e ∈ C04.insAll xs (objInsert x.1 x.2 c) := h
    rcases mem_insAll xs _ e h' with h1 | h1
    · exact Or.inl (List.mem_cons_of_mem _ h1)
    · rcases C04.mem_objInsert h1 with h2 | h2
      · exact Or.inl (by rw [h2]; exact List.mem_cons_self)
      · exact Or.inr h2

/-- in the pool of a well-formed document, the value under a descriptor identifier is a full descriptor -/
theorem pool_desc {doc : JObj} (hwf : C04.WFDoc (.obj doc)) {k : Str} {v : JVal}
    (hm : (k, v) ∈ C04b.poolOf doc) (ha : isArrayDescriptor k = true) : ∃ l, v = .obj [(ORDER_FIELD, .arr l)] := by
  obtain ⟨h1, _, h3, _⟩ := hwf
  rcases mem_insAll _ _ _ hm with hm | hm
  · simp only [C04.entV, List.mem_append, List.mem_singleton] at hm
    rcases hm with hm | hm
    · exact entF_desc _ doc h3 (k, v) hm ha
    · have : k = C04.objId doc := (Prod.mk.inj hm).1
      rw [this, rootId_not_arr h1] at ha; cases ha
  · cases hm

/-! ## `read`: the collection loop with array descriptors -/

/-- what the collection loop emits for one tree; `ord` gives the array each live descriptor denotes -/
def emitA (src : Src) (st : DState) (ord : Str → List JVal) (p : Str × RevTree) : Option (Str × JVal) :=
  match p.2.winner with
  | none => none
  | some w =>
    if w.isDeleted then none
    else if isArrayDescriptor p.1 then
      some (p.1, .obj (objInsert ID_FIELD (.str p.1) [(ORDER_FIELD, .arr (ord p.1))]))
    else match readObject src st w with
      | .ok o => some (p.1, .obj (objInsert ID_FIELD (.str p.1) o))
      | .error _ => none

/-- a tree the loop skips, a tracked object whose body can be read, or a conflict-free descriptor tree
    whose winner denotes `ord` -/
def CollectableA (src : Src) (st : DState) (ord : Str → List JVal) (p : Str × RevTree) : Prop :=
  p.2.winner = none ∨ (∃ w, p.2.winner = some w ∧ w.isDeleted = true) ∨
  (isArrayDescriptor p.1 = false ∧ ∃ w o, p.2.winner = some w ∧ w.isDeleted = false ∧ readObject src st w = .ok o) ∨
  (isArrayDescriptor p.1 = true ∧ st.treeOf p.1 = some p.2 ∧ WellIndexed p.2.entries ∧ p.2.leafs.length ≤ 1 ∧
    ∃ w, p.2.winner = some w ∧ w.isDeleted = false ∧ p.2.contains w = true ∧ TO src st p.2 w (ord p.1))

theorem collect_foldA (src : Src) (st : DState) (ord : Str → List JVal) (hag : AgreeParents st)
    (hcl : ClosedAll st) : ∀ (L : List (Str × RevTree)) (A : JObj) (c : Cache),
    (∀ p ∈ L, CollectableA src st ord p) → CacheOK src st c →
    ∃ c', L.foldl (C04b.readStep src st) (.ok (A, c)) = .ok (C04.insAll (L.filterMap (emitA src st ord)) A, c') ∧
      CacheOK src st c'
  | [], A, c, _, hc => ⟨c, rfl, hc⟩
  | p :: rest, A, c, h, hc => by
    rw [List.foldl_cons]
    have ih := fun A' c' hc' => collect_foldA src st ord hag hcl rest A' c'
      (fun q hq => h q (List.mem_cons_of_mem _ hq)) hc'
    rcases h p List.mem_cons_self with hw | ⟨w, hw, hd⟩ | ⟨ha, w, o, hw, hd, hr⟩ | ⟨ha, htree, hwi, hlen, w, hw, hd, hwc, hto⟩
    · have h1 : C04b.readStep src st (.ok (A, c)) p = .ok (A, c) := by simp [C04b.readStep, hw]
      have h2 : emitA src st ord p = none := by simp [emitA, hw]
      rw [h1, List.filterMap_cons, h2]; exact ih A c hc
    · have h1 : C04b.readStep src st (.ok (A, c)) p = .ok (A, c) := by simp [C04b.readStep, hw, hd]
      have h2 : emitA src st ord p = none := by simp [emitA, hw, hd]
      rw [h1, List.filterMap_cons, h2]; exact ih A c hc
    · have hr' : readObject src { st with acache := c } w = .ok o := by
        rw [C04b.readObject_congr src (st' := { st with acache := c }) (st := st) rfl]; exact hr
      have h1 : C04b.readStep src st (.ok (A, c)) p =
          .ok (objInsert p.1 (.obj (objInsert ID_FIELD (.str p.1) o)) A, c) := by
        simp [C04b.readStep, hw, hd, readAt, ha, hr']
      have h2 : emitA src st ord p = some (p.1, .obj (objInsert ID_FIELD (.str p.1) o)) := by
        simp [emitA, hw, hd, hr, ha]
      rw [h1, List.filterMap_cons, h2]
      exact ih _ c hc
    · have hag' : AgreeParents ({ st with acache := c } : DState) := hag
      have hcl' : ClosedAll ({ st with acache := c } : DState) := hcl
      have hc' : CacheOK src ({ st with acache := c } : DState) ({ st with acache := c } : DState).acache :=
        cacheOK_grow (grow_acache src st c) hcl hc
      have hto' : TO src ({ st with acache := c } : DState) p.2 w (ord p.1) :=
        trueOrder_congr (readDesc_acache src st c) hto
      obtain ⟨c', hra, hcc⟩ := readAt_array_single_leaf_sound (u := p.1) hag' hcl' hc' ⟨ha, htree⟩ hwi hlen hwc hto'
      have hcc' : CacheOK src st c' := cacheOK_grow (grow_acache' src st c) hcl' hcc
      have h1 : C04b.readStep src st (.ok (A, c)) p =
          .ok (objInsert p.1 (.obj (objInsert ID_FIELD (.str p.1) [(ORDER_FIELD, .arr (ord p.1))])) A, c') := by
        simp [C04b.readStep, hw, hd, hra]
      have h2 : emitA src st ord p =
          some (p.1, .obj (objInsert ID_FIELD (.str p.1) [(ORDER_FIELD, .arr (ord p.1))])) := by
        simp [emitA, hw, hd, ha]
      rw [h1, List.filterMap_cons, h2]
      exact ih _ c' hcc'

theorem emitA_key {src : Src} {st : DState} {ord : Str → List JVal} {p : Str × RevTree} {e : Str × JVal}
    (h : emitA src st ord p = some e) : e.1 = p.1 := by
  unfold emitA at h
  split at h
  · cases h
  · split at h
    · cases h
    · split at h
      · cases h; rfl
      · split at h
        · cases h; rfl
        · cases h

theorem emitA_keys_mem {src : Src} {st : DState} {ord : Str → List JVal} {k : Str} {L : List (Str × RevTree)}
    (h : k ∈ C04.keys (L.filterMap (emitA src st ord))) :
    ∃ p ∈ L, p.1 = k ∧ (emitA src st ord p).isSome = true := by
  simp only [C04.keys, List.mem_map, List.mem_filterMap] at h
  obtain ⟨e, ⟨p, hp, he⟩, hk⟩ := h
  exact ⟨p, hp, by rw [← emitA_key he, hk], by simp [he]⟩

theorem emitA_keys_nodup {src : Src} {st : DState} {ord : Str → List JVal} : ∀ {L : List (Str × RevTree)},
    DocsSorted L → (C04.keys (L.filterMap (emitA src st ord))).Nodup
  | [], _ => by simp [C04.keys]
  | p :: rest, hs => by
    have hs' := List.pairwise_cons.mp hs
    have ih := emitA_keys_nodup (src := src) (st := st) (ord := ord) hs'.2
    rw [List.filterMap_cons]
    cases he : emitA src st ord p with
    | none => exact ih
    | some e =>
      simp only [C04.keys, List.map_cons, List.nodup_cons]
      refine ⟨?_, ih⟩
      intro hm
      obtain ⟨q, hq, hk, _⟩ := emitA_keys_mem (src := src) (st := st) hm
      have := hs'.1 q hq
      rw [hk, emitA_key he, C04.strLt_irrefl] at this; cases this

theorem readFinish_withIdsA (H : Bytes → Str) (doc : JObj) (c : Cache)
    (hwf : C04.WFDoc (.obj doc)) (hnb : C04.NoBangIds (.obj doc)) (hdd : C04.DescIdsDistinct (.obj doc))
    (hroot : C04.objId doc = ROOT_ID) :
    C04b.readFinish (C04.withIds (C04b.poolOf doc)) c = .ok (C04.addIds (.obj doc), c) := by
  obtain ⟨c', hc'⟩ := C04.read_flatten_fuel H (.obj doc) (C04b.poolOf doc) (C04.objId doc) hwf hnb hdd
    (C04.flatten_root H doc hwf)
  unfold C04.readPool at hc'
  rw [hroot] at hc'
  unfold C04b.readFinish
  cases hg : objGet ROOT_ID (C04.withIds (C04b.poolOf doc)) with
  | none => simp [hg] at hc'
  | some ro =>
    simp only [hg] at hc' ⊢
    rw [hc', C04.addIds_root]


/-! ## Stage 3: the document level -/

/-- **The state invariant with arrays.** `C04b.Inv`, plus: (i) the shared array cache is sound
    (`CacheOK`); (ii) the live winner of every descriptor tree denotes an array (`WinnersTO`);
    (iii) `WellIndexed` is part of `TreeOK`; (iv) the leaf cache of every descriptor tree is valid. -/
structure InvA (H : Bytes → Str) (src : Src) (S : JObj → Prop) (st : DState) : Prop where
  base : C04b.Inv H src S st
  cache : CacheOK src st st.acache
  winners : WinnersTO src st
  leafsValid : ∀ u t, ArrTree st u t → t.leafs = sortRevs (liveLeafs t.entries)

/-- no flattened array is in conflict -/
def NoArrayConflict (st : DState) : Prop :=
  ∀ u t, isArrayDescriptor u = true → st.treeOf u = some t → t.leafs.length ≤ 1

theorem fi_of_invA {H : Bytes → Str} {src : Src} {S : JObj → Prop} {st : DState}
    (h : InvA H src S st) (hnc : NoArrayConflict st) : FI H src S st :=
  ⟨h.base.store, h.base.goodAll, h.cache, fun u t ht => ⟨hnc u t ht.1 ht.2, h.leafsValid u t ht⟩, h.winners,
    h.base.sorted⟩

theorem invA_of_fi {H : Bytes → Str} {src : Src} {S : JObj → Prop} {st : DState}
    (h : FI H src S st) : InvA H src S st ∧ NoArrayConflict st :=
  ⟨⟨⟨h.sorted, h.store, fun p hp => h.good p.1 p.2 (C04b.treeOf_of_mem h.sorted hp)⟩, h.cache, h.winners,
    fun u t ht => (h.shape u t ht).2⟩, fun u t hu ht => (h.shape u t ⟨hu, ht⟩).1⟩

/-- the array a descriptor of the pool denotes -/
def ordOfPool (pool : JObj) (k : Str) : List JVal :=
  match objGet k pool with
  | some (.obj o) => (match objGet ORDER_FIELD o with | some (.arr l) => l | _ => [])
  | _ => []

theorem ordOfPool_eq {pool : JObj} {k : Str} {l : List JVal}
    (h : objGet k pool = some (.obj [(ORDER_FIELD, .arr l)])) : ordOfPool pool k = l := by
  simp [ordOfPool, h, objGet]

/-- **Stage 3 (general universe `S`).** -/
theorem update_read_coreA {H : Bytes → Str} (hH : HexOut H) {src : Src} {S : JObj → Prop}
    (hcf : CollisionFree H S) {st st' : DState} {doc : JObj} {root : Str}
    (hwf : C04.WFDoc (.obj doc)) (hnb : C04.NoBangIds (.obj doc)) (hdd : C04.DescIdsDistinct (.obj doc))
    (hroot : C04.objId doc = ROOT_ID) (hinv : InvA H src S st) (hnc : NoArrayConflict st)
    (hpool : C04b.PoolOK H S doc)
    (hdelta : ∀ u ord, isArrayDescriptor u = true → (u, JVal.obj [(ORDER_FIELD, .arr ord)]) ∈ C04b.poolOf doc →
      DeltaIn S src st u ord)
    (hag : AgreeParents st')
    (h : update H src st doc = .ok (st', root)) :
    (∃ c, DState.read src st' = .ok (C04.addIds (.obj doc), c)) ∧ InvA H src S st' ∧ NoArrayConflict st' ∧
    root = ROOT_ID := by
  have hfl := C04.flatten_root H doc hwf
  rw [C04b.update_eq, hfl] at h
  simp only at h
  have hps : C04.SortedKeys (C04b.poolOf doc) := C04b.sortedKeys_insAll _ [] List.Pairwise.nil
  change (match (C04b.poolOf doc).foldl (C04b.poolStep H src)
      (((st.p.docs.map (·.1)).filter (fun u => !(objHas u (C04b.poolOf doc)))).foldl (C04b.goneStep H) (.ok st)) with
    | .ok s => Res.ok (s, C04.objId doc)
    | .err e => .err e
    | .panic m => .panic m) = .ok (st', root) at h
  cases r1 : ((st.p.docs.map (·.1)).filter (fun u => !(objHas u (C04b.poolOf doc)))).foldl (C04b.goneStep H) (.ok st) with
  | err e => rw [r1] at h; exact absurd (by
      cases r2 : (C04b.poolOf doc).foldl (C04b.poolStep H src) (.err e) with
      | ok s => exact absurd r2 (C04b.poolFold_not_ok H src _ _ (by simp) s)
      | err e' => rw [r2] at h; cases h
      | panic m => rw [r2] at h; cases h) (fun (hf : False) => hf)
  | panic m => rw [r1] at h; exact absurd (by
      cases r2 : (C04b.poolOf doc).foldl (C04b.poolStep H src) (.panic m) with
      | ok s => exact absurd r2 (C04b.poolFold_not_ok H src _ _ (by simp) s)
      | err e' => rw [r2] at h; cases h
      | panic m => rw [r2] at h; cases h) (fun (hf : False) => hf)
  | ok s1 =>
    rw [r1] at h
    cases r2 : (C04b.poolOf doc).foldl (C04b.poolStep H src) (.ok s1) with
    | err e => rw [r2] at h; cases h
    | panic m => rw [r2] at h; cases h
    | ok s2 =>
      rw [r2] at h
      simp only [Res.ok.injEq, Prod.mk.injEq] at h
      obtain ⟨rfl, rfl⟩ := h
      have hfi0 := fi_of_invA hinv hnc
      have hgn : ((st.p.docs.map (·.1)).filter (fun u => !(objHas u (C04b.poolOf doc)))).Nodup :=
        (C04b.docKeys_nodup hinv.base.sorted).filter _
      obtain ⟨g1, g2, hfi1⟩ := goneFoldA_spec hH _ st s1 hgn hfi0 r1
      have hgrow1 := goneFold_grow src _ st s1 r1
      have hnotgone : ∀ p ∈ C04b.poolOf doc,
          p.1 ∉ (st.p.docs.map (·.1)).filter (fun u => !(objHas u (C04b.poolOf doc))) := by
        intro p hp hm
        have h1 := (List.mem_filter.mp hm).2
        have h2 := C04b.objGet_of_mem_sorted hps (show (p.1, p.2) ∈ C04b.poolOf doc from hp)
        simp [objHas, h2] at h1
      have hentA : ∀ p ∈ C04b.poolOf doc, EntryA H S p := by
        intro p hp
        cases ha : isArrayDescriptor p.1 with
        | false => exact Or.inl ⟨ha, hpool p hp⟩
        | true =>
          refine Or.inr ⟨ha, fun o hpo => ⟨(hpool p hp o hpo).1, ?_⟩⟩
          obtain ⟨l, hl⟩ := pool_desc hwf (show (p.1, p.2) ∈ C04b.poolOf doc from hp) ha
          rw [hpo] at hl
          exact ⟨l, by injection hl⟩
      have hdl1 : ∀ p ∈ C04b.poolOf doc, ∀ ord, isArrayDescriptor p.1 = true →
          p.2 = .obj [(ORDER_FIELD, .arr ord)] → DeltaIn S src s1 p.1 ord := by
        intro p hp ord hpa hpo
        exact deltaIn_mono hpa hfi0 (g2 p.1 (hnotgone p hp)) hgrow1.reads
          (hdelta p.1 ord hpa (by rw [← hpo]; exact hp))
      obtain ⟨p1, p2, hfi2⟩ := poolFoldA_spec hH hcf (C04b.poolOf doc) s1 s2 (C04b.keys_nodup_of_sorted hps)
        hentA hdl1 hfi1 hag r2
      have hsorted2 : DocsSorted s2.p.docs := hfi2.sorted
      have hlive : ∀ k v, objGet k (C04b.poolOf doc) = some v → PLive H src s2 (k, v) :=
        fun k v hg => p1 (k, v) (C04b.mem_of_objGet hg)
      have hdead : ∀ k t, objGet k (C04b.poolOf doc) = none → s2.treeOf k = some t →
          ∃ w, t.winner = some w ∧ w.isDeleted = true := by
        intro k t hg ht
        have hnk : k ∉ C04.keys (C04b.poolOf doc) := by
          intro hm
          obtain ⟨q, hq, hqk⟩ := List.mem_map.mp hm
          have := C04b.objGet_of_mem_sorted hps (show (q.1, q.2) ∈ C04b.poolOf doc from hq)
          rw [hqk, hg] at this; cases this
        rw [p2 k hnk] at ht
        by_cases hgone : k ∈ (st.p.docs.map (·.1)).filter (fun u => !(objHas u (C04b.poolOf doc)))
        · exact g1 k hgone t ht
        · exfalso
          rw [g2 k hgone] at ht
          apply hgone
          refine List.mem_filter.mpr ⟨List.mem_map.mpr ⟨(k, t), C04b.mem_of_treeOf ht, rfl⟩, ?_⟩
          simp [objHas, hg]
      have hcoll : ∀ p ∈ s2.p.docs, CollectableA src s2 (ordOfPool (C04b.poolOf doc)) p := by
        intro p hp
        have ht := C04b.treeOf_of_mem hsorted2 (show (p.1, p.2) ∈ s2.p.docs from hp)
        cases hg : objGet p.1 (C04b.poolOf doc) with
        | none =>
          obtain ⟨w, hw, hd⟩ := hdead p.1 p.2 hg ht
          exact Or.inr (Or.inl ⟨w, hw, hd⟩)
        | some v =>
          obtain ⟨o, hvo, hcase⟩ := hlive p.1 v hg
          rcases hcase with ⟨ha, t', w, h1, h2, h3, h4⟩ | ⟨ha, ord, ho, t', w, h1, h2, h3, h4, _, h6, h7⟩
          · simp only at h1 ha
            rw [ht] at h1; cases h1
            exact Or.inr (Or.inr (Or.inl ⟨ha, w, o, h2, h3, h4⟩))
          · simp only at h1 ha hvo
            rw [ht] at h1; cases h1
            have hord : ordOfPool (C04b.poolOf doc) p.1 = ord := by
              apply ordOfPool_eq; rw [hg, hvo, ho]
            exact Or.inr (Or.inr (Or.inr ⟨ha, ht, h4.idx, h7.1, w, h2, h3, winner_contains h4 h2, by rw [hord]; exact h6⟩))
      -- the root
      obtain ⟨ro, hro, _⟩ := C04.unflatten_flatten H (.obj doc) (C04b.poolOf doc) (C04.objId doc) hwf hnb hdd hfl
      rw [hroot, C04.objGet_withIds] at hro
      have hrootTree : (s2.treeOf ROOT_ID).isNone = false := by
        cases hg : objGet ROOT_ID (C04b.poolOf doc) with
        | none => rw [hg] at hro; cases hro
        | some v =>
          obtain ⟨o, _, hcase⟩ := hlive ROOT_ID v hg
          rcases hcase with ⟨_, t', w, h1, _⟩ | ⟨_, _, _, t', w, h1, _⟩
          · simp only at h1; rw [h1]; rfl
          · simp only at h1; rw [h1]; rfl
      -- the collected pool
      have hQ : C04.insAll (s2.p.docs.filterMap (emitA src s2 (ordOfPool (C04b.poolOf doc)))) [] =
          C04.withIds (C04b.poolOf doc) := by
        apply C04b.sortedKeys_ext
        · exact C04b.sortedKeys_insAll _ [] List.Pairwise.nil
        · exact C04.sortedKeys_map C04.addId (C04b.poolOf doc) hps
        · intro k
          rw [C04.objGet_withIds]
          have hnd := emitA_keys_nodup (src := src) (st := s2) (ord := ordOfPool (C04b.poolOf doc)) hsorted2
          cases hg : objGet k (C04b.poolOf doc) with
          | none =>
            simp only [Option.map_none]
            rw [C04.objGet_insAll_not_mem k _ []]
            · rfl
            · intro hm
              obtain ⟨q, hq, hk, hsome⟩ := emitA_keys_mem hm
              have ht := C04b.treeOf_of_mem hsorted2 (show (q.1, q.2) ∈ s2.p.docs from hq)
              rw [hk] at ht
              obtain ⟨w, hw, hd⟩ := hdead k q.2 hg ht
              simp [emitA, hw, hd] at hsome
          | some v =>
            obtain ⟨o, hvo, hcase⟩ := hlive k _ hg
            simp only at hvo
            subst hvo
            simp only [Option.map_some, C04.addId]
            apply C04.objGet_insAll_mem k _ _ [] hnd
            rcases hcase with ⟨ha, t', w, h1, h2, h3, h4⟩ | ⟨ha, ord, ho, t', w, h1, h2, h3, _⟩
            · simp only at h1 ha
              refine List.mem_filterMap.mpr ⟨(k, t'), C04b.mem_of_treeOf h1, ?_⟩
              simp [emitA, h2, h3, h4, ha]
            · simp only at h1 ha
              refine List.mem_filterMap.mpr ⟨(k, t'), C04b.mem_of_treeOf h1, ?_⟩
              have hord : ordOfPool (C04b.poolOf doc) k = ord := by
                apply ordOfPool_eq; rw [hg, ho]
              simp [emitA, h2, h3, ha, hord, ho]
      obtain ⟨hinv2, hnc2⟩ := invA_of_fi hfi2
      refine ⟨?_, hinv2, hnc2, hroot⟩
      obtain ⟨c', hfold, _⟩ := collect_foldA src s2 (ordOfPool (C04b.poolOf doc)) hag (closedAll_of_good hfi2.good)
        s2.p.docs [] s2.acache hcoll hfi2.cache
      refine ⟨c', ?_⟩
      rw [C04b.read_eq, hrootTree]
      simp only [Bool.false_eq_true, if_false]
      rw [hfold, hQ]
      exact readFinish_withIdsA H doc c' hwf hnb hdd hroot


/-! ### the concrete universe: stored bodies, the objects of the pool, the delta descriptors generated -/

/-- `x` is a delta descriptor `update` may generate: the difference between what the live winner of a
    descriptor tree of the prior state denotes and the array submitted for that descriptor -/
def GenDelta (src : Src) (st : DState) (doc : JObj) (x : JObj) : Prop :=
  ∃ u ord t w o0 patch, isArrayDescriptor u = true ∧ (u, JVal.obj [(ORDER_FIELD, .arr ord)]) ∈ C04b.poolOf doc ∧
    st.treeOf u = some t ∧ t.winner = some w ∧ w.isDeleted = false ∧ TO src st t w o0 ∧
    makeDiffPatch o0 ord = some patch ∧ x = [(DELTA_ORDER_FIELD, .arr patch)]

/-- the finite universe on which the digest is assumed collision free -/
def Univ (src : Src) (st : DState) (doc : JObj) (x : JObj) : Prop :=
  C04b.Stored src st x ∨ C04b.PoolObj doc x ∨ GenDelta src st doc x

theorem invA_weaken {H : Bytes → Str} {src : Src} {S S' : JObj → Prop} {st : DState}
    (h : InvA H src S st) (hs : ∀ o, C04b.Stored src st o → S' o) : InvA H src S' st :=
  ⟨⟨h.base.sorted, C04b.storeOK_weaken h.base.store hs, h.base.trees⟩, h.cache, h.winners, h.leafsValid⟩

theorem update_read_all {H : Bytes → Str} (hH : HexOut H) {src : Src} {st st' : DState} {doc : JObj} {root : Str}
    (hwf : C04.WFDoc (.obj doc)) (hnb : C04.NoBangIds (.obj doc)) (hdd : C04.DescIdsDistinct (.obj doc))
    (hroot : C04.objId doc = ROOT_ID)
    (hnh : ∀ o, C04b.PoolObj doc o → NoHash o)
    (hinv : InvA H src (fun _ => True) st) (hnc : NoArrayConflict st)
    (hcf : CollisionFree H (Univ src st doc))
    (hag : AgreeParents st')
    (h : update H src st doc = .ok (st', root)) :
    (∃ c, DState.read src st' = .ok (C04.addIds (.obj doc), c)) ∧ InvA H src (Univ src st doc) st' ∧
    NoArrayConflict st' ∧ root = ROOT_ID := by
  have hinv' : InvA H src (Univ src st doc) st := invA_weaken hinv (fun o ho => Or.inl ho)
  have hpool : C04b.PoolOK H (Univ src st doc) doc := by
    intro p hp o hpo
    have hpo' : C04b.PoolObj doc o := ⟨p.1, by rw [← hpo]; exact hp⟩
    exact ⟨Or.inr (Or.inl hpo'), fun d hd => C04b.faithful_of_noHash hH (hnh o hpo') hd⟩
  have hdelta : ∀ u ord, isArrayDescriptor u = true →
      (u, JVal.obj [(ORDER_FIELD, .arr ord)]) ∈ C04b.poolOf doc → DeltaIn (Univ src st doc) src st u ord := by
    intro u ord hu hm t w o0 patch ht hw hd hto hmp
    exact Or.inr (Or.inr ⟨u, ord, t, w, o0, patch, hu, hm, ht, hw, hd, hto, hmp, rfl⟩)
  exact update_read_coreA hH hcf hwf hnb hdd hroot hinv' hnc hpool hdelta hag h

/-- **Stage 3 — C04 with flattened arrays.** For a well-formed document (descriptor identifiers
    distinct, no `!` identifier in reference position) whose root is stored under `√` and whose pool
    objects have no `#` field, from ANY state satisfying `InvA` in which no flattened array is in
    conflict, assuming no digest collision among the stored bodies, the objects of the document and the
    delta descriptors generated (`Univ`), and that the descriptor trees of the resulting state agree on
    the parents of the revisions they share (`AgreeParents`, needed because the array cache is keyed by
    revision only): a successful `update` is followed by a `read` that returns exactly the document,
    with only the identifiers added. The hypothesis `NoArrays doc` of `C04b.update_read_plain` is gone. -/
theorem update_read {H : Bytes → Str} (hH : HexOut H) {src : Src} {st st' : DState} {doc : JObj} {root : Str}
    (hwf : C04.WFDoc (.obj doc)) (hnb : C04.NoBangIds (.obj doc)) (hdd : C04.DescIdsDistinct (.obj doc))
    (hroot : C04.objId doc = ROOT_ID)
    (hnh : ∀ o, C04b.PoolObj doc o → NoHash o)
    (hinv : InvA H src (fun _ => True) st) (hnc : NoArrayConflict st)
    (hcf : CollisionFree H (Univ src st doc))
    (hag : AgreeParents st')
    (h : update H src st doc = .ok (st', root)) :
    ∃ c, DState.read src st' = .ok (C04.addIds (.obj doc), c) :=
  (update_read_all hH hwf hnb hdd hroot hnh hinv hnc hcf hag h).1

/-- `update` keeps the invariant and the absence of array conflicts; the root identifier is `√` -/
theorem update_keeps_invA {H : Bytes → Str} (hH : HexOut H) {src : Src} {st st' : DState} {doc : JObj} {root : Str}
    (hwf : C04.WFDoc (.obj doc)) (hnb : C04.NoBangIds (.obj doc)) (hdd : C04.DescIdsDistinct (.obj doc))
    (hroot : C04.objId doc = ROOT_ID)
    (hnh : ∀ o, C04b.PoolObj doc o → NoHash o)
    (hinv : InvA H src (fun _ => True) st) (hnc : NoArrayConflict st)
    (hcf : CollisionFree H (Univ src st doc))
    (hag : AgreeParents st')
    (h : update H src st doc = .ok (st', root)) :
    InvA H src (fun _ => True) st' ∧ NoArrayConflict st' ∧ root = ROOT_ID := by
  obtain ⟨_, hi, hn, hr⟩ := update_read_all hH hwf hnb hdd hroot hnh hinv hnc hcf hag h
  exact ⟨invA_weaken hi (fun _ _ => trivial), hn, hr⟩

/-- with `NoCrossTreeRev` in place of `AgreeParents` -/
theorem update_read_noCross {H : Bytes → Str} (hH : HexOut H) {src : Src} {st st' : DState} {doc : JObj} {root : Str}
    (hwf : C04.WFDoc (.obj doc)) (hnb : C04.NoBangIds (.obj doc)) (hdd : C04.DescIdsDistinct (.obj doc))
    (hroot : C04.objId doc = ROOT_ID)
    (hnh : ∀ o, C04b.PoolObj doc o → NoHash o)
    (hinv : InvA H src (fun _ => True) st) (hnc : NoArrayConflict st)
    (hcf : CollisionFree H (Univ src st doc))
    (hncr : NoCrossTreeRev st')
    (h : update H src st doc = .ok (st', root)) :
    ∃ c, DState.read src st' = .ok (C04.addIds (.obj doc), c) :=
  update_read hH hwf hnb hdd hroot hnh hinv hnc hcf (agree_of_noCross hncr) h


/-! ## non-vacuity: a first submission with a flattened array, then a second one taking the delta path -/

section Examples
open C04b (Hx hexOut_Hx src0 digestOf)

theorem inj_of_nodup_map {α β : Type} (f : α → β) : ∀ (l : List α), (l.map f).Nodup →
    ∀ x ∈ l, ∀ y ∈ l, f x = f y → x = y
  | [], _, _, hx, _, _, _ => by cases hx
  | a :: t, hn, x, hx, y, hy, hxy => by
    simp only [List.map_cons, List.nodup_cons] at hn
    rcases List.mem_cons.mp hx with h1 | h1 <;> rcases List.mem_cons.mp hy with h2 | h2
    · rw [h1, h2]
    · exact absurd (by rw [← h1, hxy]; exact List.mem_map_of_mem (f := f) h2) hn.1
    · exact absurd (by rw [← h2, ← hxy]; exact List.mem_map_of_mem (f := f) h1) hn.1
    · exact inj_of_nodup_map f t hn.2 x h1 y h2 hxy

theorem cf_of_list {S : JObj → Prop} (objs : List JObj) (hS : ∀ x, S x → x ∈ objs)
    (hn : (objs.map digestOf).Nodup) : CollisionFree Hx S := by
  intro o₁ o₂ d h1 h2 hd1 hd2
  apply inj_of_nodup_map digestOf objs hn o₁ (hS _ h1) o₂ (hS _ h2)
  simp [digestOf, hd1, hd2]

/-- a state with a single descriptor tree satisfies the cross-tree assumption -/
theorem agree_single (st : DState) (k : Str)
    (h : ∀ u ∈ st.p.docs.map (·.1), isArrayDescriptor u = true → u = k) : AgreeParents st := by
  apply agree_of_noCross
  intro u1 t1 u2 t2 r a b _ _
  have h1 := h u1 (List.mem_map_of_mem (f := (·.1)) (C04b.mem_of_treeOf a.2)) a.1
  have h2 := h u2 (List.mem_map_of_mem (f := (·.1)) (C04b.mem_of_treeOf b.2)) b.1
  rw [h1, h2]

/-- a root with a flattened array of two tracked objects -/
def docArr : JObj :=
  [(C04.flatKey "a", .arr [.obj [(ID_FIELD, .str "x".toList), ("v".toList, .num "1".toList)],
                            .obj [(ID_FIELD, .str "y".toList), ("v".toList, .num "22".toList)]])]
/-- the same document with the second element removed -/
def docArr2 : JObj :=
  [(C04.flatKey "a", .arr [.obj [(ID_FIELD, .str "x".toList), ("v".toList, .num "1".toList)]])]

def kA : Str := C04.descId ROOT_ID (C04.flatKey "a")
def oX : JObj := [("v".toList, .num "1".toList)]
def oY : JObj := [("v".toList, .num "22".toList)]
def oRootA : JObj := [(C04.flatKey "a", .str kA)]
def oDesc1 : JObj := [(ORDER_FIELD, .arr [.str "x".toList, .str "y".toList])]
def oDesc2 : JObj := [(ORDER_FIELD, .arr [.str "x".toList])]
def pDelta : List JVal := [.arr [.str "d".toList, .num "1".toList, .num "1".toList]]
def oDelta : JObj := [(DELTA_ORDER_FIELD, .arr pDelta)]

example : C04.WFDoc (.obj docArr) ∧ C04.NoBangIds (.obj docArr) ∧ C04.DescIdsDistinct (.obj docArr) ∧
    C04.objId docArr = ROOT_ID ∧ ¬ C04b.NoArrays docArr := by decide

theorem poolOf_docArr : C04b.poolOf docArr =
    [(kA, .obj oDesc1), ("x".toList, .obj oX), ("y".toList, .obj oY), (ROOT_ID, .obj oRootA)] := by rfl
theorem poolOf_docArr2 : C04b.poolOf docArr2 =
    [(kA, .obj oDesc2), ("x".toList, .obj oX), (ROOT_ID, .obj oRootA)] := by rfl

theorem poolObj_docArr {o : JObj} (h : C04b.PoolObj docArr o) : o ∈ [oDesc1, oX, oY, oRootA] := by
  obtain ⟨k, hk⟩ := h
  rw [poolOf_docArr] at hk
  simp only [List.mem_cons, Prod.mk.injEq, JVal.obj.injEq, List.not_mem_nil, or_false] at hk ⊢
  rcases hk with ⟨_, h⟩ | ⟨_, h⟩ | ⟨_, h⟩ | ⟨_, h⟩ <;> simp [h]

theorem poolObj_docArr2 {o : JObj} (h : C04b.PoolObj docArr2 o) : o ∈ [oDesc2, oX, oRootA] := by
  obtain ⟨k, hk⟩ := h
  rw [poolOf_docArr2] at hk
  simp only [List.mem_cons, Prod.mk.injEq, JVal.obj.injEq, List.not_mem_nil, or_false] at hk ⊢
  rcases hk with ⟨_, h⟩ | ⟨_, h⟩ | ⟨_, h⟩ <;> simp [h]

theorem invA_empty (H : Bytes → Str) : InvA H src0 (fun _ => True) {} :=
  ⟨C04b.inv_empty H, fun kv hkv => (by cases hkv), fun u t w ht => (by cases ht.2), fun u t ht => (by cases ht.2)⟩

theorem noConflict_empty : NoArrayConflict {} := fun u t _ ht => (by cases ht)

theorem univ_docArr {x : JObj} (h : Univ src0 ({} : DState) docArr x) : x ∈ [oDesc1, oX, oY, oRootA] := by
  rcases h with (⟨d, hd⟩ | ⟨p, hp, _⟩) | h | ⟨u, ord, t, w, o0, patch, _, _, ht, _⟩
  · cases hd
  · cases hp
  · exact poolObj_docArr h
  · cases ht

theorem cf_docArr : CollisionFree Hx (Univ src0 ({} : DState) docArr) :=
  cf_of_list _ (fun _ h => univ_docArr h) (by decide)

/-- the replica after the first submission -/
def stA : DState := match update Hx src0 {} docArr with | .ok (s, _) => s | _ => {}

theorem update_docArr : update Hx src0 {} docArr = .ok (stA, ROOT_ID) := by rfl

theorem agree_stA : AgreeParents stA := agree_single stA kA (by decide)

theorem noHash_docArr : ∀ o, C04b.PoolObj docArr o → NoHash o := by
  intro o h
  have := poolObj_docArr h
  simp only [List.mem_cons, List.not_mem_nil, or_false] at this
  rcases this with rfl | rfl | rfl | rfl <;> rfl

/-- **all hypotheses of `update_read` hold together** (document WITH a flattened array), and its conclusion -/
example : ∃ c, DState.read src0 stA = .ok (C04.addIds (.obj docArr), c) :=
  update_read hexOut_Hx (by decide) (by decide) (by decide) (by decide) noHash_docArr
    (invA_empty Hx) noConflict_empty cf_docArr agree_stA update_docArr

/-- a non-trivial state satisfying `InvA` and `NoArrayConflict`: four trees, one of them a descriptor tree -/
theorem invA_stA : InvA Hx src0 (fun _ => True) stA ∧ NoArrayConflict stA := by
  obtain ⟨h1, h2, _⟩ := update_keeps_invA hexOut_Hx (by decide) (by decide) (by decide) (by decide) noHash_docArr
    (invA_empty Hx) noConflict_empty cf_docArr agree_stA update_docArr
  exact ⟨h1, h2⟩

example : stA.p.docs.length = 4 ∧ stA.stage.length = 4 ∧ (stA.treeOf kA).isSome = true := by decide

/-! the second submission: the array loses an element, `updateObject` stores a DELTA descriptor -/

def stB : DState := match update Hx src0 stA docArr2 with | .ok (s, _) => s | _ => {}

theorem update_docArr2 : update Hx src0 stA docArr2 = .ok (stB, ROOT_ID) := by rfl

/-- the second revision of the descriptor is stored as the delta `[["d",1,1]]` -/
example : stB.stage.length = 5 ∧ stB.stage.any (fun p => (JVal.obj p.2).render = (JVal.obj oDelta).render) = true := by
  decide

def tA : RevTree := (stA.treeOf kA).getD {}
def wA : Rev := tA.winner.getD default

theorem treeOf_stA : stA.treeOf kA = some tA := by rfl
theorem winner_tA : tA.winner = some wA := by rfl
theorem trueOrder_wA : TO src0 stA tA wA [.str "x".toList, .str "y".toList] := .full (by rfl)

theorem stage_stA : stA.stage.map (·.2) = [oDesc1, oX, oY, oRootA] := by rfl

theorem univ_docArr2 {x : JObj} (h : Univ src0 stA docArr2 x) : x ∈ [oDesc1, oX, oY, oRootA, oDesc2, oDelta] := by
  rcases h with (⟨d, hd⟩ | ⟨p, hp, rfl⟩) | h | ⟨u, ord, t, w, o0, patch, _, hm, ht, hw, _, hto, hmp, rfl⟩
  · cases hd
  · have : p.2 ∈ stA.stage.map (·.2) := List.mem_map_of_mem (f := (·.2)) hp
    rw [stage_stA] at this
    simp only [List.mem_cons, List.not_mem_nil, or_false] at this ⊢
    rcases this with h | h | h | h <;> simp [h]
  · have := poolObj_docArr2 h
    simp only [List.mem_cons, List.not_mem_nil, or_false] at this ⊢
    rcases this with h | h | h <;> simp [h]
  · rw [poolOf_docArr2] at hm
    simp only [List.mem_cons, Prod.mk.injEq, JVal.obj.injEq, List.not_mem_nil, or_false] at hm
    rcases hm with ⟨rfl, hm⟩ | ⟨_, hm⟩ | ⟨_, hm⟩
    · have hord : ord = [.str "x".toList] := by
        simp only [oDesc2, List.cons.injEq, Prod.mk.injEq, JVal.arr.injEq, true_and, and_true] at hm
        exact hm
      subst hord
      rw [treeOf_stA] at ht; cases ht
      rw [winner_tA] at hw; cases hw
      have := C16b.trueOrder_functional hto trueOrder_wA
      subst this
      have hp : makeDiffPatch [.str "x".toList, .str "y".toList] [.str "x".toList] = some pDelta := by decide
      rw [hp] at hmp
      cases hmp
      simp [oDelta]
    · simp [oX, ORDER_FIELD] at hm
    · simp [oRootA, ORDER_FIELD, C04.flatKey] at hm

theorem cf_docArr2 : CollisionFree Hx (Univ src0 stA docArr2) :=
  cf_of_list _ (fun _ h => univ_docArr2 h) (by decide)

theorem noHash_docArr2 : ∀ o, C04b.PoolObj docArr2 o → NoHash o := by
  intro o h
  have := poolObj_docArr2 h
  simp only [List.mem_cons, List.not_mem_nil, or_false] at this
  rcases this with rfl | rfl | rfl <;> rfl

theorem agree_stB : AgreeParents stB := agree_single stB kA (by decide)

/-- **`update_read` from a non-empty prior state holding a descriptor tree**, on the delta path:
    all hypotheses hold and the document read back is the one submitted -/
example : ∃ c, DState.read src0 stB = .ok (C04.addIds (.obj docArr2), c) :=
  update_read hexOut_Hx (by decide) (by decide) (by decide) (by decide) noHash_docArr2
    invA_stA.1 invA_stA.2 cf_docArr2 agree_stB update_docArr2

/-- the descriptor tree of `stB` has two revisions and one leaf -/
example : ((stB.treeOf kA).map (fun t => (t.entries.length, t.leafs.length))) = some (2, 1) := by decide

/-! ### FINDING: the cross-tree assumption cannot be dropped

  The array cache is keyed by revision only. `Hx` is a legitimate hex hash (`HexOut Hx`) whose
  7-character tails all coincide, so two descriptor trees that receive the same delta descriptor on
  top of different first revisions record the SAME second revision with DIFFERENT parents. During
  `read` the order reconstructed for the first tree is cached under that revision and served for the
  second tree: the document read back is not the document submitted. Every other hypothesis of
  `update_read` holds. (With SHA-256 this needs a collision of two 28-bit tails at the same index
  with the same delta digest; keying the cache by (identifier, revision) would remove the assumption.) -/

def agreeB (st : DState) : Bool :=
  st.p.docs.all fun p1 => st.p.docs.all fun p2 =>
    !(isArrayDescriptor p1.1 && isArrayDescriptor p2.1) ||
    p1.2.entries.all fun e => !(p2.2.contains e.rev) || decide (p1.2.getParent e.rev = p2.2.getParent e.rev)

theorem agreeB_sound {st : DState} (h : agreeB st = true) : AgreeParents st := by
  intro u1 t1 u2 t2 r a b c d
  obtain ⟨e, he, rfl⟩ := (C05.contains_iff t1 r).mp c
  unfold agreeB at h
  have h1 := List.all_eq_true.mp h (u1, t1) (C04b.mem_of_treeOf a.2)
  have h2 := List.all_eq_true.mp h1 (u2, t2) (C04b.mem_of_treeOf b.2)
  simp only [a.1, b.1, Bool.and_self, Bool.not_true, Bool.false_or] at h2
  have h3 := List.all_eq_true.mp h2 e he
  simp only [d, Bool.not_true, Bool.false_or, decide_eq_true_eq] at h3
  exact h3

def vx : JVal := .obj [(ID_FIELD, .str "x".toList), ("v".toList, .num "1".toList)]
def vy : JVal := .obj [(ID_FIELD, .str "y".toList), ("v".toList, .num "22".toList)]
def vz : JVal := .obj [(ID_FIELD, .str "zz".toList), ("v".toList, .num "333".toList)]
def vw : JVal := .obj [(ID_FIELD, .str "w".toList), ("v".toList, .num "4444".toList)]
/-- two flattened arrays -/
def docC1 : JObj := [(C04.flatKey "a", .arr [vx, vy]), (C04.flatKey "b", .arr [vz, vw])]
/-- both lose their second element: the same delta `[["d",1,1]]` for both -/
def docC2 : JObj := [(C04.flatKey "a", .arr [vx]), (C04.flatKey "b", .arr [vz])]

def kB : Str := C04.descId ROOT_ID (C04.flatKey "b")
def oZ : JObj := [("v".toList, .num "333".toList)]
def oW : JObj := [("v".toList, .num "4444".toList)]
def oRootC : JObj := [(C04.flatKey "a", .str kA), (C04.flatKey "b", .str kB)]
def oDescB1 : JObj := [(ORDER_FIELD, .arr [.str "zz".toList, .str "w".toList])]
def oDescB2 : JObj := [(ORDER_FIELD, .arr [.str "zz".toList])]

theorem poolOf_docC1 : C04b.poolOf docC1 =
    [(kA, .obj oDesc1), (kB, .obj oDescB1), ("w".toList, .obj oW), ("x".toList, .obj oX), ("y".toList, .obj oY),
     ("zz".toList, .obj oZ), (ROOT_ID, .obj oRootC)] := by rfl
theorem poolOf_docC2 : C04b.poolOf docC2 =
    [(kA, .obj oDesc2), (kB, .obj oDescB2), ("x".toList, .obj oX), ("zz".toList, .obj oZ), (ROOT_ID, .obj oRootC)] := by rfl

theorem poolObj_docC1 {o : JObj} (h : C04b.PoolObj docC1 o) : o ∈ [oDesc1, oDescB1, oW, oX, oY, oZ, oRootC] := by
  obtain ⟨k, hk⟩ := h
  rw [poolOf_docC1] at hk
  simp only [List.mem_cons, Prod.mk.injEq, JVal.obj.injEq, List.not_mem_nil, or_false] at hk ⊢
  rcases hk with ⟨_, h⟩ | ⟨_, h⟩ | ⟨_, h⟩ | ⟨_, h⟩ | ⟨_, h⟩ | ⟨_, h⟩ | ⟨_, h⟩ <;> simp [h]

theorem poolObj_docC2 {o : JObj} (h : C04b.PoolObj docC2 o) : o ∈ [oDesc2, oDescB2, oX, oZ, oRootC] := by
  obtain ⟨k, hk⟩ := h
  rw [poolOf_docC2] at hk
  simp only [List.mem_cons, Prod.mk.injEq, JVal.obj.injEq, List.not_mem_nil, or_false] at hk ⊢
  rcases hk with ⟨_, h⟩ | ⟨_, h⟩ | ⟨_, h⟩ | ⟨_, h⟩ | ⟨_, h⟩ <;> simp [h]

theorem univ_docC1 {x : JObj} (h : Univ src0 ({} : DState) docC1 x) :
    x ∈ [oDesc1, oDescB1, oW, oX, oY, oZ, oRootC] := by
  rcases h with (⟨d, hd⟩ | ⟨p, hp, _⟩) | h | ⟨u, ord, t, w, o0, patch, _, _, ht, _⟩
  · cases hd
  · cases hp
  · exact poolObj_docC1 h
  · cases ht

def stC1 : DState := match update Hx src0 {} docC1 with | .ok (s, _) => s | _ => {}
def stC2 : DState := match update Hx src0 stC1 docC2 with | .ok (s, _) => s | _ => {}
theorem update_docC1 : update Hx src0 {} docC1 = .ok (stC1, ROOT_ID) := by rfl
theorem update_docC2 : update Hx src0 stC1 docC2 = .ok (stC2, ROOT_ID) := by rfl

theorem noHash_docC1 : ∀ o, C04b.PoolObj docC1 o → NoHash o := by
  intro o h
  have := poolObj_docC1 h
  simp only [List.mem_cons, List.not_mem_nil, or_false] at this
  rcases this with rfl | rfl | rfl | rfl | rfl | rfl | rfl <;> rfl

theorem noHash_docC2 : ∀ o, C04b.PoolObj docC2 o → NoHash o := by
  intro o h
  have := poolObj_docC2 h
  simp only [List.mem_cons, List.not_mem_nil, or_false] at this
  rcases this with rfl | rfl | rfl | rfl | rfl <;> rfl

/-- after the first submission everything is fine (the two descriptor trees share no revision) -/
theorem invA_stC1 : InvA Hx src0 (fun _ => True) stC1 ∧ NoArrayConflict stC1 := by
  obtain ⟨h1, h2, _⟩ := update_keeps_invA hexOut_Hx (by decide) (by decide) (by decide) (by decide) noHash_docC1
    (invA_empty Hx) noConflict_empty (cf_of_list _ (fun _ h => univ_docC1 h) (by decide))
    (agreeB_sound (by decide)) update_docC1
  exact ⟨h1, h2⟩

def tCa : RevTree := (stC1.treeOf kA).getD {}
def tCb : RevTree := (stC1.treeOf kB).getD {}
def wCa : Rev := tCa.winner.getD default
def wCb : Rev := tCb.winner.getD default

theorem stage_stC1 : stC1.stage.map (·.2) = [oDesc1, oDescB1, oW, oX, oY, oZ, oRootC] := by rfl

theorem univ_docC2 {x : JObj} (h : Univ src0 stC1 docC2 x) :
    x ∈ [oDesc1, oDescB1, oW, oX, oY, oZ, oRootC, oDesc2, oDescB2, oDelta] := by
  rcases h with (⟨d, hd⟩ | ⟨p, hp, rfl⟩) | h | ⟨u, ord, t, w, o0, patch, _, hm, ht, hw, _, hto, hmp, rfl⟩
  · cases hd
  · have : p.2 ∈ stC1.stage.map (·.2) := List.mem_map_of_mem (f := (·.2)) hp
    rw [stage_stC1] at this
    simp only [List.mem_cons, List.not_mem_nil, or_false] at this ⊢
    rcases this with h | h | h | h | h | h | h <;> simp [h]
  · have := poolObj_docC2 h
    simp only [List.mem_cons, List.not_mem_nil, or_false] at this ⊢
    rcases this with h | h | h | h | h <;> simp [h]
  · rw [poolOf_docC2] at hm
    simp only [List.mem_cons, Prod.mk.injEq, JVal.obj.injEq, List.not_mem_nil, or_false] at hm
    rcases hm with ⟨rfl, hm⟩ | ⟨rfl, hm⟩ | ⟨_, hm⟩ | ⟨_, hm⟩ | ⟨_, hm⟩
    · have hord : ord = [.str "x".toList] := by
        simp only [oDesc2, List.cons.injEq, Prod.mk.injEq, JVal.arr.injEq, true_and, and_true] at hm
        exact hm
      subst hord
      have h1 : stC1.treeOf kA = some tCa := by rfl
      have h2 : tCa.winner = some wCa := by rfl
      have h3 : TO src0 stC1 tCa wCa [.str "x".toList, .str "y".toList] := .full (by rfl)
      rw [h1] at ht; cases ht
      rw [h2] at hw; cases hw
      have := C16b.trueOrder_functional hto h3
      subst this
      have hp : makeDiffPatch [.str "x".toList, .str "y".toList] [.str "x".toList] = some pDelta := by decide
      rw [hp] at hmp
      cases hmp
      simp [oDelta]
    · have hord : ord = [.str "zz".toList] := by
        simp only [oDescB2, List.cons.injEq, Prod.mk.injEq, JVal.arr.injEq, true_and, and_true] at hm
        exact hm
      subst hord
      have h1 : stC1.treeOf kB = some tCb := by rfl
      have h2 : tCb.winner = some wCb := by rfl
      have h3 : TO src0 stC1 tCb wCb [.str "zz".toList, .str "w".toList] := .full (by rfl)
      rw [h1] at ht; cases ht
      rw [h2] at hw; cases hw
      have := C16b.trueOrder_functional hto h3
      subst this
      have hp : makeDiffPatch [.str "zz".toList, .str "w".toList] [.str "zz".toList] = some pDelta := by decide
      rw [hp] at hmp
      cases hmp
      simp [oDelta]
    · simp [oX, ORDER_FIELD] at hm
    · simp [oZ, ORDER_FIELD] at hm
    · simp [oRootC, ORDER_FIELD, C04.flatKey] at hm

def readText (st : DState) : Option Str :=
  match DState.read src0 st with
  | .ok (v, _) => some v.render
  | _ => none

set_option maxRecDepth 8000 in
theorem readText_stC2_ne : readText stC2 ≠ some (C04.addIds (.obj docC2)).render := by decide

/-- **FINDING.** `update_read` without `AgreeParents st'` is FALSE for the model: every other
    hypothesis holds for `stC1`, `docC2`, the update succeeds, and `read` does not return the document. -/
theorem agreeParents_needed :
    HexOut Hx ∧ C04.WFDoc (.obj docC2) ∧ C04.NoBangIds (.obj docC2) ∧ C04.DescIdsDistinct (.obj docC2) ∧
    C04.objId docC2 = ROOT_ID ∧ (∀ o, C04b.PoolObj docC2 o → NoHash o) ∧
    InvA Hx src0 (fun _ => True) stC1 ∧ NoArrayConflict stC1 ∧
    CollisionFree Hx (Univ src0 stC1 docC2) ∧
    update Hx src0 stC1 docC2 = .ok (stC2, ROOT_ID) ∧
    ¬ AgreeParents stC2 ∧
    ¬ ∃ c, DState.read src0 stC2 = .ok (C04.addIds (.obj docC2), c) := by
  refine ⟨hexOut_Hx, by decide, by decide, by decide, by decide, noHash_docC2, invA_stC1.1, invA_stC1.2,
    cf_of_list _ (fun _ h => univ_docC2 h) (by decide), update_docC2, ?_, ?_⟩
  · intro hag
    have hne := readText_stC2_ne
    obtain ⟨c, hc⟩ := update_read hexOut_Hx (by decide) (by decide) (by decide) (by decide) noHash_docC2
      invA_stC1.1 invA_stC1.2 (cf_of_list _ (fun _ h => univ_docC2 h) (by decide)) hag update_docC2
    apply hne
    simp [readText, hc]
  · rintro ⟨c, hc⟩
    apply readText_stC2_ne
    simp [readText, hc]

end Examples

#print axioms trueOrder_iff
#print axioms rebuild_sound_g
#print axioms rebuild_complete_g
#print axioms updateObject_array_full
#print axioms readAt_array_single_leaf
#print axioms readAt_array_single_leaf_sound
#print axioms update_read_coreA
#print axioms update_read
#print axioms update_keeps_invA
#print axioms update_read_noCross
#print axioms invA_stA
#print axioms agreeParents_needed

end Melda.Props.C04c
