/-
  C15b — C15 at document level, with the staged object bodies:
  "exporting the staged changes, discarding them and replaying the export restores exactly the staged state".
  About `Melda.DState.stageExport` / `replayStage` (`Melda/Doc.lean`) and `PState.unstage`.
  Uses the tree-level results of `Melda.Props.C15` (`replay_restores_entries`, `unstage_docs_restores`),
  `C19.parse_render` (the parent text of a change record parses back), the `objGet` / `objInsert` lemmas of
  `C04`, and cites `C05.leafs_perm` / `C05.winner_perm` for "same leaves and winner".
-/
import Melda.Doc
import Melda.Props.C04
import Melda.Props.C05
import Melda.Props.C15
import Melda.Props.C19
namespace Melda.Props.C15b
open Melda Melda.RevTree Melda.DState

/-! ## 0. association-list facts about `objOfList` -/

theorem objOfList_eq_insAll (l : List (Str × JVal)) : objOfList l = C04.insAll l [] := rfl

theorem insAll_sorted (l : List (Str × JVal)) : ∀ c : JObj, C04.SortedKeys c → C04.SortedKeys (C04.insAll l c) := by
  induction l with
  | nil => intro c h; exact h
  | cons x t ih => intro c h; exact ih _ (C04.sortedKeys_objInsert x.1 x.2 c h)

theorem objOfList_sortedKeys (l : List (Str × JVal)) : C04.SortedKeys (objOfList l) :=
  insAll_sorted l [] List.Pairwise.nil

theorem mem_insAll (l : List (Str × JVal)) : ∀ (c : JObj) (p : Str × JVal), p ∈ C04.insAll l c → p ∈ l ∨ p ∈ c := by
  induction l with
  | nil => intro c p h; exact Or.inr h
  | cons x t ih =>
    intro c p h
    rcases ih _ p h with h | h
    · exact Or.inl (List.mem_cons_of_mem _ h)
    · rcases C04.mem_objInsert h with h | h
      · exact Or.inl (h ▸ List.mem_cons_self)
      · exact Or.inr h

theorem mem_objOfList_sub (l : List (Str × JVal)) (p : Str × JVal) (h : p ∈ objOfList l) : p ∈ l := by
  rcases mem_insAll l [] p h with h | h
  · exact h
  · cases h

/-- in a key-sorted object, membership is `objGet` -/
theorem mem_iff_objGet : ∀ (o : JObj), C04.SortedKeys o → ∀ (k : Str) (v : JVal), (k, v) ∈ o ↔ objGet k o = some v
  | [], _, k, v => by simp [objGet]
  | (k', v') :: t, h, k, v => by
    have ht : C04.SortedKeys t := (List.pairwise_cons.mp h).2
    have hk' : ∀ q ∈ t, strLt k' q.1 = true := (List.pairwise_cons.mp h).1
    simp only [objGet, List.mem_cons]
    by_cases e : k = k'
    · subst e
      simp only [if_true, Option.some.injEq]
      constructor
      · rintro (h1 | h1)
        · cases h1; rfl
        · have := hk' _ h1
          simp only at this
          rw [C04.strLt_irrefl] at this; cases this
      · rintro rfl; exact Or.inl rfl
    · simp only [if_neg e]
      rw [← mem_iff_objGet t ht k v]
      constructor
      · rintro (h1 | h1)
        · cases h1; exact absurd rfl e
        · exact h1
      · exact Or.inr

theorem sortedKeys_nodup (o : JObj) (h : C04.SortedKeys o) : (o.map (·.1)).Nodup := by
  unfold C04.SortedKeys at h
  rw [List.Nodup, List.pairwise_map]
  refine h.imp ?_
  intro a b hab e
  rw [e, C04.strLt_irrefl] at hab; cases hab

/-- `collect::<Map>()` of pairs with distinct keys holds exactly those pairs -/
theorem objGet_objOfList (l : List (Str × JVal)) (hn : (l.map (·.1)).Nodup) (k : Str) (v : JVal) :
    objGet k (objOfList l) = some v ↔ (k, v) ∈ l := by
  constructor
  · intro h
    exact mem_objOfList_sub l _ ((mem_iff_objGet _ (objOfList_sortedKeys l) k v).mpr h)
  · intro h
    exact C04.objGet_insAll_mem k v l [] hn h

theorem mem_objOfList (l : List (Str × JVal)) (hn : (l.map (·.1)).Nodup) (p : Str × JVal) :
    p ∈ objOfList l ↔ p ∈ l := by
  obtain ⟨k, v⟩ := p
  rw [mem_iff_objGet _ (objOfList_sortedKeys l), objGet_objOfList l hn]

/-! ## 1. what the export holds -/

/-- the change record of the export: `[uuid, digest]` or `[uuid, parent text, digest]` -/
def recOf (c : Change) : JVal :=
  match c.parent with
  | some p => .arr [.str c.uuid, .str p.render, .str c.rev.digest]
  | none => .arr [.str c.uuid, .str c.rev.digest]

/-- the `"o"` member of the export -/
def bodiesOf (stage : List (Str × JObj)) : JObj := objOfList (stage.map (fun p => (p.1, JVal.obj p.2)))

/-- the `"c"` member of the export -/
def recsOf (docs : List (Str × RevTree)) : List JVal := (PState.stagedChanges docs).map recOf

/-- staged digests are pairwise distinct (`DataStorage.stage` is a map; `writeObject` keeps it so) -/
def StageNodup (st : DState) : Prop := (st.stage.map (·.1)).Nodup

/-- `stageExport` written out, case by case -/
theorem stageExport_eq (st : DState) :
    stageExport st =
      match st.stage.isEmpty, st.p.hasStaging with
      | true, false => none
      | false, false => some (.obj [(['o'], .obj (bodiesOf st.stage))])
      | true, true => some (.obj [(['c'], .arr (recsOf st.p.docs))])
      | false, true => some (.obj [(['c'], .arr (recsOf st.p.docs)), (['o'], .obj (bodiesOf st.stage))]) := by
  unfold stageExport
  cases h1 : st.stage.isEmpty <;> cases h2 : st.p.hasStaging <;>
    simp [objOfList, objInsert, strLt, bodiesOf, recsOf] <;> intros <;> rfl

theorem bodiesOf_keys_nodup (stage : List (Str × JObj)) (hn : (stage.map (·.1)).Nodup) :
    ((stage.map (fun p => (p.1, JVal.obj p.2))).map (·.1)).Nodup := by
  rw [List.map_map]; exact hn

/-- the `"o"` member holds exactly the staged bodies -/
theorem mem_bodiesOf (stage : List (Str × JObj)) (hn : (stage.map (·.1)).Nodup) (p : Str × JVal) :
    p ∈ bodiesOf stage ↔ ∃ b, p.2 = .obj b ∧ (p.1, b) ∈ stage := by
  unfold bodiesOf
  rw [mem_objOfList _ (bodiesOf_keys_nodup stage hn)]
  simp only [List.mem_map]
  constructor
  · rintro ⟨q, hq, rfl⟩; exact ⟨q.2, rfl, hq⟩
  · rintro ⟨b, h1, h2⟩
    refine ⟨(p.1, b), h2, ?_⟩
    obtain ⟨k, v⟩ := p
    simp only at h1
    rw [h1]

theorem bodiesOf_sorted (stage : List (Str × JObj)) : C04.SortedKeys (bodiesOf stage) := objOfList_sortedKeys _

theorem objGet_bodiesOf (stage : List (Str × JObj)) (hn : (stage.map (·.1)).Nodup) (d : Str) (v : JVal) :
    objGet d (bodiesOf stage) = some v ↔ ∃ b, v = .obj b ∧ (d, b) ∈ stage := by
  rw [← mem_iff_objGet _ (bodiesOf_sorted stage), mem_bodiesOf stage hn]

theorem isEmpty_false_iff {α : Type} (l : List α) : l.isEmpty = false ↔ l ≠ [] := by
  cases l <;> simp

/-- **1. The export holds exactly the staged bodies and the staged changes.**
    `"o"` maps every staged digest to its body and nothing else; `"c"` lists the renderings of
    `PState.stagedChanges` in that order; a member is absent exactly when its part is empty, and there is no
    export at all exactly when nothing is staged. -/
theorem export_bodies (st : DState) (hn : StageNodup st) :
    (stageExport st = none ↔ st.stage = [] ∧ st.p.hasStaging = false) ∧
    ∀ e, stageExport st = some e → ∃ eo, e = .obj eo ∧
      (st.stage ≠ [] → ∃ bodies, objGet ['o'] eo = some (.obj bodies) ∧
        (∀ d b, objGet d bodies = some (.obj b) ↔ (d, b) ∈ st.stage) ∧
        (∀ d v, objGet d bodies = some v → ∃ b, v = .obj b)) ∧
      (st.stage = [] → objGet ['o'] eo = none) ∧
      (st.p.hasStaging = true →
        objGet ['c'] eo = some (.arr ((PState.stagedChanges st.p.docs).map recOf))) ∧
      (st.p.hasStaging = false → objGet ['c'] eo = none) := by
  have hb : (∀ d b, objGet d (bodiesOf st.stage) = some (.obj b) ↔ (d, b) ∈ st.stage) ∧
      (∀ d v, objGet d (bodiesOf st.stage) = some v → ∃ b, v = .obj b) := by
    refine ⟨fun d b => ?_, fun d v h => ?_⟩
    · rw [objGet_bodiesOf _ hn]
      constructor
      · rintro ⟨b', h1, h2⟩; cases h1; exact h2
      · intro h; exact ⟨b, rfl, h⟩
    · obtain ⟨b, h1, _⟩ := (objGet_bodiesOf _ hn d v).mp h; exact ⟨b, h1⟩
  rw [stageExport_eq]
  cases h1 : st.stage.isEmpty <;> cases h2 : st.p.hasStaging
  all_goals
    first
    | (have h1' : st.stage ≠ [] := (isEmpty_false_iff _).mp h1)
    | (have h1' : st.stage = [] := List.isEmpty_iff.mp h1)
  · refine ⟨by simp [h1'], ?_⟩
    rintro e he; cases he
    exact ⟨_, rfl, fun _ => ⟨_, by simp [objGet], hb⟩, fun h => absurd h h1', by simp, by simp [objGet]⟩
  · refine ⟨by simp, ?_⟩
    rintro e he; cases he
    exact ⟨_, rfl, fun _ => ⟨_, by simp [objGet], hb⟩, fun h => absurd h h1', by simp [objGet, recsOf], by simp⟩
  · refine ⟨by simp [h1'], ?_⟩
    rintro e he; cases he
  · refine ⟨by simp, ?_⟩
    rintro e he; cases he
    exact ⟨_, rfl, fun h => absurd h1' h, by simp [objGet], by simp [objGet, recsOf], by simp⟩

/-! ## 2. `replayStage` written with named steps -/

/-- the state after `unstage` (the model of `Melda::unstage`: trees unstaged, data stage cleared) -/
def discard (st : DState) : DState := { st with p := st.p.unstage, stage := [] }

/-- one step of the loop over the `"o"` member -/
def bodyStep (objects : List Str) (stage : List (Str × JObj)) (p : Str × JVal) : List (Str × JObj) :=
  if objects.contains p.1 then stage
  else match p.2 with
    | .obj b => (stage.filter (fun q => q.1 ≠ p.1)) ++ [(p.1, b)]
    | _ => stage

/-- one step of the loop over the `"c"` member -/
def recStep (H : Bytes → Str) (acc : Res DState) (rec : JVal) : Res DState :=
  match acc with
  | .ok d =>
    (match rec with
     | .arr [.str u, .str dg] =>
       let r := Rev.mk1 dg
       let t := (d.treeOf u).getD RevTree.empty
       .ok (d.withTree u (t.add r none true).1)
     | .arr [.str u, .str prev, .str dg] =>
       (match Rev.parse prev with
        | none => .err "invalid_revision_string"
        | some p =>
          let r := Rev.new H (p.index + 1) dg (some p)
          let t := (d.treeOf u).getD RevTree.empty
          .ok (d.withTree u (t.add r (some p) true).1))
     | .arr [_, _] => .err "expecting_uuid_string"
     | .arr [_, _, _] => .err "expecting_uuid_string"
     | _ => .ok d)
  | e => e

theorem replayStage_obj (H : Bytes → Str) (st : DState) (so : JObj) :
    replayStage H st (.obj so) =
      match (match objGet ['o'] so with
        | none => Res.ok st
        | some (.obj bodies) => .ok { st with stage := bodies.foldl (bodyStep st.p.objects) st.stage }
        | some _ => .err "expecting_stage_object") with
      | .ok st1 =>
        (match objGet ['c'] so with
         | some (.arr recs) => recs.foldl (recStep H) (.ok st1)
         | _ => .ok st1)
      | e => e := rfl

/-! ## 3. replaying the bodies -/

theorem bodyStep_of_fresh (objects : List Str) (acc : List (Str × JObj)) (p : Str × JVal)
    (hd : ∀ q ∈ acc, q.1 ≠ p.1) :
    bodyStep objects acc p =
      if objects.contains p.1 then acc else match p.2 with | .obj b => acc ++ [(p.1, b)] | _ => acc := by
  unfold bodyStep
  have : acc.filter (fun q => q.1 ≠ p.1) = acc := by
    rw [List.filter_eq_self]; intro q hq; simpa using hd q hq
  rw [this]

/-- the loop over an `"o"` object with distinct keys, none of which is staged yet: the stage gains exactly the
    object-valued members whose digest is not committed -/
theorem mem_bodyFold (objects : List Str) : ∀ (l : List (Str × JVal)) (acc : List (Str × JObj)),
    (l.map (·.1)).Nodup → (∀ q ∈ acc, ∀ p ∈ l, q.1 ≠ p.1) → ∀ q : Str × JObj,
      q ∈ l.foldl (bodyStep objects) acc ↔
        q ∈ acc ∨ (objects.contains q.1 = false ∧ (q.1, JVal.obj q.2) ∈ l)
  | [], acc, _, _, q => by simp
  | p :: t, acc, hn, hd, q => by
    obtain ⟨hp, hn'⟩ := List.nodup_cons.mp hn
    have hd0 : ∀ q ∈ acc, q.1 ≠ p.1 := fun q hq => hd q hq p List.mem_cons_self
    have hdt : ∀ q ∈ acc, ∀ p' ∈ t, q.1 ≠ p'.1 := fun q hq p' hp' => hd q hq p' (List.mem_cons_of_mem _ hp')
    have hpt : ∀ p' ∈ t, p.1 ≠ p'.1 := fun p' hp' e => hp (List.mem_map.mpr ⟨p', hp', e.symm⟩)
    simp only [List.foldl_cons]
    rw [bodyStep_of_fresh objects acc p hd0]
    obtain ⟨k, v⟩ := p
    obtain ⟨qk, qb⟩ := q
    simp only at hpt hd0 ⊢
    by_cases hc : objects.contains k = true
    · rw [if_pos hc, mem_bodyFold objects t acc hn' hdt]
      simp only [List.mem_cons, Prod.mk.injEq]
      constructor
      · rintro (h | ⟨h1, h2⟩)
        · exact Or.inl h
        · exact Or.inr ⟨h1, Or.inr h2⟩
      · rintro (h | ⟨h1, ⟨rfl, _⟩ | h2⟩)
        · exact Or.inl h
        · rw [hc] at h1; cases h1
        · exact Or.inr ⟨h1, h2⟩
    · rw [if_neg hc]
      have hc' : objects.contains k = false := by simpa using hc
      cases v with
      | obj b =>
        simp only
        rw [mem_bodyFold objects t (acc ++ [(k, b)]) hn']
        · simp only [List.mem_append, List.mem_cons, Prod.mk.injEq, JVal.obj.injEq, List.not_mem_nil, or_false]
          constructor
          · rintro ((h | ⟨rfl, rfl⟩) | ⟨h1, h2⟩)
            · exact Or.inl h
            · exact Or.inr ⟨hc', Or.inl ⟨rfl, rfl⟩⟩
            · exact Or.inr ⟨h1, Or.inr h2⟩
          · rintro (h | ⟨h1, ⟨rfl, rfl⟩ | h2⟩)
            · exact Or.inl (Or.inl h)
            · exact Or.inl (Or.inr ⟨rfl, rfl⟩)
            · exact Or.inr ⟨h1, h2⟩
        · intro q hq p' hp'
          rcases List.mem_append.mp hq with hq | hq
          · exact hdt q hq p' hp'
          · simp only [List.mem_singleton] at hq; subst hq; exact hpt p' hp'
      | null | bool _ | num _ | str _ | arr _ =>
        simp only
        rw [mem_bodyFold objects t acc hn' hdt]
        simp only [List.mem_cons, Prod.mk.injEq]
        constructor
        · rintro (h | ⟨h1, h2⟩)
          · exact Or.inl h
          · exact Or.inr ⟨h1, Or.inr h2⟩
        · rintro (h | ⟨h1, ⟨_, h3⟩ | h2⟩)
          · exact Or.inl h
          · cases h3
          · exact Or.inr ⟨h1, h2⟩

/-- … and its digests stay pairwise distinct -/
theorem bodyFold_nodup (objects : List Str) : ∀ (l : List (Str × JVal)) (acc : List (Str × JObj)),
    (l.map (·.1)).Nodup → (∀ q ∈ acc, ∀ p ∈ l, q.1 ≠ p.1) → (acc.map (·.1)).Nodup →
      ((l.foldl (bodyStep objects) acc).map (·.1)).Nodup
  | [], acc, _, _, ha => ha
  | p :: t, acc, hn, hd, ha => by
    obtain ⟨hp, hn'⟩ := List.nodup_cons.mp hn
    have hd0 : ∀ q ∈ acc, q.1 ≠ p.1 := fun q hq => hd q hq p List.mem_cons_self
    have hdt : ∀ q ∈ acc, ∀ p' ∈ t, q.1 ≠ p'.1 := fun q hq p' hp' => hd q hq p' (List.mem_cons_of_mem _ hp')
    have hpt : ∀ p' ∈ t, p.1 ≠ p'.1 := fun p' hp' e => hp (List.mem_map.mpr ⟨p', hp', e.symm⟩)
    simp only [List.foldl_cons]
    rw [bodyStep_of_fresh objects acc p hd0]
    split
    · exact bodyFold_nodup objects t acc hn' hdt ha
    · split
      · next b _ =>
        apply bodyFold_nodup objects t _ hn'
        · intro q hq p' hp'
          rcases List.mem_append.mp hq with hq | hq
          · exact hdt q hq p' hp'
          · simp only [List.mem_singleton] at hq; subst hq; exact hpt p' hp'
        · rw [List.map_append]
          refine List.nodup_append.mpr ⟨ha, by simp, ?_⟩
          intro a ha' b' hb'
          simp only [List.map_cons, List.map_nil, List.mem_singleton] at hb'
          obtain ⟨q, hq, rfl⟩ := List.mem_map.mp ha'
          rw [hb']; exact hd0 q hq
      · exact bodyFold_nodup objects t acc hn' hdt ha

/-- the data stage after replaying the `"o"` member of the export into the discarded state -/
def replayedStage (st : DState) : List (Str × JObj) := (bodiesOf st.stage).foldl (bodyStep st.p.objects) []

/-- **the replayed data stage holds exactly the staged bodies whose digest is not committed** -/
theorem mem_replayedStage (st : DState) (hn : StageNodup st) (d : Str) (b : JObj) :
    (d, b) ∈ replayedStage st ↔ (d, b) ∈ st.stage ∧ d ∉ st.p.objects := by
  unfold replayedStage
  rw [mem_bodyFold _ _ [] (sortedKeys_nodup _ (bodiesOf_sorted _)) (by simp)]
  rw [mem_bodiesOf _ hn]
  simp only [List.not_mem_nil, false_or, List.contains_eq_mem, decide_eq_false_iff_not, JVal.obj.injEq]
  constructor
  · rintro ⟨h1, b', rfl, h2⟩; exact ⟨h2, h1⟩
  · rintro ⟨h1, h2⟩; exact ⟨h2, b, rfl, h1⟩

theorem replayedStage_nodup (st : DState) : ((replayedStage st).map (·.1)).Nodup :=
  bodyFold_nodup _ _ [] (sortedKeys_nodup _ (bodiesOf_sorted _)) (by simp) (by simp)

/-- staged digests are never committed ones (`writeObject` checks `objects` first) -/
def StageFresh (st : DState) : Prop := ∀ p ∈ st.stage, p.1 ∉ st.p.objects

/-- `writeObject` keeps the two stage invariants -/
theorem writeObject_invariants (st : DState) (r : Rev) (o : JObj) (h1 : StageNodup st) (h2 : StageFresh st) :
    StageNodup (st.writeObject r o) ∧ StageFresh (st.writeObject r o) := by
  unfold writeObject
  split
  · exact ⟨h1, h2⟩
  · split
    · exact ⟨h1, h2⟩
    · next hc =>
      simp only [Bool.or_eq_true, List.contains_eq_mem, decide_eq_true_eq, List.any_eq_true, not_or,
        not_exists, not_and] at hc
      constructor
      · unfold StageNodup
        simp only [List.map_append, List.map_cons, List.map_nil]
        refine List.nodup_append.mpr ⟨h1, by simp, ?_⟩
        intro a ha b hb
        simp only [List.mem_singleton] at hb
        obtain ⟨q, hq, rfl⟩ := List.mem_map.mp ha
        rw [hb]; exact hc.2 q hq
      · intro p hp
        rcases List.mem_append.mp hp with hp | hp
        · exact h2 p hp
        · simp only [List.mem_singleton] at hp; subst hp; exact hc.1

/-! ## 4. replaying the change records -/

/-- every staged parent is a canonical revision (its text parses back: `C19.parse_render`) -/
def ParentsCanonical (cs : List Change) : Prop := ∀ c ∈ cs, ∀ p, c.parent = some p → C19.Canonical p

/-- every staged revision was built by the constructors of the library from its digest and its parent
    (`create_object`: `Rev.mk1`; `update_object` / `delete_object` / `resolve_as`: `Rev.upd = Rev.new … (some p)`) -/
def RevsBuilt (H : Bytes → Str) (cs : List Change) : Prop :=
  ∀ c ∈ cs, (c.parent = none → c.rev = Rev.mk1 c.rev.digest) ∧
    (∀ p, c.parent = some p → c.rev = Rev.new H (p.index + 1) c.rev.digest (some p))

/-- what replaying one change does: a staging addition to the tree of the document (a new tree if none) -/
def addChange (d : DState) (c : Change) : DState :=
  d.withTree c.uuid (((d.treeOf c.uuid).getD RevTree.empty).add c.rev c.parent true).1

/-- a record parses back to the change it came from -/
theorem recStep_recOf (H : Bytes → Str) (d : DState) (c : Change)
    (hcan : ∀ p, c.parent = some p → C19.Canonical p)
    (hb : (c.parent = none → c.rev = Rev.mk1 c.rev.digest) ∧
      (∀ p, c.parent = some p → c.rev = Rev.new H (p.index + 1) c.rev.digest (some p))) :
    recStep H (.ok d) (recOf c) = .ok (addChange d c) := by
  obtain ⟨u, r, par⟩ := c
  cases par with
  | none =>
    have h := hb.1 rfl
    simp only at h
    simp only [recOf, recStep, addChange]
    rw [← h]
  | some p =>
    have h := hb.2 p rfl
    have hp := C19.parse_render p (hcan p rfl)
    simp only at h
    simp only [recOf, recStep, addChange, hp]
    rw [← h]

theorem foldl_recStep (H : Bytes → Str) : ∀ (cs : List Change) (d : DState),
    ParentsCanonical cs → RevsBuilt H cs →
      (cs.map recOf).foldl (recStep H) (.ok d) = .ok (cs.foldl addChange d)
  | [], _, _, _ => rfl
  | c :: t, d, h1, h2 => by
    simp only [List.map_cons, List.foldl_cons]
    rw [recStep_recOf H d c (h1 c List.mem_cons_self) (h2 c List.mem_cons_self)]
    exact foldl_recStep H t _ (fun c' hc' => h1 c' (List.mem_cons_of_mem _ hc'))
      (fun c' hc' => h2 c' (List.mem_cons_of_mem _ hc'))

/-- on a sorted document map, `withTree` of a staging addition is `C15.stageOp` -/
theorem setTree_add_eq_stageOp {docs : List (Str × RevTree)} (hs : C15.DocsSorted docs) (u : Str) (r : Rev)
    (p : Option Rev) :
    setTree docs u ((((docs.find? (fun q => q.1 = u)).map (·.2)).getD RevTree.empty).add r p true).1 =
      C15.stageOp docs u r p := by
  induction docs with
  | nil => rfl
  | cons x rest ih =>
    obtain ⟨k, t⟩ := x
    obtain ⟨h1, h2⟩ := List.pairwise_cons.mp hs
    by_cases hk : k = u
    · subst hk
      simp [setTree, C15.stageOp]
    · by_cases hlt : strLt u k = true
      · have hnone : rest.find? (fun q => q.1 = u) = none := by
          rw [List.find?_eq_none]
          intro q hq
          have : strLt u q.1 = true := C05.strLt_trans _ _ _ hlt (h1 q hq)
          simp only [decide_eq_true_eq]
          intro e
          rw [e, C05.strLt_irrefl] at this; cases this
        simp [setTree, C15.stageOp, hk, hlt, hnone]
      · have := ih h2
        simp only [setTree, C15.stageOp, hk, hlt, if_false, List.find?_cons, decide_false] at this ⊢
        rw [this]; simp

theorem addChange_eq (d : DState) (c : Change) (hs : C15.DocsSorted d.p.docs) :
    addChange d c = { d with p := { d.p with docs := C15.stageOp d.p.docs c.uuid c.rev c.parent } } := by
  unfold addChange withTree DState.treeOf
  rw [setTree_add_eq_stageOp hs]

theorem foldl_addChange : ∀ (cs : List Change) (d : DState), C15.DocsSorted d.p.docs →
    cs.foldl addChange d = { d with p := { d.p with docs := C15.stageAll d.p.docs cs } }
  | [], _, _ => rfl
  | c :: t, d, hs => by
    simp only [List.foldl_cons]
    rw [addChange_eq d c hs, foldl_addChange t _ (C15.stageOp_sorted hs _ _ _)]
    rfl

/-- without a set flag there is no staging entry, hence no change to export -/
theorem stagedChanges_nil {docs : List (Str × RevTree)} (hf : C15.AllFlagOK docs)
    (h : (docs.any (fun p => p.2.staging)) = false) : PState.stagedChanges docs = [] := by
  unfold PState.stagedChanges
  simp only [List.flatMap_eq_nil_iff, List.map_eq_nil_iff, List.filter_eq_nil_iff]
  intro p hp e he hst
  have h1 := List.any_eq_false.mp h p hp
  have h2 := (hf p hp).mpr ⟨e, he, hst⟩
  simp_all

/-! ## 5. export, discard, replay: the resulting state in closed form -/

/-- the state `replayStage` returns on the export of `st`, started from the discarded state -/
def replayed (st : DState) : DState :=
  { st with
    p := { st.p with docs := C15.stageAll (C15.unstageDocs st.p.docs) (PState.stagedChanges st.p.docs) },
    stage := replayedStage st }

theorem replay_closed (H : Bytes → Str) (st : DState) (hs : C15.DocsSorted st.p.docs)
    (hf : C15.AllFlagOK st.p.docs) (hcan : ParentsCanonical (PState.stagedChanges st.p.docs))
    (hb : RevsBuilt H (PState.stagedChanges st.p.docs)) (e : JVal) (he : stageExport st = some e) :
    replayStage H (discard st) e = .ok (replayed st) := by
  have hsu : C15.DocsSorted (C15.unstageDocs st.p.docs) := C15.unstageDocs_sorted hs
  rw [stageExport_eq] at he
  cases h1 : st.stage.isEmpty <;> cases h2 : st.p.hasStaging <;> rw [h1, h2] at he <;> simp only at he
  · -- bodies only
    cases he
    have hc : PState.stagedChanges st.p.docs = [] := stagedChanges_nil hf h2
    rw [replayStage_obj]
    simp only [objGet, if_true]
    simp only [List.cons.injEq, Char.reduceEq, if_false, and_true, reduceCtorEq]
    unfold replayed
    rw [hc]
    rfl
  · -- bodies and changes
    cases he
    rw [replayStage_obj]
    simp only [objGet, if_true]
    simp only [List.cons.injEq, Char.reduceEq, if_false, and_true, reduceCtorEq, if_true]
    unfold recsOf
    rw [foldl_recStep H _ _ hcan hb, foldl_addChange _ _ hsu]
    rfl
  · cases he
  · -- changes only
    cases he
    have h1' : st.stage = [] := List.isEmpty_iff.mp h1
    rw [replayStage_obj]
    simp only [objGet, if_true]
    simp only [List.cons.injEq, Char.reduceEq, if_false, and_true, reduceCtorEq]
    unfold recsOf
    rw [foldl_recStep H _ _ hcan hb, foldl_addChange _ _ hsu]
    unfold replayed replayedStage
    rw [h1']
    rfl

/-! ### whatever the records are, replaying them touches the document map only -/

/-- everything except the document map agrees -/
def SameRest (a b : DState) : Prop :=
  a.stage = b.stage ∧ a.acache = b.acache ∧ a.p.objects = b.p.objects ∧ a.p.deltas = b.p.deltas ∧
    a.p.appliedPacks = b.p.appliedPacks

theorem SameRest.rfl' (a : DState) : SameRest a a := ⟨rfl, rfl, rfl, rfl, rfl⟩

theorem SameRest.trans {a b c : DState} (h1 : SameRest a b) (h2 : SameRest b c) : SameRest a c :=
  ⟨h1.1.trans h2.1, h1.2.1.trans h2.2.1, h1.2.2.1.trans h2.2.2.1, h1.2.2.2.1.trans h2.2.2.2.1,
    h1.2.2.2.2.trans h2.2.2.2.2⟩

theorem sameRest_withTree (d : DState) (u : Str) (t : RevTree) : SameRest (d.withTree u t) d :=
  ⟨rfl, rfl, rfl, rfl, rfl⟩

theorem recStep_ok (H : Bytes → Str) (acc : Res DState) (rec : JVal) (d' : DState)
    (h : recStep H acc rec = .ok d') : ∃ d, acc = .ok d ∧ SameRest d' d := by
  unfold recStep at h
  split at h
  · next d =>
    refine ⟨d, rfl, ?_⟩
    split at h
    · cases h; exact sameRest_withTree _ _ _
    · split at h
      · cases h
      · cases h; exact sameRest_withTree _ _ _
    · cases h
    · cases h
    · cases h; exact SameRest.rfl' _
  · next hne => exact absurd h (hne d')

theorem foldl_recStep_ok (H : Bytes → Str) : ∀ (recs : List JVal) (acc : Res DState) (d' : DState),
    recs.foldl (recStep H) acc = .ok d' → ∃ d, acc = .ok d ∧ SameRest d' d
  | [], acc, d', h => ⟨d', h, SameRest.rfl' _⟩
  | r :: t, acc, d', h => by
    simp only [List.foldl_cons] at h
    obtain ⟨d1, h1, s1⟩ := foldl_recStep_ok H t _ d' h
    obtain ⟨d, h2, s2⟩ := recStep_ok H acc r d1 h1
    exact ⟨d, h2, s1.trans s2⟩

/-- **2. Replaying the export into the discarded state restores the staged bodies** — without any assumption on
    the change records: whenever `replayStage` succeeds, the data stage holds exactly the bodies of `st.stage`
    whose digest is not committed, each once; the committed index, the blocks and the cache are untouched. -/
theorem replay_bodies (H : Bytes → Str) (st : DState) (hn : StageNodup st) (e : JVal) (st' : DState)
    (he : stageExport st = some e) (hr : replayStage H (discard st) e = .ok st') :
    (∀ d b, (d, b) ∈ st'.stage ↔ ((d, b) ∈ st.stage ∧ d ∉ st.p.objects)) ∧
    (st'.stage.map (·.1)).Nodup ∧
    st'.p.objects = st.p.objects ∧ st'.p.deltas = st.p.deltas ∧ st'.p.appliedPacks = st.p.appliedPacks ∧
    st'.acache = st.acache := by
  have key : SameRest st' { discard st with stage := replayedStage st } := by
    rw [stageExport_eq] at he
    cases h1 : st.stage.isEmpty <;> cases h2 : st.p.hasStaging <;> rw [h1, h2] at he <;> simp only at he
    · cases he
      rw [replayStage_obj] at hr
      simp only [objGet, if_true] at hr
      simp only [List.cons.injEq, Char.reduceEq, if_false, and_true, reduceCtorEq] at hr
      cases hr
      exact SameRest.rfl' _
    · cases he
      rw [replayStage_obj] at hr
      simp only [objGet, if_true] at hr
      simp only [List.cons.injEq, Char.reduceEq, if_false, and_true, reduceCtorEq, if_true] at hr
      obtain ⟨d, h3, h4⟩ := foldl_recStep_ok H _ _ _ hr
      cases h3
      exact h4
    · cases he
    · cases he
      have h1' : st.stage = [] := List.isEmpty_iff.mp h1
      rw [replayStage_obj] at hr
      simp only [objGet, if_true] at hr
      simp only [List.cons.injEq, Char.reduceEq, if_false, and_true, reduceCtorEq] at hr
      obtain ⟨d, h3, h4⟩ := foldl_recStep_ok H _ _ _ hr
      cases h3
      have : replayedStage st = [] := by unfold replayedStage; rw [h1']; rfl
      rw [this]
      exact h4
  obtain ⟨k1, k2, k3, k4, k5⟩ := key
  refine ⟨fun d b => ?_, ?_, k3, k4, k5, k2⟩
  · rw [k1]; exact mem_replayedStage st hn d b
  · rw [k1]; exact replayedStage_nodup st

theorem nodup_of_map_nodup {α β : Type} (f : α → β) {l : List α} (h : (l.map f).Nodup) : l.Nodup := by
  rw [List.Nodup, List.pairwise_map] at h
  exact h.imp (fun hab e => hab (congrArg f e))

/-- with `StageFresh` (the invariant of `writeObject`): all of them, as a set, and as a permutation -/
theorem replay_bodies_fresh (H : Bytes → Str) (st : DState) (hn : StageNodup st) (hfr : StageFresh st)
    (e : JVal) (st' : DState) (he : stageExport st = some e) (hr : replayStage H (discard st) e = .ok st') :
    (∀ q, q ∈ st'.stage ↔ q ∈ st.stage) ∧ st'.stage.Perm st.stage := by
  obtain ⟨h1, h2, _⟩ := replay_bodies H st hn e st' he hr
  have hm : ∀ q, q ∈ st'.stage ↔ q ∈ st.stage := by
    rintro ⟨d, b⟩
    rw [h1]
    exact ⟨fun h => h.1, fun h => ⟨h, hfr _ h⟩⟩
  refine ⟨hm, ?_⟩
  exact (List.perm_ext_iff_of_nodup (nodup_of_map_nodup _ h2) (nodup_of_map_nodup _ hn)).mpr hm

/-! ## 6. the document map after replay -/

/-- the tree of a document at `DState` level (the empty tree when there is none) is `C15.treeOf` -/
theorem treeOf_bridge (st : DState) (u : Str) : (st.treeOf u).getD RevTree.empty = C15.treeOf st.p.docs u := by
  unfold DState.treeOf C15.treeOf
  cases st.p.docs.find? (fun p => p.1 = u) <;> rfl

def AllKeysNodup (docs : List (Str × RevTree)) : Prop := ∀ p ∈ docs, C05.KeysNodup p.2.entries
def AllValidated (docs : List (Str × RevTree)) : Prop := ∀ p ∈ docs, C15.Validated p.2

theorem keysNodup_empty : C05.KeysNodup RevTree.empty.entries := by simp [C05.KeysNodup, RevTree.empty]
theorem validated_empty : C15.Validated RevTree.empty := by decide

theorem validated_add {t : RevTree} (h : C15.Validated t) (r : Rev) (p : Option Rev) (s : Bool) :
    C15.Validated (t.add r p s).1 := by
  rw [C15.add_fst]
  split
  · exact h
  · rfl

theorem validated_unstage (t : RevTree) : C15.Validated t.unstage := rfl

theorem keysNodup_unstage {t : RevTree} (h : C05.KeysNodup t.entries) : C05.KeysNodup t.unstage.entries := by
  unfold RevTree.unstage
  split
  · exact List.Nodup.sublist (List.Sublist.map _ List.filter_sublist) h
  · exact h

/-- a property of trees that holds of the empty tree and is kept by `add` is kept by `C15.stageOp` -/
theorem stageOp_all {Q : RevTree → Prop} (h0 : Q RevTree.empty)
    (hadd : ∀ t r p, Q t → Q (t.add r p true).1) {docs : List (Str × RevTree)} (h : ∀ q ∈ docs, Q q.2)
    (u : Str) (r : Rev) (p : Option Rev) : ∀ q ∈ C15.stageOp docs u r p, Q q.2 := by
  induction docs with
  | nil =>
    intro q hq
    simp only [C15.stageOp, List.mem_singleton] at hq
    subst hq; exact hadd _ r p h0
  | cons x rest ih =>
    obtain ⟨k, t⟩ := x
    have ht : Q t := h (k, t) (by simp)
    have hr : ∀ q ∈ rest, Q q.2 := fun q hq => h q (List.mem_cons_of_mem _ hq)
    simp only [C15.stageOp]
    split
    · intro q hq
      rcases List.mem_cons.mp hq with rfl | hq
      · exact hadd _ r p ht
      · exact hr q hq
    · split
      · intro q hq
        rcases List.mem_cons.mp hq with rfl | hq
        · exact hadd _ r p h0
        · exact h q hq
      · intro q hq
        rcases List.mem_cons.mp hq with rfl | hq
        · exact ht
        · exact ih hr q hq

theorem stageAll_all {Q : RevTree → Prop} (h0 : Q RevTree.empty)
    (hadd : ∀ t r p, Q t → Q (t.add r p true).1) (cs : List Change) :
    ∀ {docs : List (Str × RevTree)}, (∀ q ∈ docs, Q q.2) → ∀ q ∈ C15.stageAll docs cs, Q q.2 := by
  unfold C15.stageAll
  induction cs with
  | nil => intro docs h; exact h
  | cons c cs ih => intro docs h; exact ih (stageOp_all h0 hadd h c.uuid c.rev c.parent)

theorem unstageDocs_all {Q : RevTree → Prop} (docs : List (Str × RevTree)) (h : ∀ q ∈ docs, Q q.2.unstage) :
    ∀ q ∈ C15.unstageDocs docs, Q q.2 := by
  intro q hq
  unfold C15.unstageDocs at hq
  obtain ⟨q', hq', rfl⟩ := List.mem_map.mp (List.mem_filter.mp hq).1
  exact h q' hq'

theorem treeOf_all {Q : RevTree → Prop} (h0 : Q RevTree.empty) {docs : List (Str × RevTree)}
    (h : ∀ q ∈ docs, Q q.2) (u : Str) : Q (C15.treeOf docs u) := by
  rcases C15.treeOf_mem_or docs u with h1 | ⟨p, hp, _, h2⟩
  · rw [h1]; exact h0
  · rw [← h2]; exact h p hp

/-- the document map of the replayed state: trees validated, revisions recorded once -/
theorem replayed_docs_invariants (st : DState) (hk : AllKeysNodup st.p.docs) :
    AllValidated (replayed st).p.docs ∧ AllKeysNodup (replayed st).p.docs := by
  constructor
  · exact stageAll_all (Q := C15.Validated) validated_empty (fun t r p h => validated_add h r p true) _
      (unstageDocs_all (Q := C15.Validated) _ (fun q _ => validated_unstage q.2))
  · exact stageAll_all (Q := fun t => C05.KeysNodup t.entries) keysNodup_empty
      (fun t r p h => C05.add_keysNodup t r p true h) _
      (unstageDocs_all (Q := fun t => C05.KeysNodup t.entries) _ (fun q hq => keysNodup_unstage (hk q hq)))

/-- the entry set of every document is restored (`C15.replay_restores_entries` on the exported list itself) -/
theorem replayed_entries (st : DState) (hs : C15.DocsSorted st.p.docs) (hf : C15.AllFlagOK st.p.docs)
    (hk : AllKeysNodup st.p.docs) (u : Str) (x : RtEntry) :
    x ∈ (((replayed st).treeOf u).getD RevTree.empty).entries ↔ x ∈ ((st.treeOf u).getD RevTree.empty).entries := by
  rw [treeOf_bridge, treeOf_bridge]
  exact C15.replay_restores_entries st.p.docs hs hf hk _ (fun _ => Iff.rfl) u x

theorem replayed_entries_perm (st : DState) (hs : C15.DocsSorted st.p.docs) (hf : C15.AllFlagOK st.p.docs)
    (hk : AllKeysNodup st.p.docs) (u : Str) :
    (((replayed st).treeOf u).getD RevTree.empty).entries.Perm ((st.treeOf u).getD RevTree.empty).entries := by
  have h1 : C05.KeysNodup (((replayed st).treeOf u).getD RevTree.empty).entries := by
    rw [treeOf_bridge]
    exact treeOf_all (Q := fun t => C05.KeysNodup t.entries) keysNodup_empty (replayed_docs_invariants st hk).2 u
  have h2 : C05.KeysNodup ((st.treeOf u).getD RevTree.empty).entries := by
    rw [treeOf_bridge]
    exact treeOf_all (Q := fun t => C05.KeysNodup t.entries) keysNodup_empty hk u
  exact (List.perm_ext_iff_of_nodup (nodup_of_map_nodup _ h1) (nodup_of_map_nodup _ h2)).mpr
    (replayed_entries st hs hf hk u)

/-- **3. Replaying the records re-adds exactly the staging entries.** Each record parses back to the change it
    came from (`recStep_recOf`, by `C19.parse_render`), so the loop of `replayStage` over the `"c"` member is
    `C15.stageAll` over `PState.stagedChanges` (first conjunct, for any sorted starting map); started from the
    discarded state the result has, for every document, the entry set of `st`. -/
theorem replay_records (H : Bytes → Str) (st : DState) (hs : C15.DocsSorted st.p.docs)
    (hf : C15.AllFlagOK st.p.docs) (hk : AllKeysNodup st.p.docs)
    (hcan : ParentsCanonical (PState.stagedChanges st.p.docs))
    (hb : RevsBuilt H (PState.stagedChanges st.p.docs)) :
    (∀ d : DState, C15.DocsSorted d.p.docs →
      ((PState.stagedChanges st.p.docs).map recOf).foldl (recStep H) (.ok d) =
        .ok { d with p := { d.p with docs := C15.stageAll d.p.docs (PState.stagedChanges st.p.docs) } }) ∧
    ∀ e, stageExport st = some e → ∃ st', replayStage H (discard st) e = .ok st' ∧
      st'.p.docs = C15.stageAll (discard st).p.docs (PState.stagedChanges st.p.docs) ∧
      ∀ u x, x ∈ ((st'.treeOf u).getD RevTree.empty).entries ↔ x ∈ ((st.treeOf u).getD RevTree.empty).entries := by
  constructor
  · intro d hd
    rw [foldl_recStep H _ _ hcan hb, foldl_addChange _ _ hd]
  · intro e he
    exact ⟨replayed st, replay_closed H st hs hf hcan hb e he, rfl, replayed_entries st hs hf hk⟩

/-! ## 7. MAIN -/

/-- no export means nothing is staged: no body, no flag, and (with correct flags) no staging entry -/
theorem export_none_nothing_staged (st : DState) (h : stageExport st = none) :
    st.stage = [] ∧ st.p.hasStaging = false ∧
    (C15.AllFlagOK st.p.docs → PState.stagedChanges st.p.docs = []) := by
  rw [stageExport_eq] at h
  cases h1 : st.stage.isEmpty <;> cases h2 : st.p.hasStaging <;> rw [h1, h2] at h <;> simp only at h
  · cases h
  · cases h
  · exact ⟨List.isEmpty_iff.mp h1, rfl, fun hf => stagedChanges_nil hf h2⟩
  · cases h

theorem export_none_iff (st : DState) : stageExport st = none ↔ st.stage = [] ∧ st.p.hasStaging = false := by
  constructor
  · intro h; exact ⟨(export_none_nothing_staged st h).1, (export_none_nothing_staged st h).2.1⟩
  · rintro ⟨h1, h2⟩
    rw [stageExport_eq, h1, h2]; rfl

/-- **MAIN (C15 at document level): export, discard, replay restores the staged state.**
    For a replica whose document map is sorted (`BTreeMap`), whose tree flags are right, whose trees record every
    revision once, whose staged digests are distinct and not committed, whose staged parents are canonical and
    whose staged revisions were built by the library's constructors: replaying the export of `st` into the
    discarded state succeeds, and the resulting state `st'` has
    * for every document the same SET of entries (revision, parent, staging bit) as `st` — as lists they are
      permutations of each other, which is the hypothesis of `C05.leafs_perm` / `C05.winner_perm`
      (see `export_discard_replay_leafs_winner`);
    * the same staged bodies (as a set; as lists, permutations);
    * the same committed object index, blocks, applied packs and descriptor cache;
    * the same export-relevant content: `PState.stagedChanges` has the same members. -/
theorem export_discard_replay (H : Bytes → Str) (st : DState)
    (hs : C15.DocsSorted st.p.docs) (hf : C15.AllFlagOK st.p.docs) (hk : AllKeysNodup st.p.docs)
    (hfr : StageFresh st) (hn : StageNodup st)
    (hcan : ParentsCanonical (PState.stagedChanges st.p.docs))
    (hb : RevsBuilt H (PState.stagedChanges st.p.docs))
    (e : JVal) (he : stageExport st = some e) :
    ∃ st', replayStage H (discard st) e = .ok st' ∧
      (∀ u x, x ∈ ((st'.treeOf u).getD RevTree.empty).entries ↔ x ∈ ((st.treeOf u).getD RevTree.empty).entries) ∧
      (∀ u, ((st'.treeOf u).getD RevTree.empty).entries.Perm ((st.treeOf u).getD RevTree.empty).entries) ∧
      (∀ q, q ∈ st'.stage ↔ q ∈ st.stage) ∧ st'.stage.Perm st.stage ∧
      st'.p.objects = st.p.objects ∧ st'.p.deltas = st.p.deltas ∧ st'.p.appliedPacks = st.p.appliedPacks ∧
      st'.acache = st.acache ∧
      (∀ c, c ∈ PState.stagedChanges st'.p.docs ↔ c ∈ PState.stagedChanges st.p.docs) ∧
      AllValidated st'.p.docs ∧ AllKeysNodup st'.p.docs ∧ C15.DocsSorted st'.p.docs := by
  have hr := replay_closed H st hs hf hcan hb e he
  obtain ⟨b1, b2⟩ := replay_bodies_fresh H st hn hfr e _ he hr
  refine ⟨replayed st, hr, replayed_entries st hs hf hk, replayed_entries_perm st hs hf hk, b1, b2,
    rfl, rfl, rfl, rfl, ?_, (replayed_docs_invariants st hk).1, (replayed_docs_invariants st hk).2, ?_⟩
  · exact C15.replay_same_export st.p.docs hs hf hk _ (fun _ => Iff.rfl)
  · exact C15.stageAll_sorted (C15.unstageDocs_sorted hs) _

/-- … hence the same leaves and the same winner in every document (citing `C05.leafs_perm` and
    `C05.winner_perm`; `P` is any class of revisions on which `Rev.cmp` is a strict total order, e.g. the canonical
    ones: `C19`). The trees of `st'` are validated, so their cached `leafs` / `winner` are these values; if the
    tree of `st` is validated too (`C15.Validated`), they are its cached `leafs` / `winner`. -/
theorem export_discard_replay_leafs_winner {P : Rev → Prop} (ho : C05.CmpOrder P) (H : Bytes → Str) (st : DState)
    (hs : C15.DocsSorted st.p.docs) (hf : C15.AllFlagOK st.p.docs) (hk : AllKeysNodup st.p.docs)
    (hcan : ParentsCanonical (PState.stagedChanges st.p.docs))
    (hb : RevsBuilt H (PState.stagedChanges st.p.docs))
    (hP : ∀ p ∈ st.p.docs, ∀ x ∈ p.2.entries, P x.rev)
    (e : JVal) (he : stageExport st = some e) :
    ∃ st', replayStage H (discard st) e = .ok st' ∧ ∀ u,
      ((st'.treeOf u).getD RevTree.empty).leafs = (validate ((st.treeOf u).getD RevTree.empty)).leafs ∧
      ((st'.treeOf u).getD RevTree.empty).winner = (validate ((st.treeOf u).getD RevTree.empty)).winner ∧
      (C15.Validated ((st.treeOf u).getD RevTree.empty) →
        ((st'.treeOf u).getD RevTree.empty).leafs = ((st.treeOf u).getD RevTree.empty).leafs ∧
        ((st'.treeOf u).getD RevTree.empty).winner = ((st.treeOf u).getD RevTree.empty).winner) := by
  refine ⟨replayed st, replay_closed H st hs hf hcan hb e he, fun u => ?_⟩
  have hp := (replayed_entries_perm st hs hf hk u).symm
  have hk2 : C05.KeysNodup ((st.treeOf u).getD RevTree.empty).entries := by
    rw [treeOf_bridge]
    exact treeOf_all (Q := fun t => C05.KeysNodup t.entries) keysNodup_empty hk u
  have hP2 : ∀ x ∈ ((st.treeOf u).getD RevTree.empty).entries, P x.rev := by
    rw [treeOf_bridge]
    exact treeOf_all (Q := fun t => ∀ x ∈ t.entries, P x.rev) (by simp [RevTree.empty]) hP u
  have hv : C15.Validated (((replayed st).treeOf u).getD RevTree.empty) := by
    rw [treeOf_bridge]
    exact treeOf_all (Q := C15.Validated) validated_empty (replayed_docs_invariants st hk).1 u
  have hl := C05.leafs_perm ho _ _ hp hk2 hP2
  have hw := C05.winner_perm ho _ _ hp hk2 hP2
  unfold C15.Validated at hv
  rw [hv] at hl hw
  refine ⟨hl.symm, hw.symm, fun hv0 => ?_⟩
  unfold C15.Validated at hv0
  rw [hv0] at hl hw
  exact ⟨hl.symm, hw.symm⟩

/-! ## 8. discarding -/

theorem unstage_staging_false (t : RevTree) : t.unstage.staging = false := by
  unfold RevTree.unstage
  split
  · rfl
  · next h => simpa [validate] using h

/-- **5. `unstage` leaves no staged body, no staging flag and no staging entry**; exporting afterwards gives
    nothing. -/
theorem discard_restores_bodies (st : DState) :
    (discard st).stage = [] ∧ (discard st).p.hasStaging = false ∧ stageExport (discard st) = none ∧
    (C15.AllFlagOK st.p.docs → PState.stagedChanges (discard st).p.docs = []) ∧
    (discard st).p.objects = st.p.objects ∧ (discard st).p.deltas = st.p.deltas ∧
    (discard st).acache = st.acache := by
  have h2 : (discard st).p.hasStaging = false := by
    show (PState.unstage st.p).hasStaging = false
    unfold PState.hasStaging PState.unstage
    rw [List.any_eq_false]
    intro p hp
    obtain ⟨q, _, rfl⟩ := List.mem_map.mp (List.mem_filter.mp hp).1
    simp [unstage_staging_false]
  refine ⟨rfl, h2, (export_none_iff _).mpr ⟨rfl, h2⟩, fun hf => ?_, rfl, rfl, rfl⟩
  apply stagedChanges_nil _ h2
  exact unstageDocs_all (Q := C15.FlagOK) _ (fun q hq => C15.flagOK_unstage (hf q hq))

/-- … and the document map of the last clean state (`C15.unstage_docs_restores`): if the replica was staged
    from a clean `base` (empty stage, trees validated, non-empty, flags right) by any staging operations, `discard`
    gives back `base` exactly, with an empty data stage. -/
theorem discard_restores_clean (base : PState) (hns : base.hasStaging = false)
    (hf : ∀ p ∈ base.docs, C15.FlagOK p.2) (hv : ∀ p ∈ base.docs, C15.Validated p.2)
    (hne : ∀ p ∈ base.docs, p.2.isEmpty = false) (cs : List Change) (st : DState)
    (hst : st.p = { base with docs := C15.stageAll base.docs cs }) :
    (discard st).p = base ∧ (discard st).stage = [] := by
  refine ⟨?_, rfl⟩
  show PState.unstage st.p = base
  rw [hst]
  exact C15.unstage_docs_restores base hns hf hv hne cs

/-! ## non-vacuity -/

section Example
open C05 (H)

def S (s : String) : Str := s.toList

def q1 : Rev := Rev.mk1 (S "aa")
def q2 : Rev := Rev.upd H (S "bb") q1
def s1 : Rev := Rev.mk1 (S "cc")

/-- document `a` with one committed revision -/
def exDocs0 : List (Str × RevTree) := [(S "a", (RevTree.empty.add q1 none false).1)]

def exBase : PState := { docs := exDocs0, objects := [S "aa"] }

/-- two staged revisions (an update of `a`, a new document `b`) and their two staged bodies -/
def exSt : DState :=
  { p := { exBase with docs := C15.stageAll exDocs0 [⟨S "b", s1, none⟩, ⟨S "a", q2, some q1⟩] },
    stage := [(S "cc", [(S "k", .num (S "2"))]), (S "bb", [(S "k", .num (S "1"))])] }

def exExport : JVal :=
  .obj [(S "c", .arr [.arr [.str (S "a"), .str (S "1-aa"), .str (S "bb")], .arr [.str (S "b"), .str (S "cc")]]),
        (S "o", .obj [(S "bb", .obj [(S "k", .num (S "1"))]), (S "cc", .obj [(S "k", .num (S "2"))])])]

/-- what can be compared of a result -/
def viewDocs : Res DState → Option (List (Str × RevTree))
  | .ok s => some s.p.docs
  | _ => none
def viewStage : Res DState → Option (List (Str × JObj))
  | .ok s => some s.stage
  | _ => none

example : exSt.p.docs.map (fun p => (p.1, p.2.entries)) =
    [(S "a", [⟨q1, none, false⟩, ⟨q2, some q1, true⟩]), (S "b", [⟨s1, none, true⟩])] := by decide
example : PState.stagedChanges exSt.p.docs = [⟨S "a", q2, some q1⟩, ⟨S "b", s1, none⟩] := by decide
example : stageExport exSt = some exExport := by decide
/-- after discarding: the clean base, nothing staged -/
example : (discard exSt).p.docs = exDocs0 ∧ (discard exSt).stage = [] ∧ stageExport (discard exSt) = none := by
  decide
/-- replay restores the document map and the bodies (here: the bodies in the sorted order of the export) -/
example : viewDocs (replayStage H (discard exSt) exExport) = some exSt.p.docs := by decide +kernel
example : viewStage (replayStage H (discard exSt) exExport) =
    some [(S "bb", [(S "k", .num (S "1"))]), (S "cc", [(S "k", .num (S "2"))])] := by decide +kernel
example : (replayed exSt).p.docs = exSt.p.docs ∧ (replayed exSt).stage = exSt.stage.reverse := by decide
/-- and the replayed state exports the same thing again -/
example : stageExport (replayed exSt) = some exExport := by decide

instance (docs : List (Str × RevTree)) : Decidable (AllKeysNodup docs) := by unfold AllKeysNodup; infer_instance
instance (st : DState) : Decidable (StageNodup st) := by unfold StageNodup; infer_instance
instance (st : DState) : Decidable (StageFresh st) := by unfold StageFresh; infer_instance

/-- the hypotheses of `export_discard_replay` hold of `exSt` -/
example : C15.DocsSorted exSt.p.docs ∧ C15.AllFlagOK exSt.p.docs ∧ AllKeysNodup exSt.p.docs ∧
    StageFresh exSt ∧ StageNodup exSt := by decide

theorem exSt_changes : PState.stagedChanges exSt.p.docs = [⟨S "a", q2, some q1⟩, ⟨S "b", s1, none⟩] := by decide

example : ParentsCanonical (PState.stagedChanges exSt.p.docs) := by
  rw [exSt_changes]
  intro c hc p hp
  simp only [List.mem_cons, List.not_mem_nil, or_false] at hc
  rcases hc with rfl | rfl
  · cases hp; decide
  · cases hp

example : RevsBuilt H (PState.stagedChanges exSt.p.docs) := by
  rw [exSt_changes]
  intro c hc
  simp only [List.mem_cons, List.not_mem_nil, or_false] at hc
  rcases hc with rfl | rfl
  · exact ⟨fun h => (by cases h), fun p hp => (by cases hp; decide)⟩
  · exact ⟨fun _ => (by decide), fun p hp => (by cases hp)⟩

/-- the hypotheses of `discard_restores_clean` hold of `exBase`, and `exSt` was staged from it -/
example : exBase.hasStaging = false ∧ (∀ p ∈ exBase.docs, C15.FlagOK p.2) ∧ (∀ p ∈ exBase.docs, C15.Validated p.2) ∧
    (∀ p ∈ exBase.docs, p.2.isEmpty = false) := by decide

/-- `StageFresh` is needed for "all bodies come back": a staged body whose digest is already committed is
    skipped by `replayStage` (the state below cannot be produced by `writeObject`) -/
def exStale : DState := { exSt with p := { exSt.p with objects := [S "aa", S "cc"] } }

example : ¬ StageFresh exStale := by decide
example : (replayedStage exStale) = [(S "bb", [(S "k", .num (S "1"))])] := by decide

end Example

end Melda.Props.C15b
