/-
  C04, finding D23 — identifiers of flattened objects that carry no `_id` are the hash of their path
  CONCATENATED WITHOUT A SEPARATOR.  Two different paths with the same concatenation therefore get the
  same identifier, for every hash function: the later object overwrites the earlier one in the pool of
  `flatten`, and `read` cannot return the submitted document.

  `generateIdentifier_concat`: the identifier depends on the path only through its concatenation.
  `path_id_collision`: the concrete pair of the recorded finding (known_findings.json, D23):
      {"a♭": {"_id":"X", "b♭": {"p":1}},  "a♭Xb♭": {"q":2}}
  the id-less object under `b♭` has path ["√","a♭","X","b♭"], the one under `a♭Xb♭` has path ["√","a♭Xb♭"].
  This is why `Props/C04` states the round trip under `WFDoc` (tracked objects below the root carry
  explicit identifiers): without it the statement is false of the model and of the code alike.
-/
import Melda.Flatten
namespace Melda.Props.C04d
open Melda

/-- for an object without `_id` the generated identifier is a function of the concatenated path alone -/
theorem generateIdentifier_concat (H : Bytes → Str) (o : JObj) (p q : List Str)
    (hid : objGet ID_FIELD o = none) (hp : p ≠ []) (hq : q ≠ []) (h : p.flatten = q.flatten) :
    generateIdentifier H o p = generateIdentifier H o q := by
  unfold generateIdentifier
  rw [hid]
  have h1 : p.isEmpty = false := by cases p <;> simp_all
  have h2 : q.isEmpty = false := by cases q <;> simp_all
  simp [h1, h2, h]

/-- **D23**: two different paths, one identifier — for every hash function -/
theorem path_id_collision (H : Bytes → Str) :
    generateIdentifier H [] ["√".toList, "a♭".toList, "X".toList, "b♭".toList] =
      generateIdentifier H [] ["√".toList, "a♭Xb♭".toList] ∧
    (["√".toList, "a♭".toList, "X".toList, "b♭".toList] : List Str) ≠ ["√".toList, "a♭Xb♭".toList] := by
  constructor
  · apply generateIdentifier_concat H [] _ _ (by rfl) (by simp) (by simp)
    decide
  · decide

end Melda.Props.C04d
