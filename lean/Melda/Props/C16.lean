/-
  C16 — delta-encoded arrays reconstruct exactly.
  * `numJ_asNat`: the numbers written by `make_diff_patch` are read back by `apply_diff_patch`.
  * `applyMoves`: abstract semantics of a move list; `applyDiffPatch_patchOfMoves` links it to the
    JSON patch interpreter.
  * `moves_invariant`: the divide-and-conquer skeleton `myersMoves` (with move merging) walks an edit
    path along which `work = b.take y ++ a.drop x`, for ANY middle-snake function that answers inside
    the area it is given (`MiddleInArea`).
  * `patch_roundtrip`, `makeDiffPatch_roundtrip`.
  * LRU transparency (`sound_put`, `sound_get`, `sound_empty`).
-/
import Melda.Diff
import Melda.Lru
namespace Melda.Props.C16
open Melda

/-! ## 1. Numbers survive the trip through the patch -/

theorem digit_facts : ∀ n, n < 10 →
    isDigit (Char.ofNat (48 + n)) = true ∧ digitVal (Char.ofNat (48 + n)) = n := by decide

theorem natOfDigits_snoc (s : Str) (c : Char) :
    natOfDigits (s ++ [c]) = natOfDigits s * 10 + digitVal c := by
  simp [natOfDigits, List.foldl_append]

theorem natDigits_spec : ∀ fuel n, n < fuel →
    natDigits fuel n ≠ [] ∧ (natDigits fuel n).all isDigit = true ∧ natOfDigits (natDigits fuel n) = n := by
  intro fuel
  induction fuel with
  | zero => intro n h; omega
  | succ f ih =>
    intro n h
    unfold natDigits
    by_cases h10 : n < 10
    · obtain ⟨hd, hv⟩ := digit_facts n h10
      simp only [h10, if_true]
      refine ⟨by simp, by simp [hd], ?_⟩
      simp [natOfDigits, hv]
    · simp only [h10, if_false]
      obtain ⟨_, h2, h3⟩ := ih (n / 10) (by omega)
      obtain ⟨hd, hv⟩ := digit_facts (n % 10) (by omega)
      refine ⟨by simp, ?_, ?_⟩
      · simp only [List.all_append, h2, Bool.true_and]; simp [hd]
      · rw [natOfDigits_snoc, h3, hv]; omega

/-- digits only, non-empty -/
theorem natStr_digits (n : Nat) : natStr n ≠ [] ∧ (natStr n).all isDigit = true :=
  ⟨(natDigits_spec (n + 1) n (by omega)).1, (natDigits_spec (n + 1) n (by omega)).2.1⟩

theorem natOfDigits_natStr (n : Nat) : natOfDigits (natStr n) = n :=
  (natDigits_spec (n + 1) n (by omega)).2.2

/-- **1.** what `make_diff_patch` writes as an index/length is what `apply_diff_patch` reads -/
theorem numJ_asNat (n : Nat) : asNat? (numJ n) = some n := by
  obtain ⟨hne, hall⟩ := natStr_digits n
  have he : (natStr n).isEmpty = false := by
    cases h : natStr n with
    | nil => exact absurd h hne
    | cons _ _ => rfl
  simp only [asNat?, numJ, he, hall, natOfDigits_natStr]
  simp

/-! ## 2. Abstract semantics of a move list -/

section Sem
variable {α : Type}

/-- one move applied to the work array: INSERT from (x,y) to (x,y') inserts `b[y..y')` at `y`;
    DELETE from (x,y) to (x',y) removes `x'-x` elements at `y` -/
def applyMove (b : List α) (mv : Move) (w : List α) : List α :=
  match mv.op with
  | .ins => w.take mv.s.y ++ (b.drop mv.s.y).take (mv.t.y - mv.s.y) ++ w.drop mv.s.y
  | .del => w.take mv.s.y ++ w.drop (mv.s.y + (mv.t.x - mv.s.x))

/-- moves applied left to right -/
def applyMoves (b : List α) : List Move → List α → List α
  | [], w => w
  | mv :: ms, w => applyMoves b ms (applyMove b mv w)

/-- the move's indices are in range for the work array (no `splice`/`drain` panic) -/
def MoveOk (mv : Move) (w : List α) : Prop :=
  match mv.op with
  | .ins => mv.s.y ≤ w.length
  | .del => mv.s.y + (mv.t.x - mv.s.x) ≤ w.length

/-- every move of the list is in range at the time it is applied -/
def MovesOk (b : List α) : List Move → List α → Prop
  | [], _ => True
  | mv :: ms, w => MoveOk mv w ∧ MovesOk b ms (applyMove b mv w)

theorem applyMoves_append (b : List α) (ms ns : List Move) (w : List α) :
    applyMoves b (ms ++ ns) w = applyMoves b ns (applyMoves b ms w) := by
  induction ms generalizing w with
  | nil => rfl
  | cons m ms ih => simp [applyMoves, ih]

theorem movesOk_append (b : List α) (ms ns : List Move) (w : List α) :
    MovesOk b (ms ++ ns) w ↔ MovesOk b ms w ∧ MovesOk b ns (applyMoves b ms w) := by
  induction ms generalizing w with
  | nil => simp [MovesOk, applyMoves]
  | cons m ms ih => simp [MovesOk, applyMoves, ih, and_assoc]

end Sem

/-- **2.** the JSON patch produced from a well-formed move list is interpreted by `apply_diff_patch`
    exactly as the abstract semantics says, without error or panic. -/
theorem applyDiffPatch_patchOfMoves (b : List JVal) (ms : List Move) (work : List JVal)
    (h : MovesOk b ms work) :
    applyDiffPatch work (patchOfMoves b ms) = .ok (applyMoves b ms work) := by
  induction ms generalizing work with
  | nil => simp [patchOfMoves, applyDiffPatch, applyMoves]
  | cons mv ms ih =>
    obtain ⟨h1, h2⟩ := h
    have ih' := ih _ h2
    unfold patchOfMoves at ih' ⊢
    rw [List.map_cons]
    cases hop : mv.op with
    | ins =>
      simp only [MoveOk, hop] at h1
      have hnot : ¬ mv.s.y > work.length := by omega
      have e : applyMove b mv work
          = work.take mv.s.y ++ (b.drop mv.s.y).take (mv.t.y - mv.s.y) ++ work.drop mv.s.y := by
        simp [applyMove, hop]
      simp only [applyDiffPatch, jIdx, List.getD_cons_zero, List.getD_cons_succ, numJ_asNat, hnot,
        if_false, applyMoves, e]
      simp only [show (['i'] : List Char) = ['d'] ↔ False by decide, if_false, if_true]
      rw [← e]; exact ih'
    | del =>
      simp only [MoveOk, hop] at h1
      have hnot : ¬ mv.s.y + (mv.t.x - mv.s.x) > work.length := by omega
      have e : applyMove b mv work
          = work.take mv.s.y ++ work.drop (mv.s.y + (mv.t.x - mv.s.x)) := by
        simp [applyMove, hop]
      simp only [applyDiffPatch, jIdx, List.getD_cons_zero, List.getD_cons_succ, numJ_asNat, hnot,
        if_false, if_true, applyMoves, e]
      rw [← e]; exact ih'

/-! ## 3. The edit-path invariant of `myers_moves` -/

section Path
variable {α : Type} [DecidableEq α]

/-- the work array at point `p` of the edit graph: the new prefix followed by the old suffix -/
def St (a b : List α) (p : Pt) : List α := b.take p.y ++ a.drop p.x

/-- a non-inverted area inside the edit graph of `a`, `b` -/
def AreaOk (a b : List α) (r : Area) : Prop :=
  r.tl.x ≤ r.br.x ∧ r.tl.y ≤ r.br.y ∧ r.br.x ≤ a.length ∧ r.br.y ≤ b.length

/-- `tl ≤ top ≤ bottom ≤ br`, componentwise -/
def InArea (r : Area) (top bottom : Pt) : Prop :=
  r.tl.x ≤ top.x ∧ r.tl.y ≤ top.y ∧ top.x ≤ bottom.x ∧ top.y ≤ bottom.y ∧
  bottom.x ≤ r.br.x ∧ bottom.y ≤ r.br.y

/-- HYPOTHESIS on the middle-snake function (the only one): on a proper area, the two points it
    returns are ordered and inside that area, `tl ≤ top ≤ bottom ≤ br` componentwise.
    Nothing is assumed about the points lying on a diagonal, being optimal, etc.
    The model of `myers_moves` does not check this (nor does the crate); it is proved for the
    ported `middleSnake` below (`middleSnake_inArea`) and shown necessary by `needs_middleInArea`. -/
def MiddleInArea (a b : List α) (middle : List α → List α → Area → Option (Pt × Pt)) : Prop :=
  ∀ r top bottom, AreaOk a b r → middle a b r = some (top, bottom) → InArea r top bottom

/-- a horizontal (delete) or vertical (insert) step of the edit graph, inside the graph -/
def GoodMove (a b : List α) (mv : Move) : Prop :=
  match mv.op with
  | .ins => mv.s.x = mv.t.x ∧ mv.s.y ≤ mv.t.y ∧ mv.s.y ≤ b.length
  | .del => mv.s.y = mv.t.y ∧ mv.s.x ≤ mv.t.x ∧ mv.t.x ≤ a.length ∧ mv.s.y ≤ b.length

/-- Invariant of the accumulator (`acc` is in reverse order, head = last pushed move), stated on
    the whole accumulated list so that it survives the merging of a new move into the last one:
    every move is a good step that starts in the state where the previous ones ended (up to
    diagonal steps, which do not change the work array), the first one starts from `w0`, and the
    state after the last one is `st`. -/
def Inv (a b w0 : List α) : List Move → List α → Prop
  | [], st => w0 = st
  | last :: rest, st => Inv a b w0 rest (St a b last.s) ∧ GoodMove a b last ∧ St a b last.t = st

omit [DecidableEq α] in
theorem goodMove_apply (a b : List α) (mv : Move) (h : GoodMove a b mv) :
    MoveOk mv (St a b mv.s) ∧ applyMove b mv (St a b mv.s) = St a b mv.t := by
  unfold GoodMove at h
  unfold MoveOk applyMove St
  cases hop : mv.op with
  | ins =>
    simp only [hop] at h ⊢
    obtain ⟨h1, h2, h3⟩ := h
    have hl : (List.take mv.s.y b).length = mv.s.y := by simp; omega
    refine ⟨by simp; omega, ?_⟩
    rw [List.take_left' hl, List.drop_left' hl]
    have : mv.t.y = mv.s.y + (mv.t.y - mv.s.y) := by omega
    conv => rhs; rw [this, List.take_add]
    simp [h1]
  | del =>
    simp only [hop] at h ⊢
    obtain ⟨h1, h2, h3, h4⟩ := h
    have hl : (List.take mv.s.y b).length = mv.s.y := by simp; omega
    refine ⟨by simp; omega, ?_⟩
    rw [List.take_left' hl]
    have e : mv.s.y + (mv.t.x - mv.s.x) = (List.take mv.s.y b).length + (mv.t.x - mv.s.x) := by omega
    rw [e, List.drop_append]
    simp only [List.drop_drop, ← h1]
    rw [List.drop_of_length_le (Nat.le_add_right _ _)]
    have e2 : mv.s.x + ((List.take mv.s.y b).length + (mv.t.x - mv.s.x) - (List.take mv.s.y b).length)
        = mv.t.x := by omega
    rw [e2, List.nil_append]

omit [DecidableEq α] in
/-- the accumulator invariant implies the semantic statement about the whole move list -/
theorem inv_sound (a b w0 : List α) : ∀ (acc : List Move) (st : List α), Inv a b w0 acc st →
    MovesOk b acc.reverse w0 ∧ applyMoves b acc.reverse w0 = st := by
  intro acc
  induction acc with
  | nil => intro st h; simp only [Inv] at h; simp [MovesOk, applyMoves, h]
  | cons last rest ih =>
    intro st h
    obtain ⟨h1, h2, h3⟩ := h
    obtain ⟨i1, i2⟩ := ih _ h1
    obtain ⟨g1, g2⟩ := goodMove_apply a b last h2
    rw [List.reverse_cons, movesOk_append, applyMoves_append, i2]
    simp only [MovesOk, applyMoves, g2, h3, and_true]
    exact ⟨i1, g1⟩

omit [DecidableEq α] in
/-- a diagonal step over equal elements does not change the work array -/
theorem St_diag (a b : List α) (x y : Nat) (h : a[x]? = b[y]?) (hs : a[x]?.isSome = true) :
    St a b ⟨x + 1, y + 1⟩ = St a b ⟨x, y⟩ := by
  obtain ⟨v, hv⟩ := Option.isSome_iff_exists.mp hs
  have hb : b[y]? = some v := h ▸ hv
  obtain ⟨hx, hxv⟩ := List.getElem?_eq_some_iff.mp hv
  obtain ⟨hy, hyv⟩ := List.getElem?_eq_some_iff.mp hb
  unfold St
  simp only
  rw [List.take_add_one, hb, List.drop_eq_getElem_cons hx, hxv]
  simp

theorem trimFront_spec (a b : List α) : ∀ (fuel : Nat) (tl br : Pt), tl.x ≤ br.x → tl.y ≤ br.y →
    tl.x ≤ (trimFront a b fuel tl br).x ∧ tl.y ≤ (trimFront a b fuel tl br).y ∧
    (trimFront a b fuel tl br).x ≤ br.x ∧ (trimFront a b fuel tl br).y ≤ br.y ∧
    St a b (trimFront a b fuel tl br) = St a b tl := by
  intro fuel
  induction fuel with
  | zero => intro tl br h1 h2; simp [trimFront, h1, h2]
  | succ f ih =>
    intro tl br h1 h2
    unfold trimFront
    split
    · next hc =>
      obtain ⟨c1, c2, c3, c4⟩ := hc
      obtain ⟨i1, i2, i3, i4, i5⟩ := ih ⟨tl.x + 1, tl.y + 1⟩ br (by simp; omega) (by simp; omega)
      simp only at i1 i2
      refine ⟨by omega, by omega, i3, i4, ?_⟩
      rw [i5]; exact St_diag a b tl.x tl.y c3 c4
    · exact ⟨Nat.le_refl _, Nat.le_refl _, h1, h2, rfl⟩

theorem trimBack_spec (a b : List α) : ∀ (fuel : Nat) (tl br : Pt), tl.x ≤ br.x → tl.y ≤ br.y →
    tl.x ≤ (trimBack a b fuel tl br).x ∧ tl.y ≤ (trimBack a b fuel tl br).y ∧
    (trimBack a b fuel tl br).x ≤ br.x ∧ (trimBack a b fuel tl br).y ≤ br.y ∧
    St a b (trimBack a b fuel tl br) = St a b br := by
  intro fuel
  induction fuel with
  | zero => intro tl br h1 h2; simp [trimBack, h1, h2]
  | succ f ih =>
    intro tl br h1 h2
    unfold trimBack
    split
    · next hc =>
      obtain ⟨c1, c2, c3, c4⟩ := hc
      obtain ⟨i1, i2, i3, i4, i5⟩ := ih tl ⟨br.x - 1, br.y - 1⟩ (by simp; omega) (by simp; omega)
      simp only at i3 i4
      refine ⟨i1, i2, by omega, by omega, ?_⟩
      rw [i5]
      have := St_diag a b (br.x - 1) (br.y - 1) c3 c4
      rw [← this]
      have e1 : br.x - 1 + 1 = br.x := by omega
      have e2 : br.y - 1 + 1 = br.y := by omega
      rw [e1, e2]
    · exact ⟨h1, h2, Nat.le_refl _, Nat.le_refl _, rfl⟩

/-- `Area::trim` only moves `tl` forward and `br` backward along matching diagonals: the trimmed
    area is a proper area inside the original one, and the work array at its corners is unchanged. -/
theorem trim_spec (a b : List α) (tl br : Pt) (h1 : tl.x ≤ br.x) (h2 : tl.y ≤ br.y)
    (h3 : br.x ≤ a.length) (h4 : br.y ≤ b.length) :
    AreaOk a b (trim a b tl br) ∧ St a b (trim a b tl br).tl = St a b tl ∧
    St a b (trim a b tl br).br = St a b br ∧
    tl.x ≤ (trim a b tl br).tl.x ∧ tl.y ≤ (trim a b tl br).tl.y ∧
    (trim a b tl br).br.x ≤ br.x ∧ (trim a b tl br).br.y ≤ br.y := by
  obtain ⟨f1, f2, f3, f4, f5⟩ := trimFront_spec a b (br.x - tl.x + 1) tl br h1 h2
  obtain ⟨k1, k2, k3, k4, k5⟩ := trimBack_spec a b
    (br.x - (trimFront a b (br.x - tl.x + 1) tl br).x + 1) (trimFront a b (br.x - tl.x + 1) tl br) br f3 f4
  unfold trim AreaOk
  simp only
  exact ⟨⟨k1, k2, by omega, by omega⟩, f5, k5, f1, f2, k3, k4⟩

/-- **3. MAIN.** For ANY middle-snake function answering inside its area: if the accumulator
    describes an edit path from `w0` to the work array at `r.tl`, then after `myers_moves` on `r` it
    describes an edit path from `w0` to the work array at `r.br` — including when the first new move
    was merged into the last old one. -/
theorem moves_invariant (a b w0 : List α) (middle : List α → List α → Area → Option (Pt × Pt))
    (hmid : MiddleInArea a b middle) :
    ∀ (fuel : Nat) (r : Area) (acc acc' : List Move), AreaOk a b r →
      Inv a b w0 acc (St a b r.tl) → myersMoves a b middle fuel r acc = some acc' →
      Inv a b w0 acc' (St a b r.br) := by
  intro fuel
  induction fuel with
  | zero => intro r acc acc' _ _ h; simp [myersMoves] at h
  | succ f ih =>
    intro r acc acc' hr hinv h
    obtain ⟨r1, r2, r3, r4⟩ := hr
    unfold myersMoves at h
    unfold Area.n Area.m at h
    split at h
    · next hc =>
      cases h
      have ex : r.br.x = r.tl.x := by omega
      have ey : r.br.y = r.tl.y := by omega
      unfold St at hinv ⊢
      rw [ex, ey]; exact hinv
    · split at h
      · next hn =>
        have ex : r.tl.x = r.br.x := by omega
        split at h
        · next last rest =>
          split at h
          · next hl =>
            cases h
            obtain ⟨hl1, hl2⟩ := hl
            obtain ⟨v1, v2, v3⟩ := hinv
            refine ⟨v1, ?_, rfl⟩
            unfold GoodMove at v2 ⊢
            simp only [hl1] at v2 ⊢
            rw [hl2] at v2
            omega
          · cases h
            exact ⟨hinv, by unfold GoodMove; simp only; omega, rfl⟩
        · cases h
          exact ⟨hinv, by unfold GoodMove; simp only; omega, rfl⟩
      · split at h
        · next hn hm =>
          have ey : r.tl.y = r.br.y := by omega
          split at h
          · next last rest =>
            split at h
            · next hl =>
              cases h
              obtain ⟨hl1, hl2⟩ := hl
              obtain ⟨v1, v2, v3⟩ := hinv
              refine ⟨v1, ?_, rfl⟩
              unfold GoodMove at v2 ⊢
              simp only [hl1] at v2 ⊢
              rw [hl2] at v2
              omega
            · cases h
              exact ⟨hinv, by unfold GoodMove; simp only; omega, rfl⟩
          · cases h
            exact ⟨hinv, by unfold GoodMove; simp only; omega, rfl⟩
        · cases hm : middle a b r with
          | none => simp [hm] at h
          | some tb =>
            obtain ⟨top, bottom⟩ := tb
            simp only [hm] at h
            obtain ⟨m1, m2, m3, m4, m5, m6⟩ := hmid r top bottom ⟨r1, r2, r3, r4⟩ hm
            obtain ⟨o1, s1, e1, _⟩ := trim_spec a b r.tl top m1 m2 (by omega) (by omega)
            obtain ⟨o2, s2, e2, _⟩ := trim_spec a b top bottom m3 m4 (by omega) (by omega)
            obtain ⟨o3, s3, e3, _⟩ := trim_spec a b bottom r.br m5 m6 r3 r4
            cases h1 : myersMoves a b middle f (trim a b r.tl top) acc with
            | none => simp [h1] at h
            | some acc1 =>
              simp only [h1] at h
              cases h2 : myersMoves a b middle f (trim a b top bottom) acc1 with
              | none => simp [h2] at h
              | some acc2 =>
                simp only [h2] at h
                have i1 := ih _ _ _ o1 (by rw [s1]; exact hinv) h1
                rw [e1, ← s2] at i1
                have i2 := ih _ _ _ o2 i1 h2
                rw [e2, ← s3] at i2
                have i3 := ih _ _ _ o3 i2 h
                rw [e3] at i3
                exact i3

/-- 3, in the semantic form: the whole accumulated list, read left to right, is in range at every
    step and takes `w0` to `b.take r.br.y ++ a.drop r.br.x`. (`Inv … acc (St a b r.tl)` is the
    hypothesis "`acc.reverse` takes `w0` to `b.take r.tl.y ++ a.drop r.tl.x`" together with the side
    invariant that makes merging into the last move sound; it implies the former by `inv_sound`.) -/
theorem moves_invariant_apply (a b w0 : List α) (middle : List α → List α → Area → Option (Pt × Pt))
    (hmid : MiddleInArea a b middle) (fuel : Nat) (r : Area) (acc acc' : List Move)
    (hr : AreaOk a b r) (hinv : Inv a b w0 acc (St a b r.tl))
    (h : myersMoves a b middle fuel r acc = some acc') :
    MovesOk b acc'.reverse w0 ∧
    applyMoves b acc'.reverse w0 = b.take r.br.y ++ a.drop r.br.x :=
  inv_sound a b w0 acc' _ (moves_invariant a b w0 middle hmid fuel r acc acc' hr hinv h)

/-- 3, started from an empty accumulator: the produced moves take the work array at `r.tl` to the
    work array at `r.br`. -/
theorem moves_invariant_fresh (a b : List α) (middle : List α → List α → Area → Option (Pt × Pt))
    (hmid : MiddleInArea a b middle) (fuel : Nat) (r : Area) (acc' : List Move)
    (hr : AreaOk a b r) (h : myersMoves a b middle fuel r [] = some acc') :
    MovesOk b acc'.reverse (b.take r.tl.y ++ a.drop r.tl.x) ∧
    applyMoves b acc'.reverse (b.take r.tl.y ++ a.drop r.tl.x) = b.take r.br.y ++ a.drop r.br.x :=
  moves_invariant_apply a b _ middle hmid fuel r [] acc' hr rfl h

/-! ## 4. Round trip -/

/-- the move list of `myers_unfilled` is in range and rebuilds `b` from `a` (any element type) -/
theorem unfilled_roundtrip (a b : List α) (middle : List α → List α → Area → Option (Pt × Pt))
    (hmid : MiddleInArea a b middle) (ms : List Move) (h : myersUnfilled a b middle = some ms) :
    MovesOk b ms a ∧ applyMoves b ms a = b := by
  unfold myersUnfilled at h
  cases hm : myersMoves a b middle (a.length + b.length + 2)
      (trim a b ⟨0, 0⟩ ⟨a.length, b.length⟩) [] with
  | none => simp [hm] at h
  | some acc' =>
    simp only [hm, Option.map_some, Option.some.injEq] at h
    subst h
    obtain ⟨o, s, e, _⟩ := trim_spec a b ⟨0, 0⟩ ⟨a.length, b.length⟩ (Nat.zero_le _) (Nat.zero_le _)
      (Nat.le_refl _) (Nat.le_refl _)
    have hinv : Inv a b a [] (St a b (trim a b ⟨0, 0⟩ ⟨a.length, b.length⟩).tl) := by
      rw [s]; simp [Inv, St]
    have := inv_sound a b a acc' _ (moves_invariant a b a middle hmid _ _ [] acc' o hinv hm)
    rw [e] at this
    simpa [St] using this

end Path

section Snake
variable {α : Type} [DecidableEq α]

/-! ### The ported `myers_middle_move` answers inside its area -/

theorem follow_mono (eqAt : Int → Int → Bool) (n m : Int) : ∀ (fuel : Nat) (x y : Int),
    x ≤ (follow eqAt n m fuel x y).1 ∧ y ≤ (follow eqAt n m fuel x y).2 := by
  intro fuel
  induction fuel with
  | zero => intro x y; simp [follow]
  | succ f ih =>
    intro x y
    unfold follow
    split
    · have := ih (x + 1) (y + 1); omega
    · simp

theorem sweep_ret (a b : List α) (r : Area) (fwd : Bool) (d max : Int) (other : Array Int) :
    ∀ (fuel : Nat) (k kmax : Int) (v : Array Int) (t bo : Pt),
      sweep a b r fwd d max other fuel k kmax v = .ret t bo → InArea r t bo := by
  intro fuel
  induction fuel with
  | zero => intro k kmax v t bo h; simp [sweep] at h
  | succ f ih =>
    intro k kmax v t bo h
    unfold sweep at h
    split at h
    · cases h
    · dsimp only at h
      generalize (if k = -d ∨ k ≠ d ∧ vget v (k - 1 + max) < vget v (k + 1 + max) then vget v (k + 1 + max)
                  else vget v (k - 1 + max) + 1) = x0 at h
      have hf := follow_mono (fun x y =>
                    if fwd = true then a[r.tl.x + x.toNat]? == b[r.tl.y + y.toNat]? && a[r.tl.x + x.toNat]?.isSome
                    else a[r.br.x - 1 - x.toNat]? == b[r.br.y - 1 - y.toNat]? && a[r.br.x - 1 - x.toNat]?.isSome)
                  (↑r.n) (↑r.m) (r.n + r.m + 1) x0 (x0 - k)
      generalize follow _ _ _ _ x0 (x0 - k) = p at h hf
      obtain ⟨x, y⟩ := p
      simp only at h hf
      split at h
      · next t' bo' hc =>
        injection h with e1 e2
        subst e1 e2
        unfold InArea
        split at hc
        · split at hc
          · split at hc
            · injection hc with hc; injection hc with e1 e2
              subst e1 e2
              simp only
              omega
            · cases hc
          · split at hc
            · injection hc with hc; injection hc with e1 e2
              subst e1 e2
              simp only
              unfold Area.n Area.m at *
              omega
            · cases hc
        · cases hc
      · split at h
        · cases h
        · exact ih _ _ _ _ _ h
theorem snake_second (a b : List α) (r : Area) (max : Int) (f : Nat) (d : Int)
    (vb : Array Int) (t bo : Pt) (kmin kmax : Int)
    (ih : ∀ (d : Int) (vf vb : Array Int) (t bo : Pt),
      snakeLoop a b r max f d vf vb = some (t, bo) → InArea r t bo)
    (vf' : Array Int) (a1 : Bool)
    (h : (match sweep a b r false d max vf' (r.n + r.m + 2) kmin kmax vb with
            | KRes.ret t bo => some (t, bo)
            | br =>
              if (a1 || (match br with
                    | KRes.atDest v => (v, true)
                    | KRes.cont v => (v, false)
                    | KRes.ret _ _ => (vb, false)).snd) = true then none
              else snakeLoop a b r max f (d + 1) vf'
                (match br with
                  | KRes.atDest v => (v, true)
                  | KRes.cont v => (v, false)
                  | KRes.ret _ _ => (vb, false)).fst) = some (t, bo)) : InArea r t bo := by
  generalize hs2 : sweep a b r false d max vf' (r.n + r.m + 2) kmin kmax vb = s2 at h
  cases s2 with
  | ret t' bo' =>
    simp only at h
    injection h with h; injection h with e1 e2
    subst e1 e2
    exact sweep_ret a b r _ _ _ _ _ _ _ _ _ _ hs2
  | atDest v =>
    simp only at h
    split at h
    · cases h
    · exact ih _ _ _ _ _ h
  | cont v =>
    simp only at h
    split at h
    · cases h
    · exact ih _ _ _ _ _ h

theorem snakeLoop_inArea (a b : List α) (r : Area) (max : Int) :
    ∀ (fuel : Nat) (d : Int) (vf vb : Array Int) (t bo : Pt),
      snakeLoop a b r max fuel d vf vb = some (t, bo) → InArea r t bo := by
  intro fuel
  induction fuel with
  | zero => intro d vf vb t bo h; simp [snakeLoop] at h
  | succ f ih =>
    intro d vf vb t bo h
    unfold snakeLoop at h
    split at h
    · cases h
    · dsimp only at h
      generalize hs1 : sweep a b r true d max vb _ _ _ vf = s1 at h
      cases s1 with
      | ret t' bo' =>
        simp only at h
        injection h with h; injection h with e1 e2
        subst e1 e2
        exact sweep_ret a b r _ _ _ _ _ _ _ _ _ _ hs1
      | atDest v => exact snake_second a b r max f d vb t bo _ _ ih _ _ h
      | cont v => exact snake_second a b r max f d vb t bo _ _ ih _ _ h

theorem middleSnake_inArea (a b : List α) : MiddleInArea a b middleSnake := by
  intro r top bottom _ h
  exact snakeLoop_inArea a b r _ _ _ _ _ _ _ h

end Snake

/-- **4.** for every middle-snake function answering inside its area, and all arrays (repeats,
    reorderings, empty included): applying the produced patch to `a` gives exactly `b`, with no
    error and no panic. -/
theorem patch_roundtrip (a b : List JVal) (middle : List JVal → List JVal → Area → Option (Pt × Pt))
    (hmid : MiddleInArea a b middle) (ms : List Move) (h : myersUnfilled a b middle = some ms) :
    applyDiffPatch a (patchOfMoves b ms) = .ok b := by
  obtain ⟨h1, h2⟩ := unfilled_roundtrip a b middle hmid ms h
  rw [applyDiffPatch_patchOfMoves b ms a h1, h2]

/-- **4'.** `apply_diff_patch(old, make_diff_patch(old, new)) = new` whenever the diff does not panic;
    no hypothesis left: the ported middle snake is proved to answer inside its area. -/
theorem makeDiffPatch_roundtrip (a b p : List JVal) (h : makeDiffPatch a b = some p) :
    applyDiffPatch a p = .ok b := by
  unfold makeDiffPatch at h
  cases hm : myersUnfilled a b middleSnake with
  | none => simp [hm] at h
  | some ms =>
    simp only [hm, Option.map_some, Option.some.injEq] at h
    subst h
    exact patch_roundtrip a b middleSnake (middleSnake_inArea a b) ms hm


/-! ### Non-vacuity, and necessity of `MiddleInArea` -/

/-- "delete everything, then insert everything" -/
def midCorner {α : Type} : List α → List α → Area → Option (Pt × Pt) :=
  fun _ _ r => some (⟨r.br.x, r.tl.y⟩, ⟨r.br.x, r.tl.y⟩)

theorem midCorner_inArea {α : Type} (a b : List α) : MiddleInArea a b midCorner := by
  intro r top bottom hr h
  simp only [midCorner, Option.some.injEq, Prod.mk.injEq] at h
  obtain ⟨rfl, rfl⟩ := h
  unfold AreaOk at hr; unfold InArea; simp only; omega

example : myersUnfilled [1, 2, 3] [1, 3, 4] midCorner
    = some [⟨.del, ⟨1, 1⟩, ⟨3, 1⟩⟩, ⟨.ins, ⟨3, 1⟩, ⟨3, 3⟩⟩] := by decide

/-- the hypotheses of `moves_invariant` are satisfiable in a non-trivial way: a proper area, and an
    accumulator already holding a move that the next insert will be merged into -/
example : AreaOk [1] [2, 3] ⟨⟨0, 1⟩, ⟨0, 2⟩⟩ ∧
    Inv [1] [2, 3] [1] [⟨.ins, ⟨0, 0⟩, ⟨0, 1⟩⟩] (St [1] [2, 3] ⟨0, 1⟩) := by
  simp [AreaOk, Inv, GoodMove, St]

example : myersMoves [1] [2, 3] midCorner 1 ⟨⟨0, 1⟩, ⟨0, 2⟩⟩ [⟨.ins, ⟨0, 0⟩, ⟨0, 1⟩⟩]
    = some [⟨.ins, ⟨0, 0⟩, ⟨0, 2⟩⟩] := by decide

/-- `patch_roundtrip` instantiated with a middle function that is not the real one -/
example (a b : List JVal) (ms : List Move) (h : myersUnfilled a b midCorner = some ms) :
    applyDiffPatch a (patchOfMoves b ms) = .ok b :=
  patch_roundtrip a b midCorner (midCorner_inArea a b) ms h

/-- one step down (merging happens: two unit inserts become one move) -/
def midStep : List Nat → List Nat → Area → Option (Pt × Pt) :=
  fun _ _ r => if r.tl.y < r.br.y then some (⟨r.tl.x, r.tl.y + 1⟩, ⟨r.tl.x, r.tl.y + 1⟩) else none

example : myersUnfilled [1] [2, 3] midStep
    = some [⟨.ins, ⟨0, 0⟩, ⟨0, 2⟩⟩, ⟨.del, ⟨0, 2⟩, ⟨1, 2⟩⟩] := by decide

example : myersUnfilled [1, 2, 3] [1, 3, 4] middleSnake
    = some [⟨.del, ⟨1, 1⟩, ⟨2, 1⟩⟩, ⟨.ins, ⟨3, 2⟩, ⟨3, 3⟩⟩] := by decide

example : (makeDiffPatch [.null, .bool true, .null] [.bool true, .null, .num ['7']]).isSome = true := by decide

def midBad : List JVal → List JVal → Area → Option (Pt × Pt) :=
  fun _ _ _ => some (⟨5, 0⟩, ⟨5, 0⟩)

theorem needs_middleInArea :
    ∃ (middle : List JVal → List JVal → Area → Option (Pt × Pt)) (ms : List Move),
      myersUnfilled [.null] [.bool true] middle = some ms ∧
      applyDiffPatch [.null] (patchOfMoves [.bool true] ms) = .panic "drain_out_of_range" :=
  ⟨midBad, [⟨.del, ⟨0, 0⟩, ⟨5, 0⟩⟩, ⟨.ins, ⟨5, 0⟩, ⟨1, 1⟩⟩], by decide, by rfl⟩

/-! ## 5. LRU transparency -/

section LruSound
variable {κ ν : Type} [DecidableEq κ]

/-- every cached entry satisfies `P` (for `rebuild_correct`: every cached order is the true order) -/
def Sound (P : κ → ν → Prop) (c : Lru κ ν) : Prop := ∀ kv ∈ c.items, P kv.1 kv.2

omit [DecidableEq κ] in
theorem sound_empty (P : κ → ν → Prop) (cap : Nat) : Sound P (Lru.empty cap : Lru κ ν) := by
  intro kv h; simp [Lru.empty] at h

theorem sound_put {P : κ → ν → Prop} {c : Lru κ ν} {k : κ} {v : ν}
    (hc : Sound P c) (hkv : P k v) : Sound P (c.put k v) := by
  intro kv h
  simp only [Lru.put] at h
  have h' := List.mem_of_mem_take h
  rcases List.mem_cons.mp h' with rfl | hm
  · exact hkv
  · exact hc kv (List.mem_filter.mp hm).1

theorem sound_get {P : κ → ν → Prop} {c : Lru κ ν} {k : κ} (hc : Sound P c) :
    Sound P (c.get k).2 ∧ ∀ v, (c.get k).1 = some v → P k v := by
  unfold Lru.get
  cases hf : c.items.find? (fun p => p.1 = k) with
  | none => exact ⟨hc, by intro v h; cases h⟩
  | some p =>
    have hp : p ∈ c.items := List.mem_of_find?_eq_some hf
    have hk : p.1 = k := by simpa using List.find?_some hf
    refine ⟨?_, ?_⟩
    · intro kv h
      rcases List.mem_cons.mp h with rfl | hm
      · exact hc _ hp
      · exact hc kv (List.mem_filter.mp hm).1
    · intro v h
      cases h
      have := hc p hp
      rwa [hk] at this

/-- `peek`/`contains` do not change the cache, and a `peek` hit satisfies `P` -/
theorem sound_peek {P : κ → ν → Prop} {c : Lru κ ν} {k : κ} {v : ν} (hc : Sound P c)
    (h : c.peek k = some v) : P k v := by
  have := (sound_get (k := k) hc).2 v
  apply this
  unfold Lru.peek at h; unfold Lru.get
  cases hf : c.items.find? (fun p => p.1 = k) with
  | none => simp [hf] at h
  | some p => simp [hf] at h; simp [h]

/-- the capacity bound holds after every `put` (so transparency is not bought with unbounded memory) -/
theorem put_length_le (c : Lru κ ν) (k : κ) (v : ν) : (c.put k v).items.length ≤ c.cap := by
  simp only [Lru.put, List.length_take]; omega

/-- a `put` is immediately visible for every capacity ≥ 1 -/
theorem get_put_self (c : Lru κ ν) (k : κ) (v : ν) (hcap : 1 ≤ c.cap) :
    ((c.put k v).get k).1 = some v := by
  obtain ⟨n, hn⟩ : ∃ n, c.cap = n + 1 := ⟨c.cap - 1, by omega⟩
  simp [Lru.put, Lru.get, hn, List.take_succ_cons]

end LruSound

example : Sound (fun (k v : Nat) => v = k + 1) (((Lru.empty 1).put 3 4).put 5 6) := by
  exact sound_put (P := fun (k v : Nat) => v = k + 1)
    (sound_put (P := fun (k v : Nat) => v = k + 1) (sound_empty _ _) rfl) rfl

end Melda.Props.C16

/-! axiom audit -/
section Audit
open Melda.Props.C16
#print axioms numJ_asNat
#print axioms applyDiffPatch_patchOfMoves
#print axioms moves_invariant
#print axioms moves_invariant_apply
#print axioms moves_invariant_fresh
#print axioms unfilled_roundtrip
#print axioms middleSnake_inArea
#print axioms patch_roundtrip
#print axioms makeDiffPatch_roundtrip
#print axioms needs_middleInArea
#print axioms sound_empty
#print axioms sound_put
#print axioms sound_get
#print axioms sound_peek
#print axioms get_put_self
end Audit
