/-
  Shared theory of the protocol model (`Melda.Protocol`): the declarative notion of a causally
  complete block and the correctness of the status computation (`check_delta`,
  `mark_valid_deltas`) against it. Used by C01, C02, C09, C10, C13, C14.
-/
import Melda.Protocol
namespace Melda.Props.Proto
open Melda PState

abbrev Ds := List (Block × Status)

/-- A block is **causally complete** w.r.t. a view of storage and an object index: the block itself
    is present and passes the hash gate and the parser, every parent is complete, every pack it names
    is present and valid, and every revision (and parent revision) of its changes has a readable object. -/
inductive Complete (v : View) (objs : List Str) : BlockId → Prop
  | mk (id : BlockId) (b : Block) :
      id ∈ v.blockIds → v.fetch id = some b →
      (∀ p ∈ b.parents, Complete v objs p) →
      (b.packs.all (fun k => (v.loadPack k).isSome) = true) →
      (changesReadable objs b.changes = true) →
      Complete v objs id

/-- the view hands out blocks under their own identifier, and parents have smaller indices
    (`load_raw_delta` enforces `index = 1 + max parent index`) -/
structure ViewOK (v : View) : Prop where
  fetch_id : ∀ id b, v.fetch id = some b → b.id = id
  parent_lt : ∀ id b, v.fetch id = some b → ∀ p ∈ b.parents, p.index < id.index

def statusOf (ds : Ds) (id : BlockId) : Option Status := (findDelta ds id).map (·.2)

/-- the delta map holds exactly what the view hands out, once per identifier -/
structure DsOK (v : View) (ds : Ds) : Prop where
  fetched : ∀ p ∈ ds, v.fetch p.1.id = some p.1 ∧ p.1.id ∈ v.blockIds
  nodup : (ds.map (·.1.id)).Nodup
  closed : ∀ id b, id ∈ v.blockIds → v.fetch id = some b → ∃ p ∈ ds, p.1.id = id

/-- statuses never lie -/
def StatusOK (v : View) (objs : List Str) (ds : Ds) : Prop :=
  ∀ p ∈ ds, ((p.2 = .ready ∨ p.2 = .applied) → Complete v objs p.1.id) ∧ (p.2 = .blocked → ¬ Complete v objs p.1.id)

/-! ### list lemmas about `findDelta` / `setStatus` -/

theorem findDelta_some {ds : Ds} {id : BlockId} {p : Block × Status} (h : findDelta ds id = some p) :
    p ∈ ds ∧ p.1.id = id := by
  unfold findDelta at h
  have := List.find?_some h
  exact ⟨List.mem_of_find?_eq_some h, by simpa using this⟩

theorem findDelta_none {ds : Ds} {id : BlockId} (h : findDelta ds id = none) : ∀ p ∈ ds, p.1.id ≠ id := by
  unfold findDelta at h
  intro p hp e
  have := List.find?_eq_none.mp h p hp
  simp [e] at this

theorem findDelta_of_mem {ds : Ds} (hn : (ds.map (·.1.id)).Nodup) {p : Block × Status} (hp : p ∈ ds) :
    findDelta ds p.1.id = some p := by
  induction ds with
  | nil => cases hp
  | cons q qs ih =>
    simp only [List.map_cons, List.nodup_cons] at hn
    rcases List.mem_cons.mp hp with rfl | hp'
    · simp [findDelta]
    · have hne : q.1.id ≠ p.1.id := by
        intro e; exact hn.1 (e ▸ List.mem_map_of_mem (f := fun x => x.1.id) hp')
      have := ih hn.2 hp'
      simp only [findDelta] at this ⊢
      simp [List.find?_cons, hne, this]

theorem map_fst_setStatus (ds : Ds) (id : BlockId) (s : Status) :
    (setStatus ds id s).map (·.1) = ds.map (·.1) := by
  unfold setStatus
  induction ds with
  | nil => rfl
  | cons p ps ih => simp only [List.map_cons]; split <;> simp_all

theorem map_id_setStatus (ds : Ds) (id : BlockId) (s : Status) :
    (setStatus ds id s).map (·.1.id) = ds.map (·.1.id) := by
  unfold setStatus
  induction ds with
  | nil => rfl
  | cons p ps ih => simp only [List.map_cons]; split <;> simp_all

theorem mem_setStatus {ds : Ds} {id : BlockId} {s : Status} {q : Block × Status} :
    q ∈ setStatus ds id s ↔ ∃ p ∈ ds, q = (if p.1.id = id then (p.1, s) else p) := by
  unfold setStatus
  simp only [List.mem_map]
  constructor
  · rintro ⟨a, h, rfl⟩; exact ⟨a, h, rfl⟩
  · rintro ⟨a, h, rfl⟩; exact ⟨a, h, rfl⟩

theorem statusOf_setStatus_self {ds : Ds} (hn : (ds.map (·.1.id)).Nodup) {id : BlockId} {s : Status}
    (h : (findDelta ds id).isSome) : statusOf (setStatus ds id s) id = some s := by
  obtain ⟨p, hp⟩ := Option.isSome_iff_exists.mp h
  obtain ⟨hmem, hid⟩ := findDelta_some hp
  have hmem' : (p.1, s) ∈ setStatus ds id s := mem_setStatus.mpr ⟨p, hmem, by simp [hid]⟩
  have hn' : ((setStatus ds id s).map (·.1.id)).Nodup := by rw [map_id_setStatus]; exact hn
  have := findDelta_of_mem hn' hmem'
  simp only [hid] at this
  unfold statusOf
  rw [this]; rfl

theorem findDelta_map (ds : Ds) (f : Block × Status → Block × Status) (hf : ∀ p, (f p).1.id = p.1.id) (id : BlockId) :
    findDelta (ds.map f) id = (findDelta ds id).map f := by
  unfold findDelta
  rw [List.find?_map]
  have : ((fun p : Block × Status => decide (p.1.id = id)) ∘ f) = (fun p => decide (p.1.id = id)) := by
    funext p; simp [Function.comp, hf]
  rw [this]

theorem findDelta_setStatus (ds : Ds) (id id2 : BlockId) (s : Status) :
    findDelta (setStatus ds id s) id2 = (findDelta ds id2).map (fun p => if p.1.id = id then (p.1, s) else p) := by
  unfold setStatus
  exact findDelta_map ds _ (fun p => by split <;> rfl) id2

theorem statusOf_setStatus_other {ds : Ds} {id id2 : BlockId} {s : Status} (hne : id2 ≠ id) :
    statusOf (setStatus ds id s) id2 = statusOf ds id2 := by
  unfold statusOf
  rw [findDelta_setStatus]
  cases h : findDelta ds id2 with
  | none => rfl
  | some p =>
    have := (findDelta_some h).2
    simp [this, hne]

/-! ### correctness of `check_delta` -/

def SameBlocks (ds ds' : Ds) : Prop := ds'.map (·.1) = ds.map (·.1)

def Mono (ds ds' : Ds) : Prop :=
  ∀ id st, statusOf ds id = some st → st ≠ .pending → statusOf ds' id = some st

structure Good (v : View) (objs : List Str) (ds : Ds) : Prop where
  ok : DsOK v ds
  st : StatusOK v objs ds

theorem SameBlocks.refl (ds : Ds) : SameBlocks ds ds := rfl
theorem SameBlocks.trans {a b c : Ds} (h1 : SameBlocks a b) (h2 : SameBlocks b c) : SameBlocks a c := by
  unfold SameBlocks at *; rw [h2, h1]
theorem Mono.refl (ds : Ds) : Mono ds ds := fun _ _ h _ => h
theorem Mono.trans {a b c : Ds} (h1 : Mono a b) (h2 : Mono b c) : Mono a c :=
  fun id st h hn => h2 id st (h1 id st h hn) hn

theorem sameBlocks_setStatus (ds : Ds) (id : BlockId) (s : Status) : SameBlocks ds (setStatus ds id s) :=
  map_fst_setStatus ds id s

theorem ids_of_same {ds ds' : Ds} (h : SameBlocks ds ds') : ds'.map (·.1.id) = ds.map (·.1.id) := by
  have := congrArg (List.map (fun b : Block => b.id)) h
  rw [List.map_map, List.map_map] at this
  exact this

theorem DsOK.of_same {v : View} {ds ds' : Ds} (h : DsOK v ds) (hs : SameBlocks ds ds') : DsOK v ds' := by
  have hmem : ∀ b : Block, (∃ p ∈ ds', p.1 = b) ↔ (∃ p ∈ ds, p.1 = b) := by
    intro b
    have h1 : b ∈ ds'.map (·.1) ↔ b ∈ ds.map (·.1) := by rw [hs]
    simpa [List.mem_map] using h1
  refine ⟨?_, ?_, ?_⟩
  · intro p hp
    obtain ⟨q, hq, hqe⟩ := (hmem p.1).mp ⟨p, hp, rfl⟩
    have := h.fetched q hq
    rw [hqe] at this; exact this
  · rw [ids_of_same hs]; exact h.nodup
  · intro id b hid hf
    obtain ⟨q, hq, hqe⟩ := h.closed id b hid hf
    obtain ⟨p, hp, hpe⟩ := (hmem q.1).mpr ⟨q, hq, rfl⟩
    exact ⟨p, hp, by rw [hpe]; exact hqe⟩

theorem findDelta_isSome_iff_mem_ids (ds : Ds) (id : BlockId) :
    (findDelta ds id).isSome ↔ id ∈ ds.map (·.1.id) := by
  constructor
  · intro h
    obtain ⟨p, hp⟩ := Option.isSome_iff_exists.mp h
    obtain ⟨hm, hid⟩ := findDelta_some hp
    exact List.mem_map.mpr ⟨p, hm, hid⟩
  · intro h
    obtain ⟨p, hp, hid⟩ := List.mem_map.mp h
    cases hf : findDelta ds id with
    | some q => rfl
    | none => exact absurd hid (findDelta_none hf p hp)

theorem findDelta_isSome_of_same {ds ds' : Ds} (h : SameBlocks ds ds') (id : BlockId) :
    (findDelta ds' id).isSome = (findDelta ds id).isSome := by
  have := ids_of_same h
  rw [Bool.eq_iff_iff, findDelta_isSome_iff_mem_ids, findDelta_isSome_iff_mem_ids, this]

theorem findDelta_fst_of_same {ds ds' : Ds} (hn : (ds.map (·.1.id)).Nodup) (h : SameBlocks ds ds') {id : BlockId}
    {p p' : Block × Status} (h1 : findDelta ds id = some p) (h2 : findDelta ds' id = some p') : p'.1 = p.1 := by
  obtain ⟨hm, hid⟩ := findDelta_some h1
  obtain ⟨hm', hid'⟩ := findDelta_some h2
  have : p'.1 ∈ ds.map (·.1) := by rw [← h]; exact List.mem_map_of_mem hm'
  obtain ⟨q, hq, hqe⟩ := List.mem_map.mp this
  have hq2 := findDelta_of_mem hn hq
  have : q.1.id = id := by rw [hqe]; exact hid'
  rw [this, h1] at hq2
  cases hq2; exact hqe.symm

/-- what one call of `check_delta` guarantees -/
structure StepOK (v : View) (objs : List Str) (ds : Ds) (id : BlockId) (r : Ds × Status) : Prop where
  good : Good v objs r.1
  same : SameBlocks ds r.1
  mono : Mono ds r.1
  stat : statusOf r.1 id = some r.2
  npend : r.2 ≠ .pending
  iff : (r.2 = .ready ∨ r.2 = .applied) ↔ Complete v objs id

def ChkSpec (v : View) (objs : List Str) (chk : Ds → BlockId → Ds × Status) (n : Nat) : Prop :=
  ∀ ds id, Good v objs ds → id.index < n → (findDelta ds id).isSome → StepOK v objs ds id (chk ds id)

theorem not_complete_of_absent {v : View} {objs : List Str} {ds : Ds} (h : DsOK v ds) {id : BlockId}
    (hn : findDelta ds id = none) : ¬ Complete v objs id := by
  intro hc
  cases hc with
  | mk _ b hid hf _ _ _ =>
    obtain ⟨p, hp, hpe⟩ := h.closed id b hid hf
    exact findDelta_none hn p hp hpe

theorem checkParents_spec {v : View} {objs : List Str} {chk : Ds → BlockId → Ds × Status} {n : Nat}
    (hc : ChkSpec v objs chk n) (ps : List BlockId) (ds : Ds) (hg : Good v objs ds) (hi : ∀ p ∈ ps, p.index < n) :
    Good v objs (checkParentsWith chk ds ps).1 ∧ SameBlocks ds (checkParentsWith chk ds ps).1 ∧
    Mono ds (checkParentsWith chk ds ps).1 ∧
    ((checkParentsWith chk ds ps).2 = true ↔ ∀ p ∈ ps, Complete v objs p) := by
  induction ps generalizing ds with
  | nil => simp [checkParentsWith, hg, SameBlocks.refl, Mono.refl]
  | cons p ps ih =>
    simp only [checkParentsWith]
    cases hf : findDelta ds p with
    | none =>
      refine ⟨hg, SameBlocks.refl _, Mono.refl _, ?_⟩
      simp only [Bool.false_eq_true, false_iff]
      intro hall
      exact not_complete_of_absent hg.ok hf (hall p (by simp))
    | some q =>
      have hs := hc ds p hg (hi p (by simp)) (by simp [hf])
      simp only
      split
      · next hready =>
        have hcp : Complete v objs p := hs.iff.mp hready
        obtain ⟨g, sm, mo, iff⟩ := ih (chk ds p).1 hs.good (fun x hx => hi x (List.mem_cons_of_mem _ hx))
        refine ⟨g, hs.same.trans sm, hs.mono.trans mo, ?_⟩
        rw [iff]
        constructor
        · intro h x hx
          rcases List.mem_cons.mp hx with rfl | hx
          · exact hcp
          · exact h x hx
        · intro h x hx; exact h x (List.mem_cons_of_mem _ hx)
      · next hnot =>
        refine ⟨hs.good, hs.same, hs.mono, ?_⟩
        simp only [Bool.false_eq_true, false_iff]
        intro hall
        exact hnot (hs.iff.mpr (hall p (by simp)))

theorem complete_iff {v : View} {objs : List Str} {id : BlockId} {b : Block} (hid : id ∈ v.blockIds)
    (hf : v.fetch id = some b) :
    Complete v objs id ↔ ((∀ p ∈ b.parents, Complete v objs p) ∧ b.packs.all (fun k => (v.loadPack k).isSome) = true ∧
      changesReadable objs b.changes = true) := by
  constructor
  · intro h
    cases h with
    | mk _ b' _ hf' hp hk hc =>
      rw [hf] at hf'; cases hf'
      exact ⟨hp, hk, hc⟩
  · rintro ⟨hp, hk, hc⟩
    exact Complete.mk id b hid hf hp hk hc

theorem good_setStatus {v : View} {objs : List Str} {ds : Ds} (hg : Good v objs ds) (id : BlockId) (s : Status)
    (hs : (s = .ready ∨ s = .applied) → Complete v objs id) (hb : s = .blocked → ¬ Complete v objs id) :
    Good v objs (setStatus ds id s) := by
  refine ⟨hg.ok.of_same (sameBlocks_setStatus ds id s), ?_⟩
  intro q hq
  obtain ⟨p, hp, rfl⟩ := mem_setStatus.mp hq
  split
  · next h => simp only; rw [h]; exact ⟨hs, hb⟩
  · exact hg.st p hp

theorem mono_setStatus_pending {ds : Ds} {id : BlockId} (hp : statusOf ds id = some .pending) (s : Status) :
    Mono ds (setStatus ds id s) := by
  intro id2 st h hn
  by_cases e : id2 = id
  · subst e; rw [hp] at h; cases h; exact absurd rfl hn
  · rw [statusOf_setStatus_other e]; exact h

/-- **`check_delta` computes causal completeness**, for every block whose index is below the fuel. -/
theorem checkDelta_spec {v : View} (hv : ViewOK v) (objs : List Str) (fuel : Nat) :
    ChkSpec v objs (checkDelta v objs fuel) fuel := by
  induction fuel with
  | zero => intro ds id _ hi _; exact absurd hi (Nat.not_lt_zero _)
  | succ fuel ih =>
    intro ds id hg hi hsome
    obtain ⟨q, hq⟩ := Option.isSome_iff_exists.mp hsome
    obtain ⟨hqm, hqid⟩ := findDelta_some hq
    obtain ⟨b, st⟩ := q
    simp only at hqid
    have hfetch := (hg.ok.fetched (b, st) hqm)
    simp only [hqid] at hfetch
    simp only [checkDelta, hq]
    have hstat : statusOf ds id = some st := by unfold statusOf; rw [hq]; rfl
    by_cases hpend : st = .pending
    · subst hpend
      simp only [ne_eq, not_true_eq_false, if_false]
      have hpl : ∀ p ∈ b.parents, p.index < fuel := by
        intro p hp
        have := hv.parent_lt id b hfetch.1 p hp
        omega
      obtain ⟨g, sm, mo, iff⟩ := checkParents_spec ih b.parents ds hg hpl
      have hsome' : (findDelta (checkParentsWith (checkDelta v objs fuel) ds b.parents).1 id).isSome := by
        rw [findDelta_isSome_of_same sm]; exact hsome
      have hnd := g.ok.nodup
      have hci := complete_iff (objs := objs) hfetch.2 hfetch.1
      have hpen' : statusOf (checkParentsWith (checkDelta v objs fuel) ds b.parents).1 id = some .pending ∨
          ∃ s, statusOf (checkParentsWith (checkDelta v objs fuel) ds b.parents).1 id = some s := by
        right
        obtain ⟨p', hp'⟩ := Option.isSome_iff_exists.mp hsome'
        exact ⟨p'.2, by unfold statusOf; rw [hp']; rfl⟩
      -- the four outcomes
      have mkBlocked : ¬ Complete v objs id →
          StepOK v objs ds id (setStatus (checkParentsWith (checkDelta v objs fuel) ds b.parents).1 id .blocked, .blocked) := by
        intro hnc
        refine ⟨good_setStatus g id .blocked (by intro h; rcases h with h | h <;> cases h) (fun _ => hnc),
          sm.trans (sameBlocks_setStatus _ _ _), ?_, statusOf_setStatus_self hnd hsome', by simp, ?_⟩
        · intro id2 s2 h hn
          by_cases e : id2 = id
          · subst e; rw [hstat] at h; cases h; exact absurd rfl hn
          · rw [statusOf_setStatus_other e]; exact mo id2 s2 h hn
        · constructor
          · intro h; rcases h with h | h <;> cases h
          · intro h; exact absurd h hnc
      split
      · next hno =>
        apply mkBlocked
        intro hc
        have := (hci.mp hc).1
        have := iff.mpr this
        simp [this] at hno
      · split
        · next _ hno =>
          apply mkBlocked
          intro hc
          have := (hci.mp hc).2.1
          simp [this] at hno
        · split
          · next _ _ hno =>
            apply mkBlocked
            intro hc
            have := (hci.mp hc).2.2
            simp [this] at hno
          · next h1 h2 h3 =>
            have hc : Complete v objs id := by
              apply hci.mpr
              refine ⟨iff.mp (by simpa using h1), ?_, by simpa using h3⟩
              revert h2; cases b.packs.all (fun k => (v.loadPack k).isSome) <;> simp
            refine ⟨good_setStatus g id .ready (fun _ => hc) (by intro h; cases h),
              sm.trans (sameBlocks_setStatus _ _ _), ?_, statusOf_setStatus_self hnd hsome', by simp, ?_⟩
            · intro id2 s2 h hn
              by_cases e : id2 = id
              · subst e; rw [hstat] at h; cases h; exact absurd rfl hn
              · rw [statusOf_setStatus_other e]; exact mo id2 s2 h hn
            · exact ⟨fun _ => hc, fun _ => Or.inl rfl⟩
    · simp only [ne_eq, hpend, not_false_eq_true, if_true]
      refine ⟨hg, SameBlocks.refl _, Mono.refl _, hstat, hpend, ?_⟩
      have := hg.st (b, st) hqm
      simp only [hqid] at this
      constructor
      · exact this.1
      · intro hc
        cases st with
        | pending => exact absurd rfl hpend
        | ready => exact Or.inl rfl
        | applied => exact Or.inr rfl
        | blocked => exact absurd hc (this.2 rfl)

/-! ### `mark_valid_deltas` -/

def mvStep (v : View) (objs : List Str) (fuel : Nat) (acc : Ds) (id : BlockId) : Ds :=
  match findDelta acc id with
  | some (_, .pending) => (checkDelta v objs fuel acc id).1
  | _ => acc

theorem markValid_eq (v : View) (objs : List Str) (fuel : Nat) (ds : Ds) :
    markValid v objs fuel ds = (ds.map (·.1.id)).foldl (mvStep v objs fuel) ds := rfl

theorem mvStep_spec {v : View} (hv : ViewOK v) (objs : List Str) (fuel : Nat) (acc : Ds) (id : BlockId)
    (hg : Good v objs acc) (hi : id.index < fuel) :
    Good v objs (mvStep v objs fuel acc id) ∧ SameBlocks acc (mvStep v objs fuel acc id) ∧
    Mono acc (mvStep v objs fuel acc id) ∧
    ((findDelta acc id).isSome → ∃ s, statusOf (mvStep v objs fuel acc id) id = some s ∧ s ≠ .pending) := by
  unfold mvStep
  cases hf : findDelta acc id with
  | none => exact ⟨hg, SameBlocks.refl _, Mono.refl _, by simp⟩
  | some q =>
    obtain ⟨b, st⟩ := q
    cases st with
    | pending =>
      have hs := checkDelta_spec hv objs fuel acc id hg hi (by simp [hf])
      exact ⟨hs.good, hs.same, hs.mono, fun _ => ⟨_, hs.stat, hs.npend⟩⟩
    | ready => exact ⟨hg, SameBlocks.refl _, Mono.refl _, fun _ => ⟨.ready, by unfold statusOf; rw [hf]; rfl, by simp⟩⟩
    | applied => exact ⟨hg, SameBlocks.refl _, Mono.refl _, fun _ => ⟨.applied, by unfold statusOf; rw [hf]; rfl, by simp⟩⟩
    | blocked => exact ⟨hg, SameBlocks.refl _, Mono.refl _, fun _ => ⟨.blocked, by unfold statusOf; rw [hf]; rfl, by simp⟩⟩

theorem foldl_mvStep_spec {v : View} (hv : ViewOK v) (objs : List Str) (fuel : Nat) (ids : List BlockId) (acc : Ds)
    (hg : Good v objs acc) (hi : ∀ id ∈ ids, id.index < fuel) :
    Good v objs (ids.foldl (mvStep v objs fuel) acc) ∧ SameBlocks acc (ids.foldl (mvStep v objs fuel) acc) ∧
    Mono acc (ids.foldl (mvStep v objs fuel) acc) ∧
    (∀ id ∈ ids, (findDelta acc id).isSome → ∃ s, statusOf (ids.foldl (mvStep v objs fuel) acc) id = some s ∧ s ≠ .pending) := by
  induction ids generalizing acc with
  | nil => exact ⟨hg, SameBlocks.refl _, Mono.refl _, by simp⟩
  | cons id ids ih =>
    simp only [List.foldl_cons]
    obtain ⟨g1, s1, m1, d1⟩ := mvStep_spec hv objs fuel acc id hg (hi id (by simp))
    obtain ⟨g2, s2, m2, d2⟩ := ih (mvStep v objs fuel acc id) g1 (fun x hx => hi x (List.mem_cons_of_mem _ hx))
    refine ⟨g2, s1.trans s2, m1.trans m2, ?_⟩
    intro x hx hsome
    rcases List.mem_cons.mp hx with rfl | hx
    · obtain ⟨s, hs, hn⟩ := d1 hsome
      exact ⟨s, m2 _ _ hs hn, hn⟩
    · exact d2 x hx (by rw [findDelta_isSome_of_same s1]; exact hsome)

theorem statusOf_of_mem {ds : Ds} (hn : (ds.map (·.1.id)).Nodup) {p : Block × Status} (hp : p ∈ ds) :
    statusOf ds p.1.id = some p.2 := by
  unfold statusOf; rw [findDelta_of_mem hn hp]; rfl

/-- after `mark_valid_deltas` no block is pending and every status tells the truth -/
theorem markValid_spec {v : View} (hv : ViewOK v) (objs : List Str) (fuel : Nat) (ds : Ds)
    (hg : Good v objs ds) (hi : ∀ p ∈ ds, p.1.id.index < fuel) :
    Good v objs (markValid v objs fuel ds) ∧ SameBlocks ds (markValid v objs fuel ds) ∧ Mono ds (markValid v objs fuel ds) ∧
    (∀ p ∈ markValid v objs fuel ds, p.2 ≠ .pending) := by
  rw [markValid_eq]
  obtain ⟨g, sm, mo, dn⟩ := foldl_mvStep_spec hv objs fuel (ds.map (·.1.id)) ds hg
    (by intro id hid; obtain ⟨p, hp, rfl⟩ := List.mem_map.mp hid; exact hi p hp)
  refine ⟨g, sm, mo, ?_⟩
  intro p hp hpen
  have hid : p.1.id ∈ ds.map (·.1.id) := by
    rw [← ids_of_same sm]; exact List.mem_map_of_mem (f := fun x : Block × Status => x.1.id) hp
  obtain ⟨s, hs, hne⟩ := dn p.1.id hid ((findDelta_isSome_iff_mem_ids ds p.1.id).mpr hid)
  rw [statusOf_of_mem g.ok.nodup hp] at hs
  cases hs; exact hne hpen

/-! ### growth of storage -/

/-- `v'` shows at least what `v` shows (storage is append-only and items are immutable) -/
structure View.le (v v' : View) : Prop where
  ids : ∀ id ∈ v.blockIds, id ∈ v'.blockIds
  fetch : ∀ id b, v.fetch id = some b → v'.fetch id = some b
  packs : ∀ k l, v.loadPack k = some l → v'.loadPack k = some l

theorem readable_mono {objs objs' : List Str} (h : ∀ d ∈ objs, d ∈ objs') (r : Rev) :
    readable objs r = true → readable objs' r = true := by
  unfold readable
  simp only [Bool.or_eq_true, List.contains_iff_mem]
  rintro (h1 | h1)
  · exact Or.inl h1
  · exact Or.inr (h _ h1)

theorem changesReadable_mono {objs objs' : List Str} (h : ∀ d ∈ objs, d ∈ objs') (cs : List Change) :
    changesReadable objs cs = true → changesReadable objs' cs = true := by
  unfold changesReadable
  simp only [List.all_eq_true, Bool.and_eq_true]
  intro hall c hc
  obtain ⟨h1, h2⟩ := hall c hc
  refine ⟨readable_mono h _ h1, ?_⟩
  cases hp : c.parent with
  | none => rfl
  | some p => rw [hp] at h2; exact readable_mono h _ h2

/-- **Completeness is monotone**: once complete, complete for ever (stores only grow). -/
theorem Complete.mono {v v' : View} {objs objs' : List Str} (hle : View.le v v') (ho : ∀ d ∈ objs, d ∈ objs')
    {id : BlockId} (h : Complete v objs id) : Complete v' objs' id := by
  induction h with
  | mk id b hid hf _ hk hc ih =>
    refine Complete.mk id b (hle.ids id hid) (hle.fetch id b hf) ih ?_ (changesReadable_mono ho _ hc)
    simp only [List.all_eq_true] at hk ⊢
    intro k hk'
    have := hk k hk'
    obtain ⟨l, hl⟩ := Option.isSome_iff_exists.mp this
    rw [hle.packs k l hl]; rfl

/-- every ancestor of a complete block is complete -/
theorem Complete.parents {v : View} {objs : List Str} {id : BlockId} (h : Complete v objs id) :
    ∀ b, v.fetch id = some b → ∀ p ∈ b.parents, Complete v objs p := by
  cases h with
  | mk _ b' _ hf hp _ _ =>
    intro b hb p hpm
    rw [hf] at hb; cases hb
    exact hp p hpm

end Melda.Props.Proto
