/-
  C04 (flatten / unflatten half) — reading returns exactly the document last submitted, with only
  the identifier field added to each tracked object.

  Main results (all for every document, every hash function `H`, unbounded):
  * `flatten_ok`            : `WFDoc d → ∃ c root, flatten H [] d [] = .ok (c, .str root)`
  * `unflatten_flatten`     : `WFDoc d → NoBangIds d → DescIdsDistinct d → flatten … = .ok (c, .str root) →`
                              the root object is in `withIds c` and `unflatten` of it (any fuel ≥ some n)
                              returns `addIds d` — any nesting depth of flattened arrays / objects.
  * `read_flatten_fuel`     : the same with the model's own `unflattenFuel` (`readPool`).
  * `unflatten_fuel_enough` : `unflattenFuel c v ≤ f → unflatten f c v ≠ .fuel` for EVERY pool and value.
  * `unflatten_mono`        : more fuel never changes a finished result.
  * `bang_id_counterexample`            : D6 (identifier starting with `!` under a flattened non-array key).
  * `desc_id_collision_counterexample`  : NEW: descriptor ids `^uuid@key` are ambiguous
                              (`"a" @ "b@c♭"` = `"a@b" @ "c♭"`); hence the hypothesis `DescIdsDistinct`.
  Restriction (allowed by the task): below the root every tracked object carries an explicit string
  `_id` (`WFDoc`), so hash-generated identifiers do not occur.
-/
import Melda.Flatten
namespace Melda.Props.C04
open Melda

/-! ### `strLt` is a strict total order -/

theorem strLt_irrefl : ∀ a : Str, strLt a a = false
  | [] => rfl
  | c :: t => by simp [strLt, strLt_irrefl t]

theorem char_eq_of_not_lt {a b : Char} (h1 : ¬ a.val < b.val) (h2 : ¬ b.val < a.val) : a = b := by
  apply Char.ext
  apply UInt32.toNat_inj.mp
  rw [UInt32.lt_iff_toNat_lt] at h1 h2
  omega

theorem strLt_trans : ∀ a b c : Str, strLt a b = true → strLt b c = true → strLt a c = true
  | [], [], _, h, _ => by simp [strLt] at h
  | [], _ :: _, [], _, h => by simp [strLt] at h
  | [], _ :: _, _ :: _, _, _ => by simp [strLt]
  | _ :: _, [], _, h, _ => by simp [strLt] at h
  | _ :: _, _ :: _, [], _, h => by simp [strLt] at h
  | x :: xs, y :: ys, z :: zs, h1, h2 => by
    have ih := strLt_trans xs ys zs
    simp only [strLt, UInt32.lt_iff_toNat_lt] at h1 h2 ⊢
    generalize x.val.toNat = a at *
    generalize y.val.toNat = b at *
    generalize z.val.toNat = c at *
    split at h1
    · split at h2
      · rw [if_pos (by omega)]
      · split at h2
        · cases h2
        · rw [if_pos (by omega)]
    · split at h1
      · cases h1
      · split at h2
        · rw [if_pos (by omega)]
        · split at h2
          · cases h2
          · rw [if_neg (by omega), if_neg (by omega)]; exact ih h1 h2

theorem strLt_asymm (a b : Str) (h : strLt a b = true) : strLt b a = false := by
  cases h' : strLt b a with
  | false => rfl
  | true => have := strLt_trans a b a h h'; simp [strLt_irrefl] at this

theorem strLt_total : ∀ a b : Str, strLt a b = false → a ≠ b → strLt b a = true
  | [], [], _, h => absurd rfl h
  | [], _ :: _, h, _ => by simp [strLt] at h
  | _ :: _, [], _, _ => by simp [strLt]
  | x :: xs, y :: ys, h1, h2 => by
    simp only [strLt] at h1 ⊢
    by_cases hxy : x.val < y.val
    · simp [hxy] at h1
    · simp only [hxy, if_false] at h1
      by_cases hyx : y.val < x.val
      · simp [hyx]
      · simp only [hyx, hxy, if_false] at h1 ⊢
        have hc : x = y := char_eq_of_not_lt hxy hyx
        subst hc
        exact strLt_total xs ys h1 (fun e => h2 (by rw [e]))


/-! ### `objInsert` / `objGet` / `objRemove` -/

theorem objGet_objInsert_self (k : Str) (v : JVal) : ∀ o : JObj, objGet k (objInsert k v o) = some v
  | [] => by simp [objInsert, objGet]
  | (k', v') :: t => by
    simp only [objInsert]
    split
    · simp [objGet]
    · next hne =>
      split
      · simp [objGet]
      · simp [objGet, hne, objGet_objInsert_self k v t]

theorem objGet_objInsert_other (k k2 : Str) (v : JVal) (hne : k2 ≠ k) :
    ∀ o : JObj, objGet k2 (objInsert k v o) = objGet k2 o
  | [] => by simp [objInsert, objGet, hne]
  | (k', v') :: t => by
    simp only [objInsert]
    split
    · next h => subst h; simp [objGet, hne]
    · split
      · simp [objGet, hne]
      · simp only [objGet]; rw [objGet_objInsert_other k k2 v hne t]

theorem objGet_filter (f : Str → Bool) (k : Str) : ∀ o : JObj,
    objGet k (o.filter (fun p => f p.1)) = if f k then objGet k o else none
  | [] => by simp [objGet]
  | (k', v') :: t => by
    have ih := objGet_filter f k t
    by_cases e : k = k'
    · subst e
      cases hf : f k <;> simp [hf, objGet, ih]
    · cases hf : f k' <;> simp [hf, objGet, ih, e]

theorem objGet_objRemove_self (k : Str) (o : JObj) : objGet k (objRemove k o) = none := by
  have := objGet_filter (fun x => decide (x ≠ k)) k o
  simpa [objRemove] using this

theorem objGet_objRemove_other (k k2 : Str) (hne : k2 ≠ k) (o : JObj) :
    objGet k2 (objRemove k o) = objGet k2 o := by
  have := objGet_filter (fun x => decide (x ≠ k)) k2 o
  simpa [objRemove, hne] using this

/-- keys strictly increasing (what `objInsert` maintains; `BTreeMap` iteration order) -/
def SortedKeys (o : JObj) : Prop := o.Pairwise (fun p q => strLt p.1 q.1 = true)

def sortedKeysB : JObj → Bool
  | [] => true
  | (k, _) :: t => t.all (fun q => strLt k q.1) && sortedKeysB t

theorem sortedKeysB_iff : ∀ o : JObj, sortedKeysB o = true ↔ SortedKeys o
  | [] => by simp [sortedKeysB, SortedKeys]
  | (k, v) :: t => by
    have ih := sortedKeysB_iff t
    simp only [SortedKeys] at ih ⊢
    simp [sortedKeysB, ih]

instance (o : JObj) : Decidable (SortedKeys o) := decidable_of_iff _ (sortedKeysB_iff o)

theorem mem_objInsert {k : Str} {v : JVal} : ∀ {o : JObj} {p : Str × JVal}, p ∈ objInsert k v o → p = (k, v) ∨ p ∈ o
  | [], p, h => by simp [objInsert] at h; exact Or.inl h
  | (k', v') :: t, p, h => by
    simp only [objInsert] at h
    split at h
    · rcases List.mem_cons.mp h with h | h
      · exact Or.inl h
      · exact Or.inr (List.mem_cons_of_mem _ h)
    · split at h
      · rcases List.mem_cons.mp h with h | h
        · exact Or.inl h
        · exact Or.inr h
      · rcases List.mem_cons.mp h with h | h
        · exact Or.inr (h ▸ List.mem_cons_self)
        · rcases mem_objInsert h with h | h
          · exact Or.inl h
          · exact Or.inr (List.mem_cons_of_mem _ h)

/-- `objInsert` keeps the keys sorted -/
theorem sortedKeys_objInsert (k : Str) (v : JVal) : ∀ o : JObj, SortedKeys o → SortedKeys (objInsert k v o)
  | [], _ => by simp [objInsert, SortedKeys]
  | (k', v') :: t, h => by
    have ht : SortedKeys t := (List.pairwise_cons.mp h).2
    have hk' : ∀ q ∈ t, strLt k' q.1 = true := (List.pairwise_cons.mp h).1
    simp only [objInsert]
    split
    · next e => subst e; exact List.pairwise_cons.mpr ⟨hk', ht⟩
    · next hne =>
      split
      · next hlt =>
        refine List.pairwise_cons.mpr ⟨?_, h⟩
        intro q hq
        rcases List.mem_cons.mp hq with rfl | hq
        · exact hlt
        · exact strLt_trans _ _ _ hlt (hk' q hq)
      · next hnlt =>
        refine List.pairwise_cons.mpr ⟨?_, sortedKeys_objInsert k v t ht⟩
        intro q hq
        rcases mem_objInsert hq with rfl | hq
        · exact strLt_total k k' (by simpa using hnlt) hne
        · exact hk' q hq

/-- inserting a key larger than all present keys appends -/
theorem objInsert_append_of_lt (k : Str) (v : JVal) : ∀ o : JObj, (∀ q ∈ o, strLt q.1 k = true) →
    objInsert k v o = o ++ [(k, v)]
  | [], _ => rfl
  | (k', v') :: t, h => by
    have h1 : strLt k' k = true := h (k', v') List.mem_cons_self
    have hne : ¬ k = k' := fun e => by rw [e, strLt_irrefl] at h1; cases h1
    have hnlt : strLt k k' = false := strLt_asymm _ _ h1
    simp [objInsert, hne, hnlt, objInsert_append_of_lt k v t (fun q hq => h q (List.mem_cons_of_mem _ hq))]

theorem foldl_objInsert_sorted : ∀ (l acc : JObj), SortedKeys (acc ++ l) →
    l.foldl (fun acc p => objInsert p.1 p.2 acc) acc = acc ++ l
  | [], acc, _ => by simp
  | (k, v) :: t, acc, h => by
    simp only [List.foldl_cons]
    have hlt : ∀ q ∈ acc, strLt q.1 k = true := by
      intro q hq
      exact (List.pairwise_append.mp h).2.2 q hq (k, v) List.mem_cons_self
    rw [objInsert_append_of_lt k v acc hlt]
    have : SortedKeys ((acc ++ [(k, v)]) ++ t) := by simpa using h
    rw [foldl_objInsert_sorted t _ this]; simp

/-- `collect::<Map>()` of an already sorted duplicate-free sequence is that sequence -/
theorem objOfList_sorted (l : JObj) (h : SortedKeys l) : objOfList l = l := by
  unfold objOfList
  have := foldl_objInsert_sorted l [] (by simpa using h)
  simpa using this

theorem filter_ne_eq_self_of_lt (k : Str) (t : JObj) (h : ∀ q ∈ t, strLt k q.1 = true) :
    t.filter (fun p => p.1 ≠ k) = t := by
  apply List.filter_eq_self.mpr
  intro q hq
  have := h q hq
  simp only [ne_eq, decide_not, Bool.not_eq_eq_eq_not, Bool.not_true, decide_eq_false_iff_not]
  intro e; rw [e, strLt_irrefl] at this; cases this

/-- re-inserting a key after removing it (on a sorted object) is a plain insert -/
theorem objInsert_objRemove (k : Str) (v : JVal) : ∀ o : JObj, SortedKeys o →
    objInsert k v (objRemove k o) = objInsert k v o
  | [], _ => rfl
  | (k', v') :: t, h => by
    have ht : SortedKeys t := (List.pairwise_cons.mp h).2
    have hk' : ∀ q ∈ t, strLt k' q.1 = true := (List.pairwise_cons.mp h).1
    have ih := objInsert_objRemove k v t ht
    unfold objRemove at ih ⊢
    by_cases e : k' = k
    · subst e
      simp only [List.filter_cons, ne_eq, not_true_eq_false, decide_false, Bool.false_eq_true, if_false]
      rw [filter_ne_eq_self_of_lt k' t hk']
      simp only [objInsert, if_true]
      cases t with
      | nil => rfl
      | cons q t' =>
        obtain ⟨kq, vq⟩ := q
        have hlt : strLt k' kq = true := hk' (kq, vq) List.mem_cons_self
        have hne : ¬ k' = kq := fun e => by rw [e, strLt_irrefl] at hlt; cases hlt
        simp [objInsert, hne, hlt]
    · have e' : ¬ k = k' := fun x => e x.symm
      simp only [List.filter_cons, ne_eq, e, not_false_eq_true, decide_true, if_true, objInsert, e', if_false]
      split
      · next hlt =>
        have : t.filter (fun p => p.1 ≠ k) = t :=
          filter_ne_eq_self_of_lt k t (fun q hq => strLt_trans _ _ _ hlt (hk' q hq))
        simp only [ne_eq] at this
        rw [this]
      · rw [ih]


/-! ### The specification: `withIds`, `addIds` -/

/-- what `read` does to every pool object: insert `"_id": uuid` -/
def addId (k : Str) : JVal → JVal
  | .obj o => .obj (objInsert ID_FIELD (.str k) o)
  | v => v

/-- the pool as `read` sees it -/
def withIds (c : JObj) : JObj := c.map (fun p => (p.1, addId p.1 p.2))

/-- the identifier `flatten` gives to an object with an explicit string `_id` (else: the root's) -/
def objId (o : JObj) : Str :=
  match objGet ID_FIELD o with
  | some (.str s) => s
  | _ => ROOT_ID

def hasStrId (o : JObj) : Bool :=
  match objGet ID_FIELD o with
  | some (.str _) => true
  | _ => false

mutual
/-- expected output for a value under a flattened key: objects keep (= get re-inserted) their own
    `_id`, descent only through flattened keys, arrays elementwise -/
def addIdsV : JVal → JVal
  | .obj o =>
    match objGet ID_FIELD o with
    | some (.str s) => .obj (objInsert ID_FIELD (.str s) (addIdsF o))
    | _ => .obj (addIdsF o)
  | .arr l => .arr (addIdsL l)
  | v => v
def addIdsL : List JVal → List JVal
  | [] => []
  | v :: t => addIdsV v :: addIdsL t
def addIdsF : JObj → JObj
  | [] => []
  | (k, v) :: t => (k, if isFlattenedField k then addIdsV v else v) :: addIdsF t
end

/-- the expected result of `read` after `update d`: the root gets `ROOT_ID` unless it has its own -/
def addIds : JVal → JVal
  | .obj o => .obj (objInsert ID_FIELD (.str (objId o)) (addIdsF o))
  | v => v

/-! ### A pool-free description of `flatten` -/

def descId (uuid k : Str) : Str := '^' :: (uuid ++ '@' :: k)

mutual
/-- the value `flatten` returns -/
def flatV : JVal → JVal
  | .str s => .str (escapeStr s)
  | .arr l => .arr (flatL l)
  | .obj o => .str (objId o)
  | v => v
def flatL : List JVal → List JVal
  | [] => []
  | v :: t => flatV v :: flatL t
end

/-- the value stored under a flattened key -/
def flatField (uuid k : Str) : JVal → JVal
  | .arr _ => .str (descId uuid k)
  | v => flatV v

/-- all fields of the stored object, `_id` included (as if it were kept) -/
def flatF2 (uuid : Str) (o : JObj) : JObj :=
  o.map (fun p => (p.1, if isFlattenedField p.1 then flatField uuid p.1 p.2 else p.2))

/-- the fields of the stored object -/
def flatF (uuid : Str) (o : JObj) : JObj := (flatF2 uuid o).filter (fun p => p.1 ≠ ID_FIELD)

mutual
/-- the pool entries `flatten` inserts, in insertion order -/
def entV : JVal → List (Str × JVal)
  | .obj o => entF (objId o) o ++ [(objId o, .obj (objOfList (flatF (objId o) o)))]
  | .arr l => entL l
  | _ => []
def entL : List JVal → List (Str × JVal)
  | [] => []
  | v :: t => entV v ++ entL t
def entF (uuid : Str) : JObj → List (Str × JVal)
  | [] => []
  | (k, v) :: t =>
    if isFlattenedField k then
      (entV v ++ match v with
        | .arr l => [(descId uuid k, .obj [(ORDER_FIELD, .arr (flatL l))])]
        | _ => []) ++ entF uuid t
    else entF uuid t
end

/-- the entries of one flattened field -/
def entFld (uuid k : Str) (v : JVal) : List (Str × JVal) :=
  entV v ++ match v with
    | .arr l => [(descId uuid k, .obj [(ORDER_FIELD, .arr (flatL l))])]
    | _ => []

def insAll (es : List (Str × JVal)) (c : JObj) : JObj := es.foldl (fun c e => objInsert e.1 e.2 c) c

def keys (es : List (Str × JVal)) : List Str := es.map (·.1)

/-- all pool keys `flatten` creates for the document -/
def poolKeys (d : JVal) : List Str := keys (entV d)
/-- identifiers of the tracked objects (root included) -/
def objIds (d : JVal) : List Str := (poolKeys d).filter (fun k => !isArrayDescriptor k)
/-- identifiers of the array descriptors (`^uuid@key`) -/
def descIds (d : JVal) : List Str := (poolKeys d).filter (fun k => isArrayDescriptor k)

/-! ### Well-formedness -/

def isObjV : JVal → Bool
  | .obj _ => true
  | _ => false

mutual
/-- a value under a flattened key: an object carrying a string `_id` not starting with `^`, with
    sorted keys, recursively well-formed; or an array of such objects; or a scalar -/
def wfV : JVal → Bool
  | .obj o => hasStrId o && !isArrayDescriptor (objId o) && sortedKeysB o && wfF o
  | .arr l => wfL l
  | _ => true
def wfL : List JVal → Bool
  | [] => true
  | v :: t => isObjV v && wfV v && wfL t
def wfF : JObj → Bool
  | [] => true
  | (k, v) :: t => (!isFlattenedField k || wfV v) && wfF t
end

def rootIdOk (o : JObj) : Bool :=
  match objGet ID_FIELD o with
  | none => true
  | some (.str s) => !isArrayDescriptor s
  | some _ => false

/-- C04's well-formed documents (restricted to explicit identifiers below the root) -/
def WFDoc : JVal → Prop
  | .obj o => rootIdOk o = true ∧ SortedKeys o ∧ wfF o = true ∧ (objIds (.obj o)).Nodup
  | _ => False

instance : DecidablePred WFDoc := fun d => by
  cases d <;> unfold WFDoc <;> infer_instance

mutual
/-- D6: no object in *reference position* (directly under a flattened non-array key) has an
    identifier starting with `!` -/
def nbV : JVal → Bool
  | .obj o => ((objId o).head? != some '!') && nbF o
  | .arr l => nbL l
  | _ => true
/-- array elements are not in reference position (`unflatten` looks them up without the `!` test) -/
def nbE : JVal → Bool
  | .obj o => nbF o
  | _ => true
def nbL : List JVal → Bool
  | [] => true
  | v :: t => nbE v && nbL t
def nbF : JObj → Bool
  | [] => true
  | (k, v) :: t => (!isFlattenedField k || nbV v) && nbF t
end

def NoBangIds : JVal → Prop
  | .obj o => nbF o = true
  | _ => True

instance : DecidablePred NoBangIds := fun d => by
  cases d <;> unfold NoBangIds <;> infer_instance

/-- NEW defect found while proving: descriptor identifiers `^uuid@key` are ambiguous
    (`uuid = "a@b", key = "c♭"` and `uuid = "a", key = "b@c♭"`), so they have to be assumed distinct -/
def DescIdsDistinct (d : JVal) : Prop := (descIds d).Nodup

instance : DecidablePred DescIdsDistinct := fun d => by unfold DescIdsDistinct; infer_instance

/-- `read` on a pool: take the root object out of the id-decorated pool (without removing it) and
    unflatten it -/
def readPoolWith (fuel : Nat) (c : JObj) (root : Str) : UnflRes JVal :=
  match objGet root (withIds c) with
  | some ro => unflatten fuel (withIds c) ro
  | none => .panic "root_object_not_found"

/-- the same with the model's own fuel -/
def readPool (c : JObj) (root : Str) : UnflRes JVal :=
  match objGet root (withIds c) with
  | some ro => unflatten (unflattenFuel (withIds c) ro) (withIds c) ro
  | none => .panic "root_object_not_found"

def resVal? {β : Type} : UnflRes β → Option β
  | .ok _ v => some v
  | _ => none

/-! ### Concrete documents -/

def S (s : String) : Str := s.toList
def Hdummy : Bytes → Str := fun _ => []
def flatKey (s : String) : Str := s.toList ++ [FLAT]

/-- round trip as `update` + `read` perform it -/
def roundTrip (d : JVal) : Option JVal :=
  match flatten Hdummy [] d [] with
  | .ok (c, .str root) => resVal? (readPool c root)
  | _ => none

def docOk : JVal :=
  .obj [(S "_id", .str (S "r")), (flatKey "a", .arr [.obj [(S "_id", .str (S "x")), (S "v", .num (S "1"))],
          .obj [(S "_id", .str (S "y")), (flatKey "n", .arr [.obj [(S "_id", .str (S "z"))]])]]),
        (flatKey "o", .obj [(S "_id", .str (S "w")), (S "s", .str (S "t"))]), (S "p", .str (S "q")), (flatKey "s", .str (S "^u"))]


/-- D6 witness -/
def docBang : JVal := .obj [(flatKey "o", .obj [(S "_id", .str (S "!x")), (S "v", .num (S "1"))])]

/-- descriptor-identifier collision witness: both arrays get the descriptor `^a@b@c♭` -/
def docColl : JVal :=
  .obj [(flatKey "a", .obj [(S "_id", .str (S "a")), (flatKey "b@c", .arr [.obj [(S "_id", .str (S "p"))]])]),
        (flatKey "x", .obj [(S "_id", .str (S "a@b")), (flatKey "c", .arr [.obj [(S "_id", .str (S "q"))]])])]

/-! ### `flatten` computes `entV` / `flatV` -/

theorem isFlat_ID : isFlattenedField ID_FIELD = false := by decide

theorem ne_ID_of_flat {k : Str} (h : isFlattenedField k = true) : k ≠ ID_FIELD := by
  intro e; rw [e, isFlat_ID] at h; cases h

theorem objId_eq_of_hasStrId {o : JObj} (h : hasStrId o = true) : objGet ID_FIELD o = some (.str (objId o)) := by
  unfold hasStrId at h; unfold objId
  split at h
  · next s hs => simp [hs]
  · cases h

theorem genId_nested (H : Bytes → Str) (o : JObj) (path : List Str) (h1 : hasStrId o = true)
    (h2 : isArrayDescriptor (objId o) = false) : generateIdentifier H o path = .ok (objId o) := by
  unfold generateIdentifier
  rw [objId_eq_of_hasStrId h1]
  simp [h2]

theorem insAll_append (a b : List (Str × JVal)) (c : JObj) : insAll (a ++ b) c = insAll b (insAll a c) := by
  simp [insAll, List.foldl_append]

theorem flatF_cons_id (u : Str) (v : JVal) (t : JObj) : flatF u ((ID_FIELD, v) :: t) = flatF u t := by
  simp [flatF, flatF2, isFlat_ID]

theorem flatF_cons_flat (u k : Str) (v : JVal) (t : JObj) (h : isFlattenedField k = true) :
    flatF u ((k, v) :: t) = (k, flatField u k v) :: flatF u t := by
  simp [flatF, flatF2, h, ne_ID_of_flat h]

theorem flatF_cons_other (u k : Str) (v : JVal) (t : JObj) (h : isFlattenedField k = false) (hk : k ≠ ID_FIELD) :
    flatF u ((k, v) :: t) = (k, v) :: flatF u t := by
  simp [flatF, flatF2, h, hk]

mutual
theorem flatten_eq (H : Bytes → Str) : ∀ (v : JVal) (c : JObj) (path : List Str), wfV v = true →
    flatten H c v path = .ok (insAll (entV v) c, flatV v)
  | .null, c, path, _ => by simp [flatten, entV, flatV, insAll]
  | .bool _, c, path, _ => by simp [flatten, entV, flatV, insAll]
  | .num _, c, path, _ => by simp [flatten, entV, flatV, insAll]
  | .str _, c, path, _ => by simp [flatten, entV, flatV, insAll]
  | .arr l, c, path, h => by
    simp only [wfV] at h
    simp [flatten, flattenList_eq H l c path h, entV, flatV]
  | .obj o, c, path, h => by
    simp only [wfV, Bool.and_eq_true, Bool.not_eq_true'] at h
    obtain ⟨⟨⟨h1, h2⟩, _⟩, h4⟩ := h
    simp only [flatten, genId_nested H o path h1 h2, flattenFields_eq H o c _ _ h4, entV, flatV, insAll_append]
    rfl
theorem flattenList_eq (H : Bytes → Str) : ∀ (l : List JVal) (c : JObj) (path : List Str), wfL l = true →
    flattenList H c l path = .ok (insAll (entL l) c, flatL l)
  | [], c, path, _ => by simp [flattenList, entL, flatL, insAll]
  | v :: t, c, path, h => by
    simp only [wfL, Bool.and_eq_true] at h
    simp only [flattenList, flatten_eq H v c path h.1.2, flattenList_eq H t _ path h.2, entL, flatL, insAll_append]
theorem flattenFields_eq (H : Bytes → Str) : ∀ (o c : JObj) (uuid : Str) (fpath : List Str), wfF o = true →
    flattenFields H c o uuid fpath = .ok (insAll (entF uuid o) c, flatF uuid o)
  | [], c, uuid, fpath, _ => by simp [flattenFields, entF, flatF, flatF2, insAll]
  | (k, v) :: t, c, uuid, fpath, h => by
    simp only [wfF, Bool.and_eq_true, Bool.or_eq_true, Bool.not_eq_true'] at h
    have iht := fun c => flattenFields_eq H t c uuid fpath h.2
    unfold flattenFields
    by_cases hid : k = ID_FIELD
    · subst hid
      simp only [if_true, iht, entF, isFlat_ID, flatF_cons_id]
      rfl
    · simp only [hid, if_false]
      cases hf : isFlattenedField k with
      | false =>
        simp only [iht, entF, hf, flatF_cons_other _ _ _ _ hf hid]
        rfl
      | true =>
        have hv : wfV v = true := by rcases h.1 with h' | h'; rw [hf] at h'; cases h'; exact h'
        simp only [if_true, flatten_eq H v c _ hv, entF, hf, flatF_cons_flat _ _ _ _ hf, insAll_append]
        cases v <;> simp [flatV, iht, flatField, insAll, descId]
end


theorem genId_root (H : Bytes → Str) (o : JObj) (h : rootIdOk o = true) :
    generateIdentifier H o [] = .ok (objId o) := by
  unfold generateIdentifier objId
  unfold rootIdOk at h
  split at h
  · next hn => simp [hn, ROOT_ID]
  · next s hs => simp only [hs]; simp at h; simp [h]
  · cases h

theorem flatten_root (H : Bytes → Str) (o : JObj) (h : WFDoc (.obj o)) :
    flatten H [] (.obj o) [] = .ok (insAll (entV (.obj o)) [], .str (objId o)) := by
  obtain ⟨h1, _, h3, _⟩ := h
  simp only [flatten, genId_root H o h1, flattenFields_eq H o [] _ _ h3, entV, insAll_append]
  rfl

/-- **`flatten` never fails ("panics") on a well-formed document** -/
theorem flatten_ok (H : Bytes → Str) (d : JVal) (h : WFDoc d) :
    ∃ c root, flatten H [] d [] = .ok (c, .str root) := by
  cases d with
  | obj o => exact ⟨_, _, flatten_root H o h⟩
  | _ => exact absurd h (by simp [WFDoc])

/-! ### Pools: removal of key sets, and what a pool must contain -/

def rm (ks : List Str) (P : JObj) : JObj := P.filter (fun p => !decide (p.1 ∈ ks))

theorem rm_nil (P : JObj) : rm [] P = P := by simp [rm]

theorem objRemove_eq_rm (k : Str) (P : JObj) : objRemove k P = rm [k] P := by
  simp [objRemove, rm]

theorem rm_rm (a b : List Str) (P : JObj) : rm a (rm b P) = rm (b ++ a) P := by
  simp only [rm, List.filter_filter]
  apply List.filter_congr
  intro p _
  simp [Bool.and_comm]

theorem objGet_rm (ks : List Str) (k : Str) (P : JObj) :
    objGet k (rm ks P) = if k ∈ ks then none else objGet k P := by
  have := objGet_filter (fun x => !decide (x ∈ ks)) k P
  simp only [rm, this]
  by_cases h : k ∈ ks <;> simp [h]

/-- the pool `P` holds every entry of `es`, decorated as `read` does -/
def Holds (P : JObj) (es : List (Str × JVal)) : Prop := ∀ e ∈ es, objGet e.1 P = some (addId e.1 e.2)

theorem Holds.rm {P : JObj} {es : List (Str × JVal)} (h : Holds P es) (ks : List Str)
    (hd : ∀ e ∈ es, e.1 ∉ ks) : Holds (rm ks P) es := by
  intro e he
  rw [objGet_rm, if_neg (hd e he)]
  exact h e he

theorem Holds.mono {P : JObj} {es es' : List (Str × JVal)} (h : Holds P es) (hs : ∀ e ∈ es', e ∈ es) :
    Holds P es' := fun e he => h e (hs e he)

theorem objGet_withIds (k : Str) : ∀ c : JObj, objGet k (withIds c) = (objGet k c).map (addId k)
  | [] => rfl
  | (k', v) :: t => by
    have ih := objGet_withIds k t
    unfold withIds at ih ⊢
    by_cases e : k = k'
    · subst e; simp [objGet]
    · simp [objGet, e, ih]

theorem objGet_insAll_not_mem (k : Str) : ∀ (es : List (Str × JVal)) (c : JObj), k ∉ keys es →
    objGet k (insAll es c) = objGet k c
  | [], c, _ => rfl
  | (k', v') :: t, c, h => by
    simp only [keys, List.map_cons, List.mem_cons, not_or] at h
    show objGet k (insAll t (objInsert k' v' c)) = _
    rw [objGet_insAll_not_mem k t _ h.2, objGet_objInsert_other k' k v' h.1]

theorem objGet_insAll_mem (k : Str) (v : JVal) : ∀ (es : List (Str × JVal)) (c : JObj), (keys es).Nodup →
    (k, v) ∈ es → objGet k (insAll es c) = some v
  | [], c, _, h => by cases h
  | (k', v') :: t, c, hn, h => by
    simp only [keys, List.map_cons, List.nodup_cons] at hn
    show objGet k (insAll t (objInsert k' v' c)) = _
    rcases List.mem_cons.mp h with h | h
    · cases h
      rw [objGet_insAll_not_mem k t _ hn.1, objGet_objInsert_self]
    · exact objGet_insAll_mem k v t _ hn.2 h

/-- the pool `read` builds from the result of `flatten` holds every entry -/
theorem holds_withIds_insAll (es : List (Str × JVal)) (hn : (keys es).Nodup) :
    Holds (withIds (insAll es [])) es := by
  intro e he
  rw [objGet_withIds, objGet_insAll_mem e.1 e.2 es [] hn he]
  rfl

/-! ### `unflatten` with "enough fuel", and its step rules -/

def UnflTo (P : JObj) (v : JVal) (P' : JObj) (r : JVal) : Prop :=
  ∃ n, ∀ fuel, n ≤ fuel → unflatten fuel P v = .ok P' r
def UnflFieldsTo (P : JObj) (o : JObj) (P' : JObj) (r : List (Str × JVal)) : Prop :=
  ∃ n, ∀ fuel, n ≤ fuel → unflattenFields fuel P o = .ok P' r
def UnflOrderTo (P : JObj) (l : List JVal) (P' : JObj) (r : List JVal) : Prop :=
  ∃ n, ∀ fuel, n ≤ fuel → unflattenOrder fuel P l = .ok P' r

theorem succ_of_le {n fuel : Nat} (h : n + 1 ≤ fuel) : ∃ f, fuel = f + 1 ∧ n ≤ f := ⟨fuel - 1, by omega, by omega⟩

theorem unfl_null (P : JObj) : UnflTo P .null P .null :=
  ⟨1, fun fuel h => by obtain ⟨f, rfl, _⟩ := succ_of_le h; simp [unflatten]⟩
theorem unfl_bool (P : JObj) (b : Bool) : UnflTo P (.bool b) P (.bool b) :=
  ⟨1, fun fuel h => by obtain ⟨f, rfl, _⟩ := succ_of_le h; simp [unflatten]⟩
theorem unfl_num (P : JObj) (t : Str) : UnflTo P (.num t) P (.num t) :=
  ⟨1, fun fuel h => by obtain ⟨f, rfl, _⟩ := succ_of_le h; simp [unflatten]⟩
theorem unfl_esc (P : JObj) (s : Str) : UnflTo P (.str (escapeStr s)) P (.str s) :=
  ⟨1, fun fuel h => by obtain ⟨f, rfl, _⟩ := succ_of_le h; simp [unflatten, escapeStr]⟩

theorem unfl_obj {P P' : JObj} {o : JObj} {r : List (Str × JVal)} (h : UnflFieldsTo P o P' r) :
    UnflTo P (.obj o) P' (.obj (objOfList r)) := by
  obtain ⟨n, hn⟩ := h
  refine ⟨n + 1, fun fuel hf => ?_⟩
  obtain ⟨f, rfl, hf'⟩ := succ_of_le hf
  simp [unflatten, hn f hf']

theorem unfl_ref {P P' : JObj} {s : Str} {v r : JVal} (hb : s.head? ≠ some '!')
    (hd : isArrayDescriptor s = false) (hg : objGet s P = some v) (h : UnflTo (objRemove s P) v P' r) :
    UnflTo P (.str s) P' r := by
  obtain ⟨n, hn⟩ := h
  refine ⟨n + 1, fun fuel hf => ?_⟩
  obtain ⟨f, rfl, hf'⟩ := succ_of_le hf
  cases s with
  | nil => simp [unflatten, hd, hg, hn f hf']
  | cons a t =>
    have : a ≠ '!' := by simpa using hb
    unfold unflatten
    split
    · next heq => cases heq; exact absurd rfl this
    · simp [hd, hg, hn f hf']

theorem unfl_desc {P P' : JObj} {s : Str} {dobj : JObj} {order items : List JVal}
    (hd : isArrayDescriptor s = true) (hg : objGet s P = some (.obj dobj))
    (ho : objGet ORDER_FIELD dobj = some (.arr order)) (h : UnflOrderTo (objRemove s P) order P' items) :
    UnflTo P (.str s) P' (.arr items) := by
  obtain ⟨n, hn⟩ := h
  refine ⟨n + 1, fun fuel hf => ?_⟩
  obtain ⟨f, rfl, hf'⟩ := succ_of_le hf
  cases s with
  | nil => simp [isArrayDescriptor] at hd
  | cons a t =>
    have : a = '^' := by simpa [isArrayDescriptor] using hd
    subst this
    unfold unflatten
    split
    · next heq => cases heq
    · simp [hd, hg, ho, hn f hf']

theorem unflF_nil (P : JObj) : UnflFieldsTo P [] P [] :=
  ⟨1, fun fuel h => by obtain ⟨f, rfl, _⟩ := succ_of_le h; simp [unflattenFields]⟩

theorem unflF_cons_other {P P' : JObj} {k : Str} {v : JVal} {t : JObj} {r : List (Str × JVal)}
    (hk : isFlattenedField k = false) (h : UnflFieldsTo P t P' r) :
    UnflFieldsTo P ((k, v) :: t) P' ((k, v) :: r) := by
  obtain ⟨n, hn⟩ := h
  refine ⟨n + 1, fun fuel hf => ?_⟩
  obtain ⟨f, rfl, hf'⟩ := succ_of_le hf
  simp [unflattenFields, hk, hn f hf']

theorem unflF_cons_flat {P P1 P' : JObj} {k : Str} {v v' : JVal} {t : JObj} {r : List (Str × JVal)}
    (hk : isFlattenedField k = true) (h1 : UnflTo P v P1 v') (h : UnflFieldsTo P1 t P' r) :
    UnflFieldsTo P ((k, v) :: t) P' ((k, v') :: r) := by
  obtain ⟨n, hn⟩ := h
  obtain ⟨n1, hn1⟩ := h1
  refine ⟨n + n1 + 1, fun fuel hf => ?_⟩
  obtain ⟨f, rfl, hf'⟩ := succ_of_le hf
  simp [unflattenFields, hk, hn f (by omega), hn1 f (by omega)]

theorem unflO_nil (P : JObj) : UnflOrderTo P [] P [] :=
  ⟨1, fun fuel h => by obtain ⟨f, rfl, _⟩ := succ_of_le h; simp [unflattenOrder]⟩

theorem unflO_cons {P P1 P' : JObj} {u : Str} {o item : JVal} {t items : List JVal}
    (hg : objGet u P = some o) (h1 : UnflTo (objRemove u P) o P1 item) (h : UnflOrderTo P1 t P' items) :
    UnflOrderTo P (.str u :: t) P' (item :: items) := by
  obtain ⟨n, hn⟩ := h
  obtain ⟨n1, hn1⟩ := h1
  refine ⟨n + n1 + 1, fun fuel hf => ?_⟩
  obtain ⟨f, rfl, hf'⟩ := succ_of_le hf
  simp [unflattenOrder, hg, hn f (by omega), hn1 f (by omega)]


/-! ### Key-preserving maps commute with `objInsert` -/

theorem objInsert_map (g : Str → JVal → JVal) (k : Str) (v : JVal) (hg : g k v = v) : ∀ o : JObj,
    objInsert k v (o.map (fun p => (p.1, g p.1 p.2))) = (objInsert k v o).map (fun p => (p.1, g p.1 p.2))
  | [] => by simp [objInsert, hg]
  | (k', v') :: t => by
    simp only [List.map_cons, objInsert]
    split
    · simp [hg]
    · split
      · simp [hg]
      · simp [objInsert_map g k v hg t]

theorem sortedKeys_map (g : Str → JVal → JVal) (o : JObj) (h : SortedKeys o) :
    SortedKeys (o.map (fun p => (p.1, g p.1 p.2))) := by
  unfold SortedKeys at *
  rw [List.pairwise_map]
  exact h

theorem addIdsF_eq_map : ∀ o : JObj,
    addIdsF o = o.map (fun p => (p.1, (fun k v => if isFlattenedField k then addIdsV v else v) p.1 p.2))
  | [] => by simp [addIdsF]
  | (k, v) :: t => by simp [addIdsF, addIdsF_eq_map t]

theorem addIdsF_objInsert_id (x : JVal) (o : JObj) :
    addIdsF (objInsert ID_FIELD x o) = objInsert ID_FIELD x (addIdsF o) := by
  rw [addIdsF_eq_map, addIdsF_eq_map]
  exact (objInsert_map (fun k v => if isFlattenedField k then addIdsV v else v) _ _
    (by simp [isFlat_ID]) o).symm

theorem flatF2_objInsert_id (u : Str) (x : JVal) (o : JObj) :
    flatF2 u (objInsert ID_FIELD x o) = objInsert ID_FIELD x (flatF2 u o) := by
  unfold flatF2
  exact (objInsert_map (fun k v => if isFlattenedField k then flatField u k v else v) _ _
    (by simp [isFlat_ID]) o).symm

theorem entF_objInsert_id (u : Str) (x : JVal) : ∀ o : JObj, entF u (objInsert ID_FIELD x o) = entF u o
  | [] => by simp [objInsert, entF, isFlat_ID]
  | (k, v) :: t => by
    simp only [objInsert]
    split
    · next e => subst e; simp [entF, isFlat_ID]
    · split
      · simp [entF, isFlat_ID]
      · simp [entF, entF_objInsert_id u x t]

/-- the decorated pool entry of a sorted object is the field-wise flattening of the object with its
    `_id` put (back) in -/
theorem entry_eq (o : JObj) (u : Str) (hs : SortedKeys o) :
    addId u (.obj (objOfList (flatF u o))) = .obj (flatF2 u (objInsert ID_FIELD (.str u) o)) := by
  have h2 : SortedKeys (flatF2 u o) :=
    sortedKeys_map (fun k v => if isFlattenedField k then flatField u k v else v) o hs
  have h1 : SortedKeys (flatF u o) := List.Pairwise.filter _ h2
  rw [objOfList_sorted _ h1, flatF2_objInsert_id]
  show JVal.obj (objInsert ID_FIELD (.str u) (objRemove ID_FIELD (flatF2 u o))) = _
  rw [objInsert_objRemove _ _ _ h2]

theorem rm_congr {a b : List Str} (h : ∀ k, k ∈ a ↔ k ∈ b) (P : JObj) : rm a P = rm b P := by
  unfold rm
  apply List.filter_congr
  intro p _
  simp [h]

theorem keys_append (a b : List (Str × JVal)) : keys (a ++ b) = keys a ++ keys b := by simp [keys]

theorem entF_cons_flat (u k : Str) (v : JVal) (t : JObj) (h : isFlattenedField k = true) :
    entF u ((k, v) :: t) = entFld u k v ++ entF u t := by
  simp [entF, h, entFld]

theorem entF_cons_other (u k : Str) (v : JVal) (t : JObj) (h : isFlattenedField k = false) :
    entF u ((k, v) :: t) = entF u t := by
  simp [entF, h]

/-! ### The unflatten side, by pieces -/

/-- unflattening the decorated pool entry of object `o` (already taken out of the pool) -/
def COstmt (o : JObj) : Prop :=
  ∀ Q, (keys (entF (objId o) o)).Nodup → Holds Q (entF (objId o) o) →
    UnflTo Q (addId (objId o) (.obj (objOfList (flatF (objId o) o))))
      (rm (keys (entF (objId o) o)) Q) (.obj (objInsert ID_FIELD (.str (objId o)) (addIdsF o)))

/-- unflattening the stored value of the flattened field `k ↦ v` of the object with identifier `u` -/
def FVstmt (u k : Str) (v : JVal) : Prop :=
  ∀ Q, (keys (entFld u k v)).Nodup → Holds Q (entFld u k v) →
    UnflTo Q (flatField u k v) (rm (keys (entFld u k v)) Q) (addIdsV v)

theorem fields_lemma (u : Str) : ∀ (O : JObj),
    (∀ k v, (k, v) ∈ O → isFlattenedField k = true → FVstmt u k v) →
    ∀ Q, (keys (entF u O)).Nodup → Holds Q (entF u O) →
      UnflFieldsTo Q (flatF2 u O) (rm (keys (entF u O)) Q) (addIdsF O)
  | [], _, Q, _, _ => by
    simp only [entF, keys, List.map_nil, rm_nil, flatF2, addIdsF]
    exact unflF_nil Q
  | (k, v) :: t, hfv, Q, hn, hh => by
    have iht := fields_lemma u t (fun k' v' hm => hfv k' v' (List.mem_cons_of_mem _ hm))
    cases hk : isFlattenedField k with
    | false =>
      rw [entF_cons_other u k v t hk] at hn hh ⊢
      have := unflF_cons_other (k := k) (v := v) hk (iht Q hn hh)
      simpa [flatF2, addIdsF, hk] using this
    | true =>
      rw [entF_cons_flat u k v t hk] at hn hh ⊢
      rw [keys_append] at hn ⊢
      have hnA := (List.nodup_append.mp hn).1
      have hnB := (List.nodup_append.mp hn).2.1
      have hdis := (List.nodup_append.mp hn).2.2
      have hA : Holds Q (entFld u k v) := hh.mono (fun e he => List.mem_append_left _ he)
      have hB : Holds Q (entF u t) := hh.mono (fun e he => List.mem_append_right _ he)
      have h1 := hfv k v List.mem_cons_self hk Q hnA hA
      have hB' : Holds (rm (keys (entFld u k v)) Q) (entF u t) := by
        apply hB.rm
        intro e he hin
        exact hdis _ hin _ (List.mem_map_of_mem (f := (·.1)) he) rfl
      have h2 := iht _ hnB hB'
      rw [rm_rm] at h2
      have := unflF_cons_flat hk h1 h2
      simpa [flatF2, addIdsF, hk] using this

/-- taking a tracked object out of the pool by its identifier and unflattening it -/
theorem obj_entry_lemma (o : JObj) (hco : COstmt o) (Q : JObj) (hn : (keys (entV (.obj o))).Nodup)
    (hh : Holds Q (entV (.obj o))) :
    objGet (objId o) Q = some (addId (objId o) (.obj (objOfList (flatF (objId o) o)))) ∧
    UnflTo (objRemove (objId o) Q) (addId (objId o) (.obj (objOfList (flatF (objId o) o))))
      (rm (keys (entV (.obj o))) Q) (.obj (objInsert ID_FIELD (.str (objId o)) (addIdsF o))) := by
  simp only [entV] at hn hh ⊢
  rw [keys_append] at hn ⊢
  have hnA := (List.nodup_append.mp hn).1
  have hdis := (List.nodup_append.mp hn).2.2
  constructor
  · exact hh (objId o, _) (List.mem_append_right _ List.mem_cons_self)
  · have hA : Holds Q (entF (objId o) o) := hh.mono (fun e he => List.mem_append_left _ he)
    have hA' : Holds (rm [objId o] Q) (entF (objId o) o) := by
      apply hA.rm
      intro e he hin
      have : e.1 = objId o := by simpa using hin
      exact hdis _ (List.mem_map_of_mem (f := (·.1)) he) (objId o) (by simp [keys]) this
    have := hco _ hnA hA'
    rw [rm_rm] at this
    have e : rm (keys (entF (objId o) o) ++ keys [(objId o, JVal.obj (objOfList (flatF (objId o) o)))]) Q
        = rm ([objId o] ++ keys (entF (objId o) o)) Q :=
      rm_congr (by
        intro k
        simp only [keys, List.mem_append, List.map_cons, List.map_nil, List.mem_singleton]
        exact Or.comm) Q
    rw [objRemove_eq_rm, e]
    exact this

theorem addIdsV_obj (o : JObj) (h : hasStrId o = true) :
    addIdsV (.obj o) = .obj (objInsert ID_FIELD (.str (objId o)) (addIdsF o)) := by
  simp [addIdsV, objId_eq_of_hasStrId h]

theorem order_lemma : ∀ (l : List JVal),
    (∀ v ∈ l, ∃ o, v = .obj o ∧ hasStrId o = true ∧ COstmt o) →
    ∀ Q, (keys (entL l)).Nodup → Holds Q (entL l) →
      UnflOrderTo Q (flatL l) (rm (keys (entL l)) Q) (addIdsL l)
  | [], _, Q, _, _ => by
    simp only [entL, keys, List.map_nil, rm_nil, flatL, addIdsL]
    exact unflO_nil Q
  | v :: t, hco, Q, hn, hh => by
    obtain ⟨o, rfl, hid, hc⟩ := hco v List.mem_cons_self
    have iht := order_lemma t (fun v' hm => hco v' (List.mem_cons_of_mem _ hm))
    simp only [entL] at hn hh ⊢
    rw [keys_append] at hn ⊢
    have hnA := (List.nodup_append.mp hn).1
    have hnB := (List.nodup_append.mp hn).2.1
    have hdis := (List.nodup_append.mp hn).2.2
    have hA : Holds Q (entV (.obj o)) := hh.mono (fun e he => List.mem_append_left _ he)
    have hB : Holds Q (entL t) := hh.mono (fun e he => List.mem_append_right _ he)
    obtain ⟨hg, h1⟩ := obj_entry_lemma o hc Q hnA hA
    have hB' : Holds (rm (keys (entV (.obj o))) Q) (entL t) := by
      apply hB.rm
      intro e he hin
      exact hdis _ hin _ (List.mem_map_of_mem (f := (·.1)) he) rfl
    have h2 := iht _ hnB hB'
    rw [rm_rm] at h2
    have := unflO_cons hg h1 h2
    simpa [flatL, flatV, addIdsL, addIdsV_obj o hid] using this

theorem wfL_mem : ∀ {l : List JVal}, wfL l = true → ∀ v ∈ l, ∃ o, v = .obj o ∧ wfV v = true
  | [], _, v, hv => by cases hv
  | x :: t, h, v, hv => by
    simp only [wfL, Bool.and_eq_true] at h
    rcases List.mem_cons.mp hv with rfl | hv
    · cases v with
      | obj o => exact ⟨o, rfl, h.1.2⟩
      | _ => simp [isObjV] at h
    · exact wfL_mem h.2 v hv

theorem wfF_mem : ∀ {o : JObj}, wfF o = true → ∀ k v, (k, v) ∈ o → isFlattenedField k = true → wfV v = true
  | [], _, k, v, hv, _ => by cases hv
  | (k', v') :: t, h, k, v, hv, hk => by
    simp only [wfF, Bool.and_eq_true, Bool.or_eq_true, Bool.not_eq_true'] at h
    rcases List.mem_cons.mp hv with e | hv
    · cases e
      rcases h.1 with h' | h'
      · rw [hk] at h'; cases h'
      · exact h'
    · exact wfF_mem h.2 k v hv hk

theorem nbL_mem {l : List JVal} (h : nbL l = true) (o : JObj) (hv : JVal.obj o ∈ l) : nbF o = true := by
  induction l with
  | nil => cases hv
  | cons x t ih =>
    simp only [nbL, Bool.and_eq_true] at h
    rcases List.mem_cons.mp hv with e | hv
    · rw [← e] at h; simpa [nbE] using h.1
    · exact ih h.2 hv

theorem nbF_mem : ∀ {o : JObj}, nbF o = true → ∀ k v, (k, v) ∈ o → isFlattenedField k = true → nbV v = true
  | [], _, k, v, hv, _ => by cases hv
  | (k', v') :: t, h, k, v, hv, hk => by
    simp only [nbF, Bool.and_eq_true, Bool.or_eq_true, Bool.not_eq_true'] at h
    rcases List.mem_cons.mp hv with e | hv
    · cases e
      rcases h.1 with h' | h'
      · rw [hk] at h'; cases h'
      · exact h'
    · exact nbF_mem h.2 k v hv hk

theorem fv_lemma (u k : Str) (v : JVal) (hwf : wfV v = true) (hnb : nbV v = true)
    (hco : ∀ o, (v = .obj o ∨ ∃ l, v = .arr l ∧ JVal.obj o ∈ l) → COstmt o) : FVstmt u k v := by
  intro Q hn hh
  cases v with
  | null => simpa [entFld, entV, keys, rm_nil, flatField, flatV, addIdsV] using unfl_null Q
  | bool b => simpa [entFld, entV, keys, rm_nil, flatField, flatV, addIdsV] using unfl_bool Q b
  | num t => simpa [entFld, entV, keys, rm_nil, flatField, flatV, addIdsV] using unfl_num Q t
  | str s => simpa [entFld, entV, keys, rm_nil, flatField, flatV, addIdsV] using unfl_esc Q s
  | obj o =>
    simp only [wfV, Bool.and_eq_true, Bool.not_eq_true'] at hwf
    simp only [nbV, Bool.and_eq_true, bne_iff_ne, ne_eq] at hnb
    have hE : entFld u k (.obj o) = entV (.obj o) := by simp [entFld]
    rw [hE] at hn hh ⊢
    obtain ⟨hg, h1⟩ := obj_entry_lemma o (hco o (Or.inl rfl)) Q hn hh
    rw [addIdsV_obj o hwf.1.1.1]
    exact unfl_ref hnb.1 hwf.1.1.2 hg h1
  | arr l =>
    simp only [wfV] at hwf
    simp only [nbV] at hnb
    have hE : entFld u k (.arr l) = entL l ++ [(descId u k, .obj [(ORDER_FIELD, .arr (flatL l))])] := by
      simp [entFld, entV]
    rw [hE] at hn hh ⊢
    rw [keys_append] at hn ⊢
    have hnA := (List.nodup_append.mp hn).1
    have hdis := (List.nodup_append.mp hn).2.2
    have hA : Holds Q (entL l) := hh.mono (fun e he => List.mem_append_left _ he)
    have hA' : Holds (rm [descId u k] Q) (entL l) := by
      apply hA.rm
      intro e he hin
      have : e.1 = descId u k := by simpa using hin
      exact hdis _ (List.mem_map_of_mem (f := (·.1)) he) (descId u k) (by simp [keys]) this
    have hg := hh (descId u k, _) (List.mem_append_right _ List.mem_cons_self)
    have hol := order_lemma l (fun v hv => by
      obtain ⟨o, rfl, hw⟩ := wfL_mem hwf v hv
      simp only [wfV, Bool.and_eq_true] at hw
      exact ⟨o, rfl, hw.1.1.1, hco o (Or.inr ⟨l, rfl, hv⟩)⟩) _ hnA hA'
    rw [rm_rm] at hol
    have e : rm (keys (entL l) ++ keys [(descId u k, JVal.obj [(ORDER_FIELD, JVal.arr (flatL l))])]) Q
        = rm ([descId u k] ++ keys (entL l)) Q :=
      rm_congr (by
        intro k'
        simp only [keys, List.mem_append, List.map_cons, List.map_nil, List.mem_singleton]
        exact Or.comm) Q
    rw [e]
    rw [← objRemove_eq_rm] at hol
    have hd : isArrayDescriptor (descId u k) = true := by simp [isArrayDescriptor, descId]
    have ho : objGet ORDER_FIELD (objInsert ID_FIELD (.str (descId u k)) [(ORDER_FIELD, .arr (flatL l))])
        = some (.arr (flatL l)) := by
      rw [objGet_objInsert_other _ _ _ (by decide)]; simp [objGet]
    simpa [flatField, addIdsV] using unfl_desc hd hg ho hol


theorem co_lemma (o : JObj) (hs : SortedKeys o)
    (hfv : ∀ k v, (k, v) ∈ o → isFlattenedField k = true → FVstmt (objId o) k v) : COstmt o := by
  intro Q hn hh
  rw [entry_eq o (objId o) hs]
  have hfv' : ∀ k v, (k, v) ∈ objInsert ID_FIELD (.str (objId o)) o → isFlattenedField k = true →
      FVstmt (objId o) k v := by
    intro k v hm hk
    rcases mem_objInsert hm with e | hm
    · cases e; rw [isFlat_ID] at hk; cases hk
    · exact hfv k v hm hk
  have h := fields_lemma (objId o) (objInsert ID_FIELD (.str (objId o)) o) hfv' Q
    (by rw [entF_objInsert_id]; exact hn) (by rw [entF_objInsert_id]; exact hh)
  rw [entF_objInsert_id, addIdsF_objInsert_id] at h
  have := unfl_obj h
  rw [objOfList_sorted] at this
  · exact this
  · apply sortedKeys_objInsert
    rw [addIdsF_eq_map]
    exact sortedKeys_map (fun k v => if isFlattenedField k then addIdsV v else v) o hs

theorem size_le_sizeO : ∀ {o : JObj} {k : Str} {v : JVal}, (k, v) ∈ o → v.size ≤ JVal.sizeO o
  | [], _, _, h => by cases h
  | (k', v') :: t, k, v, h => by
    simp only [JVal.sizeO]
    rcases List.mem_cons.mp h with e | h
    · cases e; omega
    · have := size_le_sizeO h; omega

theorem size_le_sizeL : ∀ {l : List JVal} {v : JVal}, v ∈ l → v.size ≤ JVal.sizeL l
  | [], _, h => by cases h
  | x :: t, v, h => by
    simp only [JVal.sizeL]
    rcases List.mem_cons.mp h with e | h
    · cases e; omega
    · have := size_le_sizeL h; omega

/-- every tracked object unflattens to itself (with its identifier), by induction on size -/
theorem co_all : ∀ (n : Nat) (o : JObj), JVal.sizeO o < n → SortedKeys o → wfF o = true → nbF o = true → COstmt o
  | 0, _, h, _, _, _ => by omega
  | n + 1, o, hsz, hs, hwf, hnb => by
    apply co_lemma o hs
    intro k v hm hk
    have hwv := wfF_mem hwf k v hm hk
    have hnv := nbF_mem hnb k v hm hk
    have hvs := size_le_sizeO hm
    apply fv_lemma _ _ _ hwv hnv
    intro o2 h2
    rcases h2 with rfl | ⟨l, rfl, hin⟩
    · simp only [wfV, Bool.and_eq_true] at hwv
      simp only [nbV, Bool.and_eq_true] at hnv
      simp only [JVal.size] at hvs
      exact co_all n o2 (by omega) ((sortedKeysB_iff o2).mp hwv.1.2) hwv.2 hnv.2
    · simp only [wfV] at hwv
      simp only [nbV] at hnv
      obtain ⟨o', e, hw⟩ := wfL_mem hwv _ hin
      cases e
      simp only [wfV, Bool.and_eq_true] at hw
      have h3 := size_le_sizeL hin
      simp only [JVal.size] at hvs h3
      exact co_all n o2 (by omega) ((sortedKeysB_iff o2).mp hw.1.2) hw.2 (nbL_mem hnv o2 hin)

/-! ### Main theorems -/

theorem nodup_of_filter {α : Type} (p : α → Bool) : ∀ (l : List α), (l.filter p).Nodup →
    (l.filter (fun x => !p x)).Nodup → l.Nodup
  | [], _, _ => List.nodup_nil
  | x :: t, h1, h2 => by
    cases hp : p x with
    | true =>
      simp only [List.filter_cons, hp, if_true, Bool.not_true, Bool.false_eq_true, if_false] at h1 h2
      have h1' := List.nodup_cons.mp h1
      refine List.nodup_cons.mpr ⟨fun hx => h1'.1 (List.mem_filter.mpr ⟨hx, hp⟩), nodup_of_filter p t h1'.2 h2⟩
    | false =>
      simp only [List.filter_cons, hp, Bool.false_eq_true, if_false, Bool.not_false, if_true] at h1 h2
      have h2' := List.nodup_cons.mp h2
      refine List.nodup_cons.mpr ⟨fun hx => h2'.1 (List.mem_filter.mpr ⟨hx, by simp [hp]⟩),
        nodup_of_filter p t h1 h2'.2⟩

theorem poolKeys_nodup (d : JVal) (h1 : (objIds d).Nodup) (h2 : (descIds d).Nodup) : (poolKeys d).Nodup :=
  nodup_of_filter (fun k => isArrayDescriptor k) _ h2 h1

/-- **Round trip (general: any nesting depth).** For a well-formed document without `!`-identifiers in
    reference position (D6) and with pairwise distinct descriptor identifiers, `read`'s reconstruction
    from the pool that `flatten` produced returns the document with only `_id`s added. -/
theorem unflatten_flatten (H : Bytes → Str) (d : JVal) (c : JObj) (root : Str)
    (hwf : WFDoc d) (hnb : NoBangIds d) (hdd : DescIdsDistinct d)
    (hfl : flatten H [] d [] = .ok (c, .str root)) :
    ∃ ro, objGet root (withIds c) = some ro ∧
      ∃ n c', ∀ fuel, n ≤ fuel → unflatten fuel (withIds c) ro = .ok c' (addIds d) := by
  cases d with
  | obj o =>
    have hwf' := hwf
    obtain ⟨_, hs, hw, hno⟩ := hwf'
    rw [flatten_root H o hwf] at hfl
    simp only [Except.ok.injEq, Prod.mk.injEq, JVal.str.injEq] at hfl
    obtain ⟨rfl, rfl⟩ := hfl
    have hnd : (keys (entV (.obj o))).Nodup := poolKeys_nodup (.obj o) hno hdd
    have hh := holds_withIds_insAll (entV (.obj o)) hnd
    have hco := co_all (JVal.sizeO o + 1) o (by omega) hs hw hnb
    have hg := hh (objId o, _) (by simp only [entV]; exact List.mem_append_right _ List.mem_cons_self)
    simp only [entV, keys_append] at hnd
    have hF : Holds (withIds (insAll (entV (.obj o)) [])) (entF (objId o) o) :=
      hh.mono (fun e he => by simp only [entV]; exact List.mem_append_left _ he)
    obtain ⟨n, hn⟩ := hco _ (List.nodup_append.mp hnd).1 hF
    exact ⟨_, hg, n, _, hn⟩
  | _ => exact absurd hwf (by simp [WFDoc])

/-- the statement in its plain existential form -/
theorem unflatten_flatten_exists (H : Bytes → Str) (d : JVal) (c : JObj) (root : Str)
    (hwf : WFDoc d) (hnb : NoBangIds d) (hdd : DescIdsDistinct d)
    (hfl : flatten H [] d [] = .ok (c, .str root)) :
    ∃ ro, objGet root (withIds c) = some ro ∧
      ∃ fuel c', unflatten fuel (withIds c) ro = .ok c' (addIds d) := by
  obtain ⟨ro, hg, n, c', h⟩ := unflatten_flatten H d c root hwf hnb hdd hfl
  exact ⟨ro, hg, n, c', h n (Nat.le_refl _)⟩

/-- the same through `readPoolWith` -/
theorem read_flatten (H : Bytes → Str) (d : JVal) (c : JObj) (root : Str)
    (hwf : WFDoc d) (hnb : NoBangIds d) (hdd : DescIdsDistinct d)
    (hfl : flatten H [] d [] = .ok (c, .str root)) :
    ∃ n c', ∀ fuel, n ≤ fuel → readPoolWith fuel c root = .ok c' (addIds d) := by
  obtain ⟨ro, hg, n, c', h⟩ := unflatten_flatten H d c root hwf hnb hdd hfl
  exact ⟨n, c', fun fuel hf => by simp [readPoolWith, hg, h fuel hf]⟩


/-! ### Fuel: `unflattenFuel` is enough for every pool and value, and more fuel never changes a result -/

def Shr (c' c : JObj) : Prop := JVal.sizeO c' ≤ JVal.sizeO c ∧ c'.length ≤ c.length

theorem Shr.refl (c : JObj) : Shr c c := ⟨Nat.le_refl _, Nat.le_refl _⟩
theorem Shr.trans {a b c : JObj} (h1 : Shr a b) (h2 : Shr b c) : Shr a c :=
  ⟨Nat.le_trans h1.1 h2.1, Nat.le_trans h1.2 h2.2⟩

def mu (c : JObj) (n : Nat) : Nat := 2 * (JVal.sizeO c + n) + 2 * c.length

theorem size_pos (v : JVal) : 1 ≤ v.size := by
  cases v <;> simp [JVal.size] <;> omega

theorem sizeO_filter_le (p : Str × JVal → Bool) : ∀ c : JObj, JVal.sizeO (c.filter p) ≤ JVal.sizeO c
  | [] => by simp
  | (k, v) :: t => by
    have := sizeO_filter_le p t
    simp only [List.filter_cons]
    split <;> simp only [JVal.sizeO] <;> omega

theorem objRemove_shrinks (s : Str) : ∀ (c : JObj) (v : JVal), objGet s c = some v →
    JVal.sizeO (objRemove s c) + v.size ≤ JVal.sizeO c ∧ (objRemove s c).length + 1 ≤ c.length
  | [], _, h => by simp [objGet] at h
  | (k, v') :: t, v, h => by
    simp only [objGet] at h
    unfold objRemove
    split at h
    · next e =>
      cases h; subst e
      have h1 := sizeO_filter_le (fun p => decide (p.1 ≠ s)) t
      have h2 := List.length_filter_le (fun p : Str × JVal => decide (p.1 ≠ s)) t
      simp only [List.filter_cons, ne_eq, not_true_eq_false, decide_false, Bool.false_eq_true, if_false,
        JVal.sizeO, List.length_cons]
      simp only [ne_eq] at h1 h2
      omega
    · next e =>
      have ih := objRemove_shrinks s t v h
      unfold objRemove at ih
      have e' : ¬ k = s := fun x => e x.symm
      simp only [List.filter_cons, ne_eq, e', not_false_eq_true, decide_true, if_true, JVal.sizeO,
        List.length_cons]
      simp only [ne_eq] at ih
      omega

theorem objGet_size_le (k : Str) : ∀ (o : JObj) (v : JVal), objGet k o = some v → v.size ≤ JVal.sizeO o
  | [], _, h => by simp [objGet] at h
  | (k', v') :: t, v, h => by
    simp only [objGet] at h
    simp only [JVal.sizeO]
    split at h
    · cases h; omega
    · have := objGet_size_le k t v h; omega

def GoodV (f : Nat) : Prop := ∀ c v,
  (∀ c' r, unflatten f c v = .ok c' r → Shr c' c) ∧ (mu c v.size ≤ f → unflatten f c v ≠ .fuel)
def GoodO (f : Nat) : Prop := ∀ c l,
  (∀ c' r, unflattenOrder f c l = .ok c' r → Shr c' c) ∧ (mu c (JVal.sizeL l) + 1 ≤ f → unflattenOrder f c l ≠ .fuel)
def GoodL (f : Nat) : Prop := ∀ c l,
  (∀ c' r, unflattenList f c l = .ok c' r → Shr c' c) ∧ (mu c (JVal.sizeL l) + 1 ≤ f → unflattenList f c l ≠ .fuel)
def GoodF (f : Nat) : Prop := ∀ c o,
  (∀ c' r, unflattenFields f c o = .ok c' r → Shr c' c) ∧ (mu c (JVal.sizeO o) + 1 ≤ f → unflattenFields f c o ≠ .fuel)

theorem res_panic {β : Type} {m : String} {c : JObj} {P : Prop} :
    (∀ c' (r : β), (UnflRes.panic m : UnflRes β) = .ok c' r → Shr c' c) ∧
    (P → (UnflRes.panic m : UnflRes β) ≠ .fuel) :=
  ⟨fun _ _ h => (nomatch h), fun _ h => (nomatch h)⟩

theorem res_ok {β : Type} {c2 c : JObj} {x : β} {P : Prop} (hs : Shr c2 c) :
    (∀ c' (r : β), (UnflRes.ok c2 x : UnflRes β) = .ok c' r → Shr c' c) ∧
    (P → (UnflRes.ok c2 x : UnflRes β) ≠ .fuel) :=
  ⟨fun _ _ h => (by cases h; exact hs), fun _ h => (nomatch h)⟩

theorem res_fuel {β : Type} {c : JObj} {P : Prop} (hp : ¬ P) :
    (∀ c' (r : β), (UnflRes.fuel : UnflRes β) = .ok c' r → Shr c' c) ∧
    (P → (UnflRes.fuel : UnflRes β) ≠ .fuel) :=
  ⟨fun _ _ h => (nomatch h), fun h _ => hp h⟩

theorem stepF {f : Nat} (hV : GoodV f) (hF : GoodF f) : GoodF (f + 1) := by
  intro c o
  cases o with
  | nil => simp [unflattenFields, Shr.refl]
  | cons p t =>
    obtain ⟨k, v⟩ := p
    have hv1 := size_pos v
    simp only [unflattenFields, JVal.sizeO]
    split
    · have ⟨h1, h2⟩ := hF c t
      cases ht : unflattenFields f c t with
      | ok c2 t' => exact res_ok (h1 c2 t' ht)
      | panic m => exact res_panic
      | fuel => exact res_fuel (fun hle => h2 (by unfold mu at *; omega) ht)
    · have ⟨h1, h2⟩ := hV c v
      cases hv : unflatten f c v with
      | ok c1 v' =>
        have ⟨h3, h4⟩ := hF c1 t
        have s1 := h1 c1 v' hv
        dsimp only
        cases ht : unflattenFields f c1 t with
        | ok c2 t' => exact res_ok ((h3 _ _ ht).trans s1)
        | panic m => exact res_panic
        | fuel =>
          exact res_fuel (fun hle => h4 (by have := s1.1; have := s1.2; unfold mu at *; omega) ht)
      | panic m => exact res_panic
      | fuel => exact res_fuel (fun hle => h2 (by unfold mu at *; omega) hv)

theorem stepL {f : Nat} (hV : GoodV f) (hL : GoodL f) : GoodL (f + 1) := by
  intro c l
  cases l with
  | nil => simp [unflattenList, Shr.refl]
  | cons v t =>
    have hv1 := size_pos v
    simp only [unflattenList, JVal.sizeL]
    have ⟨h1, h2⟩ := hV c v
    cases hv : unflatten f c v with
    | ok c1 v' =>
      have ⟨h3, h4⟩ := hL c1 t
      have s1 := h1 c1 v' hv
      dsimp only
      cases ht : unflattenList f c1 t with
      | ok c2 t' => exact res_ok ((h3 _ _ ht).trans s1)
      | panic m => exact res_panic
      | fuel =>
        exact res_fuel (fun hle => h4 (by have := s1.1; have := s1.2; unfold mu at *; omega) ht)
    | panic m => exact res_panic
    | fuel => exact res_fuel (fun hle => h2 (by unfold mu at *; omega) hv)

theorem stepO {f : Nat} (hV : GoodV f) (hO : GoodO f) : GoodO (f + 1) := by
  intro c l
  cases l with
  | nil => simp [unflattenOrder, Shr.refl]
  | cons u t =>
    have hu1 := size_pos u
    have ⟨hs1, hs2⟩ := hO c t
    have skip : (∀ c' r, unflattenOrder f c t = .ok c' r → Shr c' c) ∧
        (mu c (JVal.sizeL (u :: t)) + 1 ≤ f + 1 → unflattenOrder f c t ≠ .fuel) :=
      ⟨hs1, fun hle => hs2 (by simp only [JVal.sizeL] at hle; unfold mu at *; omega)⟩
    cases u with
    | str uuid =>
      simp only [unflattenOrder]
      cases hg : objGet uuid c with
      | none => exact skip
      | some o =>
        have hr := objRemove_shrinks uuid c o hg
        have ⟨h1, h2⟩ := hV (objRemove uuid c) o
        dsimp only
        cases hv : unflatten f (objRemove uuid c) o with
        | ok c1 item =>
          have ⟨h3, h4⟩ := hO c1 t
          have s1 := h1 c1 item hv
          have s0 : Shr (objRemove uuid c) c := ⟨by omega, by omega⟩
          dsimp only
          cases ht : unflattenOrder f c1 t with
          | ok c2 t' => exact res_ok (((h3 _ _ ht).trans s1).trans s0)
          | panic m => exact res_panic
          | fuel =>
            exact res_fuel (fun hle => h4 (by
              have := s1.1; have := s1.2; simp only [JVal.sizeL] at hle; unfold mu at *; omega) ht)
        | panic m => exact res_panic
        | fuel =>
          exact res_fuel (fun hle => h2 (by simp only [JVal.sizeL] at hle; unfold mu at *; omega) hv)
    | null => simpa only [unflattenOrder] using skip
    | bool b => simpa only [unflattenOrder] using skip
    | num n => simpa only [unflattenOrder] using skip
    | arr a => simpa only [unflattenOrder] using skip
    | obj a => simpa only [unflattenOrder] using skip


theorem stepV {f : Nat} (hV : GoodV f) (hO : GoodO f) (hL : GoodL f) (hF : GoodF f) : GoodV (f + 1) := by
  intro c v
  cases v with
  | null => simp only [unflatten]; exact res_ok (Shr.refl c)
  | bool b => simp only [unflatten]; exact res_ok (Shr.refl c)
  | num t => simp only [unflatten]; exact res_ok (Shr.refl c)
  | arr l =>
    simp only [unflatten, JVal.size]
    have ⟨h1, h2⟩ := hL c l
    cases hl : unflattenList f c l with
    | ok c' l' => exact res_ok (h1 _ _ hl)
    | panic m => exact res_panic
    | fuel => exact res_fuel (fun hle => h2 (by unfold mu at *; omega) hl)
  | obj o =>
    simp only [unflatten, JVal.size]
    have ⟨h1, h2⟩ := hF c o
    cases hl : unflattenFields f c o with
    | ok c' l' => exact res_ok (h1 _ _ hl)
    | panic m => exact res_panic
    | fuel => exact res_fuel (fun hle => h2 (by unfold mu at *; omega) hl)
  | str s =>
    simp only [unflatten, JVal.size]
    split
    · exact res_ok (Shr.refl c)
    · split
      · cases hg : objGet s c with
        | none => exact res_ok (Shr.refl c)
        | some d =>
          have hr := objRemove_shrinks s c d hg
          cases d with
          | obj dobj =>
            dsimp only
            cases ho : objGet ORDER_FIELD dobj with
            | none => exact res_panic
            | some x =>
              cases x with
              | arr order =>
                dsimp only
                have ⟨h1, h2⟩ := hO (objRemove s c) order
                have hsz := objGet_size_le _ _ _ ho
                simp only [JVal.size] at hsz hr
                cases hr2 : unflattenOrder f (objRemove s c) order with
                | ok c2 items => exact res_ok ((h1 _ _ hr2).trans ⟨by omega, by omega⟩)
                | panic m => exact res_panic
                | fuel => exact res_fuel (fun hle => h2 (by unfold mu at *; omega) hr2)
              | _ => exact res_panic
          | _ => exact res_panic
      · cases hg : objGet s c with
        | none => exact res_ok (Shr.refl c)
        | some v =>
          have hr := objRemove_shrinks s c v hg
          have ⟨h1, h2⟩ := hV (objRemove s c) v
          dsimp only
          exact ⟨fun c' r h => (h1 c' r h).trans ⟨by omega, by omega⟩,
            fun hle => h2 (by unfold mu at *; omega)⟩

theorem good_all : ∀ f, GoodV f ∧ GoodO f ∧ GoodL f ∧ GoodF f
  | 0 => by
    refine ⟨fun c v => ?_, fun c l => ?_, fun c l => ?_, fun c o => ?_⟩
    · have := size_pos v
      exact ⟨fun _ _ h => by simp [unflatten] at h, fun h => by unfold mu at h; omega⟩
    · exact ⟨fun _ _ h => by simp [unflattenOrder] at h, fun h => by omega⟩
    · exact ⟨fun _ _ h => by simp [unflattenList] at h, fun h => by omega⟩
    · exact ⟨fun _ _ h => by simp [unflattenFields] at h, fun h => by omega⟩
  | f + 1 => by
    obtain ⟨hV, hO, hL, hF⟩ := good_all f
    exact ⟨stepV hV hO hL hF, stepO hV hO, stepL hV hL, stepF hV hF⟩

/-- **`unflattenFuel` is enough for every pool and every value**: the model's `unflatten` never runs
    out of fuel when started as `Driver`/`read` start it. -/
theorem unflatten_fuel_enough (c : JObj) (v : JVal) (f : Nat) (h : unflattenFuel c v ≤ f) :
    unflatten f c v ≠ .fuel :=
  ((good_all f).1 c v).2 (by unfold unflattenFuel at h; unfold mu; omega)


def MonoV (f : Nat) : Prop := ∀ c v, unflatten f c v ≠ .fuel → unflatten (f + 1) c v = unflatten f c v
def MonoO (f : Nat) : Prop := ∀ c l, unflattenOrder f c l ≠ .fuel → unflattenOrder (f + 1) c l = unflattenOrder f c l
def MonoL (f : Nat) : Prop := ∀ c l, unflattenList f c l ≠ .fuel → unflattenList (f + 1) c l = unflattenList f c l
def MonoF (f : Nat) : Prop := ∀ c o, unflattenFields f c o ≠ .fuel → unflattenFields (f + 1) c o = unflattenFields f c o

theorem monoF_step {f : Nat} (hV : MonoV f) (hF : MonoF f) : MonoF (f + 1) := by
  intro c o h
  cases o with
  | nil => simp [unflattenFields]
  | cons p t =>
    obtain ⟨k, v⟩ := p
    simp only [unflattenFields] at h ⊢
    by_cases hk : (!isFlattenedField k) = true
    · simp only [hk, if_true] at h ⊢
      rw [hF c t (by intro e; simp [e] at h)]
    · simp only [hk, Bool.false_eq_true, if_false] at h ⊢
      rw [hV c v (by intro e; simp [e] at h)]
      cases hv : unflatten f c v with
      | ok c1 v' =>
        simp only [hv] at h
        dsimp only
        rw [hF c1 t (by intro e; simp [e] at h)]
      | panic m => rfl
      | fuel => rfl

theorem monoL_step {f : Nat} (hV : MonoV f) (hL : MonoL f) : MonoL (f + 1) := by
  intro c l h
  cases l with
  | nil => simp [unflattenList]
  | cons v t =>
    simp only [unflattenList] at h ⊢
    rw [hV c v (by intro e; simp [e] at h)]
    cases hv : unflatten f c v with
    | ok c1 v' =>
      simp only [hv] at h
      dsimp only
      rw [hL c1 t (by intro e; simp [e] at h)]
    | panic m => rfl
    | fuel => rfl

theorem monoO_step {f : Nat} (hV : MonoV f) (hO : MonoO f) : MonoO (f + 1) := by
  intro c l h
  cases l with
  | nil => simp [unflattenOrder]
  | cons u t =>
    cases u with
    | str uuid =>
      simp only [unflattenOrder] at h ⊢
      cases hg : objGet uuid c with
      | none =>
        simp only [hg] at h ⊢
        exact hO c t h
      | some o =>
        simp only [hg] at h ⊢
        rw [hV _ o (by intro e; simp [e] at h)]
        cases hv : unflatten f (objRemove uuid c) o with
        | ok c1 item =>
          simp only [hv] at h
          dsimp only
          rw [hO c1 t (by intro e; simp [e] at h)]
        | panic m => rfl
        | fuel => rfl
    | null => simp only [unflattenOrder] at h ⊢; exact hO c t h
    | bool b => simp only [unflattenOrder] at h ⊢; exact hO c t h
    | num n => simp only [unflattenOrder] at h ⊢; exact hO c t h
    | arr a => simp only [unflattenOrder] at h ⊢; exact hO c t h
    | obj a => simp only [unflattenOrder] at h ⊢; exact hO c t h

theorem monoV_step {f : Nat} (hV : MonoV f) (hO : MonoO f) (hL : MonoL f) (hF : MonoF f) : MonoV (f + 1) := by
  intro c v h
  cases v with
  | null => simp only [unflatten]
  | bool b => simp only [unflatten]
  | num t => simp only [unflatten]
  | arr l =>
    simp only [unflatten] at h ⊢
    rw [hL c l (by intro e; simp [e] at h)]
  | obj o =>
    simp only [unflatten] at h ⊢
    rw [hF c o (by intro e; simp [e] at h)]
  | str s =>
    simp only [unflatten] at h ⊢
    split
    · rfl
    · next hnb =>
      split at h
      · exact absurd rfl (hnb _)
      · by_cases hd : isArrayDescriptor s = true
        · simp only [hd, if_true] at h ⊢
          cases hg : objGet s c with
          | none => rfl
          | some d =>
            simp only [hg] at h ⊢
            cases d with
            | obj dobj =>
              dsimp only at h ⊢
              cases ho : objGet ORDER_FIELD dobj with
              | none => rfl
              | some x =>
                simp only [ho] at h ⊢
                cases x with
                | arr order =>
                  dsimp only at h ⊢
                  rw [hO _ order (by intro e; simp [e] at h)]
                | _ => rfl
            | _ => rfl
        · simp only [hd, Bool.false_eq_true, if_false] at h ⊢
          cases hg : objGet s c with
          | none => rfl
          | some v =>
            simp only [hg] at h ⊢
            exact hV _ v h

theorem mono_all : ∀ f, MonoV f ∧ MonoO f ∧ MonoL f ∧ MonoF f
  | 0 => by
    refine ⟨fun c v h => ?_, fun c l h => ?_, fun c l h => ?_, fun c o h => ?_⟩
    · simp [unflatten] at h
    · simp [unflattenOrder] at h
    · simp [unflattenList] at h
    · simp [unflattenFields] at h
  | f + 1 => by
    obtain ⟨hV, hO, hL, hF⟩ := mono_all f
    exact ⟨monoV_step hV hO hL hF, monoO_step hV hO, monoL_step hV hL, monoF_step hV hF⟩

/-- **more fuel never changes a finished result** -/
theorem unflatten_mono (c : JObj) (v : JVal) (f g : Nat) (hfg : f ≤ g) (h : unflatten f c v ≠ .fuel) :
    unflatten g c v = unflatten f c v := by
  induction g with
  | zero => have : f = 0 := by omega
            subst this; rfl
  | succ g ih =>
    by_cases e : f = g + 1
    · subst e; rfl
    · have hle : f ≤ g := by omega
      have ih' := ih hle
      rw [← ih'] at h
      rw [(mono_all g).1 c v h, ih']


/-- **Round trip with the model's own fuel** (`unflattenFuel`, as `read`/the driver use it). -/
theorem read_flatten_fuel (H : Bytes → Str) (d : JVal) (c : JObj) (root : Str)
    (hwf : WFDoc d) (hnb : NoBangIds d) (hdd : DescIdsDistinct d)
    (hfl : flatten H [] d [] = .ok (c, .str root)) :
    ∃ c', readPool c root = .ok c' (addIds d) := by
  obtain ⟨ro, hg, n, c', h⟩ := unflatten_flatten H d c root hwf hnb hdd hfl
  refine ⟨c', ?_⟩
  simp only [readPool, hg]
  have hne := unflatten_fuel_enough (withIds c) ro _ (Nat.le_refl _)
  have hm := unflatten_mono (withIds c) ro _ (max n (unflattenFuel (withIds c) ro)) (Nat.le_max_right _ _) hne
  rw [← hm]
  exact h _ (Nat.le_max_left _ _)

/-- `update` then `read` on an empty replica, in one statement: `flatten` succeeds and the
    reconstruction is `addIds d` -/
theorem flatten_then_read (H : Bytes → Str) (d : JVal)
    (hwf : WFDoc d) (hnb : NoBangIds d) (hdd : DescIdsDistinct d) :
    ∃ c root c', flatten H [] d [] = .ok (c, .str root) ∧ readPool c root = .ok c' (addIds d) := by
  obtain ⟨c, root, hfl⟩ := flatten_ok H d hwf
  obtain ⟨c', h⟩ := read_flatten_fuel H d c root hwf hnb hdd hfl
  exact ⟨c, root, c', hfl, h⟩

/-- under `WFDoc` the only identifier actually added is the root's: every other tracked object
    already carries its own -/
theorem addIds_root (o : JObj) : addIds (.obj o) = .obj (objInsert ID_FIELD (.str (objId o)) (addIdsF o)) := rfl

/-! ### Non-vacuity and the two excluded shapes -/

/-- a well-formed document with nested flattened arrays, a flattened object, escaped strings -/
example : WFDoc docOk ∧ NoBangIds docOk ∧ DescIdsDistinct docOk := by decide

example : roundTrip docOk = some (addIds docOk) := by decide

example : objIds docOk = [S "x", S "z", S "y", S "w", S "r"] := by decide
example : descIds docOk = [descId (S "y") (flatKey "n"), descId (S "r") (flatKey "a")] := by decide

/-- **D6**: an object under a flattened non-array key whose `_id` starts with `!` reads back as a
    string. The document satisfies every other hypothesis of `unflatten_flatten`. -/
theorem bang_id_counterexample :
    WFDoc docBang ∧ DescIdsDistinct docBang ∧ ¬ NoBangIds docBang ∧
    roundTrip docBang = some (.obj [(S "_id", .str ROOT_ID), (flatKey "o", .str (S "x"))]) ∧
    roundTrip docBang ≠ some (addIds docBang) := by decide

/-- **New finding**: descriptor identifiers `^uuid@key` collide (`"a" @ "b@c♭"` = `"a@b" @ "c♭"`);
    the second array overwrites the first descriptor, and the read document differs from the one
    submitted (one array loses its element, the other gets the wrong one). The document satisfies
    every other hypothesis of `unflatten_flatten`. -/
theorem desc_id_collision_counterexample :
    WFDoc docColl ∧ NoBangIds docColl ∧ ¬ DescIdsDistinct docColl ∧
    roundTrip docColl = some (.obj [(S "_id", .str ROOT_ID),
      (flatKey "a", .obj [(S "_id", .str (S "a")), (flatKey "b@c", .arr [.obj [(S "_id", .str (S "q"))]])]),
      (flatKey "x", .obj [(S "_id", .str (S "a@b")), (flatKey "c", .arr [])])]) ∧
    roundTrip docColl ≠ some (addIds docColl) := by decide

end Melda.Props.C04
