/-
  C14 — time travel shows exactly the chosen past state (status level).
  * `Anc ds A` : the ancestor closure of the anchors `A` through the `parents` of the entries of `ds`;
  * `untilLoop_spec` : the queue loop of `reload_until`, run with the fuel `reloadUntil` gives it (or more),
    applies exactly the blocks of `Anc ds A` and leaves every other entry untouched;
  * `was_heads` : in a state after `reload`/`refresh` whose heads are `A`, the applied set is exactly `Anc ds A`.
  Together: `reload_until A` for a former set of heads `A` re-creates exactly the applied set the replica had then.
-/
import Melda.Props.C13
namespace Melda.Props.C14
open Melda PState Melda.Props.Proto Melda.Props.C13

/-- reflexive-transitive ancestor closure of the set `A` through the `parents` of the entries of `ds` -/
inductive Anc (ds : Ds) (A : List BlockId) : BlockId → Prop
  | anchor (a : BlockId) : a ∈ A → Anc ds A a
  | parent (p : Block × Status) (x : BlockId) : Anc ds A p.1.id → p ∈ ds → x ∈ p.1.parents → Anc ds A x

/-! ### the loop on the delta map alone -/

/-- `untilLoop` projected to the delta map (the documents do not influence the control flow) -/
def loopD : Nat → List BlockId → Ds → Ds
  | 0, _, ds => ds
  | _, [], ds => ds
  | fuel + 1, id :: q, ds =>
    match findDelta ds id with
    | some (b, .ready) => loopD fuel (q ++ b.parents) (setStatus ds id .applied)
    | _ => loopD fuel q ds

theorem untilLoop_deltas (fuel : Nat) (q : List BlockId) (st : PState) :
    (untilLoop fuel q st).deltas = loopD fuel q st.deltas := by
  induction fuel generalizing q st with
  | zero => simp [untilLoop, loopD]
  | succ fuel ih =>
    cases q with
    | nil => simp [untilLoop, loopD]
    | cons id q =>
      simp only [untilLoop, loopD]
      split
      · next b h => simp only [h]; rw [ih]
      · next hno =>
        split
        · next b h => exact absurd h (hno b)
        · rw [ih]

/-! ### potential -/

/-- work still to do inside the map: every entry that is not applied may still enqueue its parents -/
def pot : Ds → Nat
  | [] => 0
  | p :: t => (if p.2 = .applied then 0 else p.1.parents.length + 1) + pot t

theorem foldl_sumParents (ds : Ds) (n : Nat) :
    ds.foldl (fun n p => n + p.1.parents.length + 1) n = n + ds.foldl (fun n p => n + p.1.parents.length + 1) 0 := by
  induction ds generalizing n with
  | nil => simp
  | cons p t ih =>
    simp only [List.foldl_cons]
    rw [ih (n + p.1.parents.length + 1), ih (0 + p.1.parents.length + 1)]
    omega

theorem pot_le_sumParents (ds : Ds) : pot ds ≤ sumParents ds := by
  unfold sumParents
  induction ds with
  | nil => simp [pot]
  | cons p t ih =>
    simp only [List.foldl_cons, pot]
    rw [foldl_sumParents]
    split <;> omega

theorem pot_setStatus_le (ds : Ds) (id : BlockId) : pot (setStatus ds id .applied) ≤ pot ds := by
  unfold setStatus
  induction ds with
  | nil => simp [pot]
  | cons p t ih =>
    simp only [List.map_cons, pot]
    by_cases h : p.1.id = id
    · simp only [h, if_true]; omega
    · simp only [h, if_false]; omega

/-- applying a ready block pays for enqueueing its parents -/
theorem pot_setStatus_ready {ds : Ds} {id : BlockId} {b : Block} (h : findDelta ds id = some (b, .ready)) :
    pot (setStatus ds id .applied) + (b.parents.length + 1) ≤ pot ds := by
  induction ds with
  | nil => simp [findDelta] at h
  | cons p t ih =>
    by_cases hp : p.1.id = id
    · have : p = (b, .ready) := by simpa [findDelta, List.find?_cons, hp] using h
      subst this
      have hp' : b.id = id := hp
      have := pot_setStatus_le t id
      simp only [setStatus] at this ⊢
      simp only [List.map_cons, pot, hp', if_true]
      simp
      omega
    · have h' : findDelta t id = some (b, .ready) := by simpa [findDelta, List.find?_cons, hp] using h
      have := ih h'
      simp only [setStatus] at this ⊢
      simp only [List.map_cons, pot, hp, if_false]
      omega

/-! ### the invariant -/

/-- hypotheses on the state `reloadUntil` hands to the loop (after `markValid`, anchors checked) -/
structure Start (v : View) (objs : List Str) (ds : Ds) (A : List BlockId) : Prop where
  ok : DsOK v ds
  rb : ∀ p ∈ ds, p.2 = .ready ∨ p.2 = .blocked
  rc : ∀ p ∈ ds, p.2 = .ready ↔ Complete v objs p.1.id
  anchors : ∀ a ∈ A, ∃ p ∈ ds, p.1.id = a ∧ p.2 = .ready

def AppliedIn (cur : Ds) (x : BlockId) : Prop := ∃ p ∈ cur, p.1.id = x ∧ p.2 = .applied

structure Inv (ds : Ds) (A : List BlockId) (cur : Ds) (q : List BlockId) : Prop where
  same : SameBlocks ds cur
  sub : ∀ p ∈ cur, (p.2 = .applied ∧ Anc ds A p.1.id) ∨ p ∈ ds
  queue : ∀ x ∈ q, Anc ds A x
  work : ∀ x, (x ∈ A ∨ ∃ p ∈ cur, p.2 = .applied ∧ x ∈ p.1.parents) → (x ∈ q ∨ AppliedIn cur x)

/-- what the loop achieves -/
structure Post (ds : Ds) (A : List BlockId) (cur : Ds) : Prop where
  same : SameBlocks ds cur
  applied_iff : ∀ p ∈ cur, p.2 = .applied ↔ Anc ds A p.1.id
  others : ∀ p ∈ cur, p.2 ≠ .applied → p ∈ ds

section
variable {v : View} {objs : List Str} {ds : Ds} {A : List BlockId}

/-- Key fact: every block of the closure is causally complete -/
theorem Start.anc_complete (hs : Start v objs ds A) {x : BlockId} (h : Anc ds A x) : Complete v objs x := by
  induction h with
  | anchor a ha =>
    obtain ⟨p, hp, hid, hr⟩ := hs.anchors a ha
    exact hid ▸ (hs.rc p hp).mp hr
  | parent p x _ hp hx ih => exact complete_parent hs.ok hp ih x hx

/-- hence it is in the map, `ready` -/
theorem Start.anc_ready (hs : Start v objs ds A) {x : BlockId} (h : Anc ds A x) :
    ∃ p ∈ ds, p.1.id = x ∧ p.2 = .ready := by
  have hc := hs.anc_complete h
  obtain ⟨p, hp, hid⟩ := mem_of_complete hs.ok hc
  exact ⟨p, hp, hid, (hs.rc p hp).mpr (hid ▸ hc)⟩

/-- `Start` from the shared invariant `Good` (what `markValid_spec` delivers) once no entry is
    `pending`/`applied` -/
theorem Start.of_good (hg : Good v objs ds) (hrb : ∀ p ∈ ds, p.2 = .ready ∨ p.2 = .blocked)
    (hA : ∀ a ∈ A, ∃ p ∈ ds, p.1.id = a ∧ p.2 = .ready) : Start v objs ds A := by
  refine ⟨hg.ok, hrb, ?_, hA⟩
  intro p hp
  constructor
  · intro h; exact (hg.st p hp).1 (Or.inl h)
  · intro hc
    rcases hrb p hp with h | h
    · exact h
    · exact absurd hc ((hg.st p hp).2 h)

/-- the two anchor checks of `reloadUntil` (`notFound`, `invalid`) passing means every anchor is `ready` -/
theorem anchors_ready_of_checks (ds : Ds) (A : List BlockId)
    (h : A.find? (fun a => match findDelta ds a with | some (_, .ready) => false | _ => true) = none) :
    ∀ a ∈ A, ∃ p ∈ ds, p.1.id = a ∧ p.2 = .ready := by
  intro a ha
  have := List.find?_eq_none.mp h a ha
  split at this
  · next b hf =>
    obtain ⟨hm, hid⟩ := findDelta_some hf
    exact ⟨_, hm, hid, rfl⟩
  · simp at this

theorem Start.not_applied (hs : Start v objs ds A) {p : Block × Status} (hp : p ∈ ds) : p.2 ≠ .applied := by
  intro h; rcases hs.rb p hp with h' | h' <;> rw [h] at h' <;> cases h'

theorem inv_init (hs : Start v objs ds A) : Inv ds A ds A := by
  refine ⟨SameBlocks.refl _, fun p hp => Or.inr hp, fun x hx => Anc.anchor x hx, ?_⟩
  rintro x (hx | ⟨p, hp, ha, _⟩)
  · exact Or.inl hx
  · exact absurd ha (hs.not_applied hp)

theorem Inv.nodup (hs : Start v objs ds A) {cur : Ds} {q : List BlockId} (hi : Inv ds A cur q) :
    (cur.map (·.1.id)).Nodup := by
  rw [ids_of_same hi.same]; exact hs.ok.nodup

/-- an entry of the current map with the identifier of an entry of the original map carries the same block -/
theorem Inv.fst_eq (hs : Start v objs ds A) {cur : Ds} {q : List BlockId} (hi : Inv ds A cur q)
    {p p' : Block × Status} (hp : p ∈ ds) (hp' : p' ∈ cur) (hid : p'.1.id = p.1.id) : p'.1 = p.1 := by
  have : p'.1 ∈ ds.map (·.1) := by rw [← hi.same]; exact List.mem_map_of_mem hp'
  obtain ⟨p'', hp'', he⟩ := List.mem_map.mp this
  have := eq_of_mem_of_id_eq hs.ok.nodup hp'' hp (by rw [he]; exact hid)
  rw [← he, this]

theorem Inv.mem_cur (hi : Inv ds A cur q) {p : Block × Status} (hp : p ∈ ds) : ∃ p' ∈ cur, p'.1 = p.1 := by
  have : p.1 ∈ cur.map (·.1) := by rw [hi.same]; exact List.mem_map_of_mem hp
  obtain ⟨p', hp', he⟩ := List.mem_map.mp this
  exact ⟨p', hp', he⟩

theorem appliedIn_setStatus {cur : Ds} {x id : BlockId} (h : AppliedIn cur x) :
    AppliedIn (setStatus cur id .applied) x := by
  obtain ⟨p, hp, hid, ha⟩ := h
  by_cases e : p.1.id = id
  · exact ⟨(p.1, .applied), mem_setStatus.mpr ⟨p, hp, by simp [e]⟩, hid, rfl⟩
  · exact ⟨p, mem_setStatus.mpr ⟨p, hp, by simp [e]⟩, hid, ha⟩

/-- with an empty queue the invariant is the postcondition -/
theorem Inv.post (hs : Start v objs ds A) {cur : Ds} (hi : Inv ds A cur []) : Post ds A cur := by
  have hnd := hi.nodup hs
  have hall : ∀ x, Anc ds A x → AppliedIn cur x := by
    intro x h
    induction h with
    | anchor a ha =>
      rcases hi.work a (Or.inl ha) with h | h
      · cases h
      · exact h
    | parent p x _ hp hx ih =>
      obtain ⟨p', hp', hid, ha⟩ := ih
      have hfst := hi.fst_eq hs hp hp' hid
      rcases hi.work x (Or.inr ⟨p', hp', ha, hfst ▸ hx⟩) with h | h
      · cases h
      · exact h
  refine ⟨hi.same, ?_, ?_⟩
  · intro p hp
    constructor
    · intro ha
      rcases hi.sub p hp with h | h
      · exact h.2
      · exact absurd ha (hs.not_applied h)
    · intro h
      obtain ⟨p', hp', hid, ha⟩ := hall _ h
      rw [← eq_of_mem_of_id_eq hnd hp' hp hid]; exact ha
  · intro p hp hna
    rcases hi.sub p hp with h | h
    · exact absurd h.1 hna
    · exact h

/-- a ready block is popped: it is applied and its parents are enqueued -/
theorem Inv.step_ready (hs : Start v objs ds A) {cur : Ds} {x : BlockId} {q : List BlockId} {b : Block}
    (hi : Inv ds A cur (x :: q)) (hf : findDelta cur x = some (b, .ready)) :
    Inv ds A (setStatus cur x .applied) (q ++ b.parents) := by
  obtain ⟨hbm, hbid⟩ := findDelta_some hf
  simp only at hbid
  have hx : Anc ds A x := hi.queue x (by simp)
  have hbds : (b, Status.ready) ∈ ds := by
    rcases hi.sub _ hbm with h | h
    · cases h.1
    · exact h
  have hnew : AppliedIn (setStatus cur x .applied) x :=
    ⟨(b, .applied), mem_setStatus.mpr ⟨(b, .ready), hbm, by simp [hbid]⟩, hbid, rfl⟩
  have hold : ∀ y, (y ∈ x :: q ∨ AppliedIn cur y) → (y ∈ q ++ b.parents ∨ AppliedIn (setStatus cur x .applied) y) := by
    rintro y (hy | hy)
    · rcases List.mem_cons.mp hy with rfl | hy
      · exact Or.inr hnew
      · exact Or.inl (List.mem_append_left _ hy)
    · exact Or.inr (appliedIn_setStatus hy)
  refine ⟨hi.same.trans (sameBlocks_setStatus _ _ _), ?_, ?_, ?_⟩
  · intro p hp
    obtain ⟨p1, hp1, rfl⟩ := mem_setStatus.mp hp
    by_cases e : p1.1.id = x
    · rw [if_pos e]; exact Or.inl ⟨rfl, by show Anc ds A p1.1.id; rw [e]; exact hx⟩
    · rw [if_neg e]; exact hi.sub p1 hp1
  · intro y hy
    rcases List.mem_append.mp hy with hy | hy
    · exact hi.queue y (List.mem_cons_of_mem _ hy)
    · exact Anc.parent (b, .ready) y (by simpa [hbid] using hx) hbds hy
  · rintro y (hy | ⟨p, hp, ha, hy⟩)
    · exact hold y (hi.work y (Or.inl hy))
    · obtain ⟨p1, hp1, rfl⟩ := mem_setStatus.mp hp
      by_cases e : p1.1.id = x
      · simp only [e, if_true] at hy
        have : p1 = (b, .ready) := eq_of_mem_of_id_eq (hi.nodup hs) hp1 hbm (by rw [e, hbid])
        subst this
        exact Or.inl (List.mem_append_right _ hy)
      · simp only [e, if_false] at ha hy
        exact hold y (hi.work y (Or.inr ⟨p1, hp1, ha, hy⟩))

/-- a block that is not ready is popped: it has been applied before, nothing changes -/
theorem Inv.step_skip (hs : Start v objs ds A) {cur : Ds} {x : BlockId} {q : List BlockId}
    (hi : Inv ds A cur (x :: q)) (hf : ∀ b, findDelta cur x ≠ some (b, .ready)) :
    Inv ds A cur q := by
  have hx : Anc ds A x := hi.queue x (by simp)
  have hxa : AppliedIn cur x := by
    obtain ⟨p0, hp0, hid0, hr0⟩ := hs.anc_ready hx
    obtain ⟨p1, hp1, he⟩ := hi.mem_cur hp0
    rcases hi.sub p1 hp1 with h | h
    · exact ⟨p1, hp1, by rw [he]; exact hid0, h.1⟩
    · exfalso
      have : p1 = p0 := eq_of_mem_of_id_eq hs.ok.nodup h hp0 (by rw [he])
      subst this
      have := findDelta_of_mem (hi.nodup hs) hp1
      rw [hid0] at this
      exact hf p1.1 (by rw [this, ← hr0])
  refine ⟨hi.same, hi.sub, fun y hy => hi.queue y (List.mem_cons_of_mem _ hy), ?_⟩
  intro y hy
  rcases hi.work y hy with h | h
  · rcases List.mem_cons.mp h with rfl | h
    · exact Or.inr hxa
    · exact Or.inl h
  · exact Or.inr h

/-- the loop on the map, from any state satisfying the invariant, with fuel at least the potential -/
theorem loopD_spec (hs : Start v objs ds A) (fuel : Nat) (q : List BlockId) (cur : Ds)
    (hi : Inv ds A cur q) (hfuel : q.length + pot cur ≤ fuel) : Post ds A (loopD fuel q cur) := by
  induction fuel generalizing q cur with
  | zero =>
    have : q = [] := List.eq_nil_of_length_eq_zero (by omega)
    subst this
    simpa [loopD] using hi.post hs
  | succ fuel ih =>
    cases q with
    | nil => simpa [loopD] using hi.post hs
    | cons x q =>
      simp only [loopD]
      split
      · next b hf =>
        apply ih _ _ (hi.step_ready hs hf)
        have := pot_setStatus_ready hf
        simp only [List.length_cons, List.length_append] at hfuel ⊢
        omega
      · next hno =>
        apply ih _ _ (hi.step_skip hs (fun b h => hno b h))
        simp only [List.length_cons] at hfuel
        omega

/-- **C14 main.** Start from the state `reloadUntil` hands to its queue loop: every entry `ready` or
    `blocked`, `ready ↔ Complete` (after `markValid`), every anchor `ready`. With the fuel that
    `reloadUntil` supplies (`sumParents ds + A.length + 1`) or more, the loop ends with: same blocks,
    an entry is `applied` iff its identifier is in the ancestor closure of the anchors, every other entry
    is literally an entry of the initial map (same block, same status).
    (`ViewOK` is not needed.) -/
theorem untilLoop_spec (hs : Start v objs ds A) (st : PState) (hst : st.deltas = ds) (fuel : Nat)
    (hfuel : sumParents ds + A.length + 1 ≤ fuel) :
    Post ds A (untilLoop fuel A st).deltas := by
  rw [untilLoop_deltas, hst]
  apply loopD_spec hs fuel A ds (inv_init hs)
  have := pot_le_sumParents ds
  omega

/-- the same, read through `statusOf` -/
theorem untilLoop_status (hs : Start v objs ds A) (st : PState) (hst : st.deltas = ds) (fuel : Nat)
    (hfuel : sumParents ds + A.length + 1 ≤ fuel) (id : BlockId) :
    (Anc ds A id → statusOf (untilLoop fuel A st).deltas id = some .applied) ∧
    (¬ Anc ds A id → statusOf (untilLoop fuel A st).deltas id = statusOf ds id) := by
  have hp := untilLoop_spec hs st hst fuel hfuel
  have hnd : ((untilLoop fuel A st).deltas.map (·.1.id)).Nodup := by rw [ids_of_same hp.same]; exact hs.ok.nodup
  constructor
  · intro h
    obtain ⟨p, hpm, hid, _⟩ := hs.anc_ready h
    have : p.1 ∈ (untilLoop fuel A st).deltas.map (·.1) := by rw [hp.same]; exact List.mem_map_of_mem hpm
    obtain ⟨p', hp', he⟩ := List.mem_map.mp this
    have hid' : p'.1.id = id := by rw [he]; exact hid
    have := statusOf_of_mem hnd hp'
    rw [hid'] at this
    rw [this, (hp.applied_iff p' hp').mpr (hid' ▸ h)]
  · intro h
    cases hf : findDelta (untilLoop fuel A st).deltas id with
    | none =>
      have h1 : (findDelta ds id).isSome = false := by
        rw [← findDelta_isSome_of_same hp.same, hf]; rfl
      have h2 : findDelta ds id = none := by simpa using h1
      simp [statusOf, hf, h2]
    | some p' =>
      obtain ⟨hp', hid'⟩ := findDelta_some hf
      have hna : p'.2 ≠ .applied := fun ha => h (hid' ▸ (hp.applied_iff p' hp').mp ha)
      have hmem := hp.others p' hp' hna
      have h1 := statusOf_of_mem hs.ok.nodup hmem
      have h2 := statusOf_of_mem hnd hp'
      rw [hid'] at h1 h2
      rw [h1, h2]

end

/-! ### 7. the applied set of a settled state is the closure of its heads -/

theorem exists_index_bound (ds : Ds) : ∃ N, ∀ p ∈ ds, p.1.id.index ≤ N := by
  induction ds with
  | nil => exact ⟨0, by simp⟩
  | cons p t ih =>
    obtain ⟨N, hN⟩ := ih
    refine ⟨max N p.1.id.index, ?_⟩
    intro q hq
    rcases List.mem_cons.mp hq with rfl | hq
    · exact Nat.le_max_right _ _
    · exact Nat.le_trans (hN q hq) (Nat.le_max_left _ _)

/-- `A` is the set of heads of `ds` (the content of `anchors_spec`) -/
def Heads (ds : Ds) (A : List BlockId) : Prop :=
  ∀ x, x ∈ A ↔ (∃ p ∈ ds, p.1.id = x ∧ p.2 = .applied) ∧ ¬ ∃ q ∈ ds, q.2 = .applied ∧ x ∈ q.1.parents

theorem heads_anchors (st : PState) : Heads st.deltas st.anchors := fun x => anchors_spec st x

/-- **C14.7** In a state after `reload`/`refresh` whose heads are `A`, the applied blocks are exactly the
    ancestor closure of `A`. -/
theorem was_heads {v : View} {objs : List Str} {ds : Ds} {A : List BlockId} (hv : ViewOK v)
    (hs : Settled v objs ds) (hall : AllApplied v objs ds) (hA : Heads ds A) :
    ∀ p ∈ ds, p.2 = .applied ↔ Anc ds A p.1.id := by
  have hdown : ∀ x, Anc ds A x → ∃ p ∈ ds, p.1.id = x ∧ p.2 = .applied := by
    intro x h
    induction h with
    | anchor a ha => exact ((hA a).mp ha).1
    | parent p x _ hp hx ih =>
      obtain ⟨p', hp', hid, ha⟩ := ih
      have : p' = p := eq_of_mem_of_id_eq hs.1.ok.nodup hp' hp hid
      subst this
      exact applied_closed hs hall p' hp' ha x hx
  obtain ⟨N, hN⟩ := exists_index_bound ds
  have hup : ∀ n, ∀ p ∈ ds, p.2 = .applied → N - p.1.id.index ≤ n → Anc ds A p.1.id := by
    intro n
    induction n with
    | zero =>
      intro p hp ha hn
      by_cases hh : p.1.id ∈ A
      · exact Anc.anchor _ hh
      · exfalso
        have : ∃ q ∈ ds, q.2 = .applied ∧ p.1.id ∈ q.1.parents := by
          apply Classical.byContradiction
          intro hno
          exact hh ((hA _).mpr ⟨⟨p, hp, rfl, ha⟩, hno⟩)
        obtain ⟨q, hq, _, hmem⟩ := this
        have h1 := parent_index_lt hv hs.1.ok q hq _ hmem
        have h2 := hN q hq
        omega
    | succ n ih =>
      intro p hp ha hn
      by_cases hh : p.1.id ∈ A
      · exact Anc.anchor _ hh
      · have : ∃ q ∈ ds, q.2 = .applied ∧ p.1.id ∈ q.1.parents := by
          apply Classical.byContradiction
          intro hno
          exact hh ((hA _).mpr ⟨⟨p, hp, rfl, ha⟩, hno⟩)
        obtain ⟨q, hq, hqa, hmem⟩ := this
        have h1 := parent_index_lt hv hs.1.ok q hq _ hmem
        have h2 := hN q hq
        exact Anc.parent q _ (ih q hq hqa (by omega)) hq hmem
  intro p hp
  constructor
  · intro ha; exact hup _ p hp ha (Nat.le_refl _)
  · intro h
    obtain ⟨p', hp', hid, ha⟩ := hdown _ h
    rw [← eq_of_mem_of_id_eq hs.1.ok.nodup hp' hp hid]; exact ha

/-- `was_heads` for the heads `get_anchors` reports -/
theorem was_heads_anchors {v : View} (st : PState) (hv : ViewOK v)
    (hs : Settled v st.objects st.deltas) (hall : AllApplied v st.objects st.deltas) :
    ∀ p ∈ st.deltas, p.2 = .applied ↔ Anc st.deltas st.anchors p.1.id :=
  was_heads hv hs hall (heads_anchors st)

/-! ### the closure only depends on the blocks, and survives growth of the map -/

/-- the closure only looks at the blocks of the map, not at the statuses -/
theorem Anc.of_blocks {ds ds' : Ds} {A : List BlockId} (hsub : ∀ p ∈ ds, ∃ p' ∈ ds', p'.1 = p.1) {x : BlockId}
    (h : Anc ds A x) : Anc ds' A x := by
  induction h with
  | anchor a ha => exact Anc.anchor a ha
  | parent p x _ hp hx ih =>
    obtain ⟨p', hp', he⟩ := hsub p hp
    exact Anc.parent p' x (he ▸ ih) hp' (he ▸ hx)

/-- **Time travel.** `ds₀` is the map of a replica after `reload`/`refresh` (view `v₀`), with heads `A`.
    Later, `reload_until A` runs over a map `ds` (view `v`) that contains every block of `ds₀` (storage only
    grows) and satisfies the loop's start conditions. Then for every block of the old map: it is applied
    after the loop iff it was applied then; and every block applied after the loop is a block of the old
    map that was applied then. -/
theorem time_travel {v₀ v : View} {objs₀ objs : List Str} {ds₀ ds : Ds} {A : List BlockId}
    (hv₀ : ViewOK v₀) (hs₀ : Settled v₀ objs₀ ds₀) (hall₀ : AllApplied v₀ objs₀ ds₀) (hA : Heads ds₀ A)
    (hsub : ∀ p ∈ ds₀, ∃ p' ∈ ds, p'.1 = p.1)
    (hs : Start v objs ds A) (st : PState) (hst : st.deltas = ds) (fuel : Nat)
    (hfuel : sumParents ds + A.length + 1 ≤ fuel) :
    ∀ p' ∈ (untilLoop fuel A st).deltas,
      p'.2 = .applied ↔ ∃ p ∈ ds₀, p.1 = p'.1 ∧ p.2 = .applied := by
  have hp := untilLoop_spec hs st hst fuel hfuel
  have hwas := was_heads hv₀ hs₀ hall₀ hA
  -- the closure in the new map stays inside the old map
  have hback : ∀ x, Anc ds A x → Anc ds₀ A x ∧ ∃ p ∈ ds₀, p.1.id = x ∧ p.2 = .applied := by
    intro x h
    induction h with
    | anchor a ha => exact ⟨Anc.anchor a ha, ((hA a).mp ha).1⟩
    | parent p x _ hpm hx ih =>
      obtain ⟨hanc, p0, hp0, hid, ha⟩ := ih
      obtain ⟨p0', hp0', he⟩ := hsub p0 hp0
      have : p0' = p := eq_of_mem_of_id_eq hs.ok.nodup hp0' hpm (by rw [he]; exact hid)
      subst this
      have hx0 : x ∈ p0.1.parents := he ▸ hx
      exact ⟨Anc.parent p0 x (hid ▸ hanc) hp0 hx0, applied_closed hs₀ hall₀ p0 hp0 ha x hx0⟩
  intro p' hp'
  rw [hp.applied_iff p' hp']
  constructor
  · intro h
    obtain ⟨_, p0, hp0, hid, ha⟩ := hback _ h
    refine ⟨p0, hp0, ?_, ha⟩
    obtain ⟨p1, hp1, he⟩ := hsub p0 hp0
    have : p'.1 ∈ ds.map (·.1) := by rw [← hp.same]; exact List.mem_map_of_mem hp'
    obtain ⟨p2, hp2, he2⟩ := List.mem_map.mp this
    have : p1 = p2 := eq_of_mem_of_id_eq hs.ok.nodup hp1 hp2 (by rw [he, he2]; exact hid)
    rw [← he, this, he2]
  · rintro ⟨p0, hp0, he, ha⟩
    have := Anc.of_blocks hsub ((hwas p0 hp0).mp ha)
    rw [he] at this; exact this

/-! ### non-vacuity -/

section Examples

/-- the map of `C13.ds3` as `reloadUntil` sees it after `markValid`: everything `ready` -/
def dsR : Ds := [(blkR, .ready), (blkA, .ready), (blkB, .ready)]

theorem dsR_ok : DsOK view3 dsR := ds3_ok.of_same (ds := ds3) rfl

theorem start3 : Start view3 [] dsR [idA] := by
  have hmem : ∀ p ∈ dsR, p = (blkR, .ready) ∨ p = (blkA, .ready) ∨ p = (blkB, .ready) := by
    intro p hp; simpa [dsR] using hp
  refine ⟨dsR_ok, ?_, ?_, ?_⟩
  · intro p hp; rcases hmem p hp with rfl | rfl | rfl <;> exact Or.inl rfl
  · intro p hp
    rcases hmem p hp with rfl | rfl | rfl
    · exact ⟨fun _ => completeR, fun _ => rfl⟩
    · exact ⟨fun _ => completeA, fun _ => rfl⟩
    · exact ⟨fun _ => completeB, fun _ => rfl⟩
  · intro a ha
    have : a = idA := by simpa using ha
    subst this
    exact ⟨(blkA, .ready), by simp [dsR], rfl, rfl⟩

/-- time travel to the head `A` alone applies the root and `A`, not `B` -/
example : ((untilLoop (sumParents dsR + 1 + 1) [idA] { deltas := dsR }).deltas.map (·.2)) =
    [.applied, .applied, .ready] := by decide

example : Anc dsR [idA] idR := Anc.parent (blkA, .ready) idR (Anc.anchor _ (by decide)) (by simp [dsR]) (by decide)

/-- the heads of the settled example state are `[idA, idB]` (`C13.anchors3`), so `was_heads` applies -/
example : ∀ p ∈ ds3, p.2 = .applied ↔ Anc ds3 [idA, idB] p.1.id :=
  was_heads view3_ok settled3.1 settled3.2 (by
    have := heads_anchors st3
    rw [anchors3] at this
    exact this)

end Examples

end Melda.Props.C14
