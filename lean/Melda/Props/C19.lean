/-
  C19 — revision identifiers are canonical.
  `Rev.parse (Rev.render r) = some r` for every canonical revision, `render` is injective on them,
  every revision produced by `mk1/upd/del/res` from a hex-producing hash is canonical, and `Rev.cmp`
  is a strict total order consistent with equality on canonical revisions.
-/
import Melda.Revision
namespace Melda.Props.C19
open Melda Melda.Rev

/-! ### 1. canonical revisions -/

/-- ASCII letter or digit -/
def isAlnum (c : Char) : Bool :=
  isDigit c || ('a'.val ≤ c.val && c.val ≤ 'z'.val) || ('A'.val ≤ c.val && c.val ≤ 'Z'.val)

/-- non-empty, ASCII alphanumeric -/
def AlnumStr (s : Str) : Prop := s ≠ [] ∧ ∀ c ∈ s, isAlnum c = true

instance (s : Str) : Decidable (AlnumStr s) := by unfold AlnumStr; infer_instance

def Canonical (r : Rev) : Prop :=
  AlnumStr r.digest ∧ 1 ≤ r.index ∧ (r.index ≤ 1 ↔ r.tail = none) ∧
  (match r.tail with | none => True | some t => AlnumStr t)

instance (r : Rev) : Decidable (Canonical r) := by
  unfold Canonical
  cases r.tail <;> infer_instance

theorem Canonical.tail_some {r : Rev} {t : Str} (h : Canonical r) (ht : r.tail = some t) : AlnumStr t := by
  have := h.2.2.2; rw [ht] at this; exact this

theorem isAlnum_ne_underscore {c : Char} (h : isAlnum c = true) : c ≠ '_' := by
  rintro rfl; revert h; decide

theorem isAlnum_ne_dash {c : Char} (h : isAlnum c = true) : c ≠ '-' := by
  rintro rfl; revert h; decide

theorem isAlnum_iff (c : Char) : isAlnum c = true ↔ (isWordChar c = true ∧ c ≠ '_') := by
  constructor
  · intro h
    refine ⟨?_, isAlnum_ne_underscore h⟩
    unfold isWordChar; unfold isAlnum at h; simp only [Bool.or_eq_true] at h ⊢; exact Or.inl h
  · rintro ⟨h, hne⟩
    unfold isWordChar at h; unfold isAlnum
    simp only [Bool.or_eq_true, decide_eq_true_eq] at h ⊢
    rcases h with h | h
    · exact h
    · exact absurd h hne

theorem isAlnum_isWordChar {c : Char} (h : isAlnum c = true) : isWordChar c = true :=
  ((isAlnum_iff c).mp h).1

/-! ### 2. decimal rendering -/

theorem digit_char (d : Nat) (h : d < 10) :
    isDigit (Char.ofNat (48 + d)) = true ∧ digitVal (Char.ofNat (48 + d)) = d := by
  have : d = 0 ∨ d = 1 ∨ d = 2 ∨ d = 3 ∨ d = 4 ∨ d = 5 ∨ d = 6 ∨ d = 7 ∨ d = 8 ∨ d = 9 := by omega
  rcases this with rfl | rfl | rfl | rfl | rfl | rfl | rfl | rfl | rfl | rfl <;> decide

theorem natOfDigits_append (a : Str) (c : Char) :
    natOfDigits (a ++ [c]) = natOfDigits a * 10 + digitVal c := by
  simp [natOfDigits, List.foldl_append]

theorem natDigits_spec (fuel n : Nat) (h : n < fuel) :
    natOfDigits (natDigits fuel n) = n ∧ natDigits fuel n ≠ [] ∧ ∀ c ∈ natDigits fuel n, isDigit c = true := by
  induction fuel generalizing n with
  | zero => omega
  | succ f ih =>
    unfold natDigits
    split
    · next hlt =>
      have := digit_char n hlt
      refine ⟨?_, by simp, ?_⟩
      · simp [natOfDigits, this.2]
      · intro c hc; simp at hc; subst hc; exact this.1
    · next hge =>
      have hd := digit_char (n % 10) (Nat.mod_lt _ (by omega))
      obtain ⟨h1, h2, h3⟩ := ih (n / 10) (by omega)
      refine ⟨?_, by simp, ?_⟩
      · rw [natOfDigits_append, h1, hd.2]; omega
      · intro c hc
        rcases List.mem_append.mp hc with hc | hc
        · exact h3 c hc
        · simp at hc; subst hc; exact hd.1

theorem natOfDigits_natStr (n : Nat) : natOfDigits (natStr n) = n :=
  (natDigits_spec (n + 1) n (by omega)).1

theorem natStr_ne_nil (n : Nat) : natStr n ≠ [] :=
  (natDigits_spec (n + 1) n (by omega)).2.1

theorem natStr_digits (n : Nat) : ∀ c ∈ natStr n, isDigit c = true :=
  (natDigits_spec (n + 1) n (by omega)).2.2

/-! ### 3. parsing the rendered text -/

theorem spanP_append (p : Char → Bool) (a rest : Str) (ha : ∀ c ∈ a, p c = true)
    (hr : ∀ c t, rest = c :: t → p c = false) : spanP p (a ++ rest) = (a, rest) := by
  induction a with
  | nil =>
    cases rest with
    | nil => simp [spanP]
    | cons c t => simp [spanP, hr c t rfl]
  | cons x xs ih =>
    have hx : p x = true := ha x (by simp)
    have := ih (fun c hc => ha c (List.mem_cons_of_mem _ hc))
    simp [spanP, hx, this]

theorem spanP_all (p : Char → Bool) (a : Str) (ha : ∀ c ∈ a, p c = true) : spanP p a = (a, []) := by
  have := spanP_append p a [] ha (by intro c t h; cases h)
  simpa using this

/-- the remainder of `spanP` is a suffix: it only contains characters of the input -/
theorem spanP_snd_mem (p : Char → Bool) (s : Str) : ∀ c ∈ (spanP p s).2, c ∈ s := by
  induction s with
  | nil => simp [spanP]
  | cons x xs ih =>
    unfold spanP
    split
    · intro c hc; exact List.mem_cons_of_mem _ (ih c hc)
    · intro c hc; exact hc

theorem matchFullAt_no_dash (s : Str) (h : ∀ c ∈ s, c ≠ '-') : matchFullAt s = none := by
  unfold matchFullAt
  simp only
  split
  · rfl
  · split
    · next r' heq =>
      have := spanP_snd_mem isDigit s '-' (by rw [heq]; simp)
      exact absurd rfl (h _ this)
    · rfl

theorem findAt_matchFullAt_no_dash (s : Str) (h : ∀ c ∈ s, c ≠ '-') : findAt matchFullAt s = none := by
  induction s with
  | nil => rfl
  | cons x xs ih =>
    unfold findAt
    rw [matchFullAt_no_dash _ h]
    exact ih (fun c hc => h c (List.mem_cons_of_mem _ hc))

theorem go_no_underscore (pre rest : Str) (best : Option (Str × Str)) (h : ∀ c ∈ rest, c ≠ '_') :
    splitLastUnderscore.go pre rest best = best := by
  induction rest generalizing pre best with
  | nil => rfl
  | cons x xs ih =>
    unfold splitLastUnderscore.go
    have hx : x ≠ '_' := h x (by simp)
    simp only [hx, decide_false, Bool.false_and, Bool.false_eq_true, if_false]
    exact ih _ _ (fun c hc => h c (List.mem_cons_of_mem _ hc))

theorem go_split (pre a t : Str) (best : Option (Str × Str))
    (ha : ∀ c ∈ a, c ≠ '_') (ht : ∀ c ∈ t, c ≠ '_') (htne : t ≠ []) (hne : pre ≠ [] ∨ a ≠ []) :
    splitLastUnderscore.go pre (a ++ '_' :: t) best = some (pre.reverse ++ a, t) := by
  induction a generalizing pre best with
  | nil =>
    have hpre : pre ≠ [] := by rcases hne with h | h; exact h; exact absurd rfl h
    simp only [List.nil_append]
    unfold splitLastUnderscore.go
    have h1 : pre.isEmpty = false := by cases pre; exact absurd rfl hpre; rfl
    have h2 : t.isEmpty = false := by cases t; exact absurd rfl htne; rfl
    simp only [h1, h2, decide_true, Bool.not_false, Bool.and_self, if_true]
    rw [go_no_underscore _ _ _ ht]; simp
  | cons x xs ih =>
    simp only [List.cons_append]
    unfold splitLastUnderscore.go
    have hx : x ≠ '_' := ha x (by simp)
    simp only [hx, decide_false, Bool.false_and, Bool.false_eq_true, if_false]
    rw [ih (x :: pre) best (fun c hc => ha c (List.mem_cons_of_mem _ hc)) (Or.inl (by simp))]
    simp

theorem splitLastUnderscore_spec (d t : Str) (hd : ∀ c ∈ d, c ≠ '_') (ht : ∀ c ∈ t, c ≠ '_')
    (hdne : d ≠ []) (htne : t ≠ []) : splitLastUnderscore (d ++ '_' :: t) = some (d, t) := by
  unfold splitLastUnderscore
  rw [go_split [] d t none hd ht htne (Or.inr hdne)]; simp

theorem splitLastUnderscore_none (w : Str) (h : ∀ c ∈ w, c ≠ '_') : splitLastUnderscore w = none := by
  unfold splitLastUnderscore; exact go_no_underscore _ _ _ h

theorem isDigit_dash : isDigit '-' = false := by decide
theorem isWordChar_underscore : isWordChar '_' = true := by decide

theorem spanP_digits_natStr (n : Nat) (rest : Str) :
    spanP isDigit (natStr n ++ '-' :: rest) = (natStr n, '-' :: rest) :=
  spanP_append isDigit _ _ (natStr_digits n) (by intro c t h; cases h; exact isDigit_dash)

theorem matchFullAt_render_tail (n : Nat) (d t : Str) (hd : AlnumStr d) (ht : AlnumStr t) :
    matchFullAt (natStr n ++ '-' :: (d ++ '_' :: t)) = some ⟨n, d, some t⟩ := by
  have hw : spanP isWordChar (d ++ '_' :: t) = (d ++ '_' :: t, []) := by
    apply spanP_all
    intro c hc
    rcases List.mem_append.mp hc with hc | hc
    · exact isAlnum_isWordChar (hd.2 c hc)
    · rcases List.mem_cons.mp hc with rfl | hc
      · exact isWordChar_underscore
      · exact isAlnum_isWordChar (ht.2 c hc)
  have hs := splitLastUnderscore_spec d t (fun c hc => isAlnum_ne_underscore (hd.2 c hc))
    (fun c hc => isAlnum_ne_underscore (ht.2 c hc)) hd.1 ht.1
  have hne : (natStr n).isEmpty = false := by
    have := natStr_ne_nil n; cases h : natStr n; exact absurd h this; rfl
  unfold matchFullAt
  simp only [spanP_digits_natStr, hne, Bool.false_eq_true, if_false, hw, hs, natOfDigits_natStr]

theorem matchFullAt_render_notail (n : Nat) (d : Str) (hd : AlnumStr d) :
    matchFullAt (natStr n ++ '-' :: d) = none := by
  have hw : spanP isWordChar d = (d, []) :=
    spanP_all _ _ (fun c hc => isAlnum_isWordChar (hd.2 c hc))
  have hs := splitLastUnderscore_none d (fun c hc => isAlnum_ne_underscore (hd.2 c hc))
  unfold matchFullAt
  simp only [spanP_digits_natStr, hw, hs]
  split <;> rfl

theorem matchFirstAt_render_notail (n : Nat) (d : Str) (hd : AlnumStr d) :
    matchFirstAt (natStr n ++ '-' :: d) = some ⟨n, d, none⟩ := by
  have hw : spanP isWordChar d = (d, []) :=
    spanP_all _ _ (fun c hc => isAlnum_isWordChar (hd.2 c hc))
  have hne : (natStr n).isEmpty = false := by
    have := natStr_ne_nil n; cases h : natStr n; exact absurd h this; rfl
  have hdne : d.isEmpty = false := by
    have := hd.1; cases h : d; exact absurd h this; rfl
  unfold matchFirstAt
  simp only [spanP_digits_natStr, hne, Bool.false_eq_true, if_false, hw, hdne, natOfDigits_natStr]

theorem findAt_cons_of_some (m : Str → Option Rev) (c : Char) (t : Str) (r : Rev) (h : m (c :: t) = some r) :
    findAt m (c :: t) = some r := by
  unfold findAt; rw [h]

theorem findAt_of_some (m : Str → Option Rev) (s : Str) (r : Rev) (hs : s ≠ []) (h : m s = some r) :
    findAt m s = some r := by
  cases s with
  | nil => exact absurd rfl hs
  | cons c t => exact findAt_cons_of_some m c t r h

/-- `FULL_REV` does not match at any start position of `ds ++ "-" ++ d` when `ds` are digits and `d`
    is alphanumeric (no `_` to split at, and no `-` after the first one) -/
theorem findAt_full_notail (ds d : Str) (hds : ∀ c ∈ ds, isDigit c = true) (hd : AlnumStr d) :
    findAt matchFullAt (ds ++ '-' :: d) = none := by
  have hw : spanP isWordChar d = (d, []) :=
    spanP_all _ _ (fun c hc => isAlnum_isWordChar (hd.2 c hc))
  have hs := splitLastUnderscore_none d (fun c hc => isAlnum_ne_underscore (hd.2 c hc))
  have hdash : ∀ c ∈ d, c ≠ '-' := fun c hc => isAlnum_ne_dash (hd.2 c hc)
  induction ds with
  | nil =>
    simp only [List.nil_append]
    unfold findAt
    have : matchFullAt ('-' :: d) = none := by
      unfold matchFullAt; simp [spanP, isDigit_dash]
    rw [this]
    exact findAt_matchFullAt_no_dash d hdash
  | cons x xs ih =>
    simp only [List.cons_append]
    unfold findAt
    have hsp : spanP isDigit (x :: (xs ++ '-' :: d)) = (x :: xs, '-' :: d) := by
      have := spanP_append isDigit (x :: xs) ('-' :: d) hds (by intro c t h; cases h; exact isDigit_dash)
      simpa using this
    have : matchFullAt (x :: (xs ++ '-' :: d)) = none := by
      unfold matchFullAt
      simp only [hsp, hw, hs]
      split <;> rfl
    rw [this]
    exact ih (fun c hc => hds c (List.mem_cons_of_mem _ hc))

theorem render_ne_nil (r : Rev) : r.render ≠ [] := by
  unfold render
  split <;> (have := natStr_ne_nil r.index; cases h : natStr r.index; exact absurd h this; simp)

/-- **Round trip**: parsing the displayed text of a canonical revision gives the revision back. -/
theorem parse_render (r : Rev) (h : Canonical r) : Rev.parse r.render = some r := by
  obtain ⟨idx, dg, tl⟩ := r
  obtain ⟨hd, h1, hiff, htl⟩ := h
  simp only at hd h1 hiff htl
  cases tl with
  | none =>
    have hidx : ¬ idx > 1 := by have := hiff.mpr rfl; omega
    have hr : (Rev.mk idx dg none).render = natStr idx ++ '-' :: dg := by
      unfold render; simp only [hidx, if_false]
    unfold parse
    rw [hr, findAt_full_notail _ _ (natStr_digits idx) hd]
    simp only
    exact findAt_of_some _ _ _ (by simp) (matchFirstAt_render_notail idx dg hd)
  | some t =>
    have hidx : idx > 1 := by
      have : ¬ idx ≤ 1 := fun hle => by have := hiff.mp hle; cases this
      omega
    have hr : (Rev.mk idx dg (some t)).render = natStr idx ++ '-' :: (dg ++ '_' :: t) := by
      unfold render; simp only [hidx, if_true, Option.getD_some]
    unfold parse
    rw [hr, findAt_of_some _ _ _ (by simp) (matchFullAt_render_tail idx dg t hd htl)]

/-! ### 4. injectivity -/

theorem render_injective (a b : Rev) (ha : Canonical a) (hb : Canonical b) (h : a.render = b.render) : a = b := by
  have h1 := parse_render a ha
  have h2 := parse_render b hb
  rw [h] at h1; rw [h1] at h2; exact Option.some.inj h2

/-! ### 5. every produced revision is canonical -/

/-- the hash parameter returns 64 lowercase hexadecimal characters (as SHA-256 hex does) -/
def HexOut (H : Bytes → Str) : Prop :=
  ∀ b, (H b).length = 64 ∧ ∀ c ∈ H b, (isDigit c || ('a'.val ≤ c.val && c.val ≤ 'f'.val)) = true

theorem lowerHex_isAlnum {c : Char} (h : (isDigit c || ('a'.val ≤ c.val && c.val ≤ 'f'.val)) = true) :
    isAlnum c = true := by
  unfold isAlnum
  simp only [Bool.or_eq_true, Bool.and_eq_true, decide_eq_true_eq] at h ⊢
  rcases h with h | ⟨h1, h2⟩
  · exact Or.inl (Or.inl h)
  · refine Or.inl (Or.inr ⟨h1, UInt32.le_trans h2 (by decide)⟩)

theorem tailOf_length {H : Bytes → Str} (hH : HexOut H) (p : Rev) : (tailOf H p).length = 7 := by
  unfold tailOf; rw [List.length_take, (hH _).1]; rfl

theorem tailOf_alnum {H : Bytes → Str} (hH : HexOut H) (p : Rev) : AlnumStr (tailOf H p) := by
  constructor
  · intro h; have := tailOf_length hH p; rw [h] at this; cases this
  · intro c hc
    exact lowerHex_isAlnum ((hH _).2 c (List.mem_of_mem_take hc))

theorem mk1_canonical (d : Str) (hd : AlnumStr d) : Canonical (Rev.mk1 d) :=
  ⟨hd, Nat.le_refl 1, ⟨fun _ => rfl, fun _ => Nat.le_refl 1⟩, trivial⟩

theorem upd_canonical {H : Bytes → Str} (hH : HexOut H) (d : Str) (hd : AlnumStr d) (p : Rev)
    (hp : Canonical p) : Canonical (Rev.upd H d p) := by
  have h1 : 1 ≤ p.index := hp.2.1
  refine ⟨hd, ?_, ⟨?_, ?_⟩, tailOf_alnum hH p⟩
  · show 1 ≤ p.index + 1; omega
  · intro h; have : p.index + 1 ≤ 1 := h; omega
  · intro h; cases h

theorem DELETED_alnum : AlnumStr DELETED := by decide
theorem RESOLVED_alnum : AlnumStr RESOLVED := by decide
theorem EMPTY_alnum : AlnumStr EMPTY := by decide

theorem del_canonical {H : Bytes → Str} (hH : HexOut H) (p : Rev) (hp : Canonical p) :
    Canonical (Rev.del H p) := upd_canonical hH _ DELETED_alnum p hp

theorem res_canonical {H : Bytes → Str} (hH : HexOut H) (p : Rev) (hp : Canonical p) :
    Canonical (Rev.res H p) := upd_canonical hH _ RESOLVED_alnum p hp

/-- **Every revision the library creates is canonical** (given a hex hash): first revisions, updates,
    deletions and resolutions of canonical parents; the tail is the first seven characters of the hash
    of the parent's text. -/
theorem produced_canonical {H : Bytes → Str} (hH : HexOut H) :
    (∀ d, AlnumStr d → Canonical (Rev.mk1 d)) ∧
    (∀ d p, AlnumStr d → Canonical p → Canonical (Rev.upd H d p)) ∧
    (∀ p, Canonical p → Canonical (Rev.del H p)) ∧
    (∀ p, Canonical p → Canonical (Rev.res H p)) ∧
    (∀ d p, (Rev.upd H d p).tail = some ((H (utf8 p.render)).take 7)) :=
  ⟨mk1_canonical, fun d p hd hp => upd_canonical hH d hd p hp, del_canonical hH, res_canonical hH,
   fun _ _ => rfl⟩

/-- `Revision::new` agrees with the specialised constructors -/
theorem new_none (H : Bytes → Str) (d : Str) : Rev.new H 1 d none = Rev.mk1 d := rfl
theorem new_some (H : Bytes → Str) (d : Str) (p : Rev) : Rev.new H (p.index + 1) d (some p) = Rev.upd H d p := rfl

/-! ### 6. the order -/

theorem strLt_irrefl (a : Str) : strLt a a = false := by
  induction a with
  | nil => rfl
  | cons x xs ih => simp [strLt, UInt32.lt_irrefl, ih]

theorem strLt_asymm (a b : Str) (h : strLt a b = true) : strLt b a = false := by
  induction a generalizing b with
  | nil => cases b <;> simp [strLt] at h ⊢
  | cons x xs ih =>
    cases b with
    | nil => simp [strLt] at h
    | cons y ys =>
      unfold strLt at h ⊢
      by_cases h1 : x.val < y.val
      · have h2 : ¬ y.val < x.val := fun h2 => UInt32.lt_irrefl _ (UInt32.lt_trans h1 h2)
        simp [h1, h2]
      · by_cases h2 : y.val < x.val
        · simp [h1, h2] at h
        · simp only [h1, h2, if_false] at h ⊢; exact ih ys h

theorem val_eq_of_not_lt {x y : Char} (h1 : ¬ x.val < y.val) (h2 : ¬ y.val < x.val) : x = y :=
  Char.ext (UInt32.le_antisymm (UInt32.not_lt.mp h2) (UInt32.not_lt.mp h1))

theorem strLt_trichotomy (a b : Str) (h1 : strLt a b = false) (h2 : strLt b a = false) : a = b := by
  induction a generalizing b with
  | nil => cases b with
    | nil => rfl
    | cons y ys => simp [strLt] at h1
  | cons x xs ih =>
    cases b with
    | nil => simp [strLt] at h2
    | cons y ys =>
      unfold strLt at h1 h2
      by_cases c1 : x.val < y.val
      · simp [c1] at h1
      · by_cases c2 : y.val < x.val
        · simp [c2] at h2
        · simp only [c1, c2, if_false] at h1 h2
          rw [val_eq_of_not_lt c1 c2, ih ys h1 h2]

theorem strLt_trans (a b c : Str) (h1 : strLt a b = true) (h2 : strLt b c = true) : strLt a c = true := by
  induction a generalizing b c with
  | nil =>
    cases b with
    | nil => simp [strLt] at h1
    | cons y ys => cases c with
      | nil => simp [strLt] at h2
      | cons z zs => rfl
  | cons x xs ih =>
    cases b with
    | nil => simp [strLt] at h1
    | cons y ys =>
      cases c with
      | nil => simp [strLt] at h2
      | cons z zs =>
        unfold strLt at h1 h2 ⊢
        by_cases xy : x.val < y.val
        · by_cases yz : y.val < z.val
          · simp [UInt32.lt_trans xy yz]
          · by_cases zy : z.val < y.val
            · simp [yz, zy] at h2
            · have : y = z := val_eq_of_not_lt yz zy
              subst this; simp [xy]
        · by_cases yx : y.val < x.val
          · simp [xy, yx] at h1
          · have : x = y := val_eq_of_not_lt xy yx
            subst this
            simp only [xy, if_false] at h1
            by_cases yz : x.val < z.val
            · simp [yz]
            · by_cases zy : z.val < x.val
              · simp [yz, zy] at h2
              · simp only [yz, zy, if_false] at h2 ⊢
                exact ih ys zs h1 h2

theorem cmpStr_refl (a : Str) : cmpStr a a = .eq := by simp [cmpStr, strLt_irrefl]

theorem cmpStr_lt_iff (a b : Str) : cmpStr a b = .lt ↔ strLt a b = true := by
  unfold cmpStr; split
  · simp [*]
  · split <;> simp [*]

theorem cmpStr_gt_iff (a b : Str) : cmpStr a b = .gt ↔ strLt b a = true := by
  unfold cmpStr; split
  · next h => simp [strLt_asymm a b h]
  · split <;> simp [*]

theorem cmpStr_eq_iff (a b : Str) : cmpStr a b = .eq ↔ a = b := by
  constructor
  · unfold cmpStr
    split
    · intro h; cases h
    · split
      · intro h; cases h
      · next h1 h2 =>
        intro _
        exact strLt_trichotomy a b (by simpa using h1) (by simpa using h2)
  · rintro rfl; exact cmpStr_refl a

theorem cmp_refl (a : Rev) : Rev.cmp a a = .eq := by
  unfold Rev.cmp
  simp only [Bool.and_self, Nat.lt_irrefl, gt_iff_lt, if_false, cmpStr_refl]
  split <;> rfl

/-- a result `.eq` can only come from equal rendered texts -/
theorem cmp_eq_render (a b : Rev) (h : Rev.cmp a b = .eq) : a.render = b.render := by
  unfold Rev.cmp at h
  split at h
  · exact (cmpStr_eq_iff _ _).mp h
  · split at h
    · cases h
    · split at h
      · cases h
      · split at h
        · cases h
        · split at h
          · cases h
          · exact (cmpStr_eq_iff _ _).mp h

/-- **Consistency with equality** -/
theorem cmp_eq_iff (a b : Rev) (ha : Canonical a) (hb : Canonical b) : Rev.cmp a b = .eq ↔ a = b :=
  ⟨fun h => render_injective a b ha hb (cmp_eq_render a b h), fun h => h ▸ cmp_refl a⟩

/-- **Antisymmetry**, for all revisions -/
theorem cmp_antisymm (a b : Rev) : Rev.cmp a b = .lt ↔ Rev.cmp b a = .gt := by
  unfold Rev.cmp
  cases ha : a.isResolved <;> cases hb : b.isResolved
  · simp only [Bool.and_self, Bool.false_eq_true, if_false, gt_iff_lt]
    by_cases h1 : a.index < b.index
    · have h2 : ¬ b.index < a.index := by omega
      simp [h1, h2]
    · by_cases h2 : b.index < a.index
      · simp [h1, h2]
      · simp only [h1, h2, if_false, cmpStr_lt_iff, cmpStr_gt_iff]
  · simp
  · simp
  · simp only [Bool.and_self, if_true, cmpStr_lt_iff, cmpStr_gt_iff]

theorem cmp_gt_iff (a b : Rev) : Rev.cmp a b = .gt ↔ Rev.cmp b a = .lt := (cmp_antisymm b a).symm

/-- unfolding of `cmp … = .lt` -/
theorem cmp_lt_iff (a b : Rev) : Rev.cmp a b = .lt ↔
    (a.isResolved = true ∧ b.isResolved = true ∧ strLt a.render b.render = true) ∨
    (a.isResolved = true ∧ b.isResolved = false) ∨
    (a.isResolved = false ∧ b.isResolved = false ∧
      (a.index < b.index ∨ (a.index = b.index ∧ strLt a.render b.render = true))) := by
  unfold Rev.cmp
  cases ha : a.isResolved <;> cases hb : b.isResolved
  · simp only [Bool.and_self, Bool.false_eq_true, if_false, gt_iff_lt]
    by_cases h1 : a.index < b.index
    · simp [h1]
    · by_cases h2 : b.index < a.index
      · simp [h1, h2]; omega
      · have : a.index = b.index := by omega
        simp [this, cmpStr_lt_iff]
  · simp
  · simp
  · simp [cmpStr_lt_iff]

/-- **Transitivity**, for all revisions -/
theorem cmp_trans (a b c : Rev) (h1 : Rev.cmp a b = .lt) (h2 : Rev.cmp b c = .lt) : Rev.cmp a c = .lt := by
  rw [cmp_lt_iff] at h1 h2 ⊢
  rcases h1 with ⟨a1, b1, l1⟩ | ⟨a1, b1⟩ | ⟨a1, b1, l1⟩ <;>
  rcases h2 with ⟨b2, c2, l2⟩ | ⟨b2, c2⟩ | ⟨b2, c2, l2⟩ <;>
  first
  | (rw [b1] at b2; cases b2)
  | skip
  · exact Or.inl ⟨a1, c2, strLt_trans _ _ _ l1 l2⟩
  · exact Or.inr (Or.inl ⟨a1, c2⟩)
  · exact Or.inr (Or.inl ⟨a1, c2⟩)
  · refine Or.inr (Or.inr ⟨a1, c2, ?_⟩)
    rcases l1 with l1 | ⟨e1, l1⟩ <;> rcases l2 with l2 | ⟨e2, l2⟩
    · left; omega
    · left; omega
    · left; omega
    · right; exact ⟨by omega, strLt_trans _ _ _ l1 l2⟩

theorem cmp_total (a b : Rev) : Rev.cmp a b = .lt ∨ Rev.cmp a b = .eq ∨ Rev.cmp a b = .gt := by
  cases Rev.cmp a b <;> simp

theorem cmp_irrefl (a : Rev) : Rev.cmp a a ≠ .lt := by rw [cmp_refl]; intro h; cases h

/-- **Strict total order consistent with equality** on canonical revisions: exactly one of
    `a < b`, `a = b`, `b < a` holds. -/
theorem cmp_trichotomy (a b : Rev) (ha : Canonical a) (hb : Canonical b) :
    (Rev.cmp a b = .lt ∧ a ≠ b ∧ Rev.cmp b a ≠ .lt) ∨
    (Rev.cmp a b ≠ .lt ∧ a = b ∧ Rev.cmp b a ≠ .lt) ∨
    (Rev.cmp a b ≠ .lt ∧ a ≠ b ∧ Rev.cmp b a = .lt) := by
  rcases cmp_total a b with h | h | h
  · refine Or.inl ⟨h, ?_, ?_⟩
    · rintro rfl; exact cmp_irrefl a h
    · rw [(cmp_antisymm a b).mp h]; intro h; cases h
  · have := (cmp_eq_iff a b ha hb).mp h
    subst this
    exact Or.inr (Or.inl ⟨cmp_irrefl a, rfl, cmp_irrefl a⟩)
  · refine Or.inr (Or.inr ⟨(by rw [h]; intro h'; cases h'), ?_, (cmp_gt_iff a b).mp h⟩)
    rintro rfl; rw [cmp_refl] at h; cases h

/-! ### 7. longer history wins; resolutions lose -/

theorem cmp_index (a b : Rev) (ha : ¬ a.isResolved = true) (hb : ¬ b.isResolved = true)
    (h : a.index < b.index) : Rev.cmp a b = .lt := by
  rw [cmp_lt_iff]
  exact Or.inr (Or.inr ⟨by simpa using ha, by simpa using hb, Or.inl h⟩)

theorem resolved_lowest (a b : Rev) (ha : a.isResolved = true) (hb : ¬ b.isResolved = true) :
    Rev.cmp a b = .lt := by
  rw [cmp_lt_iff]
  exact Or.inr (Or.inl ⟨ha, by simpa using hb⟩)

/-! ### 8. a revision identifier is a function of (digest, parent) -/

theorem rev_function (H : Bytes → Str) (d : Str) (p q : Rev) (hp : Canonical p) (hq : Canonical q)
    (h : p.render = q.render) : Rev.upd H d p = Rev.upd H d q := by
  rw [render_injective p q hp hq h]

/-- the constructors are plain functions of digest and parent: nothing else (time, author, replica) enters -/
theorem mk1_def (d : Str) : Rev.mk1 d = ⟨1, d, none⟩ := rfl
theorem upd_def (H : Bytes → Str) (d : Str) (p : Rev) :
    Rev.upd H d p = ⟨p.index + 1, d, some ((H (utf8 p.render)).take 7)⟩ := rfl
theorem del_def (H : Bytes → Str) (p : Rev) :
    Rev.del H p = ⟨p.index + 1, ['d'], some ((H (utf8 p.render)).take 7)⟩ := rfl
theorem res_def (H : Bytes → Str) (p : Rev) :
    Rev.res H p = ⟨p.index + 1, ['r'], some ((H (utf8 p.render)).take 7)⟩ := rfl

/-- the rendered text of an update is determined by the digest and the rendered text of the parent
    (no canonicity needed except to recover the parent's index from its text) -/
theorem upd_render_function (H : Bytes → Str) (d : Str) (p q : Rev) (hp : Canonical p) (hq : Canonical q)
    (h : p.render = q.render) : (Rev.upd H d p).render = (Rev.upd H d q).render := by
  rw [rev_function H d p q hp hq h]

/-! ### non-vacuity -/

example : Canonical ⟨10, "ab".toList, some "cdefabc".toList⟩ := by decide
example : Canonical ⟨1, "ab".toList, none⟩ := by decide
example : ¬ Canonical ⟨1, "ab".toList, some "cdefabc".toList⟩ := by decide
example : ¬ Canonical ⟨2, "a_b".toList, some "cdefabc".toList⟩ := by decide
example : Rev.parse "10-ab_cdefabc".toList = some ⟨10, "ab".toList, some "cdefabc".toList⟩ := by decide
example : (Rev.mk 10 "ab".toList (some "cdefabc".toList)).render = "10-ab_cdefabc".toList := by decide
example : Rev.parse "1-ab".toList = some ⟨1, "ab".toList, none⟩ := by decide
/-- numeric, not textual, comparison of the index: `10-…` beats `9-…` although "10" < "9" as text -/
example : Rev.cmp ⟨9, "zz".toList, some "fffffff".toList⟩ ⟨10, "ab".toList, some "cdefabc".toList⟩ = .lt := by decide
example : strLt "10-ab_cdefabc".toList "9-zz_fffffff".toList = true := by decide
/-- `HexOut` is satisfiable -/
example : HexOut (fun _ => List.replicate 64 'a') := by
  intro b; refine ⟨by simp, ?_⟩
  intro c hc; rw [List.eq_of_mem_replicate hc]; decide
/-- canonicity is needed for the round trip: a non-canonical revision that does not parse back -/
example : Rev.parse (Rev.mk 2 "a".toList (some "b_c".toList)).render ≠ some ⟨2, "a".toList, some "b_c".toList⟩ := by decide
example : (Rev.mk 2 "a".toList (some "b_c".toList)).render = (Rev.mk 2 "a_b".toList (some "c".toList)).render := by decide
example : Rev.parse (Rev.mk 1 "a-b".toList none).render = some ⟨1, "a".toList, none⟩ := by decide
example : (Rev.mk 1 "a".toList (some "c".toList)).render = (Rev.mk 1 "a".toList none).render := by decide

end Melda.Props.C19
