/-
  C01e continued: `AllTO` ("every recorded revision of an array tree denotes an array") is kept by
  `update_object` on an array descriptor - the hypothesis `C01e.allTO_step` leaves open is discharged for the
  operation that creates almost all array revisions.

  * `updateObject_array_shape`: what `update_object` does to the tree of an array descriptor - nothing, a first
    revision, or ONE new child of the winner;
  * **`updateObject_array_allTO`**: from the hypotheses of `C04b.updateObject_array_spec` (which says that the new
    winner denotes the submitted array) and `AllTO` of the tree before, `AllTO` of the tree after;
  * `deleteObject_allTO`: the deletion of an array descriptor (its key left the owner) keeps it too (a deletion
    reads as the empty full descriptor).
-/
import Melda.Props.C01e
import Melda.Props.C08c
namespace Melda.Props.C01f
open Melda Melda.RevTree Melda.DState
open Melda.Props.C05 (KeysNodup WellIndexed)
open Melda.Props.C19 (Canonical AlnumStr HexOut)
open Melda.Props.C04b (TreeOK StoreOK CollisionFree)
open Melda.Props.C16b (TrueOrder)
open Melda.Props.C01e (AllTO allTO_step)

/-- the tree of an array descriptor after `update_object`: unchanged, or the old entries plus ONE child of the
    winner which is the new winner; a first revision when there was no tree -/
theorem updateObject_array_shape {H : Bytes → Str} (hH : HexOut H) {src : Src} {st st' : DState} {u : Str}
    {newOrder : List JVal} {rv : Option Str} (hu : isArrayDescriptor u = true)
    (htree : ∀ t, st.treeOf u = some t → TreeOK t)
    (h : updateObject H src st u [(ORDER_FIELD, .arr newOrder)] = .ok (st', rv)) :
    (∀ t, st.treeOf u = some t → st'.treeOf u = some t ∨
      ∃ d w, t.winner = some w ∧
        st'.treeOf u = some (t.add (Rev.upd H d w) (some w) true).1 ∧
        (t.add (Rev.upd H d w) (some w) true).1.entries = t.entries ++ [⟨Rev.upd H d w, some w, true⟩] ∧
        (t.add (Rev.upd H d w) (some w) true).1.winner = some (Rev.upd H d w)) ∧
    (st.treeOf u = none → ∃ d, digestObject H [(ORDER_FIELD, .arr newOrder)] = .ok d ∧
      st'.treeOf u = some (RevTree.empty.add (Rev.mk1 d) none true).1) := by
  refine ⟨?_, fun htu => ?_⟩
  · intro t htu
    have ht := htree t htu
    unfold updateObject at h
    rw [htu] at h
    simp only at h
    cases hw : t.winner with
    | none => simp [hw] at h
    | some w =>
      simp only [hw, hu, if_true, deltaDescriptor, C04b.descOfObject_order] at h
      cases hro : rebuildOrder src st t st.acache w with
      | err e => simp [hro] at h
      | panic m => simp [hro] at h
      | ok x =>
        obtain ⟨winOrder, c⟩ := x
        simp only [hro] at h
        cases hmp : makeDiffPatch winOrder newOrder with
        | none => simp [hmp] at h
        | some patch =>
          simp only [hmp] at h
          -- the common step: a child of `w` carrying the digest of a descriptor object
          have step : ∀ (obj : JObj) (d : Str), C04b.NoHash obj → digestObject H obj = .ok d →
              st' = (({ st with acache := c } : DState).withTree u (t.add (Rev.upd H d w) (some w) true).1).writeObject
                (Rev.upd H d w) obj →
              ∃ d w', some w = some w' ∧
                st'.treeOf u = some (t.add (Rev.upd H d w') (some w') true).1 ∧
                (t.add (Rev.upd H d w') (some w') true).1.entries = t.entries ++ [⟨Rev.upd H d w', some w', true⟩] ∧
                (t.add (Rev.upd H d w') (some w') true).1.winner = some (Rev.upd H d w') := by
            intro obj d hn hd hst
            have hf := C04b.faithful_of_noHash hH hn hd
            have hfresh := C04b.child_fresh ht hw (r := Rev.upd H d w) rfl (C04b.upd_not_resolved H d w hf.2.2.1)
            obtain ⟨hwin, _, _⟩ := C04b.add_child_becomes_winner hH ht hw hf.1 hf.2.2.1 hfresh
            refine ⟨d, w, rfl, ?_, ?_, hwin⟩
            · rw [hst, C04b.treeOf_writeObject, C04b.treeOf_withTree_self]
            · rw [C15.add_entries, hfresh]; rfl
          by_cases hdel : w.isDeleted = true
          · simp only [hdel, if_true] at h
            cases hd : digestObject H [(ORDER_FIELD, JVal.arr newOrder)] with
            | error e => simp [hd] at h
            | ok d =>
              simp only [hd, Bool.true_or, if_true, Res.ok.injEq, Prod.mk.injEq] at h
              exact Or.inr (step _ d (C04b.noHash_order newOrder) hd h.1.symm)
          · simp only [hdel, Bool.false_eq_true, if_false] at h
            by_cases hpe : patch.isEmpty = true
            · simp only [hpe, if_true, Res.ok.injEq, Prod.mk.injEq] at h
              left
              rw [← h.1]; exact htu
            · simp only [hpe, Bool.false_eq_true, if_false] at h
              cases hd : digestObject H [(DELTA_ORDER_FIELD, JVal.arr patch)] with
              | error e => simp [hd] at h
              | ok d =>
                simp only [hd, Bool.true_or, if_true, Res.ok.injEq, Prod.mk.injEq] at h
                exact Or.inr (step _ d (C04b.noHash_delta patch) hd h.1.symm)
  · unfold updateObject at h
    rw [htu] at h
    simp only at h
    obtain ⟨d, hd, htree'⟩ := C04c.createObject_tree htu h
    exact ⟨d, hd, htree'⟩

/-- **`update_object` on an array descriptor keeps `AllTO`** (hypotheses: those of `C04b.updateObject_array_spec`) -/
theorem updateObject_array_allTO {H : Bytes → Str} (hH : HexOut H) {src : Src} {S : JObj → Prop}
    {st st' : DState} {u : Str} {newOrder : List JVal} {rv : Option Str}
    (hu : isArrayDescriptor u = true)
    (hS : StoreOK H src S st) (hcf : CollisionFree H S) (hSo : S [(ORDER_FIELD, .arr newOrder)])
    (htree : ∀ t, st.treeOf u = some t → TreeOK t)
    (hsound : ∀ t w order c, st.treeOf u = some t → t.winner = some w →
      rebuildOrder src st t st.acache w = .ok (order, c) → C04b.TrueOrder src st t w order)
    (hSd : ∀ t w order c patch, st.treeOf u = some t → t.winner = some w →
      rebuildOrder src st t st.acache w = .ok (order, c) → makeDiffPatch order newOrder = some patch →
      S [(DELTA_ORDER_FIELD, .arr patch)])
    (hall : ∀ t, st.treeOf u = some t → AllTO src st t)
    (h : updateObject H src st u [(ORDER_FIELD, .arr newOrder)] = .ok (st', rv)) :
    ∀ t', st'.treeOf u = some t' → AllTO src st' t' := by
  obtain ⟨⟨t1, w1, ht1, hw1, _, hok1, hto1⟩, _, hreads, _, _⟩ :=
    C04b.updateObject_array_spec hH hu hS hcf hSo htree hsound hSd h
  have hto1' : TrueOrder src st' t1 w1 newOrder := C04c.to16 hto1
  obtain ⟨hshape, hnone⟩ := updateObject_array_shape hH hu htree h
  intro t' ht'
  rw [ht1] at ht'; cases ht'
  cases htu : st.treeOf u with
  | none =>
    obtain ⟨d, _, hcr⟩ := hnone htu
    rw [ht1] at hcr; cases hcr
    -- a single entry: the new winner
    have hent : (RevTree.empty.add (Rev.mk1 d) none true).1.entries = [⟨Rev.mk1 d, none, true⟩] := by
      rw [C15.add_entries]; simp [RevTree.empty, contains, find?]
    intro e he
    rw [hent] at he
    simp only [List.mem_singleton] at he
    have hk := hok1.keys
    -- the winner is an entry of the tree, hence this one
    obtain ⟨⟨e', he', hr'⟩, _⟩ := (C04b.winner_live hok1 hw1).1
    rw [hent] at he'
    simp only [List.mem_singleton] at he'
    subst he; subst he'
    rw [hr']
    exact ⟨_, hto1'⟩
  | some t =>
    have ht := htree t htu
    rcases hshape t htu with hsame | ⟨d, w, hw, htr', hent, hwin⟩
    · rw [ht1] at hsame; cases hsame
      exact allTO_step (l := []) (hall _ htu) (by simp) ht.keys ht.keys ht.closed hreads (fun _ h => nomatch h)
    · rw [ht1] at htr'; cases htr'
      refine allTO_step (hall t htu) hent ht.keys hok1.keys ht.closed hreads ?_
      intro e he
      simp only [List.mem_singleton] at he
      subst he
      rw [hwin] at hw1; cases hw1
      exact ⟨_, hto1'⟩

/-- **`delete_object` on an array descriptor keeps `AllTO`** (its flattened key left the owner: a deletion is
    recorded, which reads as the empty full descriptor) -/
theorem deleteObject_allTO {H : Bytes → Str} (hH : HexOut H) {src : Src} {st st' : DState} {u : Str}
    {rv : Option Str} (htree : ∀ t, st.treeOf u = some t → TreeOK t)
    (hall : ∀ t, st.treeOf u = some t → AllTO src st t)
    (h : deleteObject H st u = .ok (st', rv)) : ∀ t', st'.treeOf u = some t' → AllTO src st' t' := by
  unfold deleteObject at h
  cases htu : st.treeOf u with
  | none =>
    simp only [htu, Res.ok.injEq, Prod.mk.injEq] at h
    obtain ⟨rfl, _⟩ := h
    intro t' ht'; rw [htu] at ht'; cases ht'
  | some t =>
    have ht := htree t htu
    simp only [htu] at h
    cases hw : t.winner with
    | none => simp [hw] at h
    | some w =>
      simp only [hw] at h
      by_cases hc : (!w.isDeleted && !w.isResolved) = true
      · simp only [hc, if_true, Res.ok.injEq, Prod.mk.injEq] at h
        obtain ⟨rfl, _⟩ := h
        intro t' ht'
        rw [C04b.treeOf_withTree_self] at ht'; cases ht'
        have hfresh := C04b.child_fresh ht hw (r := Rev.del H w) rfl (C04b.upd_not_resolved H _ w (by decide))
        obtain ⟨_, _, hok⟩ := C04b.add_del_becomes_winner hH ht hw
        have hent : (t.add (Rev.del H w) (some w) true).1.entries = t.entries ++ [⟨Rev.del H w, some w, true⟩] := by
          rw [C15.add_entries, hfresh]; rfl
        refine allTO_step (hall t htu) hent ht.keys hok.keys ht.closed
          (fun r x hx => by rw [C04b.readObject_withTree]; exact hx) ?_
        intro e he
        simp only [List.mem_singleton] at he
        subst he
        exact ⟨[], .full (C08b.readDesc_deleted src _ (by simp [Rev.del, Rev.upd, Rev.new, Rev.isDeleted]))⟩
      · simp only [hc, Bool.false_eq_true, if_false, Res.ok.injEq, Prod.mk.injEq] at h
        obtain ⟨rfl, _⟩ := h
        intro t' ht'; rw [htu] at ht'; cases ht'
        exact hall t htu

end Melda.Props.C01f
