/-
  C02 / C08 - the dependency check does not recurse when blocks are examined in the order of the block map.

  `check_delta` recurses into the parents of a block (memoised through the statuses).  `mark_valid_deltas` examines
  the blocks in the order of the `BTreeMap`, i.e. by ascending index, and parents have smaller indices - so when a
  block's turn comes every parent the replica holds has been examined already and the recursion stops at depth one.
  Formally: with ANY fuel ≥ 2 the whole pass computes what it computes with fuel 2 (`markValid_depth`).

  This is the statement a long history needs (a replica with tens of thousands of blocks opens without a call
  stack that grows with the history).  It is a statement about the ORDER of the pass: the adversary's change
  `deltas.par_iter()` keeps every result and loses exactly this - a worker that starts in the middle of the map
  recurses through all pending ancestors (stack overflow on a linear history of 40 000 blocks).  The model pass is
  in map order, like the sequential code; the implementation is held to it by the `longchain` stress operation.
-/
import Melda.Props.Proto
namespace Melda.Props.C02b
open Melda Melda.PState Melda.Props.Proto

/-- a non-pending block is answered at once, whatever the fuel (≥ 1) -/
theorem checkDelta_nonpending (v : View) (objs : List Str) (f : Nat) (ds : Ds) (id : BlockId) {b : Block} {st : Status}
    (hf : findDelta ds id = some (b, st)) (hst : st ≠ .pending) :
    checkDelta v objs (f + 1) ds id = (ds, st) := by
  simp only [checkDelta, hf, ne_eq, hst, not_false_eq_true, if_true]

/-- the loop over parents that are all examined already (or absent) does not depend on the fuel of the recursive
    call, as long as there is some -/
theorem checkParents_examined (v : View) (objs : List Str) (f : Nat) :
    ∀ (ps : List BlockId) (ds : Ds),
      (∀ p ∈ ps, ∀ q, findDelta ds p = some q → q.2 ≠ .pending) →
      checkParentsWith (checkDelta v objs (f + 1)) ds ps = checkParentsWith (checkDelta v objs 1) ds ps
  | [], ds, _ => rfl
  | p :: ps, ds, h => by
    simp only [checkParentsWith]
    cases hf : findDelta ds p with
    | none => rfl
    | some q =>
      obtain ⟨b, st⟩ := q
      have hst : st ≠ .pending := h p (by simp) (b, st) hf
      simp only [checkDelta_nonpending v objs f ds p hf hst, checkDelta_nonpending v objs 0 ds p hf hst]
      split
      · exact checkParents_examined v objs f ps ds (fun x hx => h x (List.mem_cons_of_mem _ hx))
      · rfl

/-- one level of `check_delta` -/
theorem checkDelta_succ (v : View) (objs : List Str) (n : Nat) (ds : Ds) (id : BlockId) :
    checkDelta v objs (n + 1) ds id =
      match findDelta ds id with
      | none => (ds, .blocked)
      | some (b, st) =>
        if st ≠ .pending then (ds, st)
        else
          let r := checkParentsWith (checkDelta v objs n) ds b.parents
          if !r.2 then (setStatus r.1 id .blocked, .blocked)
          else if !(b.packs.all (fun k => (v.loadPack k).isSome)) then (setStatus r.1 id .blocked, .blocked)
          else if !(changesReadable objs b.changes) then (setStatus r.1 id .blocked, .blocked)
          else (setStatus r.1 id .ready, .ready) := rfl

/-- **one block whose present parents are all examined: fuel 2 is as good as any** -/
theorem checkDelta_depth2 (v : View) (objs : List Str) (f : Nat) (ds : Ds) (id : BlockId)
    (h : ∀ b st, findDelta ds id = some (b, st) → ∀ p ∈ b.parents, ∀ q, findDelta ds p = some q → q.2 ≠ .pending) :
    checkDelta v objs (f + 2) ds id = checkDelta v objs 2 ds id := by
  rw [checkDelta_succ v objs (f + 1), checkDelta_succ v objs 1]
  cases hf : findDelta ds id with
  | none => rfl
  | some q =>
    obtain ⟨b, st⟩ := q
    simp only
    rw [checkParents_examined v objs f b.parents ds (h b st hf)]

theorem mvStep_depth2 (v : View) (objs : List Str) (f : Nat) (acc : Ds) (id : BlockId)
    (h : ∀ b st, findDelta acc id = some (b, st) → ∀ p ∈ b.parents, ∀ q, findDelta acc p = some q → q.2 ≠ .pending) :
    mvStep v objs (f + 2) acc id = mvStep v objs 2 acc id := by
  unfold mvStep
  rw [checkDelta_depth2 v objs f acc id h]

/-- what the pass maintains: every block whose identifier is NOT among the remaining ones has been examined -/
def Examined (acc : Ds) (rest : List BlockId) : Prop := ∀ q ∈ acc, q.1.id ∉ rest → q.2 ≠ .pending

/-- the pass over the remaining identifiers `rest` (ascending by index), from a state in which everything else has
    been examined -/
theorem fold_depth {v : View} (hv : ViewOK v) (objs : List Str) (f : Nat) :
    ∀ (rest : List BlockId) (acc : Ds), Good v objs acc → Examined acc rest →
      rest.Pairwise (fun a b => a.index ≤ b.index) → (∀ id ∈ rest, id.index < f + 2) →
      rest.foldl (mvStep v objs (f + 2)) acc = rest.foldl (mvStep v objs 2) acc
  | [], _, _, _, _, _ => rfl
  | id :: rest, acc, hg, hex, hs, hi => by
    obtain ⟨hhead, hs'⟩ := List.pairwise_cons.mp hs
    -- every present parent of `id` has a smaller index, so it is not among `id :: rest`: examined
    have hpar : ∀ b st, findDelta acc id = some (b, st) → ∀ p ∈ b.parents, ∀ q, findDelta acc p = some q → q.2 ≠ .pending := by
      intro b st hf p hp q hq
      obtain ⟨hm, hid⟩ := findDelta_some hf
      simp only at hid
      have hfetch := (hg.ok.fetched (b, st) hm).1
      simp only [hid] at hfetch
      have hlt : p.index < id.index := hv.parent_lt id b hfetch p hp
      obtain ⟨hqm, hqid⟩ := findDelta_some hq
      refine hex q hqm ?_
      rw [hqid]
      intro hmem
      rcases List.mem_cons.mp hmem with rfl | hmem
      · exact absurd hlt (Nat.lt_irrefl _)
      · have := hhead p hmem
        omega
    simp only [List.foldl_cons]
    rw [mvStep_depth2 v objs f acc id hpar]
    -- the state after the step (computed with the large fuel, for which the specification is available)
    have hstep := mvStep_depth2 v objs f acc id hpar
    obtain ⟨g1, s1, m1, d1⟩ := mvStep_spec hv objs (f + 2) acc id hg (hi id (by simp))
    rw [hstep] at g1 s1 m1 d1
    refine fold_depth hv objs f rest (mvStep v objs 2 acc id) g1 ?_ hs' (fun x hx => hi x (List.mem_cons_of_mem _ hx))
    -- everything outside `rest` is examined afterwards: `id` by the step, the others as before
    intro q hq hnot
    have hqid : q.1.id ∈ acc.map (·.1.id) := by
      rw [← ids_of_same s1]; exact List.mem_map_of_mem (f := fun x : Block × Status => x.1.id) hq
    have hstat : statusOf (mvStep v objs 2 acc id) q.1.id = some q.2 := statusOf_of_mem g1.ok.nodup hq
    by_cases hqi : q.1.id = id
    · obtain ⟨s, hs1, hne⟩ := d1 (by rw [← hqi]; exact (findDelta_isSome_iff_mem_ids acc q.1.id).mpr hqid)
      have hstat' : statusOf (mvStep v objs 2 acc id) id = some q.2 := by
        have := hstat; rw [hqi] at this; exact this
      rw [hstat'] at hs1
      rw [Option.some.inj hs1]; exact hne
    · -- an old block outside `id :: rest`
      obtain ⟨q0, hq0, hq0id⟩ := List.mem_map.mp hqid
      have hnp : q0.2 ≠ .pending := hex q0 hq0 (by
        rw [hq0id]; intro hmem
        rcases List.mem_cons.mp hmem with h | h
        · exact hqi h
        · exact hnot h)
      have h0 : statusOf acc q.1.id = some q0.2 := by rw [← hq0id]; exact statusOf_of_mem hg.ok.nodup hq0
      have := m1 q.1.id q0.2 h0 hnp
      rw [hstat] at this
      rw [Option.some.inj this]; exact hnp

/-- **`mark_valid_deltas` needs no recursion beyond depth one**: for a block map in ascending index order (the
    order of the `BTreeMap`), with any fuel ≥ 2 (enough for the deepest block: `index < fuel`) the pass computes
    exactly what it computes with fuel 2 -/
theorem markValid_depth {v : View} (hv : ViewOK v) (objs : List Str) (f : Nat) (ds : Ds) (hg : Good v objs ds)
    (hs : (ds.map (·.1.id)).Pairwise (fun a b => a.index ≤ b.index)) (hi : ∀ p ∈ ds, p.1.id.index < f + 2) :
    markValid v objs (f + 2) ds = markValid v objs 2 ds := by
  rw [markValid_eq, markValid_eq]
  refine fold_depth hv objs f (ds.map (·.1.id)) ds hg ?_ hs ?_
  · intro q hq hnot
    exact absurd (List.mem_map_of_mem (f := fun x : Block × Status => x.1.id) hq) hnot
  · intro id hid
    obtain ⟨p, hp, rfl⟩ := List.mem_map.mp hid
    exact hi p hp

/-- ... and therefore its result is the specified one already with fuel 2 (every status tells the truth, nothing is
    left pending), however long the history -/
theorem markValid_spec_fuel2 {v : View} (hv : ViewOK v) (objs : List Str) (ds : Ds) (hg : Good v objs ds)
    (hs : (ds.map (·.1.id)).Pairwise (fun a b => a.index ≤ b.index)) :
    Good v objs (markValid v objs 2 ds) ∧ SameBlocks ds (markValid v objs 2 ds) ∧
    (∀ p ∈ markValid v objs 2 ds, p.2 ≠ .pending) := by
  -- a fuel that is large enough for every block
  let F := (ds.map (·.1.id.index)).foldl max 0
  have hF : ∀ p ∈ ds, p.1.id.index < F + 2 := by
    intro p hp
    have : ∀ (l : List Nat) (a : Nat) (x : Nat), x ∈ l → x ≤ l.foldl max a := by
      intro l
      induction l with
      | nil => intro a x h; cases h
      | cons y ys ih =>
        intro a x h
        simp only [List.foldl_cons]
        rcases List.mem_cons.mp h with rfl | h
        · have : ∀ (l : List Nat) (a : Nat), a ≤ l.foldl max a := by
            intro l
            induction l with
            | nil => intro a; exact Nat.le_refl _
            | cons z zs ih2 => intro a; simp only [List.foldl_cons]; exact Nat.le_trans (Nat.le_max_left _ _) (ih2 _)
          exact Nat.le_trans (Nat.le_max_right _ _) (this ys _)
        · exact ih _ x h
    have := this (ds.map (·.1.id.index)) 0 p.1.id.index (List.mem_map_of_mem (f := fun x : Block × Status => x.1.id.index) hp)
    omega
  have heq := markValid_depth hv objs F ds hg hs hF
  obtain ⟨g, sm, _, dn⟩ := markValid_spec hv objs (F + 2) ds hg hF
  rw [heq] at g sm dn
  exact ⟨g, sm, dn⟩

end Melda.Props.C02b
