/-
  C08 (part 2) — "every public operation returns, with a value or an error … never aborts the calling
  thread".  On the model: no `Res.panic` outcome in states satisfying the read-safety invariant `InvR`,
  which — unlike `C04c.InvA` + `NoArrayConflict` — allows CONFLICTS everywhere (plain objects and
  flattened arrays).

  1. `TreeR`, `InvRS H src S st`, `InvR H src st := InvRS H src (fun _ => True) st`: the invariant.
  2. `read_no_panic` (MAIN; `read_spec`): under `InvR`, `read` answers `.ok`, `.err "no_root"` or
     `.err "root_object_not_found"`, with the exact condition for each, and never `.panic`.
     Ingredients: `mergedOrderAt_total` (multi-leaf analogue of `C04c.readAt_array_single_leaf`),
     `readAt_total`, `collect_total` (the collection loop), `unflatten_no_panic`, `readFinish_total`.
  3. preservation, from ANY state satisfying the invariant (conflicts allowed):
     `deleteObject_keeps_invR`, `updateObject_keeps_invR` (plain identifier),
     `updateObject_array_keeps_invR` (descriptor identifier, tree possibly in conflict),
     `resolveAs_keeps_invR`, `resolveAs_deleted_keeps_invR` (plain identifier),
     `update_keeps_invR` (document level, general), `snapshot_keeps_invR_partial` (one step only).
  4. `ops_no_panic_partial` (+ `deleteObject_no_panic`, `updateObject_plain_no_panic`,
     `updateObject_array_no_panic'`, `resolveAs_plain_no_panic`).
  Hypotheses beyond the invariant, all shown satisfiable together in `Examples` on a state whose
  flattened array IS in conflict (`exR`, `invR_exR`, `invRS_stR2`): `AgreeParents` of the resulting state
  where a descriptor tree grows (cannot be dropped: `C04c.agreeParents_needed`); `CollisionFree H S` where
  a descriptor is written and must read back exactly; `UsableDigest` (no `#` trickery) for plain objects;
  `C07.NoTailClash` for `resolve_as`; the diff routine answering, for the no-panic of array updates.
-/
import Melda.Doc
import Melda.Props.C04
import Melda.Props.C04b
import Melda.Props.C04c
import Melda.Props.C07
import Melda.Props.C12
import Melda.Props.C16
import Melda.Props.C16b
namespace Melda.Props.C08b
open Melda Melda.RevTree Melda.DState
open Melda.Props.C05 (CmpOrder KeysNodup WellIndexed Reaches LiveLeaf)
open Melda.Props.C19 (Canonical AlnumStr HexOut)
open Melda.Props.C04b (TreeOK ParentClosed StoreOK DocsSorted Cache)
open Melda.Props.C04c (TO ArrTree AgreeParents CacheOK ClosedAll)

/-! ## 1. the read-safety invariant -/

/-- the per-tree part: `C04b.TreeOK` (winner = greatest live leaf, distinct / well-indexed / canonical /
    parent-closed entries, only resolution markers beyond the winner) and a valid leaf cache -/
structure TreeR (t : RevTree) : Prop where
  ok : TreeOK t
  leafsValid : t.leafs = sortRevs (liveLeafs t.entries)
  validated : t.validated = true

theorem TreeR.mem_leafs {t : RevTree} (h : TreeR t) (l : Rev) : l ∈ t.leafs ↔ LiveLeaf t.entries l := by
  rw [h.leafsValid, ← C05.validate_leafs, C05.mem_leafs_iff C04b.cmpOrder t h.ok.keys h.ok.idx h.ok.canon]

theorem TreeR.leaf_contains {t : RevTree} (h : TreeR t) {l : Rev} (hl : l ∈ t.leafs) : t.contains l = true :=
  (C05.contains_iff t l).mpr ((h.mem_leafs l).mp hl).1

theorem TreeR.validatedT {t : RevTree} (h : TreeR t) : C15.Validated t := by
  rw [C15.validated_iff]
  exact ⟨h.leafsValid, h.ok.winner_eq, h.validated⟩

theorem TreeR.good {t : RevTree} (h : TreeR t) : C12.GoodTree t :=
  ⟨h.validatedT, h.ok.keys, h.ok.idx, h.ok.closed, h.ok.canon⟩

/-- **The read-safety invariant, for states WITH conflicts.**
    * the documents map is sorted; stored bodies hash to their digest and every committed digest is
      served by `src` (`StoreOK`, for a universe `S` of bodies; `InvR` takes `S := True`);
    * every tree satisfies `TreeR`;
    * `plain`: the body of the live winner of every NON-array tree is readable;
    * `arrays`: in every ARRAY-descriptor tree whose winner is live, EVERY leaf denotes an array
      (`mergedOrderAt` rebuilds every leaf when the tree is in conflict);
    * the shared array cache is sound (`CacheOK`) and descriptor trees agree on the parents of the
      revisions they share (`AgreeParents`, needed because the cache is keyed by revision only:
      `C04c.agreeParents_needed`). -/
structure InvRS (H : Bytes → Str) (src : Src) (S : JObj → Prop) (st : DState) : Prop where
  sorted : DocsSorted st.p.docs
  store : StoreOK H src S st
  trees : ∀ u t, st.treeOf u = some t → TreeR t
  plain : ∀ u t w, st.treeOf u = some t → isArrayDescriptor u = false → t.winner = some w →
    w.isDeleted = false → ∃ o, readObject src st w = .ok o
  arrays : ∀ u t w, ArrTree st u t → t.winner = some w → w.isDeleted = false →
    ∀ l ∈ t.leafs, ∃ o, C16b.TrueOrder src st t l o
  cache : CacheOK src st st.acache
  agree : AgreeParents st

/-- **`InvR H src st`**: the invariant with the trivial universe of bodies (nothing is assumed about
    digest collisions). The general form `InvRS H src S st` carries a universe `S` of object bodies, as
    `C04b.StoreOK` does; it is needed only where collision freedom is (array descriptors written by
    `update`). Every theorem below is stated for an arbitrary `S`, hence holds for `InvR`. -/
abbrev InvR (H : Bytes → Str) (src : Src) (st : DState) : Prop := InvRS H src (fun _ => True) st

theorem InvRS.closedAll {H : Bytes → Str} {src : Src} {S : JObj → Prop} {st : DState} (h : InvRS H src S st) :
    ClosedAll st :=
  fun u t ht => (h.trees u t ht.2).ok.closed

/-- the winner of a tree is one of its leaves -/
theorem TreeR.winner_mem {t : RevTree} (h : TreeR t) {w : Rev} (hw : t.winner = some w) : w ∈ t.leafs :=
  (h.mem_leafs w).mpr (C04b.winner_live h.ok hw).1

/-! ## 2a. `mergedOrderAt` is total when every leaf denotes an array -/

/-- the entries of `c'` are entries of `c` or true orders of revisions recorded in `t` -/
def CacheExt (src : Src) (st : DState) (t : RevTree) (c c' : Cache) : Prop :=
  ∀ kv ∈ c'.items, kv ∈ c.items ∨ (t.contains kv.1 = true ∧ TO src st t kv.1 kv.2)

/-- the guard under which `rebuildOrder` on `t` is sound and complete (`C04c.rebuild_complete_g`) -/
def Guard (src : Src) (st : DState) (t : RevTree) (c : Cache) : Prop :=
  ∀ kv ∈ c.items, t.contains kv.1 = true → TO src st t kv.1 kv.2

theorem guard_of_ext {src : Src} {st : DState} {t : RevTree} {c0 c : Cache}
    (h0 : Guard src st t c0) (h : CacheExt src st t c0 c) : Guard src st t c := by
  intro kv hkv hcon
  rcases h kv hkv with h1 | h1
  · exact h0 kv h1 hcon
  · exact h1.2

theorem cacheExt_refl (src : Src) (st : DState) (t : RevTree) (c : Cache) : CacheExt src st t c c :=
  fun _ h => Or.inl h

theorem cacheExt_rebuild {src : Src} {st : DState} {t : RevTree} {c0 c c' : Cache} {l : Rev} {o : List JVal}
    (h : CacheExt src st t c0 c) (hl : t.contains l = true) (hto : TO src st t l o)
    (hr : rebuildOrder src st t c l = .ok (o, c')) : CacheExt src st t c0 c' := by
  intro kv hkv
  rcases C04c.rebuild_items hr kv hkv with h1 | rfl
  · exact h kv h1
  · exact Or.inr ⟨hl, hto⟩

theorem mstep_total {src : Src} {st : DState} {t : RevTree} (hw : WellIndexed t.entries)
    (hcl : ParentClosed t.entries) {c0 : Cache} (hc0 : Guard src st t c0) :
    ∀ (ls : List Rev), (∀ l ∈ ls, t.contains l = true ∧ ∃ o, TO src st t l o) →
    ∀ (order : List JVal) (c : Cache), CacheExt src st t c0 c →
    ∃ o c', ls.foldl (C16b.mstep src st t) (.ok (order, c)) = .ok (o, c') ∧ CacheExt src st t c0 c'
  | [], _, order, c, hc => ⟨order, c, rfl, hc⟩
  | l :: ls, hls, order, c, hc => by
    obtain ⟨hlc, lo, hlo⟩ := hls l List.mem_cons_self
    obtain ⟨c1, hr⟩ := C04c.rebuild_complete_g hw hcl (guard_of_ext hc0 hc) hlc hlo
    have hs : C16b.mstep src st t (.ok (order, c)) l = .ok (mergeArrays lo order, c1) := by
      simp only [C16b.mstep, hr]
    rw [List.foldl_cons, hs]
    exact mstep_total hw hcl hc0 ls (fun x hx => hls x (List.mem_cons_of_mem _ hx)) _ c1
      (cacheExt_rebuild hc hlc hlo hr)

/-- **`mergedOrderAt_total`** — the multi-leaf analogue of `C04c.readAt_array_single_leaf`: on a
    well-indexed, parent-closed tree, with a cache whose entries for revisions of this tree are true
    orders, if `base` and EVERY leaf denote an array then `get_merged_order_at_revision` succeeds, and
    the new cache only gained true orders of revisions of this tree. -/
theorem mergedOrderAt_total {src : Src} {st : DState} {t : RevTree} (hw : WellIndexed t.entries)
    (hcl : ParentClosed t.entries) {c : Cache} {base : Rev} {bo : List JVal}
    (hc : Guard src st t c) (hb : t.contains base = true) (hto : TO src st t base bo)
    (hleafs : ∀ l ∈ t.leafs, t.contains l = true ∧ ∃ o, TO src st t l o) :
    ∃ o c', mergedOrderAt src st t c base = .ok (o, c') ∧ CacheExt src st t c c' := by
  obtain ⟨c1, hr⟩ := C04c.rebuild_complete_g hw hcl hc hb hto
  rw [C16b.mergedOrderAt_eq, hr]
  have hml : ∀ l ∈ C16b.mergeLeafs t, t.contains l = true ∧ ∃ o, TO src st t l o := by
    intro l hl
    unfold C16b.mergeLeafs at hl
    split at hl
    · exact hleafs l hl
    · cases hl
  exact mstep_total hw hcl hc _ hml bo c1 (cacheExt_rebuild (cacheExt_refl src st t c) hb hto hr)

/-- conversely, when `mergedOrderAt` answers, `base` denotes an array -/
theorem mergedOrderAt_ok_base {src : Src} {st : DState} {t : RevTree} (hw : WellIndexed t.entries)
    (hcl : ParentClosed t.entries) {c c' : Cache} {base : Rev} {o : List JVal}
    (hc : Guard src st t c) (hb : t.contains base = true)
    (h : mergedOrderAt src st t c base = .ok (o, c')) :
    ∃ bo, TO src st t base bo := by
  rw [C16b.mergedOrderAt_eq] at h
  cases hr : rebuildOrder src st t c base with
  | ok x => obtain ⟨bo, c1⟩ := x; exact ⟨bo, C04c.rebuild_sound_g hw hcl hc hb hr⟩
  | err e => rw [hr] at h; cases h
  | panic e => rw [hr] at h; cases h

/-! ## 2b. `readAt` on the live winner of any tree -/

theorem to_acache {src : Src} {st : DState} (c : Cache) {t : RevTree} {r : Rev} {o : List JVal}
    (h : TO src st t r o) : TO src ({ st with acache := c } : DState) t r o :=
  C04c.trueOrder_congr (C04c.readDesc_acache src st c) h

theorem to_acache' {src : Src} {st : DState} (c : Cache) {t : RevTree} {r : Rev} {o : List JVal}
    (h : TO src ({ st with acache := c } : DState) t r o) : TO src st t r o :=
  C04c.trueOrder_congr (fun r => (C04c.readDesc_acache src st c r).symm) h

/-- in a state satisfying `InvR`, reading the live winner of a descriptor tree succeeds whatever the
    number of leaves, with any sound cache; the cache stays sound -/
theorem readAt_array_total {H : Bytes → Str} {src : Src} {S : JObj → Prop} {st : DState} (hinv : InvRS H src S st) {c : Cache}
    (hc : CacheOK src st c) {u : Str} {t : RevTree} {w : Rev} (ht : ArrTree st u t)
    (hw : t.winner = some w) (hd : w.isDeleted = false) :
    ∃ order c', readAt src ({ st with acache := c } : DState) u t w = .ok ([(ORDER_FIELD, .arr order)], c') ∧
      CacheOK src st c' := by
  have htr := hinv.trees u t ht.2
  have hg : Guard src ({ st with acache := c } : DState) t c := by
    intro kv hkv hcon
    exact to_acache c (C04c.cacheOK_guard hinv.agree hinv.closedAll hc ht kv hkv hcon)
  have hleafs : ∀ l ∈ t.leafs, t.contains l = true ∧ ∃ o, TO src ({ st with acache := c } : DState) t l o := by
    intro l hl
    obtain ⟨o, ho⟩ := hinv.arrays u t w ht hw hd l hl
    exact ⟨htr.leaf_contains hl, o, to_acache c ho⟩
  have hwl := htr.winner_mem hw
  obtain ⟨hwc, bo, hbo⟩ := hleafs w hwl
  obtain ⟨o, c', hm, hext⟩ := mergedOrderAt_total htr.ok.idx htr.ok.closed hg hwc hbo hleafs
  refine ⟨o, c', ?_, ?_⟩
  · unfold readAt
    simp only [ht.1, if_true]
    show (match mergedOrderAt src ({ st with acache := c } : DState) t c w with
      | .ok (order, c) => Res.ok ([(ORDER_FIELD, JVal.arr order)], c)
      | .err _ => .panic "cannot_get_merged_order"
      | .panic m => .panic m) = _
    rw [hm]
  · intro kv hkv
    rcases hext kv hkv with h1 | ⟨h1, h2⟩
    · exact hc kv h1
    · exact ⟨u, t, ht, h1, to_acache' c h2⟩

/-- `readAt` on the live winner of ANY tree succeeds; for a descriptor tree the answer has an `"A"`
    array field -/
theorem readAt_total {H : Bytes → Str} {src : Src} {S : JObj → Prop} {st : DState} (hinv : InvRS H src S st) {c : Cache}
    (hc : CacheOK src st c) {u : Str} {t : RevTree} {w : Rev} (ht : st.treeOf u = some t)
    (hw : t.winner = some w) (hd : w.isDeleted = false) :
    ∃ o c', readAt src ({ st with acache := c } : DState) u t w = .ok (o, c') ∧ CacheOK src st c' ∧
      (isArrayDescriptor u = true → ∃ l, o = [(ORDER_FIELD, .arr l)]) := by
  cases ha : isArrayDescriptor u with
  | true =>
    obtain ⟨order, c', h1, h2⟩ := readAt_array_total hinv hc ⟨ha, ht⟩ hw hd
    exact ⟨_, c', h1, h2, fun _ => ⟨order, rfl⟩⟩
  | false =>
    obtain ⟨o, ho⟩ := hinv.plain u t w ht ha hw hd
    have ho' : readObject src ({ st with acache := c } : DState) w = .ok o := by
      rw [C04b.readObject_congr src (st' := { st with acache := c }) (st := st) rfl]; exact ho
    refine ⟨o, c, ?_, hc, fun h => by cases h⟩
    unfold readAt
    simp only [ha, Bool.false_eq_true, if_false, ho']

/-! ## 2c. the collection loop of `read` -/

/-- every value of the pool is an object, and the object under a descriptor identifier has an `"A"`
    array field: exactly what `unflatten` needs not to raise any of its panics -/
def PoolGood (pool : JObj) : Prop :=
  ∀ p ∈ pool, ∃ o, p.2 = .obj o ∧ (isArrayDescriptor p.1 = true → ∃ l, objGet ORDER_FIELD o = some (.arr l))

/-- `k` is the identifier of a tree of `L` whose winner is live -/
def LiveKey (L : List (Str × RevTree)) (k : Str) : Prop :=
  ∃ p ∈ L, p.1 = k ∧ ∃ w, p.2.winner = some w ∧ w.isDeleted = false

theorem poolGood_insert {pool : JObj} (h : PoolGood pool) (k : Str) (o : JObj)
    (ho : isArrayDescriptor k = true → ∃ l, objGet ORDER_FIELD o = some (.arr l)) :
    PoolGood (objInsert k (.obj o) pool) := by
  intro p hp
  rcases C04.mem_objInsert hp with rfl | hp
  · exact ⟨o, rfl, ho⟩
  · exact h p hp

theorem objGet_insert_isSome (k k' : Str) (v : JVal) (pool : JObj) :
    (objGet k (objInsert k' v pool)).isSome = true ↔ (k = k' ∨ (objGet k pool).isSome = true) := by
  by_cases hk : k = k'
  · subst hk; simp [C04.objGet_objInsert_self]
  · rw [C04.objGet_objInsert_other k' k v hk]; simp [hk]

theorem liveKey_cons_skip {p : Str × RevTree} {L : List (Str × RevTree)}
    (hp : ∀ w, p.2.winner = some w → w.isDeleted = true) (k : Str) : LiveKey (p :: L) k ↔ LiveKey L k := by
  constructor
  · rintro ⟨q, hq, hk, w, hw, hd⟩
    rcases List.mem_cons.mp hq with rfl | hq
    · rw [hp w hw] at hd; cases hd
    · exact ⟨q, hq, hk, w, hw, hd⟩
  · rintro ⟨q, hq, h⟩
    exact ⟨q, List.mem_cons_of_mem _ hq, h⟩

theorem liveKey_cons_live {p : Str × RevTree} {L : List (Str × RevTree)} {w : Rev}
    (hw : p.2.winner = some w) (hd : w.isDeleted = false) (k : Str) :
    LiveKey (p :: L) k ↔ (k = p.1 ∨ LiveKey L k) := by
  constructor
  · rintro ⟨q, hq, hk, h⟩
    rcases List.mem_cons.mp hq with rfl | hq
    · exact Or.inl hk.symm
    · exact Or.inr ⟨q, hq, hk, h⟩
  · rintro (rfl | ⟨q, hq, h⟩)
    · exact ⟨p, List.mem_cons_self, rfl, w, hw, hd⟩
    · exact ⟨q, List.mem_cons_of_mem _ hq, h⟩

/-- **the collection loop never fails** in a state satisfying `InvR`: it returns a pool satisfying
    `PoolGood` whose keys are the keys it started with and the identifiers of the trees with a live
    winner, and a sound cache -/
theorem collect_total {H : Bytes → Str} {src : Src} {S : JObj → Prop} {st : DState} (hinv : InvRS H src S st) :
    ∀ (L : List (Str × RevTree)) (A : JObj) (c : Cache), (∀ p ∈ L, st.treeOf p.1 = some p.2) →
      PoolGood A → CacheOK src st c →
      ∃ pool c', L.foldl (C04b.readStep src st) (.ok (A, c)) = .ok (pool, c') ∧ PoolGood pool ∧
        CacheOK src st c' ∧
        ∀ k, (objGet k pool).isSome = true ↔ ((objGet k A).isSome = true ∨ LiveKey L k)
  | [], A, c, _, hA, hc => ⟨A, c, rfl, hA, hc, fun k => by simp [LiveKey]⟩
  | p :: rest, A, c, hL, hA, hc => by
    rw [List.foldl_cons]
    have hrest : ∀ q ∈ rest, st.treeOf q.1 = some q.2 := fun q hq => hL q (List.mem_cons_of_mem _ hq)
    have hp := hL p List.mem_cons_self
    cases hw : p.2.winner with
    | none =>
      have h1 : C04b.readStep src st (.ok (A, c)) p = .ok (A, c) := by simp [C04b.readStep, hw]
      rw [h1]
      obtain ⟨pool, c', e1, e2, e3, e4⟩ := collect_total hinv rest A c hrest hA hc
      refine ⟨pool, c', e1, e2, e3, fun k => ?_⟩
      rw [e4 k, liveKey_cons_skip (fun w h => by rw [hw] at h; cases h) k]
    | some w =>
      cases hd : w.isDeleted with
      | true =>
        have h1 : C04b.readStep src st (.ok (A, c)) p = .ok (A, c) := by simp [C04b.readStep, hw, hd]
        rw [h1]
        obtain ⟨pool, c', e1, e2, e3, e4⟩ := collect_total hinv rest A c hrest hA hc
        refine ⟨pool, c', e1, e2, e3, fun k => ?_⟩
        rw [e4 k, liveKey_cons_skip (fun w' h => by rw [hw] at h; cases h; exact hd) k]
      | false =>
        obtain ⟨o, c1, hr, hc1, hoa⟩ := readAt_total hinv hc hp hw hd
        have h1 : C04b.readStep src st (.ok (A, c)) p =
            .ok (objInsert p.1 (.obj (objInsert ID_FIELD (.str p.1) o)) A, c1) := by
          simp [C04b.readStep, hw, hd, hr]
        rw [h1]
        have hA' : PoolGood (objInsert p.1 (.obj (objInsert ID_FIELD (.str p.1) o)) A) := by
          apply poolGood_insert hA
          intro ha
          obtain ⟨l, rfl⟩ := hoa ha
          exact ⟨l, by rw [C04.objGet_objInsert_other ID_FIELD ORDER_FIELD _ (by decide)]; rfl⟩
        obtain ⟨pool, c', e1, e2, e3, e4⟩ := collect_total hinv rest _ c1 hrest hA' hc1
        refine ⟨pool, c', e1, e2, e3, fun k => ?_⟩
        rw [e4 k, objGet_insert_isSome, liveKey_cons_live hw hd k]
        constructor
        · rintro ((h | h) | h)
          · exact Or.inr (Or.inl h)
          · exact Or.inl h
          · exact Or.inr (Or.inr h)
        · rintro (h | h | h)
          · exact Or.inl (Or.inr h)
          · exact Or.inl (Or.inl h)
          · exact Or.inr h

/-! ## 2d. `unflatten` raises none of its panics on a pool satisfying `PoolGood` -/

theorem poolGood_remove {c : JObj} (h : PoolGood c) (k : Str) : PoolGood (objRemove k c) :=
  fun p hp => h p (List.mem_filter.mp hp).1

theorem poolGood_get {c : JObj} (h : PoolGood c) {k : Str} {v : JVal} (hg : objGet k c = some v) :
    ∃ o, v = .obj o ∧ (isArrayDescriptor k = true → ∃ l, objGet ORDER_FIELD o = some (.arr l)) :=
  h (k, v) (C04b.mem_of_objGet hg)

/-- no panic, and the pool handed on still satisfies `PoolGood` -/
def NP {β : Type} (r : UnflRes β) : Prop := (∀ m, r ≠ .panic m) ∧ (∀ c' x, r = .ok c' x → PoolGood c')

theorem np_ok {β : Type} {c : JObj} (x : β) (h : PoolGood c) : NP (UnflRes.ok c x) :=
  ⟨fun _ h' => (nomatch h'), fun _ _ h' => by cases h'; exact h⟩

theorem np_fuel {β : Type} : NP (UnflRes.fuel : UnflRes β) :=
  ⟨fun _ h' => (nomatch h'), fun _ _ h' => (nomatch h')⟩

def NPV (f : Nat) : Prop := ∀ c v, PoolGood c → NP (unflatten f c v)
def NPO (f : Nat) : Prop := ∀ c l, PoolGood c → NP (unflattenOrder f c l)
def NPL (f : Nat) : Prop := ∀ c l, PoolGood c → NP (unflattenList f c l)
def NPF (f : Nat) : Prop := ∀ c o, PoolGood c → NP (unflattenFields f c o)

theorem npF_step {f : Nat} (hV : NPV f) (hF : NPF f) : NPF (f + 1) := by
  intro c o hc
  cases o with
  | nil => simp only [unflattenFields]; exact np_ok _ hc
  | cons p t =>
    obtain ⟨k, v⟩ := p
    simp only [unflattenFields]
    split
    · have h := hF c t hc
      cases ht : unflattenFields f c t with
      | ok c2 t' => exact np_ok _ (h.2 c2 t' ht)
      | panic m => exact absurd ht (h.1 m)
      | fuel => exact np_fuel
    · have h := hV c v hc
      cases hv : unflatten f c v with
      | ok c1 v' =>
        have h2 := hF c1 t (h.2 c1 v' hv)
        dsimp only
        cases ht : unflattenFields f c1 t with
        | ok c2 t' => exact np_ok _ (h2.2 c2 t' ht)
        | panic m => exact absurd ht (h2.1 m)
        | fuel => exact np_fuel
      | panic m => exact absurd hv (h.1 m)
      | fuel => exact np_fuel

theorem npL_step {f : Nat} (hV : NPV f) (hL : NPL f) : NPL (f + 1) := by
  intro c l hc
  cases l with
  | nil => simp only [unflattenList]; exact np_ok _ hc
  | cons v t =>
    simp only [unflattenList]
    have h := hV c v hc
    cases hv : unflatten f c v with
    | ok c1 v' =>
      have h2 := hL c1 t (h.2 c1 v' hv)
      dsimp only
      cases ht : unflattenList f c1 t with
      | ok c2 t' => exact np_ok _ (h2.2 c2 t' ht)
      | panic m => exact absurd ht (h2.1 m)
      | fuel => exact np_fuel
    | panic m => exact absurd hv (h.1 m)
    | fuel => exact np_fuel

theorem npO_step {f : Nat} (hV : NPV f) (hO : NPO f) : NPO (f + 1) := by
  intro c l hc
  cases l with
  | nil => simp only [unflattenOrder]; exact np_ok _ hc
  | cons u t =>
    have skip := hO c t hc
    cases u with
    | str uuid =>
      simp only [unflattenOrder]
      cases hg : objGet uuid c with
      | none => exact skip
      | some o =>
        have h := hV (objRemove uuid c) o (poolGood_remove hc uuid)
        dsimp only
        cases hv : unflatten f (objRemove uuid c) o with
        | ok c1 item =>
          have h2 := hO c1 t (h.2 c1 item hv)
          dsimp only
          cases ht : unflattenOrder f c1 t with
          | ok c2 t' => exact np_ok _ (h2.2 c2 t' ht)
          | panic m => exact absurd ht (h2.1 m)
          | fuel => exact np_fuel
        | panic m => exact absurd hv (h.1 m)
        | fuel => exact np_fuel
    | null => simpa only [unflattenOrder] using skip
    | bool b => simpa only [unflattenOrder] using skip
    | num n => simpa only [unflattenOrder] using skip
    | arr a => simpa only [unflattenOrder] using skip
    | obj a => simpa only [unflattenOrder] using skip

theorem npV_step {f : Nat} (hV : NPV f) (hO : NPO f) (hL : NPL f) (hF : NPF f) : NPV (f + 1) := by
  intro c v hc
  cases v with
  | null => simp only [unflatten]; exact np_ok _ hc
  | bool b => simp only [unflatten]; exact np_ok _ hc
  | num t => simp only [unflatten]; exact np_ok _ hc
  | arr l =>
    simp only [unflatten]
    have h := hL c l hc
    cases hl : unflattenList f c l with
    | ok c' l' => exact np_ok _ (h.2 _ _ hl)
    | panic m => exact absurd hl (h.1 m)
    | fuel => exact np_fuel
  | obj o =>
    simp only [unflatten]
    have h := hF c o hc
    cases hl : unflattenFields f c o with
    | ok c' l' => exact np_ok _ (h.2 _ _ hl)
    | panic m => exact absurd hl (h.1 m)
    | fuel => exact np_fuel
  | str s =>
    simp only [unflatten]
    split
    · exact np_ok _ hc
    · split
      · next hs =>
        cases hg : objGet s c with
        | none => exact np_ok _ hc
        | some d =>
          obtain ⟨dobj, rfl, hord⟩ := poolGood_get hc hg
          obtain ⟨order, ho⟩ := hord hs
          dsimp only
          rw [ho]
          dsimp only
          have h := hO (objRemove s c) order (poolGood_remove hc s)
          cases hr2 : unflattenOrder f (objRemove s c) order with
          | ok c2 items => exact np_ok _ (h.2 _ _ hr2)
          | panic m => exact absurd hr2 (h.1 m)
          | fuel => exact np_fuel
      · cases hg : objGet s c with
        | none => exact np_ok _ hc
        | some v => exact hV (objRemove s c) v (poolGood_remove hc s)

theorem np_all : ∀ f, NPV f ∧ NPO f ∧ NPL f ∧ NPF f
  | 0 => by
    refine ⟨fun c v _ => ?_, fun c l _ => ?_, fun c l _ => ?_, fun c o _ => ?_⟩
    · simp only [unflatten]; exact np_fuel
    · simp only [unflattenOrder]; exact np_fuel
    · simp only [unflattenList]; exact np_fuel
    · simp only [unflattenFields]; exact np_fuel
  | f + 1 => by
    obtain ⟨hV, hO, hL, hF⟩ := np_all f
    exact ⟨npV_step hV hO hL hF, npO_step hV hO, npL_step hV hL, npF_step hV hF⟩

/-- **`unflatten` raises none of its panics** (`expecting_order_field_in_descriptor`,
    `expecting_order_field_in_descriptor_as_array`, `pool_value_not_an_object`) on a pool whose values
    are objects and whose descriptor objects have an `"A"` array field — for every fuel and value -/
theorem unflatten_no_panic (f : Nat) (c : JObj) (v : JVal) (hc : PoolGood c) (m : String) :
    unflatten f c v ≠ .panic m :=
  ((np_all f).1 c v hc).1 m

/-- started on an object, `unflatten` answers an object -/
theorem unflatten_obj {f : Nat} {c c' : JObj} {o : JObj} {v : JVal} (h : unflatten f c (.obj o) = .ok c' v) :
    ∃ o', v = .obj o' := by
  cases f with
  | zero => simp [unflatten] at h
  | succ f =>
    simp only [unflatten] at h
    split at h
    · cases h; exact ⟨_, rfl⟩
    · cases h
    · cases h

/-- **the reconstruction step of `read` succeeds** on a good pool that holds the root -/
theorem readFinish_total {pool : JObj} (c : Cache) (hp : PoolGood pool) {ro : JVal}
    (hr : objGet ROOT_ID pool = some ro) : ∃ v, C04b.readFinish pool c = .ok (v, c) := by
  obtain ⟨o, rfl, _⟩ := poolGood_get hp hr
  unfold C04b.readFinish
  simp only [hr]
  cases hu : unflatten (unflattenFuel pool (.obj o)) pool (.obj o) with
  | ok c' v =>
    obtain ⟨o', rfl⟩ := unflatten_obj hu
    exact ⟨_, rfl⟩
  | panic m => exact absurd hu (unflatten_no_panic _ _ _ hp m)
  | fuel => exact absurd hu (C04.unflatten_fuel_enough pool (.obj o) _ (Nat.le_refl _))

/-! ## 2. MAIN: `read` never panics -/

/-- the root tree exists and its winner is live -/
def RootLive (st : DState) : Prop :=
  ∃ t w, st.treeOf ROOT_ID = some t ∧ t.winner = some w ∧ w.isDeleted = false

/-- the root tree exists but it has no winner or its winner is a deletion -/
def RootDead (st : DState) : Prop :=
  ∃ t, st.treeOf ROOT_ID = some t ∧ (t.winner = none ∨ ∃ w, t.winner = some w ∧ w.isDeleted = true)

theorem root_cases (st : DState) : st.treeOf ROOT_ID = none ∨ RootDead st ∨ RootLive st := by
  cases ht : st.treeOf ROOT_ID with
  | none => exact Or.inl rfl
  | some t =>
    right
    cases hw : t.winner with
    | none => exact Or.inl ⟨t, ht, Or.inl hw⟩
    | some w =>
      cases hd : w.isDeleted with
      | true => exact Or.inl ⟨t, ht, Or.inr ⟨w, hw, hd⟩⟩
      | false => exact Or.inr ⟨t, w, ht, hw, hd⟩

theorem liveKey_root_iff {st : DState} (hs : DocsSorted st.p.docs) : LiveKey st.p.docs ROOT_ID ↔ RootLive st := by
  constructor
  · rintro ⟨p, hp, hk, w, hw, hd⟩
    have := C04b.treeOf_of_mem hs (show (p.1, p.2) ∈ st.p.docs from hp)
    rw [hk] at this
    exact ⟨p.2, w, this, hw, hd⟩
  · rintro ⟨t, w, ht, hw, hd⟩
    exact ⟨(ROOT_ID, t), C04b.mem_of_treeOf ht, rfl, w, hw, hd⟩

theorem not_live_of_dead {st : DState} (h : RootDead st) : ¬ RootLive st := by
  obtain ⟨t, ht, h⟩ := h
  rintro ⟨t', w, ht', hw, hd⟩
  rw [ht] at ht'; cases ht'
  rcases h with h | ⟨w', hw', hd'⟩
  · rw [h] at hw; cases hw
  · rw [hw] at hw'; cases hw'; rw [hd] at hd'; cases hd'

/-- what `read` answers in each of the three cases, in a state satisfying `InvR` -/
theorem read_spec {H : Bytes → Str} {src : Src} {S : JObj → Prop} {st : DState} (hinv : InvRS H src S st) :
    (st.treeOf ROOT_ID = none → DState.read src st = .err "no_root") ∧
    (RootDead st → DState.read src st = .err "root_object_not_found") ∧
    (RootLive st → ∃ v c, DState.read src st = .ok (v, c) ∧ CacheOK src st c) := by
  obtain ⟨pool, c', hfold, hgood, hcache, hkeys⟩ := collect_total hinv st.p.docs [] st.acache
    (fun p hp => C04b.treeOf_of_mem hinv.sorted (show (p.1, p.2) ∈ st.p.docs from hp))
    (fun _ h => (by cases h)) hinv.cache
  have hroot : (objGet ROOT_ID pool).isSome = true ↔ RootLive st := by
    rw [hkeys ROOT_ID, ← liveKey_root_iff hinv.sorted]; simp [objGet]
  refine ⟨?_, ?_, ?_⟩
  · intro h
    rw [C04b.read_eq, h]; rfl
  · intro hdead
    obtain ⟨t, ht, _⟩ := id hdead
    rw [C04b.read_eq, ht]
    simp only [Option.isNone_some, Bool.false_eq_true, if_false]
    rw [hfold]
    simp only
    have : objGet ROOT_ID pool = none := by
      cases hg : objGet ROOT_ID pool with
      | none => rfl
      | some v => exact absurd (hroot.mp (by rw [hg]; rfl)) (not_live_of_dead hdead)
    unfold C04b.readFinish
    rw [this]
  · intro hlive
    obtain ⟨t, w, ht, _, _⟩ := id hlive
    rw [C04b.read_eq, ht]
    simp only [Option.isNone_some, Bool.false_eq_true, if_false]
    rw [hfold]
    simp only
    have hs := hroot.mpr hlive
    cases hg : objGet ROOT_ID pool with
    | none => rw [hg] at hs; cases hs
    | some ro =>
      obtain ⟨v, hv⟩ := readFinish_total c' hgood hg
      exact ⟨v, c', hv, hcache⟩

/-- **C08 for `read` (`read(None)`)** — in every state satisfying `InvR` (conflicts allowed everywhere,
    flattened arrays included) `read` returns a value or an error and NEVER panics: none of
    `cannot_read_object`, `cannot_get_merged_order`, `cannot_read_base_array_descriptor`,
    `expecting_order_field_in_descriptor…`, `pool_value_not_an_object`, `not_an_object`, `fuel`.
    Exactly:
    * `.err "no_root"` iff there is no tree for `√`;
    * `.err "root_object_not_found"` iff the root tree exists but has no winner or its winner is a deletion
      (e.g. after `delete_object("√")`, or after `update` with a document whose root carries its own `_id`);
    * `.ok` in all other cases (the root tree has a live winner), and the returned cache is sound. -/
theorem read_no_panic {H : Bytes → Str} {src : Src} {S : JObj → Prop} {st : DState} (hinv : InvRS H src S st) :
    ((∃ v c, DState.read src st = .ok (v, c)) ∨ DState.read src st = .err "no_root" ∨
      DState.read src st = .err "root_object_not_found") ∧
    (∀ m, DState.read src st ≠ .panic m) ∧
    (DState.read src st = .err "no_root" ↔ st.treeOf ROOT_ID = none) ∧
    (DState.read src st = .err "root_object_not_found" ↔ RootDead st) ∧
    ((∃ v c, DState.read src st = .ok (v, c)) ↔ RootLive st) := by
  obtain ⟨h1, h2, h3⟩ := read_spec hinv
  rcases root_cases st with hc | hc | hc
  · have e := h1 hc
    refine ⟨Or.inr (Or.inl e), fun m => (by rw [e]; exact fun h => nomatch h), ⟨fun _ => hc, fun _ => e⟩, ?_, ?_⟩
    · rw [e]
      refine ⟨fun h => ?_, fun ⟨t, ht, _⟩ => by rw [hc] at ht; cases ht⟩
      have : ("no_root" : String) = "root_object_not_found" := by injection h
      exact absurd this (by decide)
    · rw [e]
      exact ⟨fun ⟨v, c, h⟩ => (nomatch h), fun ⟨t, w, ht, _⟩ => by rw [hc] at ht; cases ht⟩
  · have e := h2 hc
    refine ⟨Or.inr (Or.inr e), fun m => (by rw [e]; exact fun h => nomatch h), ?_, ⟨fun _ => hc, fun _ => e⟩, ?_⟩
    · rw [e]
      obtain ⟨t, ht, _⟩ := hc
      refine ⟨fun h => ?_, fun h => by rw [h] at ht; cases ht⟩
      have : ("root_object_not_found" : String) = "no_root" := by injection h
      exact absurd this (by decide)
    · rw [e]
      exact ⟨fun ⟨v, c, h⟩ => (nomatch h), fun h => absurd h (not_live_of_dead hc)⟩
  · obtain ⟨v, c, e, _⟩ := h3 hc
    refine ⟨Or.inl ⟨v, c, e⟩, fun m => (by rw [e]; exact fun h => nomatch h), ?_, ?_, ⟨fun _ => hc, fun _ => ⟨v, c, e⟩⟩⟩
    · rw [e]
      obtain ⟨t, w, ht, _⟩ := hc
      exact ⟨fun h => (nomatch h), fun h => by rw [h] at ht; cases ht⟩
    · rw [e]
      exact ⟨fun h => (nomatch h), fun h => absurd hc (not_live_of_dead h)⟩

/-! ## 3. preservation of `InvR` by the local operations -/

/-- a fresh, canonical, unresolved child of the winner: `TreeR` is kept, the child is the new winner and
    replaces the old winner among the leaves (any number of other leaves) -/
theorem treeR_add_child {t : RevTree} (ht : TreeR t) {w r : Rev} (hw : t.winner = some w)
    (hidx : r.index = w.index + 1) (hcan : Canonical r) (hres : ¬ r.isResolved = true)
    (hnew : t.contains r = false) (s : Bool) :
    TreeR (t.add r (some w) s).1 ∧ (t.add r (some w) s).1.winner = some r ∧
    (∀ l, l ∈ (t.add r (some w) s).1.leafs ↔ (l = r ∨ (l ∈ t.leafs ∧ l ≠ w))) ∧
    (t.add r (some w) s).1.entries = t.entries ++ [⟨r, some w, s⟩] := by
  obtain ⟨h1, h2, _, h4⟩ := C04b.add_child_general ht.ok hw hidx hcan hres hnew s
  refine ⟨⟨h4, ?_, ?_⟩, h1, ?_, ?_⟩
  · rw [C15.add_fst, hnew]
    simp only [Bool.false_eq_true, if_false]
    rfl
  · rw [C15.add_fst, hnew]
    simp only [Bool.false_eq_true, if_false]
    rfl
  · intro l
    rw [h2 l, ht.mem_leafs l]
  · rw [C15.add_entries, hnew]
    simp only [Bool.false_eq_true, if_false]

theorem winner_canonical {t : RevTree} (ht : TreeOK t) {w : Rev} (hw : t.winner = some w) : Canonical w := by
  obtain ⟨⟨e, he, hr⟩, _⟩ := (C04b.winner_live ht hw).1
  exact hr ▸ ht.canon e he

/-- an object-level step on a NON-array identifier keeps the cross-tree agreement -/
theorem agree_of_other {st st' : DState} {u : Str} (hu : isArrayDescriptor u = false)
    (hother : ∀ u', u' ≠ u → st'.treeOf u' = st.treeOf u') (h : AgreeParents st) : AgreeParents st' := by
  intro u1 t1 u2 t2 r a b c d
  have n1 : u1 ≠ u := fun e => by have := a.1; rw [e, hu] at this; cases this
  have n2 : u2 ≠ u := fun e => by have := b.1; rw [e, hu] at this; cases this
  exact h u1 t1 u2 t2 r ⟨a.1, by rw [← hother u1 n1]; exact a.2⟩ ⟨b.1, by rw [← hother u2 n2]; exact b.2⟩ c d

/-- **one object-level step on `u` keeps `InvR`**, given what it does to the tree of `u` -/
theorem invR_step {H : Bytes → Str} {src : Src} {S : JObj → Prop} {st st' : DState} {u : Str} (hinv : InvRS H src S st)
    (hgrow : C04c.Grow src st st') (hother : ∀ u', u' ≠ u → st'.treeOf u' = st.treeOf u')
    (hstore : StoreOK H src S st') (hsorted : DocsSorted st'.p.docs)
    (hcache : CacheOK src st st'.acache) (hag : AgreeParents st')
    (hu : ∀ t', st'.treeOf u = some t' → TreeR t' ∧ ∀ w, t'.winner = some w → w.isDeleted = false →
      (isArrayDescriptor u = false → ∃ o, readObject src st' w = .ok o) ∧
      (isArrayDescriptor u = true → ∀ l ∈ t'.leafs, ∃ o, TO src st' t' l o)) :
    InvRS H src S st' := by
  refine ⟨hsorted, hstore, ?_, ?_, ?_, C04c.cacheOK_grow hgrow hinv.closedAll hcache, hag⟩
  · intro u' t ht
    by_cases hne : u' = u
    · subst hne; exact (hu t ht).1
    · rw [hother u' hne] at ht; exact hinv.trees u' t ht
  · intro u' t w ht ha hw hd
    by_cases hne : u' = u
    · subst hne; exact ((hu t ht).2 w hw hd).1 ha
    · rw [hother u' hne] at ht
      obtain ⟨o, ho⟩ := hinv.plain u' t w ht ha hw hd
      exact ⟨o, hgrow.reads _ _ ho⟩
  · intro u' t w ht hw hd l hl
    by_cases hne : u' = u
    · subst hne; exact ((hu t ht.2).2 w hw hd).2 ht.1 l hl
    · have ht' : ArrTree st u' t := ⟨ht.1, by rw [← hother u' hne]; exact ht.2⟩
      obtain ⟨o, ho⟩ := hinv.arrays u' t w ht' hw hd l hl
      have htr := hinv.trees u' t ht'.2
      exact ⟨o, C04c.trueOrder_mono (l := []) htr.ok.closed hgrow.reads (by simp) (htr.leaf_contains hl) ho⟩

/-- **`deleteObject` keeps `InvR`** — from ANY state satisfying `InvR` (the tree of `u` may be in
    conflict, `u` may be an array descriptor). For a descriptor identifier the cross-tree agreement of the
    resulting state is a hypothesis (the deletion revision `w.index+1-d_tail` could already be recorded
    with another parent in another descriptor tree: a 28-bit tail clash; `C04c.agreeParents_needed`);
    for a plain identifier nothing is assumed. -/
theorem deleteObject_keeps_invR {H : Bytes → Str} (hH : HexOut H) {src : Src} {S : JObj → Prop} {st st' : DState} {u : Str}
    {rv : Option Str} (hinv : InvRS H src S st) (hag : isArrayDescriptor u = true → AgreeParents st')
    (h : deleteObject H st u = .ok (st', rv)) : InvRS H src S st' := by
  have hgrow := C04c.deleteObject_grow src h
  unfold deleteObject at h
  cases htu : st.treeOf u with
  | none =>
    simp only [htu, Res.ok.injEq, Prod.mk.injEq] at h
    obtain ⟨rfl, _⟩ := h; exact hinv
  | some t =>
    have htr := hinv.trees u t htu
    simp only [htu] at h
    cases hw : t.winner with
    | none => simp [hw] at h
    | some w =>
      simp only [hw] at h
      by_cases hc : (!w.isDeleted && !w.isResolved) = true
      · simp only [hc, if_true, Res.ok.injEq, Prod.mk.injEq] at h
        obtain ⟨rfl, _⟩ := h
        have hnr := C04b.upd_not_resolved H Rev.DELETED w (by decide)
        obtain ⟨a1, a2, _, _⟩ := treeR_add_child htr hw (r := Rev.del H w) rfl
          (C19.upd_canonical hH _ C19.DELETED_alnum w (winner_canonical htr.ok hw)) hnr
          (C04b.child_fresh htr.ok hw rfl hnr) true
        have hother : ∀ u', u' ≠ u → (st.withTree u (t.add (Rev.del H w) (some w) true).1).treeOf u' = st.treeOf u' :=
          fun u' hne => C04b.treeOf_withTree_other _ _ _ _ hne
        have hag' : AgreeParents (st.withTree u (t.add (Rev.del H w) (some w) true).1) := by
          cases ha : isArrayDescriptor u with
          | true => exact hag ha
          | false => exact agree_of_other ha hother hinv.agree
        refine invR_step hinv hgrow hother (C04b.storeOK_withTree hinv.store u _)
          (C04b.setTree_sorted hinv.sorted u _) hinv.cache hag' ?_
        intro t' ht'
        rw [C04b.treeOf_withTree_self] at ht'; cases ht'
        refine ⟨a1, ?_⟩
        intro w' hw' hd'
        rw [a2] at hw'; cases hw'
        rw [C04b.del_isDeleted] at hd'; cases hd'
      · simp only [hc, Bool.false_eq_true, if_false, Res.ok.injEq, Prod.mk.injEq] at h
        obtain ⟨rfl, _⟩ := h; exact hinv

/-! ### `updateObject` on a non-array identifier, from any state (conflicts allowed) -/

theorem readable_special (src : Src) (st : DState) {r : Rev} (h : r.isSpecial = true) :
    ∃ x, readObject src st r = .ok x := by
  unfold readObject
  cases h1 : r.isEmpty <;> cases h2 : r.isDeleted <;> cases h3 : r.isResolved <;>
    cases h4 : r.isCharcode <;> simp_all [Rev.isSpecial]

/-- after `writeObject r o` the body of `r` can be read (it may be another body stored under the same
    digest: no collision freedom is assumed) -/
theorem readable_after_write {H : Bytes → Str} {src : Src} {S : JObj → Prop} {st : DState}
    (hS : StoreOK H src S st) (r : Rev) (o : JObj) : ∃ x, readObject src (st.writeObject r o) r = .ok x := by
  cases hsp : r.isSpecial with
  | true => exact readable_special src _ hsp
  | false =>
    rw [C04b.readObject_nonspecial src _ hsp]
    unfold C04b.readStored
    cases hs : src r.digest with
    | some x => exact ⟨x, rfl⟩
    | none =>
      simp only
      rcases C04b.writeObject_stage st r o with h | ⟨_, _, _, h⟩
      · have : st.p.objects.contains r.digest = true ∨ st.stage.any (fun p => p.1 = r.digest) = true := by
          unfold writeObject at h
          simp only [hsp, Bool.false_eq_true, if_false] at h
          by_cases hc : (st.p.objects.contains r.digest || st.stage.any (fun p => p.1 = r.digest)) = true
          · simpa using hc
          · simp only [hc, if_false] at h
            have := congrArg List.length h
            simp at this
        rcases this with hc | hc
        · have := hS.objs_ok r.digest (by simpa using hc)
          rw [hs] at this; cases this
        · rw [h]
          cases hf' : st.stage.find? (fun p => p.1 = r.digest) with
          | some p => exact ⟨p.2, rfl⟩
          | none =>
            rw [List.find?_eq_none] at hf'
            obtain ⟨p, hp, hpk⟩ := List.any_eq_true.mp hc
            exact absurd hpk (hf' p hp)
      · rw [h]
        cases hf' : (st.stage ++ [(r.digest, o)]).find? (fun p => p.1 = r.digest) with
        | some p => exact ⟨p.2, rfl⟩
        | none =>
          rw [List.find?_eq_none] at hf'
          exact absurd (by simp) (hf' (r.digest, o) (by simp))

theorem treeR_singleton (r : Rev) (hidx : r.index = 1) (hres : ¬ r.isResolved = true) (hcan : Canonical r) :
    TreeR (RevTree.empty.add r none true).1 ∧ (RevTree.empty.add r none true).1.winner = some r := by
  obtain ⟨h1, h2⟩ := C04b.singleton_tree r hidx hres hcan
  refine ⟨⟨h2, (C04c.singleton_shape r hidx hres).2, ?_⟩, h1⟩
  rw [C15.add_fst]
  simp only [RevTree.empty, contains, find?, List.find?_nil, Option.isSome_none, Bool.false_eq_true, if_false]
  rfl

/-- the digest of the submitted object can be used in a revision: alphanumeric and not the resolution
    marker (true of every object without a `#` field: `usable_of_noHash`) -/
def UsableDigest (H : Bytes → Str) (o : JObj) : Prop :=
  ∀ d, digestObject H o = .ok d → AlnumStr d ∧ d ≠ Rev.RESOLVED

theorem usable_of_noHash {H : Bytes → Str} (hH : HexOut H) {o : JObj} (hn : C04b.NoHash o) : UsableDigest H o :=
  fun _ hd => ⟨(C04b.faithful_of_noHash hH hn hd).1, (C04b.faithful_of_noHash hH hn hd).2.2.1⟩

/-- **`updateObject` on a NON-array identifier keeps `InvR`**, from any state satisfying `InvR`: the tree
    of `u` may be in conflict (any number of leaves), other trees — descriptor trees included — may be in
    conflict too. No collision freedom is assumed. -/
theorem updateObject_keeps_invR {H : Bytes → Str} (hH : HexOut H) {src : Src} {S : JObj → Prop} {st st' : DState} {u : Str}
    {o : JObj} {rv : Option Str} (hu : isArrayDescriptor u = false) (hinv : InvRS H src S st) (hSo : S o)
    (hf : UsableDigest H o) (h : updateObject H src st u o = .ok (st', rv)) : InvRS H src S st' := by
  have hgrow := C04c.updateObject_grow h
  unfold updateObject at h
  cases htu : st.treeOf u with
  | none =>
    rw [htu] at h
    unfold createObject at h
    cases hd : digestObject H o with
    | error e => simp [hd] at h
    | ok d =>
      simp only [hd, C04b.treeOf_writeObject, htu, Option.getD_none] at h
      obtain ⟨hfa, hfr⟩ := hf d hd
      have hres : ¬ (Rev.mk1 d).isResolved = true := by simp [Rev.isResolved, Rev.mk1, hfr]
      obtain ⟨htr, hwin⟩ := treeR_singleton (Rev.mk1 d) rfl hres (C19.mk1_canonical d hfa)
      generalize hT : RevTree.empty.add (Rev.mk1 d) none true = T at h htr hwin
      obtain ⟨t', added⟩ := T
      simp only [Res.ok.injEq, Prod.mk.injEq] at h
      obtain ⟨rfl, _⟩ := h
      simp only at htr hwin
      have hS1 : StoreOK H src S (st.writeObject (Rev.mk1 d) o) :=
        C04b.storeOK_writeObject hinv.store _ o hd hSo
      have hother : ∀ u', u' ≠ u → ((st.writeObject (Rev.mk1 d) o).withTree u t').treeOf u' = st.treeOf u' := by
        intro u' hne; rw [C04b.treeOf_withTree_other _ _ _ _ hne, C04b.treeOf_writeObject]
      refine invR_step hinv hgrow hother (C04b.storeOK_withTree hS1 u t') ?_ ?_
        (agree_of_other hu hother hinv.agree) ?_
      · show DocsSorted (setTree (st.writeObject (Rev.mk1 d) o).p.docs u t')
        rw [C04b.writeObject_p]; exact C04b.setTree_sorted hinv.sorted u t'
      · show CacheOK src st (st.writeObject (Rev.mk1 d) o).acache
        rw [C04b.writeObject_acache]; exact hinv.cache
      · intro t'' ht''
        rw [C04b.treeOf_withTree_self] at ht''; cases ht''
        refine ⟨htr, fun w hw _ => ⟨fun _ => ?_, fun ha => by rw [hu] at ha; cases ha⟩⟩
        rw [hwin] at hw; cases hw
        rw [C04b.readObject_withTree]
        exact readable_after_write hinv.store _ o
  | some t =>
    have htr := hinv.trees u t htu
    rw [htu] at h
    simp only at h
    cases hw : t.winner with
    | none => simp [hw] at h
    | some w =>
      simp only [hw, hu, Bool.false_eq_true, if_false, Bool.false_or] at h
      cases hd : digestObject H o with
      | error e => simp [hd] at h
      | ok d =>
        simp only [hd] at h
        obtain ⟨hfa, hfr⟩ := hf d hd
        by_cases hdw : d = w.digest
        · simp only [hdw, ne_eq, not_true_eq_false, decide_false, Bool.false_eq_true, if_false,
            Res.ok.injEq, Prod.mk.injEq] at h
          obtain ⟨rfl, _⟩ := h
          exact hinv
        · simp only [ne_eq, hdw, not_false_eq_true, decide_true, if_true, Res.ok.injEq, Prod.mk.injEq] at h
          obtain ⟨rfl, _⟩ := h
          have hnr := C04b.upd_not_resolved H d w hfr
          obtain ⟨a1, a2, _, _⟩ := treeR_add_child htr hw (r := Rev.upd H d w) rfl
            (C19.upd_canonical hH d hfa w (winner_canonical htr.ok hw)) hnr
            (C04b.child_fresh htr.ok hw rfl hnr) true
          have hS1 : StoreOK H src S (st.withTree u (t.add (Rev.upd H d w) (some w) true).1) :=
            C04b.storeOK_withTree hinv.store u _
          have hother : ∀ u', u' ≠ u →
              ((st.withTree u (t.add (Rev.upd H d w) (some w) true).1).writeObject (Rev.upd H d w) o).treeOf u' =
                st.treeOf u' := by
            intro u' hne; rw [C04b.treeOf_writeObject, C04b.treeOf_withTree_other _ _ _ _ hne]
          refine invR_step hinv hgrow hother (C04b.storeOK_writeObject hS1 _ o hd hSo) ?_ ?_
            (agree_of_other hu hother hinv.agree) ?_
          · rw [C04b.writeObject_p]; exact C04b.setTree_sorted hinv.sorted u _
          · rw [C04b.writeObject_acache]; exact hinv.cache
          · intro t'' ht''
            rw [C04b.treeOf_writeObject, C04b.treeOf_withTree_self] at ht''; cases ht''
            refine ⟨a1, fun w' hw' _ => ⟨fun _ => ?_, fun ha => by rw [hu] at ha; cases ha⟩⟩
            rw [a2] at hw'; cases hw'
            exact readable_after_write hS1 _ o

/-- the only panic of `update_object` on a plain identifier is a failing `digest_object`
    (`_id` field inside the object, `#` field of a wrong type); no invariant is needed -/
theorem updateObject_plain_no_panic {H : Bytes → Str} {src : Src} {st : DState} {u : Str} {o : JObj} {d : Str}
    (hu : isArrayDescriptor u = false) (hd : digestObject H o = .ok d) (m : String) :
    updateObject H src st u o ≠ .panic m := by
  unfold updateObject
  cases htu : st.treeOf u with
  | none =>
    simp only [createObject, hd]
    generalize (((st.writeObject (Rev.mk1 d) o).treeOf u).getD RevTree.empty).add (Rev.mk1 d) none true = T
    obtain ⟨t', added⟩ := T
    exact fun h => nomatch h
  | some t =>
    simp only
    cases hw : t.winner with
    | none => exact fun h => nomatch h
    | some w =>
      simp only [hu, Bool.false_eq_true, if_false, hd, Bool.false_or]
      split <;> exact fun h => nomatch h

/-- `delete_object` never panics (no invariant needed) -/
theorem deleteObject_no_panic (H : Bytes → Str) (st : DState) (u : Str) (m : String) :
    deleteObject H st u ≠ .panic m := by
  unfold deleteObject
  cases st.treeOf u with
  | none => exact fun h => nomatch h
  | some t =>
    simp only
    cases t.winner with
    | none => exact fun h => nomatch h
    | some w =>
      simp only
      split <;> exact fun h => nomatch h

/-! ### `resolveAs` on a plain identifier -/

theorem markFold_ext (H : Bytes → Str) (w1 : Rev) : ∀ (ls : List Rev) (t : RevTree),
    ∃ l, (ls.foldl (C12.markStep H w1) t).entries = t.entries ++ l
  | [], t => ⟨[], by simp⟩
  | x :: ls, t => by
    rw [List.foldl_cons]
    obtain ⟨l2, h2⟩ := markFold_ext H w1 ls (C12.markStep H w1 t x)
    have h1 : ∃ l1, (C12.markStep H w1 t x).entries = t.entries ++ l1 := by
      unfold C12.markStep
      split
      · exact C04c.add_entries_ext t _ _ _
      · exact ⟨[], by simp⟩
    obtain ⟨l1, h1⟩ := h1
    exact ⟨l1 ++ l2, by rw [h2, h1, List.append_assoc]⟩

/-- a well-formed validated tree (`C12.GoodTree`) with only resolution markers beyond its winner -/
theorem treeR_of_good {t : RevTree} (g : C12.GoodTree t)
    (hb : ∀ w, t.winner = some w → ∀ e ∈ t.entries, w.index < e.rev.index → e.rev.isResolved = true) : TreeR t := by
  obtain ⟨h1, h2, h3⟩ := (C15.validated_iff t).mp g.valid
  exact ⟨⟨h2, g.keys, g.widx, g.canon, g.closed, hb⟩, h1, h3⟩

/-- the last step of `resolve_as`: the tree of the plain identifier `u` is replaced by an extension -/
theorem invR_resolved {H : Bytes → Str} {src : Src} {S : JObj → Prop} {st st1 : DState} {u : Str} {t t2 : RevTree}
    (hu : isArrayDescriptor u = false) (hinv : InvRS H src S st) (htu : st.treeOf u = some t)
    (hreads : ∀ r x, readObject src st r = .ok x → readObject src st1 r = .ok x)
    (hother1 : ∀ u', u' ≠ u → st1.treeOf u' = st.treeOf u')
    (hstore : StoreOK H src S st1) (hsorted : DocsSorted st1.p.docs) (hac : st1.acache = st.acache)
    (hext : ∃ l, t2.entries = t.entries ++ l) (htr2 : TreeR t2)
    (hplain : ∀ w, t2.winner = some w → w.isDeleted = false → ∃ o, readObject src st1 w = .ok o) :
    InvRS H src S (st1.withTree u t2) := by
  have hother : ∀ u', u' ≠ u → (st1.withTree u t2).treeOf u' = st.treeOf u' := by
    intro u' hne; rw [C04b.treeOf_withTree_other _ _ _ _ hne, hother1 u' hne]
  have hgrow : C04c.Grow src st (st1.withTree u t2) := by
    refine ⟨fun r x h => by rw [C04b.readObject_withTree]; exact hreads r x h, ?_⟩
    intro u' t0 ht0
    by_cases hne : u' = u
    · subst hne
      rw [htu] at ht0; cases ht0
      obtain ⟨l, hl⟩ := hext
      exact ⟨t2, l, C04b.treeOf_withTree_self _ _ _, hl⟩
    · exact ⟨t0, [], by rw [hother u' hne]; exact ht0, by simp⟩
  refine invR_step hinv hgrow hother (C04b.storeOK_withTree hstore u t2) (C04b.setTree_sorted hsorted u t2)
    (by show CacheOK src st st1.acache; rw [hac]; exact hinv.cache) (agree_of_other hu hother hinv.agree) ?_
  intro t' ht'
  rw [C04b.treeOf_withTree_self] at ht'; cases ht'
  refine ⟨htr2, fun w hw hd => ⟨fun _ => ?_, fun ha => by rw [hu] at ha; cases ha⟩⟩
  obtain ⟨o, ho⟩ := hplain w hw hd
  exact ⟨o, by rw [C04b.readObject_withTree]; exact ho⟩

/-- the tree after "only markers are added" (`C07.resolve_tree_keep`) satisfies `TreeR` -/
theorem treeR_keep {H : Bytes → Str} (hH : HexOut H) {t : RevTree} (htr : TreeR t) {w : Rev}
    (hw : t.winner = some w) {d : Str} (nc : C07.NoTailClash H t d) :
    TreeR (t.leafs.foldl (C12.markStep H w) t) ∧ (t.leafs.foldl (C12.markStep H w) t).winner = some w := by
  obtain ⟨g2, _, w2, e2⟩ := C07.resolve_tree_keep hH htr.good hw nc
  refine ⟨treeR_of_good g2 ?_, w2⟩
  intro w' hw' e he hlt
  rw [w2] at hw'; cases hw'
  rw [e2] at he
  rcases List.mem_append.mp he with he | he
  · exact htr.ok.beyond w hw e he hlt
  · obtain ⟨l, _, rfl⟩ := List.mem_map.mp he
    exact C12.res_isResolved H l

/-- the tree after "a child of the winner, then the markers" (`C07.resolve_tree_child`) satisfies `TreeR` -/
theorem treeR_child {H : Bytes → Str} (hH : HexOut H) {t : RevTree} (htr : TreeR t) {w : Rev}
    (hw : t.winner = some w) {d : Str} (hd : AlnumStr d) (hdr : d ≠ Rev.RESOLVED) (nc : C07.NoTailClash H t d) :
    (t.add (Rev.upd H d w) (some w) true).1.winner = some (Rev.upd H d w) ∧
    TreeR ((t.add (Rev.upd H d w) (some w) true).1.leafs.foldl (C12.markStep H (Rev.upd H d w))
      (t.add (Rev.upd H d w) (some w) true).1) ∧
    ((t.add (Rev.upd H d w) (some w) true).1.leafs.foldl (C12.markStep H (Rev.upd H d w))
      (t.add (Rev.upd H d w) (some w) true).1).winner = some (Rev.upd H d w) := by
  obtain ⟨hw1, g2, _, w2, e2⟩ := C07.resolve_tree_child hH htr.good hw hd hdr nc
  refine ⟨hw1, treeR_of_good g2 ?_, w2⟩
  intro w' hw' e he hlt
  rw [w2] at hw'; cases hw'
  rcases (e2 e).mp he with he | rfl | ⟨l, _, _, rfl⟩
  · exact htr.ok.beyond w hw e he (by have : (Rev.upd H d w).index = w.index + 1 := rfl; omega)
  · simp at hlt
  · exact C12.res_isResolved H l

/-- **`resolveAs` keeps `InvR`** (plain identifier, chosen revision not a deletion; the hypotheses of
    `C07.resolveAs_plain_spec`): from any state satisfying `InvR` -/
theorem resolveAs_keeps_invR {H : Bytes → Str} (hH : HexOut H) {src : Src} {S : JObj → Prop} {st st' : DState} {u : Str}
    {t : RevTree} {r : Rev} {o : JObj} {x : Str} (hu : isArrayDescriptor u = false) (hinv : InvRS H src S st)
    (ht : st.treeOf u = some t) (hl : r ∈ t.leafs) (hconf : 2 ≤ t.leafs.length) (hnd : r.isDeleted = false)
    (hbody : readObject src st r = .ok o) (hCA : digestObject H o = .ok r.digest) (hSo : S o)
    (nc : C07.NoTailClash H t r.digest)
    (h : resolveAs H src st u r.render = .ok (st', x)) : InvRS H src S st' := by
  have htr := hinv.trees u t ht
  have g := htr.good
  have hne : t.leafs ≠ [] := by intro h; rw [h] at hconf; simp at hconf
  obtain ⟨w, hw⟩ := g.winner_isSome hne
  have hrc : Canonical r := C07.GoodTree.leaf_canon g hl
  have hrl := (g.mem_leafs r).mp hl
  by_cases hdw : r.digest = w.digest
  · rw [C07.resolveAs_keep_eq H src st u hrc ht hl hconf hu hbody hnd hw hCA hdw] at h
    simp only [Res.ok.injEq, Prod.mk.injEq] at h
    obtain ⟨rfl, _⟩ := h
    obtain ⟨a1, a2⟩ := treeR_keep hH htr hw nc
    refine invR_resolved hu hinv ht (fun _ _ h => h) (fun _ _ => rfl) hinv.store hinv.sorted rfl
      (markFold_ext H w _ t) a1 ?_
    intro w' hw' _
    rw [a2] at hw'; cases hw'
    exact ⟨o, by rw [C07.readObject_digest src st hdw.symm]; exact hbody⟩
  · have hd : AlnumStr r.digest := hrc.1
    have hdr : r.digest ≠ Rev.RESOLVED := by
      have := hrl.2.1
      simpa [Rev.isResolved] using this
    obtain ⟨hw1, a1, a2⟩ := treeR_child hH htr hw hd hdr nc
    rw [C07.resolveAs_child_eq H src st u hrc ht hl hconf hu hbody hnd hw hCA hdw hw1] at h
    simp only [Res.ok.injEq, Prod.mk.injEq] at h
    obtain ⟨rfl, _⟩ := h
    have hS1 : StoreOK H src S (st.withTree u (t.add (Rev.upd H r.digest w) (some w) true).1) :=
      C04b.storeOK_withTree hinv.store u _
    refine invR_resolved hu hinv ht ?_ ?_ (C04b.storeOK_writeObject hS1 _ o hCA hSo) ?_ ?_ ?_ a1 ?_
    · intro r' x' hr'
      apply C04b.readObject_writeObject_mono
      rw [C04b.readObject_withTree]; exact hr'
    · intro u' hne; rw [C04b.treeOf_writeObject, C04b.treeOf_withTree_other _ _ _ _ hne]
    · rw [C04b.writeObject_p]; exact C04b.setTree_sorted hinv.sorted u _
    · rw [C04b.writeObject_acache]; rfl
    · obtain ⟨l1, h1⟩ := C04c.add_entries_ext t (Rev.upd H r.digest w) (some w) true
      obtain ⟨l2, h2⟩ := markFold_ext H (Rev.upd H r.digest w)
        (t.add (Rev.upd H r.digest w) (some w) true).1.leafs (t.add (Rev.upd H r.digest w) (some w) true).1
      exact ⟨l1 ++ l2, by rw [h2, h1, List.append_assoc]⟩
    · intro w' hw' _
      rw [a2] at hw'; cases hw'
      exact readable_after_write hS1 _ o

/-- **`resolveAs` keeps `InvR`** when the chosen revision is a deletion (plain identifier; the hypotheses
    of `C07.resolveAs_deleted_spec`) -/
theorem resolveAs_deleted_keeps_invR {H : Bytes → Str} (hH : HexOut H) {src : Src} {S : JObj → Prop} {st st' : DState} {u : Str}
    {t : RevTree} {r : Rev} {x : Str} (hu : isArrayDescriptor u = false) (hinv : InvRS H src S st)
    (ht : st.treeOf u = some t) (hl : r ∈ t.leafs) (hconf : 2 ≤ t.leafs.length) (hdel : r.isDeleted = true)
    (nc : C07.NoTailClash H t r.digest)
    (h : resolveAs H src st u r.render = .ok (st', x)) : InvRS H src S st' := by
  have htr := hinv.trees u t ht
  have g := htr.good
  have hne : t.leafs ≠ [] := by intro h; rw [h] at hconf; simp at hconf
  obtain ⟨w, hw⟩ := g.winner_isSome hne
  have hrc : Canonical r := C07.GoodTree.leaf_canon g hl
  have hdig : r.digest = Rev.DELETED := by simpa [Rev.isDeleted] using hdel
  have hwl := (g.mem_leafs w).mp (g.winner_mem hw)
  have hwr : w.isResolved = false := by simpa using hwl.2.1
  have hunf := C07.resolveAs_plain_unfold H src st u r.render (C19.parse_render r hrc) ht hl hconf hu
    (C07.readObject_deleted src st hdel)
  simp only [hdel, if_true] at hunf
  rw [C07.deleteObject_eq H st u ht hw] at hunf
  by_cases hwd : w.isDeleted = true
  · obtain ⟨a1, a2⟩ := treeR_keep hH htr hw nc
    have : resolveAs H src st u r.render =
        .ok (st.withTree u (t.leafs.foldl (C12.markStep H w) t), w.render) := by
      rw [hunf]
      simp only [hwd, hwr, Bool.not_true, Bool.false_and, Bool.false_eq_true, if_false, C07.finishResolve, ht, hw]
    rw [this] at h
    simp only [Res.ok.injEq, Prod.mk.injEq] at h
    obtain ⟨rfl, _⟩ := h
    refine invR_resolved hu hinv ht (fun _ _ h => h) (fun _ _ => rfl) hinv.store hinv.sorted rfl
      (markFold_ext H w _ t) a1 ?_
    intro w' hw' hd'
    rw [a2] at hw'; cases hw'
    rw [hwd] at hd'; cases hd'
  · have hwd' : w.isDeleted = false := by simpa using hwd
    have hdel_eq : Rev.del H w = Rev.upd H r.digest w := by rw [hdig]; rfl
    have hdr : r.digest ≠ Rev.RESOLVED := by rw [hdig]; decide
    obtain ⟨hw1, a1, a2⟩ := treeR_child hH htr hw hrc.1 hdr nc
    rw [← hdel_eq] at hw1 a1 a2
    have : resolveAs H src st u r.render =
        .ok ((st.withTree u (t.add (Rev.del H w) (some w) true).1).withTree u
              ((t.add (Rev.del H w) (some w) true).1.leafs.foldl (C12.markStep H (Rev.del H w))
                (t.add (Rev.del H w) (some w) true).1), (Rev.del H w).render) := by
      rw [hunf]
      simp only [hwd', hwr, Bool.not_false, Bool.and_self, if_true, C07.finishResolve, C07.treeOf_withTree, hw1]
    rw [this] at h
    simp only [Res.ok.injEq, Prod.mk.injEq] at h
    obtain ⟨rfl, _⟩ := h
    refine invR_resolved hu hinv ht ?_ ?_ (C04b.storeOK_withTree hinv.store u _)
      (C04b.setTree_sorted hinv.sorted u _) rfl ?_ a1 ?_
    · intro r' x' hr'; rw [C04b.readObject_withTree]; exact hr'
    · intro u' hne; exact C04b.treeOf_withTree_other _ _ _ _ hne
    · obtain ⟨l1, h1⟩ := C04c.add_entries_ext t (Rev.del H w) (some w) true
      obtain ⟨l2, h2⟩ := markFold_ext H (Rev.del H w)
        (t.add (Rev.del H w) (some w) true).1.leafs (t.add (Rev.del H w) (some w) true).1
      exact ⟨l1 ++ l2, by rw [h2, h1, List.append_assoc]⟩
    · intro w' hw' hd'
      rw [a2] at hw'; cases hw'
      rw [C04b.del_isDeleted] at hd'; cases hd'

/-! ### `updateObject` on an ARRAY-descriptor identifier whose tree may be in conflict -/

/-- replacing the array cache by another sound cache keeps the invariant -/
theorem invR_acache {H : Bytes → Str} {src : Src} {S : JObj → Prop} {st : DState} (hinv : InvRS H src S st)
    {c : Cache} (hc : CacheOK src st c) : InvRS H src S ({ st with acache := c } : DState) := by
  refine invR_step (u := []) hinv (C04c.grow_acache src st c) (fun _ _ => rfl) (C04b.storeOK_acache hinv.store c)
    hinv.sorted hc hinv.agree ?_
  intro t' ht'
  have ht : st.treeOf [] = some t' := ht'
  refine ⟨hinv.trees _ t' ht, fun w hw hd => ⟨fun ha => ?_, fun ha l hl => ?_⟩⟩
  · obtain ⟨o, ho⟩ := hinv.plain _ t' w ht ha hw hd
    exact ⟨o, (C04c.grow_acache src st c).reads _ _ ho⟩
  · obtain ⟨o, ho⟩ := hinv.arrays _ t' w ⟨ha, ht⟩ hw hd l hl
    exact ⟨o, to_acache c ho⟩

/-- the step `add`, `withTree`, `writeObject` of `updateObject` for a descriptor body, in a tree with any
    number of leaves, once the new winner is known to denote an array (cf. `C04c.array_step`) -/
theorem array_stepR {H : Bytes → Str} (hH : HexOut H) {src : Src} {S : JObj → Prop}
    {st : DState} {c : Cache} {u : Str} {t : RevTree} {w : Rev} {obj : JObj} {d : Str} {newOrder : List JVal}
    (hu : isArrayDescriptor u = true) (hinv : InvRS H src S st) (hcf : C04b.CollisionFree H S)
    (htu : st.treeOf u = some t) (hw : t.winner = some w) (hcc : CacheOK src st c)
    (hleafs : ∀ l ∈ t.leafs, ∃ o, TO src st t l o)
    (hSobj : S obj) (hn : C04b.NoHash obj) (hd : digestObject H obj = .ok d)
    (hag : AgreeParents ((({ st with acache := c } : DState).withTree u
      (t.add (Rev.upd H d w) (some w) true).1).writeObject (Rev.upd H d w) obj))
    (hnew : TO src ((({ st with acache := c } : DState).withTree u
      (t.add (Rev.upd H d w) (some w) true).1).writeObject (Rev.upd H d w) obj)
      (t.add (Rev.upd H d w) (some w) true).1 (Rev.upd H d w) newOrder) :
    InvRS H src S ((({ st with acache := c } : DState).withTree u
      (t.add (Rev.upd H d w) (some w) true).1).writeObject (Rev.upd H d w) obj) := by
  have htr := hinv.trees u t htu
  have hSc := C04b.storeOK_acache hinv.store c
  have hg0 := C04c.grow_acache src st c
  obtain ⟨a1, a2, _, a4, _, a6⟩ := C04b.array_add_step hH (src := src) (u := u) hSc hcf hSobj hn htr.ok hw hd
  have hfa := C04b.faithful_of_noHash hH hn hd
  have hnr := C04b.upd_not_resolved H d w hfa.2.2.1
  obtain ⟨b1, _, b3, _⟩ := treeR_add_child htr hw (r := Rev.upd H d w) rfl
    (C19.upd_canonical hH d hfa.1 w (winner_canonical htr.ok hw)) hnr (C04b.child_fresh htr.ok hw rfl hnr) true
  have hreads : ∀ r x, readObject src st r = .ok x →
      readObject src ((({ st with acache := c } : DState).withTree u
        (t.add (Rev.upd H d w) (some w) true).1).writeObject (Rev.upd H d w) obj) r = .ok x :=
    fun r x hx => a6.reads r x (hg0.reads r x hx)
  have hgrow : C04c.Grow src st ((({ st with acache := c } : DState).withTree u
      (t.add (Rev.upd H d w) (some w) true).1).writeObject (Rev.upd H d w) obj) := by
    refine ⟨hreads, ?_⟩
    intro u' t0 ht0
    by_cases hne : u' = u
    · subst hne
      rw [htu] at ht0; cases ht0
      exact ⟨_, _, a1, a4⟩
    · exact ⟨t0, [], by rw [a6.other u' hne]; exact ht0, by simp⟩
  refine invR_step hinv hgrow a6.other a6.store (a6.sorted hinv.sorted) (by rw [a6.acache]; exact hcc) hag ?_
  intro t' ht'
  rw [a1] at ht'; cases ht'
  refine ⟨b1, fun w' _ _ => ⟨fun ha => (by rw [hu] at ha; cases ha), fun _ l hl => ?_⟩⟩
  rcases (b3 l).mp hl with rfl | ⟨hl', _⟩
  · exact ⟨newOrder, hnew⟩
  · obtain ⟨o, ho⟩ := hleafs l hl'
    exact ⟨o, C04c.trueOrder_mono htr.ok.closed hreads a4 (htr.leaf_contains hl') ho⟩

/-- **`updateObject` on an array-descriptor identifier keeps the invariant, conflicts allowed** (the
    descriptor tree may have any number of leaves). Hypotheses as in `C04c.updateObject_array_full`:
    collision freedom on a universe `S` holding the stored bodies, the submitted descriptor and the delta
    descriptor that may be generated; the cross-tree agreement of the resulting state. In addition every
    leaf of the tree denotes an array (`hleafs`; implied by the invariant when the winner is live: only
    needed when a deleted array is re-created while its tree is in conflict). -/
theorem updateObject_array_keeps_invR {H : Bytes → Str} (hH : HexOut H) {src : Src} {S : JObj → Prop}
    {st st' : DState} {u : Str} {newOrder : List JVal} {rv : Option Str}
    (hu : isArrayDescriptor u = true) (hinv : InvRS H src S st) (hcf : C04b.CollisionFree H S)
    (hSo : S [(ORDER_FIELD, .arr newOrder)]) (hSd : C04c.DeltaIn S src st u newOrder)
    (hleafs : ∀ t, st.treeOf u = some t → ∀ l ∈ t.leafs, ∃ o, TO src st t l o)
    (hag : AgreeParents st')
    (h : updateObject H src st u [(ORDER_FIELD, .arr newOrder)] = .ok (st', rv)) : InvRS H src S st' := by
  have hcl := hinv.closedAll
  cases htu : st.treeOf u with
  | none =>
    unfold updateObject at h
    rw [htu] at h
    simp only at h
    obtain ⟨⟨t', w', h1, h2, h3, _, h5, _, _⟩, hfr⟩ :=
      C04b.createObject_spec (src := src) hinv.store hcf hSo
        (fun d hd => C04b.faithful_of_noHash hH (C04b.noHash_order _) hd) htu h
    obtain ⟨d, hd, htree⟩ := C04c.createObject_tree htu h
    have hfa := C04b.faithful_of_noHash hH (C04b.noHash_order newOrder) hd
    have hres : ¬ (Rev.mk1 d).isResolved = true := by simp [Rev.isResolved, Rev.mk1, hfa.2.2.1]
    obtain ⟨htr, hwin⟩ := treeR_singleton (Rev.mk1 d) rfl hres (C19.mk1_canonical d hfa.1)
    have hshape := C04c.singleton_shape (Rev.mk1 d) rfl hres
    have hgrow := C04c.createObject_grow src htu h
    refine invR_step hinv hgrow hfr.other hfr.store (hfr.sorted hinv.sorted)
      (by rw [hfr.acache]; exact hinv.cache) hag ?_
    intro t'' ht''
    rw [htree] at h1 ht''; cases h1; cases ht''
    refine ⟨htr, fun w hw _ => ⟨fun ha => (by rw [hu] at ha; cases ha), fun _ l hl => ?_⟩⟩
    have : l = w' := C04c.eq_of_mem_len_le_one hshape.1 hl (htr.winner_mem h2)
    subst this
    exact ⟨newOrder, .full (C04b.readDesc_of_read h5 (C04b.descOfObject_order _))⟩
  | some t =>
    have htr := hinv.trees u t htu
    have hlf := hleafs t htu
    unfold updateObject at h
    rw [htu] at h
    simp only at h
    cases hw : t.winner with
    | none => simp [hw] at h
    | some w =>
      have hwc := htr.leaf_contains (htr.winner_mem hw)
      simp only [hw, hu, if_true, deltaDescriptor, C04b.descOfObject_order] at h
      cases hro : rebuildOrder src st t st.acache w with
      | err e => simp [hro] at h
      | panic m => simp [hro] at h
      | ok x =>
        obtain ⟨winOrder, c⟩ := x
        have hto : TO src st t w winOrder :=
          C04c.rebuild_sound_g htr.ok.idx htr.ok.closed
            (C04c.cacheOK_guard hinv.agree hcl hinv.cache ⟨hu, htu⟩) hwc hro
        have hcc : CacheOK src st c := by
          intro kv hkv
          rcases C04c.rebuild_items hro kv hkv with h' | rfl
          · exact hinv.cache kv h'
          · exact ⟨u, t, ⟨hu, htu⟩, hwc, hto⟩
        simp only [hro] at h
        cases hmp : makeDiffPatch winOrder newOrder with
        | none => simp [hmp] at h
        | some patch =>
          have hrt := C16.makeDiffPatch_roundtrip winOrder newOrder patch hmp
          simp only [hmp] at h
          have hSc := C04b.storeOK_acache hinv.store c
          have hg0 := C04c.grow_acache src st c
          by_cases hdel : w.isDeleted = true
          · simp only [hdel, if_true] at h
            cases hd : digestObject H [(ORDER_FIELD, JVal.arr newOrder)] with
            | error e => simp [hd] at h
            | ok d =>
              simp only [hd, Bool.true_or, if_true, Res.ok.injEq, Prod.mk.injEq] at h
              obtain ⟨rfl, _⟩ := h
              obtain ⟨_, _, _, _, a5, _⟩ := C04b.array_add_step hH (src := src) (u := u) hSc hcf hSo
                (C04b.noHash_order newOrder) htr.ok hw hd
              exact array_stepR hH hu hinv hcf htu hw hcc hlf hSo (C04b.noHash_order newOrder) hd hag
                (.full (C04b.readDesc_of_read a5 (C04b.descOfObject_order _)))
          · simp only [hdel, Bool.false_eq_true, if_false] at h
            have hdel' : w.isDeleted = false := by simpa using hdel
            by_cases hpe : patch.isEmpty = true
            · simp only [hpe, if_true, Res.ok.injEq, Prod.mk.injEq] at h
              obtain ⟨rfl, _⟩ := h
              exact invR_acache hinv hcc
            · simp only [hpe, Bool.false_eq_true, if_false] at h
              cases hd : digestObject H [(DELTA_ORDER_FIELD, JVal.arr patch)] with
              | error e => simp [hd] at h
              | ok d =>
                simp only [hd, Bool.true_or, if_true, Res.ok.injEq, Prod.mk.injEq] at h
                obtain ⟨rfl, _⟩ := h
                have hSp := hSd t w winOrder patch htu hw hdel' hto hmp
                obtain ⟨_, _, _, a4, a5, a6⟩ := C04b.array_add_step hH (src := src) (u := u) hSc hcf hSp
                  (C04b.noHash_delta patch) htr.ok hw hd
                have hfresh := C04b.child_fresh htr.ok hw (r := Rev.upd H d w) rfl
                  (C04b.upd_not_resolved H d w (C04b.faithful_of_noHash hH (C04b.noHash_delta patch) hd).2.2.1)
                refine array_stepR (newOrder := newOrder) hH hu hinv hcf htu hw hcc hlf hSp (C04b.noHash_delta patch) hd hag ?_
                refine .delta (C04b.readDesc_of_read a5 (C04b.descOfObject_delta _)) ?_
                  (C04c.trueOrder_mono htr.ok.closed (fun r x hx => a6.reads r x (hg0.reads r x hx)) a4 hwc hto) hrt
                unfold getParent
                exact C04b.getParent_new hfresh a4

/-! ### `update` (document level) -/

theorem deleteObject_other {H : Bytes → Str} {st st' : DState} {u : Str} {rv : Option Str}
    (h : deleteObject H st u = .ok (st', rv)) : ∀ u', u' ≠ u → st'.treeOf u' = st.treeOf u' := by
  unfold deleteObject at h
  cases htu : st.treeOf u with
  | none =>
    simp only [htu, Res.ok.injEq, Prod.mk.injEq] at h
    obtain ⟨rfl, _⟩ := h; exact fun _ _ => rfl
  | some t =>
    simp only [htu] at h
    cases hw : t.winner with
    | none => simp [hw] at h
    | some w =>
      simp only [hw] at h
      by_cases hc : (!w.isDeleted && !w.isResolved) = true
      · simp only [hc, if_true, Res.ok.injEq, Prod.mk.injEq] at h
        obtain ⟨rfl, _⟩ := h
        exact fun u' hne => C04b.treeOf_withTree_other _ _ _ _ hne
      · simp only [hc, Bool.false_eq_true, if_false, Res.ok.injEq, Prod.mk.injEq] at h
        obtain ⟨rfl, _⟩ := h; exact fun _ _ => rfl

theorem updateObject_other {H : Bytes → Str} {src : Src} {st st' : DState} {u : Str} {o : JObj} {rv : Option Str}
    (h : updateObject H src st u o = .ok (st', rv)) : ∀ u', u' ≠ u → st'.treeOf u' = st.treeOf u' := by
  unfold updateObject at h
  cases htu : st.treeOf u with
  | none =>
    rw [htu] at h
    unfold createObject at h
    cases hd : digestObject H o with
    | error e => simp [hd] at h
    | ok d =>
      simp only [hd] at h
      generalize (((st.writeObject (Rev.mk1 d) o).treeOf u).getD RevTree.empty).add (Rev.mk1 d) none true = T at h
      obtain ⟨t', added⟩ := T
      simp only [Res.ok.injEq, Prod.mk.injEq] at h
      obtain ⟨rfl, _⟩ := h
      intro u' hne
      rw [C04b.treeOf_withTree_other _ _ _ _ hne, C04b.treeOf_writeObject]
  | some t =>
    rw [htu] at h
    simp only at h
    cases hw : t.winner with
    | none => simp [hw] at h
    | some w =>
      simp only [hw] at h
      generalize (if isArrayDescriptor u = true then deltaDescriptor src st t o else Res.ok (some o, st.acache)) = x at h
      cases x with
      | panic m => cases h
      | err e => cases h
      | ok y =>
        obtain ⟨ob, c⟩ := y
        cases ob with
        | none =>
          simp only [Res.ok.injEq, Prod.mk.injEq] at h
          obtain ⟨rfl, _⟩ := h
          exact fun _ _ => rfl
        | some obj =>
          simp only at h
          cases hd : digestObject H obj with
          | error e => simp [hd] at h
          | ok d =>
            simp only [hd] at h
            by_cases hc : (isArrayDescriptor u || decide (d ≠ w.digest)) = true
            · simp only [hc, if_true, Res.ok.injEq, Prod.mk.injEq] at h
              obtain ⟨rfl, _⟩ := h
              intro u' hne
              rw [C04b.treeOf_writeObject, C04b.treeOf_withTree_other _ _ _ _ hne]
              rfl
            · simp only [hc, Bool.false_eq_true, if_false, Res.ok.injEq, Prod.mk.injEq] at h
              obtain ⟨rfl, _⟩ := h
              exact fun _ _ => rfl

/-- every leaf of the tree of `u` (if any) denotes an array -/
def LeafsTO (src : Src) (st : DState) (u : Str) : Prop :=
  ∀ t, st.treeOf u = some t → ∀ l ∈ t.leafs, ∃ o, TO src st t l o

/-- what `update` needs to know about the array descriptor `u` it is about to submit with order `ord` -/
def ArrReady (S : JObj → Prop) (src : Src) (st : DState) (u : Str) (ord : List JVal) : Prop :=
  C04c.DeltaIn S src st u ord ∧ LeafsTO src st u

theorem arrReady_mono {H : Bytes → Str} {S : JObj → Prop} {src : Src} {s s2 : DState} {u : Str} {ord : List JVal}
    (hu : isArrayDescriptor u = true) (hinv : InvRS H src S s) (hsame : s2.treeOf u = s.treeOf u)
    (hr : ∀ r x, readObject src s r = .ok x → readObject src s2 r = .ok x)
    (h : ArrReady S src s u ord) : ArrReady S src s2 u ord := by
  refine ⟨?_, ?_⟩
  · intro t w o0 patch ht hw hd hto hmp
    rw [hsame] at ht
    have htr := hinv.trees u t ht
    obtain ⟨o1, ho1⟩ := hinv.arrays u t w ⟨hu, ht⟩ hw hd w (htr.winner_mem hw)
    have ho1' : TO src s2 t w o1 :=
      C04c.trueOrder_mono (l := []) htr.ok.closed hr (by simp) (htr.leaf_contains (htr.winner_mem hw)) ho1
    have : o0 = o1 := C16b.trueOrder_functional hto ho1'
    subst this
    exact h.1 t w o0 patch ht hw hd ho1 hmp
  · intro t ht l hl
    rw [hsame] at ht
    have htr := hinv.trees u t ht
    obtain ⟨o, ho⟩ := h.2 t ht l hl
    exact ⟨o, C04c.trueOrder_mono (l := []) htr.ok.closed hr (by simp) (htr.leaf_contains hl) ho⟩

/-- the deletion loop of `update` keeps the invariant -/
theorem goneFoldR {H : Bytes → Str} (hH : HexOut H) {src : Src} {S : JObj → Prop} :
    ∀ (l : List Str) (s s' : DState), InvRS H src S s → AgreeParents s' →
      l.foldl (C04b.goneStep H) (.ok s) = .ok s' →
      InvRS H src S s' ∧ (∀ u, u ∉ l → s'.treeOf u = s.treeOf u)
  | [], s, s', hinv, _, h => by
    simp only [List.foldl_nil, Res.ok.injEq] at h; subst h
    exact ⟨hinv, fun _ _ => rfl⟩
  | u :: rest, s, s', hinv, hag, h => by
    rw [List.foldl_cons] at h
    cases h2 : C04b.goneStep H (.ok s) u with
    | ok s2 =>
      rw [h2] at h
      obtain ⟨rv, hdel⟩ := C04b.goneStep_ok h2
      have hag2 : AgreeParents s2 := C04c.agree_of_grow (C04c.goneFold_grow src rest s2 s' h) hag
      have hinv2 := deleteObject_keeps_invR hH hinv (fun _ => hag2) hdel
      obtain ⟨i1, i2⟩ := goneFoldR hH rest s2 s' hinv2 hag h
      refine ⟨i1, ?_⟩
      intro u' hu'
      simp only [List.mem_cons, not_or] at hu'
      rw [i2 u' hu'.2, deleteObject_other hdel u' hu'.1]
    | err e => rw [h2] at h; exact absurd h (C04b.goneFold_not_ok H rest _ (by simp) s')
    | panic m => rw [h2] at h; exact absurd h (C04b.goneFold_not_ok H rest _ (by simp) s')

/-- what is assumed of a pool entry: its object is in the universe `S`; a tracked object has a usable
    digest; a descriptor is a full descriptor -/
def EntryR (H : Bytes → Str) (S : JObj → Prop) (p : Str × JVal) : Prop :=
  ∀ o, p.2 = .obj o → S o ∧
    ((isArrayDescriptor p.1 = false ∧ UsableDigest H o) ∨
     (isArrayDescriptor p.1 = true ∧ ∃ ord, o = [(ORDER_FIELD, .arr ord)]))

/-- the create / update loop of `update` keeps the invariant -/
theorem poolFoldR {H : Bytes → Str} (hH : HexOut H) {src : Src} {S : JObj → Prop} (hcf : C04b.CollisionFree H S) :
    ∀ (l : List (Str × JVal)) (s s' : DState), (C04.keys l).Nodup → (∀ p ∈ l, EntryR H S p) →
      (∀ p ∈ l, ∀ ord, isArrayDescriptor p.1 = true → p.2 = .obj [(ORDER_FIELD, .arr ord)] →
        ArrReady S src s p.1 ord) →
      InvRS H src S s → AgreeParents s' →
      l.foldl (C04b.poolStep H src) (.ok s) = .ok s' → InvRS H src S s'
  | [], s, s', _, _, _, hinv, _, h => by
    simp only [List.foldl_nil, Res.ok.injEq] at h; subst h; exact hinv
  | p :: rest, s, s', hn, he, hrd, hinv, hag, h => by
    rw [List.foldl_cons] at h
    cases h2 : C04b.poolStep H src (.ok s) p with
    | ok s2 =>
      rw [h2] at h
      obtain ⟨o, rv, hpo, hupd⟩ := C04b.poolStep_ok h2
      simp only [C04.keys, List.map_cons, List.nodup_cons] at hn
      have hgrow := C04c.updateObject_grow hupd
      have hag2 : AgreeParents s2 := C04c.agree_of_grow (C04c.poolFold_grow src rest s2 s' h) hag
      obtain ⟨hSo, hcase⟩ := he p List.mem_cons_self o hpo
      have hinv2 : InvRS H src S s2 := by
        rcases hcase with ⟨hpa, huse⟩ | ⟨hpa, ord, rfl⟩
        · exact updateObject_keeps_invR hH hpa hinv hSo huse hupd
        · obtain ⟨r1, r2⟩ := hrd p List.mem_cons_self ord hpa hpo
          exact updateObject_array_keeps_invR hH hpa hinv hcf hSo r1 r2 hag2 hupd
      have hrd2 : ∀ q ∈ rest, ∀ ord, isArrayDescriptor q.1 = true → q.2 = .obj [(ORDER_FIELD, .arr ord)] →
          ArrReady S src s2 q.1 ord := by
        intro q hq ord hqa hqo
        have hne : q.1 ≠ p.1 := by
          intro e
          exact hn.1 (by rw [← e]; exact List.mem_map_of_mem (f := (·.1)) hq)
        exact arrReady_mono hqa hinv (updateObject_other hupd q.1 hne) hgrow.reads
          (hrd q (List.mem_cons_of_mem _ hq) ord hqa hqo)
      exact poolFoldR hH hcf rest s2 s' hn.2 (fun q hq => he q (List.mem_cons_of_mem _ hq)) hrd2 hinv2 hag h
    | err e => rw [h2] at h; exact absurd h (C04b.poolFold_not_ok H src rest _ (by simp) s')
    | panic m => rw [h2] at h; exact absurd h (C04b.poolFold_not_ok H src rest _ (by simp) s')

/-- **`update` keeps the invariant — general case**: from ANY state satisfying the invariant (plain
    objects and flattened arrays may be in conflict), for any document. The hypotheses are about the
    pool `flatten` produces for the document (for a well-formed document it is `C04b.poolOf doc`, its keys
    are distinct, descriptors are full descriptors: `C04.flatten_root`, `C04c.pool_desc`):
    objects in the collision-free universe `S`; tracked objects with a usable digest (e.g. no `#`
    field); for each array submitted, the delta descriptor that may be generated is in `S` and every leaf
    of its current tree denotes an array (`ArrReady`; the second part follows from the invariant when
    the winner of that tree is live). `AgreeParents st'` as in `C04c.update_read`. -/
theorem update_keeps_invR {H : Bytes → Str} (hH : HexOut H) {src : Src} {S : JObj → Prop}
    (hcf : C04b.CollisionFree H S) {st st' : DState} {doc : JObj} {root : Str} (hinv : InvRS H src S st)
    (hpool : ∀ pool r, flatten H [] (.obj doc) [] = .ok (pool, r) →
      (C04.keys pool).Nodup ∧ (∀ p ∈ pool, EntryR H S p) ∧
      ∀ p ∈ pool, ∀ ord, isArrayDescriptor p.1 = true → p.2 = .obj [(ORDER_FIELD, .arr ord)] →
        ArrReady S src st p.1 ord)
    (hag : AgreeParents st') (h : update H src st doc = .ok (st', root)) : InvRS H src S st' := by
  rw [C04b.update_eq] at h
  cases hfl : flatten H [] (.obj doc) [] with
  | error e => rw [hfl] at h; cases h
  | ok x =>
    obtain ⟨pool, r⟩ := x
    obtain ⟨hnd, hent, hready⟩ := hpool pool r hfl
    rw [hfl] at h
    simp only at h
    cases r with
    | str rootId =>
      simp only at h
      cases r1 : ((st.p.docs.map (·.1)).filter (fun u => !(objHas u pool))).foldl (C04b.goneStep H) (.ok st) with
      | err e =>
        rw [r1] at h
        cases r2 : pool.foldl (C04b.poolStep H src) (.err e) with
        | ok s => exact absurd r2 (C04b.poolFold_not_ok H src _ _ (by simp) s)
        | err e' => rw [r2] at h; cases h
        | panic m => rw [r2] at h; cases h
      | panic m =>
        rw [r1] at h
        cases r2 : pool.foldl (C04b.poolStep H src) (.panic m) with
        | ok s => exact absurd r2 (C04b.poolFold_not_ok H src _ _ (by simp) s)
        | err e' => rw [r2] at h; cases h
        | panic m => rw [r2] at h; cases h
      | ok s1 =>
        rw [r1] at h
        cases r2 : pool.foldl (C04b.poolStep H src) (.ok s1) with
        | err e => rw [r2] at h; cases h
        | panic m => rw [r2] at h; cases h
        | ok s2 =>
          rw [r2] at h
          simp only [Res.ok.injEq, Prod.mk.injEq] at h
          obtain ⟨rfl, _⟩ := h
          have hgrow2 := C04c.poolFold_grow src pool s1 s2 r2
          have hgrow1 := C04c.goneFold_grow src _ st s1 r1
          obtain ⟨hinv1, hsame⟩ := goneFoldR hH _ st s1 hinv (C04c.agree_of_grow hgrow2 hag) r1
          have hready1 : ∀ p ∈ pool, ∀ ord, isArrayDescriptor p.1 = true →
              p.2 = .obj [(ORDER_FIELD, .arr ord)] → ArrReady S src s1 p.1 ord := by
            intro p hp ord hpa hpo
            have hnot : p.1 ∉ (st.p.docs.map (·.1)).filter (fun u => !(objHas u pool)) := by
              intro hm
              have h1 := (List.mem_filter.mp hm).2
              have h2 : (objGet p.1 pool).isSome = true := by
                have : ∀ (c : JObj), (p.1, p.2) ∈ c → (objGet p.1 c).isSome = true := by
                  intro c
                  induction c with
                  | nil => intro h; cases h
                  | cons q t ih =>
                    intro h
                    obtain ⟨k, v⟩ := q
                    simp only [objGet]
                    split
                    · rfl
                    · next hne =>
                      rcases List.mem_cons.mp h with h | h
                      · exact absurd (Prod.mk.inj h).1 hne
                      · exact ih h
                exact this pool hp
              simp [objHas, h2] at h1
            exact arrReady_mono hpa hinv (hsame p.1 hnot) hgrow1.reads (hready p hp ord hpa hpo)
          exact poolFoldR hH hcf pool s1 s2 hnd hent hready1 hinv1 hag r2
    | null => cases h
    | bool b => cases h
    | num n => cases h
    | arr a => cases h
    | obj a => cases h

/-! ### `stage_full_snapshot`: one step -/

/-
  FULL STATEMENT (not proved):

    theorem snapshot_keeps_invR (hH : HexOut H) (hcf : CollisionFree H S) (hinv : InvRS H src S st)
        (every full descriptor `snapshot` generates is in `S`) (hag : AgreeParents st')
        (h : snapshot H src st = .ok st') : InvRS H src S st'

  What is proved (`snapshot_keeps_invR_partial`): the step `snapshot` performs on ONE descriptor tree
  (the merged order read at the live winner `w` is stored as a full descriptor in a new child of `w`)
  keeps the invariant, whatever the number of leaves. MISSING: the fold over all the descriptor trees of
  the state, i.e. the transport of "the descriptor generated for a later tree is in `S`" across the
  earlier steps (it needs the independence of the merged order from the cache and from the growth of the
  other trees: `C16b.mergedOrderAt_cache_independent` + `C04c.trueOrder_mono`), and the `firstDiff`
  scan (which only reads).
-/
theorem snapshot_keeps_invR_partial {H : Bytes → Str} (hH : HexOut H) {src : Src} {S : JObj → Prop}
    {st : DState} {u : Str} {t : RevTree} {w : Rev} {obj : JObj} {c : Cache} {d : Str}
    (hu : isArrayDescriptor u = true) (hinv : InvRS H src S st) (hcf : C04b.CollisionFree H S)
    (htu : st.treeOf u = some t) (hw : t.winner = some w) (hlive : w.isDeleted = false)
    (hr : readAt src st u t w = .ok (obj, c)) (hSo : S obj) (hd : digestObject H obj = .ok d)
    (hag : AgreeParents ((({ st with acache := c } : DState).withTree u
      (t.add (Rev.upd H d w) (some w) true).1).writeObject (Rev.upd H d w) obj)) :
    InvRS H src S ((({ st with acache := c } : DState).withTree u
      (t.add (Rev.upd H d w) (some w) true).1).writeObject (Rev.upd H d w) obj) := by
  obtain ⟨order, c', h1, hcc⟩ := readAt_array_total hinv hinv.cache ⟨hu, htu⟩ hw hlive
  have h1' : readAt src st u t w = .ok ([(ORDER_FIELD, .arr order)], c') := h1
  rw [h1'] at hr
  simp only [Res.ok.injEq, Prod.mk.injEq] at hr
  obtain ⟨rfl, rfl⟩ := hr
  have htr := hinv.trees u t htu
  obtain ⟨_, _, _, _, a5, _⟩ := C04b.array_add_step hH (src := src) (u := u)
    (C04b.storeOK_acache hinv.store c') hcf hSo (C04b.noHash_order order) htr.ok hw hd
  exact array_stepR hH hu hinv hcf htu hw hcc (hinv.arrays u t w ⟨hu, htu⟩ hw hlive) hSo
    (C04b.noHash_order order) hd hag (.full (C04b.readDesc_of_read a5 (C04b.descOfObject_order _)))

/-! ## 4. no panic: what is proved -/

theorem resolveAs_parse_congr (H : Bytes → Str) (src : Src) (st : DState) (u : Str) {a b : Str}
    (h : Rev.parse a = Rev.parse b) : resolveAs H src st u a = resolveAs H src st u b := by
  unfold resolveAs; rw [h]

/-- `resolve_as` on a plain identifier, with a revision text that parses: no panic, given — for the case
    that passes the three error exits — the hypotheses of `C07.resolveAs_plain_spec` /
    `C07.resolveAs_deleted_spec` (no clash of the 7-character tails; the body of the chosen leaf is
    readable and content-addressed). An unparsable text DOES panic: `C07.resolveAs_unparsable`. -/
theorem resolveAs_plain_no_panic {H : Bytes → Str} (hH : HexOut H) {src : Src} {S : JObj → Prop} {st : DState} {u : Str}
    (winner : Str) {chosen : Rev} (hu : isArrayDescriptor u = false) (hinv : InvRS H src S st)
    (hp : Rev.parse winner = some chosen)
    (hyp : ∀ t, st.treeOf u = some t → chosen ∈ t.leafs → 2 ≤ t.leafs.length →
      C07.NoTailClash H t chosen.digest ∧
      (chosen.isDeleted = false → ∃ o, readObject src st chosen = .ok o ∧ digestObject H o = .ok chosen.digest))
    (m : String) : resolveAs H src st u winner ≠ .panic m := by
  cases ht : st.treeOf u with
  | none => rw [C07.resolveAs_unknown H src st u winner hp ht]; exact fun h => nomatch h
  | some t =>
    by_cases hl : chosen ∈ t.leafs
    · by_cases hn : t.leafs.length ≤ 1
      · rw [C07.resolveAs_not_in_conflict H src st u winner hp ht hl hn]; exact fun h => nomatch h
      · have hconf : 2 ≤ t.leafs.length := by omega
        obtain ⟨nc, hb⟩ := hyp t ht hl hconf
        have g := (hinv.trees u t ht).good
        have hrc : Canonical chosen := C07.GoodTree.leaf_canon g hl
        rw [resolveAs_parse_congr H src st u (hp.trans (C19.parse_render chosen hrc).symm)]
        cases hd : chosen.isDeleted with
        | true =>
          obtain ⟨st', t', w1, h, _⟩ := C07.resolveAs_deleted_spec hH src st u hu ht g hl hconf hd nc
          rw [h]; exact fun h => nomatch h
        | false =>
          obtain ⟨o, ho, hca⟩ := hb hd
          obtain ⟨st', t', w1, h, _⟩ := C07.resolveAs_plain_spec hH src st u hu ht g hl hconf hd ho hca nc
          rw [h]; exact fun h => nomatch h
    · rw [C07.resolveAs_not_leaf H src st u winner hp ht hl]; exact fun h => nomatch h

/-- the external diff routine answers (the model's `makeDiffPatch = none` stands for a panic inside the
    `diff` crate, surfaced as `"This can't be"`) -/
def DiffTotal : Prop := ∀ a b : List JVal, (makeDiffPatch a b).isSome = true

theorem readDesc_deleted (src : Src) (st : DState) {r : Rev} (h : r.isDeleted = true) :
    readDesc src st r = .ok (.inl []) := by
  unfold readDesc
  rw [C07.readObject_deleted src st h]
  rfl

theorem digest_order (H : Bytes → Str) (l : List JVal) :
    ∃ d, digestObject H [(ORDER_FIELD, JVal.arr l)] = .ok d := ⟨_, rfl⟩

theorem digest_delta (H : Bytes → Str) (l : List JVal) :
    ∃ d, digestObject H [(DELTA_ORDER_FIELD, JVal.arr l)] = .ok d := ⟨_, rfl⟩

/-- `update_object` on an ARRAY-descriptor identifier with a full descriptor `{"A": newOrder}` (what
    `update` submits), from any state satisfying `InvR` — the descriptor tree may be in conflict —
    never panics, provided the external diff routine answers on the one call made (the order the
    winner denotes against the submitted order; `hdt`): none of `expecting_winning_order`,
    `cannot_read_base_array_descriptor`, `digest_object`. -/
theorem updateObject_array_no_panic' {H : Bytes → Str} {src : Src} {S : JObj → Prop} {st : DState} {u : Str}
    {newOrder : List JVal} (hinv : InvRS H src S st) (hu : isArrayDescriptor u = true)
    (hdt : ∀ t w o0, st.treeOf u = some t → t.winner = some w → TO src st t w o0 →
      (makeDiffPatch o0 newOrder).isSome = true)
    (m : String) : updateObject H src st u [(ORDER_FIELD, .arr newOrder)] ≠ .panic m := by
  obtain ⟨d0, hd0⟩ := digest_order H newOrder
  unfold updateObject
  cases htu : st.treeOf u with
  | none =>
    simp only [createObject, hd0]
    generalize (((st.writeObject (Rev.mk1 d0) [(ORDER_FIELD, JVal.arr newOrder)]).treeOf u).getD
      RevTree.empty).add (Rev.mk1 d0) none true = T
    obtain ⟨t', added⟩ := T
    exact fun h => nomatch h
  | some t =>
    have htr := hinv.trees u t htu
    simp only
    cases hw : t.winner with
    | none => exact fun h => nomatch h
    | some w =>
      have hwc := htr.leaf_contains (htr.winner_mem hw)
      have hto : ∃ o, TO src st t w o := by
        cases hd : w.isDeleted with
        | true => exact ⟨[], .full (readDesc_deleted src st hd)⟩
        | false => exact hinv.arrays u t w ⟨hu, htu⟩ hw hd w (htr.winner_mem hw)
      obtain ⟨winOrder, hto⟩ := hto
      obtain ⟨c, hro⟩ := C04c.rebuild_complete_g htr.ok.idx htr.ok.closed
        (C04c.cacheOK_guard hinv.agree hinv.closedAll hinv.cache ⟨hu, htu⟩) hwc hto
      simp only [hu, if_true, deltaDescriptor, C04b.descOfObject_order, hw, hro]
      cases hmp : makeDiffPatch winOrder newOrder with
      | none => have := hdt t w winOrder htu hw hto; rw [hmp] at this; cases this
      | some patch =>
        obtain ⟨d1, hd1⟩ := digest_delta H patch
        simp only
        by_cases hdel : w.isDeleted = true
        · simp only [hdel, if_true, hd0, Bool.true_or]
          exact fun h => nomatch h
        · simp only [hdel, Bool.false_eq_true, if_false]
          by_cases hpe : patch.isEmpty = true
          · simp only [hpe, if_true]; exact fun h => nomatch h
          · simp only [hpe, Bool.false_eq_true, if_false, hd1, Bool.true_or, if_true]
            exact fun h => nomatch h

/-- the same under the global assumption that the diff routine always answers -/
theorem updateObject_array_no_panic {H : Bytes → Str} {src : Src} {S : JObj → Prop} {st : DState} {u : Str}
    {newOrder : List JVal} (hinv : InvRS H src S st) (hu : isArrayDescriptor u = true) (hdt : DiffTotal)
    (m : String) : updateObject H src st u [(ORDER_FIELD, .arr newOrder)] ≠ .panic m :=
  updateObject_array_no_panic' hinv hu (fun _ _ o0 _ _ _ => hdt o0 newOrder) m

/-- **`ops_no_panic_partial`** — what is proved of "every public operation returns": in a state
    satisfying `InvR` (conflicts allowed everywhere, flattened arrays included)
    1. `read` returns `.ok` or `.err` (exactly when: `read_no_panic`);
    2. `delete_object` returns `.ok` or `.err` (for every identifier; needs no invariant);
    3. `update_object` on a plain identifier returns `.ok` or `.err` whenever `digest_object` accepts the
       object (needs no invariant) — a failing `digest_object` (an `_id` field, a `#` field of a wrong
       type) IS the panic `digest_object` / `cannot_create_revision` of the code;
    4. `update_object` on an array-descriptor identifier with a full descriptor `{"A": …}` returns `.ok`
       or `.err`, provided the external diff routine answers (`DiffTotal`);
    5. `resolve_as` on a plain identifier with a revision text that parses returns `.ok` or `.err`, given
       the C07 hypotheses for the case that gets past the error exits.
    NOT covered: `update_object` on a descriptor identifier with an object that is not a full descriptor
    (panics `malformed_descriptor` / `get_order_of_delta_descriptor` by construction); `resolve_as` with an
    unparsable revision text (panics `invalid_revision_string`: `C07.resolveAs_unparsable`), on an array
    descriptor, or with a chosen leaf whose body is unreadable / a tail clash; `makeDiffPatch = none`
    (the external myers panic, excluded by `DiffTotal` - discharged for the port by `C16c.makeDiffPatch_total`);
    `update` (document level), `stage_full_snapshot`, `commit`: covered since by `C08c.update_total`,
    `C12c.snapshot_no_panic`, `C12c.autoResolve_total`; `create_object`, `remove_object`, `replay_stage`:
    `C08c`. -/
theorem ops_no_panic_partial {H : Bytes → Str} (hH : HexOut H) {src : Src} {S : JObj → Prop} {st : DState} (hinv : InvRS H src S st) :
    (∀ m, DState.read src st ≠ .panic m) ∧
    (∀ u m, deleteObject H st u ≠ .panic m) ∧
    (∀ u o d, isArrayDescriptor u = false → digestObject H o = .ok d → ∀ m, updateObject H src st u o ≠ .panic m) ∧
    (∀ u newOrder, isArrayDescriptor u = true → DiffTotal →
      ∀ m, updateObject H src st u [(ORDER_FIELD, .arr newOrder)] ≠ .panic m) ∧
    (∀ u winner chosen, isArrayDescriptor u = false → Rev.parse winner = some chosen →
      (∀ t, st.treeOf u = some t → chosen ∈ t.leafs → 2 ≤ t.leafs.length →
        C07.NoTailClash H t chosen.digest ∧
        (chosen.isDeleted = false →
          ∃ o, readObject src st chosen = .ok o ∧ digestObject H o = .ok chosen.digest)) →
      ∀ m, resolveAs H src st u winner ≠ .panic m) :=
  ⟨(read_no_panic hinv).2.1, fun u m => deleteObject_no_panic H st u m,
   fun _ _ _ hu hd m => updateObject_plain_no_panic hu hd m,
   fun _ _ hu hdt m => updateObject_array_no_panic hinv hu hdt m,
   fun _ winner _ hu hp hyp m => resolveAs_plain_no_panic hH winner hu hinv hp hyp m⟩

/-! ## non-vacuity: a state with a flattened array IN CONFLICT satisfying `InvR` -/

section Examples
open C12 (exH exH_hex)
open C04b (src0)

def dg (o : JObj) : Str := match digestObject exH o with | .ok d => d | .error _ => []
def kA : Str := C04c.kA
def sx : JVal := .str "x".toList
def sy : JVal := .str "y".toList
def sz : JVal := .str "zzzz".toList
/-- first version of the array: `[x, y]` -/
def oF1 : JObj := [(ORDER_FIELD, .arr [sx, sy])]
/-- a concurrent version stored as a full descriptor: `[x, y, zzzz]` -/
def oF2 : JObj := [(ORDER_FIELD, .arr [sx, sy, sz])]
/-- a concurrent version stored as a delta: `y` removed -/
def oD : JObj := [(DELTA_ORDER_FIELD, .arr C04c.pDelta)]
def oRoot : JObj := C04c.oRootA
def a1 : Rev := Rev.mk1 (dg oF1)
def a2 : Rev := Rev.upd exH (dg oD) a1
def a3 : Rev := Rev.upd exH (dg oF2) a1
def r1 : Rev := Rev.mk1 (dg oRoot)
/-- the descriptor tree: a root with two concurrent children (a conflict) -/
def tA : RevTree := (((RevTree.empty.add a1 none false).1.add a2 (some a1) false).1.add a3 (some a1) false).1
def tR : RevTree := (RevTree.empty.add r1 none false).1
def exP : PState := { docs := [(kA, tA), (ROOT_ID, tR)] }
def exR : DState :=
  { p := exP, stage := [(dg oF1, oF1), (dg oD, oD), (dg oF2, oF2), (dg oRoot, oRoot)] }

example : tA.leafs = [a2, a3] ∧ tA.winner = some a3 ∧ isArrayDescriptor kA = true := by decide

theorem tA_treeR : TreeR tA := by
  refine treeR_of_good (C12.goodTree_of_dec (by decide) (by decide) (by decide) (by decide) (by decide)) ?_
  intro w hw
  have : tA.winner = some a3 := by decide
  rw [this] at hw; cases hw
  decide

theorem tR_treeR : TreeR tR := by
  refine treeR_of_good (C12.goodTree_of_dec (by decide) (by decide) (by decide) (by decide) (by decide)) ?_
  intro w hw
  have : tR.winner = some r1 := by decide
  rw [this] at hw; cases hw
  decide

theorem exR_trees {u : Str} {t : RevTree} (h : exR.treeOf u = some t) : (u = kA ∧ t = tA) ∨ (u = ROOT_ID ∧ t = tR) := by
  have := C04b.mem_of_treeOf h
  simp only [exR, exP, List.mem_cons, Prod.mk.injEq, List.not_mem_nil, or_false] at this
  exact this

theorem to_a1 : TO src0 exR tA a1 [sx, sy] := .full (by rfl)
theorem to_a2 : TO src0 exR tA a2 [sx] := .delta (par := a1) (by rfl) (by rfl) to_a1 (by rfl)
theorem to_a3 : TO src0 exR tA a3 [sx, sy, sz] := .full (by rfl)

/-- **`InvR` is satisfiable by a state with a flattened array in conflict** (two concurrent versions of
    the descriptor, one stored as a delta) -/
theorem invRS_exR (S : JObj → Prop) (hS : ∀ p ∈ exR.stage, S p.2) : InvRS exH src0 S exR := by
  have hsorted : DocsSorted exR.p.docs := by
    show List.Pairwise _ [(kA, tA), (ROOT_ID, tR)]
    simp only [List.pairwise_cons, List.mem_cons, List.not_mem_nil, or_false, forall_eq, List.Pairwise.nil,
      and_true, false_imp_iff, implies_true]
    decide
  have hstage : ∀ p ∈ exR.stage, digestObject exH p.2 = .ok p.1 ∧ S p.2 := by
    intro p hp
    refine ⟨?_, hS p hp⟩
    simp only [exR, List.mem_cons, List.not_mem_nil, or_false] at hp
    rcases hp with rfl | rfl | rfl | rfl <;> rfl
  refine ⟨hsorted, ⟨fun d o h => (by cases h), hstage, fun d h => (by cases h)⟩, ?_, ?_, ?_, ?_, ?_⟩
  · intro u t h
    rcases exR_trees h with ⟨_, rfl⟩ | ⟨_, rfl⟩
    · exact tA_treeR
    · exact tR_treeR
  · intro u t w h ha hw _
    rcases exR_trees h with ⟨rfl, rfl⟩ | ⟨rfl, rfl⟩
    · cases ha
    · have : tR.winner = some r1 := by decide
      rw [this] at hw; cases hw
      exact ⟨oRoot, by rfl⟩
  · intro u t w h hw _ l hl
    rcases exR_trees h.2 with ⟨rfl, rfl⟩ | ⟨rfl, rfl⟩
    · have : tA.leafs = [a2, a3] := by decide
      rw [this] at hl
      simp only [List.mem_cons, List.not_mem_nil, or_false] at hl
      rcases hl with rfl | rfl
      · exact ⟨_, to_a2⟩
      · exact ⟨_, to_a3⟩
    · exact absurd h.1 (by decide)
  · intro kv hkv; cases hkv
  · exact C04c.agree_single exR kA (by decide)

theorem invR_exR : InvR exH src0 exR := invRS_exR _ (fun _ _ => trivial)

/-- `read` on that state succeeds (and, by `read_no_panic`, could not have panicked) -/
example : ∃ v c, DState.read src0 exR = .ok (v, c) :=
  (read_no_panic invR_exR).2.2.2.2.mpr ⟨tR, r1, by rfl, by decide, by decide⟩

/-- the invariant survives an update of the root -/

example : ∀ st' rv, updateObject exH src0 exR ROOT_ID [("k".toList, .num "1".toList)] = .ok (st', rv) →
    InvR exH src0 st' :=
  fun _ _ h => updateObject_keeps_invR exH_hex (by decide) invR_exR trivial (usable_of_noHash exH_hex (by rfl)) h

/-- the hypotheses of `resolveAs_keeps_invR` / `resolveAs_plain_no_panic` are those of
    `C07.resolveAs_plain_spec`, shown satisfiable there (`C07.exSt`); that state satisfies `InvR` too -/
theorem invR_exSt : InvR exH C07.exSrc C07.exSt := by
  have htree : ∀ {u t}, C07.exSt.treeOf u = some t → u = C07.exU ∧ t = C12.exT := by
    intro u t h
    have := C04b.mem_of_treeOf h
    simpa [C07.exSt] using this
  have hT : TreeR C12.exT := by
    refine treeR_of_good C12.exT_good ?_
    intro w hw
    have : C12.exT.winner = some C12.x2b := by decide
    rw [this] at hw; cases hw
    decide
  refine ⟨by simp [DocsSorted, C07.exSt], ⟨fun d o h => (by cases h), fun p hp => (by cases hp),
    fun d h => (by cases h)⟩, ?_, ?_, ?_, fun kv hkv => (by cases hkv), ?_⟩
  · intro u t h; obtain ⟨_, rfl⟩ := htree h; exact hT
  · intro u t w h _ hw _
    obtain ⟨_, rfl⟩ := htree h
    have : C12.exT.winner = some C12.x2b := by decide
    rw [this] at hw; cases hw
    exact ⟨_, (by rfl : readObject C07.exSrc C07.exSt C12.x2b = .ok [(HASH_FIELD, .str "ccc".toList)])⟩
  · intro u t w h
    obtain ⟨rfl, _⟩ := htree h.2
    exact absurd h.1 (by decide)
  · intro u1 t1 u2 t2 r a
    obtain ⟨rfl, _⟩ := htree a.2
    exact absurd a.1 (by decide)

/-! ### `update` from that state: all hypotheses of `update_keeps_invR` hold together -/

def vz4 : JVal := .obj [(ID_FIELD, .str "zzzz".toList), ("v".toList, .num "4444".toList)]
/-- the array loses `y` (a delta descriptor is generated on top of the winner `a3` of the conflict) -/
def docN : JObj := [(C04.flatKey "a", .arr [C04c.vx, vz4])]
def oZ4 : JObj := [("v".toList, .num "4444".toList)]
def oDescN : JObj := [(ORDER_FIELD, .arr [sx, sz])]
def objsN : List JObj := [oF1, oD, oF2, oRoot, C04c.oX, oZ4, oDescN]
/-- the universe: the stored bodies, the objects of the document, the delta generated (`oD` again) -/
def SN : JObj → Prop := fun x => x ∈ objsN

theorem cf_SN : C04b.CollisionFree exH SN := by
  intro o₁ o₂ d h1 h2 hd1 hd2
  apply C04c.inj_of_nodup_map dg objsN (by decide) o₁ h1 o₂ h2
  simp [dg, hd1, hd2]

theorem poolOf_docN : C04b.poolOf docN =
    [(kA, .obj oDescN), ("x".toList, .obj C04c.oX), ("zzzz".toList, .obj oZ4), (ROOT_ID, .obj oRoot)] := by rfl

def stR2 : DState := match update exH src0 exR docN with | .ok (s, _) => s | _ => {}
theorem update_docN : update exH src0 exR docN = .ok (stR2, ROOT_ID) := by rfl

theorem arrReady_docN : ArrReady SN src0 exR kA [sx, sz] := by
  refine ⟨?_, ?_⟩
  · intro t w o0 patch ht hw _ hto hmp
    have h1 : exR.treeOf kA = some tA := by rfl
    have h2 : tA.winner = some a3 := by decide
    rw [h1] at ht; cases ht
    rw [h2] at hw; cases hw
    have := C16b.trueOrder_functional hto to_a3
    subst this
    have hp : makeDiffPatch [sx, sy, sz] [sx, sz] = some C04c.pDelta := by decide
    rw [hp] at hmp; cases hmp
    show oD ∈ objsN
    simp [objsN]
  · intro t ht l hl
    have h1 : exR.treeOf kA = some tA := by rfl
    rw [h1] at ht; cases ht
    have : tA.leafs = [a2, a3] := by decide
    rw [this] at hl
    simp only [List.mem_cons, List.not_mem_nil, or_false] at hl
    rcases hl with rfl | rfl
    · exact ⟨_, to_a2⟩
    · exact ⟨_, to_a3⟩

/-- **all hypotheses of `update_keeps_invR` hold together**, from a state in which the flattened array is
    in conflict: the state after the update satisfies the invariant again (and the array is still in
    conflict: two leaves) -/
theorem invRS_stR2 : InvRS exH src0 SN stR2 := by
  have hS : ∀ p ∈ exR.stage, SN p.2 := by
    intro p hp
    simp only [exR, List.mem_cons, List.not_mem_nil, or_false] at hp
    rcases hp with rfl | rfl | rfl | rfl <;> simp [SN, objsN]
  refine update_keeps_invR exH_hex cf_SN (invRS_exR SN hS) ?_ (C04c.agree_single stR2 kA (by decide)) update_docN
  intro pool r hfl
  rw [C04.flatten_root exH docN (by decide)] at hfl
  have : pool = C04b.poolOf docN := by
    have := (Prod.mk.inj (Except.ok.inj hfl)).1
    exact this.symm
  subst this
  rw [poolOf_docN]
  refine ⟨by decide, ?_, ?_⟩
  · intro p hp
    simp only [List.mem_cons, List.not_mem_nil, or_false] at hp
    rcases hp with rfl | rfl | rfl | rfl
    · intro o ho; cases ho
      exact ⟨by simp [SN, objsN], Or.inr ⟨by decide, _, rfl⟩⟩
    · intro o ho; cases ho
      exact ⟨by simp [SN, objsN], Or.inl ⟨by decide, usable_of_noHash exH_hex (by rfl)⟩⟩
    · intro o ho; cases ho
      exact ⟨by simp [SN, objsN], Or.inl ⟨by decide, usable_of_noHash exH_hex (by rfl)⟩⟩
    · intro o ho; cases ho
      exact ⟨by simp [SN, objsN], Or.inl ⟨by decide, usable_of_noHash exH_hex (by rfl)⟩⟩
  · intro p hp ord hpa hpo
    simp only [List.mem_cons, List.not_mem_nil, or_false] at hp
    rcases hp with rfl | rfl | rfl | rfl
    · have : ord = [sx, sz] := by
        simp only [oDescN, JVal.obj.injEq, List.cons.injEq, Prod.mk.injEq, JVal.arr.injEq, true_and, and_true] at hpo
        exact hpo.symm
      subst this
      exact arrReady_docN
    · exact absurd hpa (by decide)
    · exact absurd hpa (by decide)
    · exact absurd hpa (by decide)

example : ((stR2.treeOf kA).map (fun t => t.leafs.length)) = some 2 := by decide

/-- and `read` on the resulting state succeeds -/
example : ∃ v c, DState.read src0 stR2 = .ok (v, c) :=
  (read_no_panic invRS_stR2).1.resolve_right (by
    rintro (h | h)
    · exact absurd ((read_no_panic invRS_stR2).2.2.1.mp h) (by decide)
    · obtain ⟨t, ht, hd⟩ := (read_no_panic invRS_stR2).2.2.2.1.mp h
      revert hd
      have : stR2.treeOf ROOT_ID = some tR := by decide
      rw [this] at ht; cases ht
      decide)

/-- `resolveAs_keeps_invR` applied: resolving the conflict of `C07.exSt` in favour of the losing version -/
example : ∀ st' x, resolveAs exH C07.exSrc C07.exSt C07.exU C12.x2a.render = .ok (st', x) →
    InvR exH C07.exSrc st' :=
  fun _ _ h => resolveAs_keeps_invR exH_hex (by decide) invR_exSt rfl (by decide) (by decide) (by decide)
    (o := [(HASH_FIELD, .str "bb".toList)]) rfl rfl trivial
    (C07.noTailClash_of_dec (w := C12.x2b) (by decide) (by decide) (by decide) (by decide)) h


/-- `deleteObject_keeps_invR` applied to the descriptor IN CONFLICT (its hypothesis on the resulting state
    holds) -/
example : ∀ st' rv, deleteObject exH exR kA = .ok (st', rv) → InvR exH src0 st' := by
  intro st' rv h
  refine deleteObject_keeps_invR exH_hex invR_exR (fun _ => ?_) h
  have : deleteObject exH exR kA = .ok (exR.withTree kA (tA.add (Rev.del exH a3) (some a3) true).1,
      some (Rev.del exH a3).render) := by rfl
  rw [this] at h
  simp only [Res.ok.injEq, Prod.mk.injEq] at h
  obtain ⟨rfl, _⟩ := h
  exact C04c.agree_single _ kA (by decide)

/-- all hypotheses of `snapshot_keeps_invR_partial` hold together on the tree in conflict (the merged
    order read at the winner is `[x, y, zzzz]`, i.e. the body `oF2`) -/
example : ∃ st1, InvRS exH src0 SN st1 ∧ (st1.treeOf kA).map (fun t => t.leafs.length) = some 2 := by
  have hS : ∀ p ∈ exR.stage, SN p.2 := by
    intro p hp
    simp only [exR, List.mem_cons, List.not_mem_nil, or_false] at hp
    rcases hp with rfl | rfl | rfl | rfl <;> simp [SN, objsN]
  have hr : readAt src0 exR kA tA a3 = .ok (oF2, (match readAt src0 exR kA tA a3 with
      | .ok (_, c) => c | _ => exR.acache)) := by rfl
  refine ⟨_, snapshot_keeps_invR_partial exH_hex (by decide) (invRS_exR SN hS) cf_SN (by rfl) (by decide)
    (by decide) hr (by simp [SN, objsN]) (by rfl) (C04c.agree_single _ kA (by decide)), by decide⟩

/-- the state of `C07.resolveAs_deleted_spec`'s example satisfies `InvR`, and `resolveAs_deleted_keeps_invR`
    applies -/
theorem invR_exStd : InvR exH C07.exSrc C07.exStd := by
  have htree : ∀ {u t}, C07.exStd.treeOf u = some t → u = C07.exU ∧ t = C12.exTd := by
    intro u t h
    have := C04b.mem_of_treeOf h
    simpa [C07.exStd] using this
  have hT : TreeR C12.exTd := by
    refine treeR_of_good C12.exTd_good ?_
    intro w hw
    have : C12.exTd.winner = some C12.x2d := by decide
    rw [this] at hw; cases hw
    decide
  refine ⟨by simp [DocsSorted, C07.exStd], ⟨fun d o h => (by cases h), fun p hp => (by cases hp),
    fun d h => (by cases h)⟩, ?_, ?_, ?_, fun kv hkv => (by cases hkv), ?_⟩
  · intro u t h; obtain ⟨_, rfl⟩ := htree h; exact hT
  · intro u t w h _ hw hd
    obtain ⟨_, rfl⟩ := htree h
    have : C12.exTd.winner = some C12.x2d := by decide
    rw [this] at hw; cases hw
    exact absurd hd (by decide)
  · intro u t w h
    obtain ⟨rfl, _⟩ := htree h.2
    exact absurd h.1 (by decide)
  · intro u1 t1 u2 t2 r a
    obtain ⟨rfl, _⟩ := htree a.2
    exact absurd a.1 (by decide)

example : ∀ st' x, resolveAs exH C07.exSrc C07.exStd C07.exU C12.x2d.render = .ok (st', x) →
    InvR exH C07.exSrc st' :=
  fun _ _ h => resolveAs_deleted_keeps_invR exH_hex (by decide) invR_exStd rfl (by decide) (by decide) (by decide)
    (C07.noTailClash_of_dec (w := C12.x2d) (by decide) (by decide) (by decide) (by decide)) h

/-- the hypothesis `hdt` of `updateObject_array_no_panic'` holds on the tree in conflict (`DiffTotal`
    itself — totality of the ported Myers search — is not proved; C16 proves the round trip when it answers) -/
example : ∀ m, updateObject exH src0 exR kA [(ORDER_FIELD, .arr [sx, sz])] ≠ .panic m := by
  intro m
  refine updateObject_array_no_panic' invR_exR (by decide) ?_ m
  intro t w o0 ht hw hto
  have h1 : exR.treeOf kA = some tA := by rfl
  have h2 : tA.winner = some a3 := by decide
  rw [h1] at ht; cases ht
  rw [h2] at hw; cases hw
  have := C16b.trueOrder_functional hto to_a3
  subst this
  decide

end Examples

#print axioms mergedOrderAt_total
#print axioms unflatten_no_panic
#print axioms read_spec
#print axioms read_no_panic
#print axioms invR_step
#print axioms deleteObject_keeps_invR
#print axioms updateObject_keeps_invR
#print axioms resolveAs_keeps_invR
#print axioms resolveAs_deleted_keeps_invR
#print axioms resolveAs_plain_no_panic
#print axioms updateObject_array_no_panic'
#print axioms snapshot_keeps_invR_partial
#print axioms ops_no_panic_partial
#print axioms updateObject_array_keeps_invR
#print axioms update_keeps_invR
#print axioms invRS_stR2
#print axioms invR_exR
#print axioms invR_exSt

end Melda.Props.C08b
