/-
  C03b — end-to-end compositions.

  * C09 for meld: `meld_any_subset_no_mixture`, `applied_block_has_everything`
    (whatever subset of items reached a store, a replica opened on it applies only whole blocks);
  * C14 link: `reloadUntil_spec`, `reloadUntil_then_reload`
    (`reload_until A` applies exactly the ancestor closure of `A`);
  * C03: `commitDone_synced`, `commitDone_docsOK`, `commit_reopen`, `first_commit_reopen`
    (a successful commit is durable: a replica freshly opened on the storage the commit left agrees
    with the committing replica on everything listed in `C01.Agree`).
-/
import Melda.Props.C01
import Melda.Props.C09
import Melda.Props.C14
namespace Melda.Props.C03b
open Melda PState RevTree
open Melda.Props.Proto Melda.Props.C02 Melda.Props.C01
open Melda.Props.C11 (applyWrites blockBytes ChangeOK)
open Melda.Props.C15 (DocsSorted treeOf entriesOf AllFlagOK FlagOK)
open Melda.Props.C05 (KeysNodup CmpOrder)
open Melda.Props.JsonRT (Canon)

/-! ## 4. C09 for meld: no mixture, whatever reached the store -/

/-- **`meld_any_subset_no_mixture`**: for ANY byte store `kv''` — in particular the receiver's store
    plus any subset of the items a meld copies, written in any order, or the store left by a crash at
    any point — a replica that opens it (`reload`) ends in a state synchronised with what the store
    shows: a block is `applied` exactly when it is causally complete there. No hypothesis on the store. -/
theorem meld_any_subset_no_mixture (H : Bytes → Str) (kv'' : KVSpec) {i r : PState}
    (h : reload i (viewOf H kv'') = .ok r) : Synced (viewOf H kv'') r :=
  reload_synced (C10.viewOf_ok H kv'') h

/-- the same, spelled for a partial meld: `ws` is any list of (key, bytes) pairs (any selection of the
    source's items, any order, with repetitions) written on top of the receiver's store `dst` -/
theorem meld_partial_no_mixture (H : Bytes → Str) (dst : KVSpec) (ws : List (Str × Bytes)) {i r : PState}
    (h : reload i (viewOf H (applyWrites dst ws)) = .ok r) : Synced (viewOf H (applyWrites dst ws)) r :=
  meld_any_subset_no_mixture H _ h

/-- … and such a `reload` fails only when a listed pack fails its hash check (nothing is staged) -/
theorem meld_any_subset_reload_ok (H : Bytes → Str) (kv'' : KVSpec)
    (hl : ∀ k ∈ (viewOf H kv'').packNames, ((viewOf H kv'').loadPack k).isSome) :
    ∃ r, reload {} (viewOf H kv'') = .ok r ∧ Synced (viewOf H kv'') r := by
  obtain ⟨r, hr⟩ := reload_ok (st := {}) (viewOf H kv'') rfl hl
  exact ⟨r, hr, meld_any_subset_no_mixture H kv'' hr⟩

/-- **`applied_block_has_everything`**: in a state synchronised with a view, an applied block has
    everything it needs, there and then: the block item is listed and passes the gate; every parent is
    itself applied; every pack it names loads; every revision it records, and every parent revision,
    has a readable object. -/
theorem applied_block_has_everything {v : View} {st : PState} (hs : Synced v st) {id : BlockId}
    (ha : statusOf st.deltas id = some .applied) :
    ∃ b, id ∈ v.blockIds ∧ v.fetch id = some b ∧
      (∀ p ∈ b.parents, statusOf st.deltas p = some .applied) ∧
      (∀ k ∈ b.packs, ∃ l, v.loadPack k = some l) ∧
      (∀ c ∈ b.changes, readable st.objects c.rev = true ∧ ∀ p, c.parent = some p → readable st.objects p = true) := by
  have hc : Complete v st.objects id := (hs.statusOf_eq id).2.1.mp ha
  cases hc with
  | mk _ b hid hf hp hk hch =>
    refine ⟨b, hid, hf, ?_, ?_, ?_⟩
    · intro p hpm; exact applied_ancestors hs ha hf hpm
    · intro k hkm
      have := (List.all_eq_true.mp hk) k hkm
      exact Option.isSome_iff_exists.mp this
    · intro c hcm
      have := (List.all_eq_true.mp hch) c hcm
      simp only [Bool.and_eq_true] at this
      refine ⟨this.1, ?_⟩
      intro p hpar
      have h2 := this.2
      rw [hpar] at h2
      exact h2

/-- the byte-level reading: for a replica opened on any store `kv''`, an applied block's item is in the
    store under its own name and hashes to the digest in that name, every ancestor is applied, every
    pack it names is in the store and hashes to its name, and all its revisions are readable -/
theorem applied_block_has_everything_bytes (H : Bytes → Str) (kv'' : KVSpec) {i r : PState}
    (h : reload i (viewOf H kv'') = .ok r) {id : BlockId} (ha : statusOf r.deltas id = some .applied) :
    ∃ b, fetchBlock H kv'' id = some b ∧ b.id = id ∧
      (∃ bytes, kv''.read id.key = some bytes ∧ H bytes = id.digest) ∧
      (∀ a, C02.Ancestor (viewOf H kv'') a id → statusOf r.deltas a = some .applied) ∧
      (∀ k ∈ b.packs, ∃ bytes, kv''.read (k ++ PACK_EXT) = some bytes ∧ H bytes = k) ∧
      (∀ c ∈ b.changes, readable r.objects c.rev = true ∧ ∀ p, c.parent = some p → readable r.objects p = true) := by
  have hs := meld_any_subset_no_mixture H kv'' h
  obtain ⟨b, _, hf, _, hk, hc⟩ := applied_block_has_everything hs ha
  have hg := C10.fetch_hash_gate (H := H) (kv := kv'') hf
  refine ⟨b, hf, hg.2, hg.1, fun a hanc => applied_ancestors_trans hs hanc ha, ?_, hc⟩
  intro k hkm
  obtain ⟨l, hl⟩ := hk k hkm
  simp only [viewOf, Option.map_eq_some_iff] at hl
  obtain ⟨l0, hl0, _⟩ := hl
  exact C10.pack_hash_gate hl0

/-! ## 3. the C14 link: what `reload_until` applies -/

/-- the delta map `reload_until` hands to its queue loop: everything listed, checked by `mark_valid_deltas` -/
def untilDs (v : View) (objs : List Str) : Ds :=
  markValid v objs (maxIndex (loadFold v []) + 1) (loadFold v [])

theorem reloadUntil_eq {st st' : PState} {v : View} {A : List BlockId} (hA : A ≠ [])
    (h : reloadUntil st v A = .ok st') :
    ∃ objs applied, loadPacks v [] v.packNames [] [] = some (objs, applied) ∧
      A.find? (fun a => (findDelta (untilDs v objs) a).isNone) = none ∧
      A.find? (fun a => match findDelta (untilDs v objs) a with | some (_, .ready) => false | _ => true) = none ∧
      st' = validateAll (untilLoop (sumParents (untilDs v objs) + A.length + 1) A
        { deltas := untilDs v objs, docs := [], objects := objs, appliedPacks := applied }) := by
  unfold reloadUntil at h
  have hne : A.isEmpty = false := by cases A; exact absurd rfl hA; rfl
  simp only [hne, Bool.false_eq_true, if_false] at h
  split at h
  · cases h
  · split at h
    · cases h
    · next objs applied hl =>
      split at h
      · cases h
      · next h1 =>
        split at h
        · cases h
        · next h2 =>
          simp only [Except.ok.injEq] at h
          exact ⟨objs, applied, hl, h1, h2, h.symm⟩

/-- the queue loop touches neither the object index nor the applied packs -/
theorem untilLoop_objects (fuel : Nat) (q : List BlockId) (st : PState) :
    (untilLoop fuel q st).objects = st.objects ∧ (untilLoop fuel q st).appliedPacks = st.appliedPacks := by
  induction fuel generalizing q st with
  | zero => simp [untilLoop]
  | succ fuel ih =>
    cases q with
    | nil => simp [untilLoop]
    | cons id q =>
      simp only [untilLoop]
      split
      · exact ih _ _
      · exact ih _ _

/-- after `mark_valid_deltas` on the freshly loaded map every entry is `ready` or `blocked`, and `ready`
    exactly when causally complete -/
theorem untilDs_good {v : View} (hv : ViewOK v) (objs : List Str) :
    Good v objs (untilDs v objs) ∧ ∀ p ∈ untilDs v objs, p.2 = .ready ∨ p.2 = .blocked := by
  obtain ⟨hds, _, hfresh⟩ := loadFold_spec hv [] (by intro p hp; cases hp) (by simp)
  have hpend : ∀ p ∈ loadFold v [], p.2 = .pending := by
    intro p hp
    rcases hfresh p hp with h | h
    · cases h
    · exact h
  have hg : Good v objs (loadFold v []) := by
    refine ⟨hds, ?_⟩
    intro p hp
    rw [hpend p hp]
    exact ⟨(by intro h; rcases h with h | h <;> cases h), (by intro h; cases h)⟩
  obtain ⟨g, _, _, np⟩ := markValid_spec hv objs (maxIndex (loadFold v []) + 1) _ hg
    (fun p hp => Nat.lt_succ_of_le (le_maxIndex _ p hp))
  refine ⟨g, ?_⟩
  intro p hp
  have h1 := np p hp
  have h2 : p.2 ≠ .applied := by
    intro ha
    have := hpend p (asub_markValid _ _ _ _ p hp ha)
    rw [this] at ha; cases ha
  obtain ⟨b, s⟩ := p
  cases s with
  | pending => exact absurd rfl h1
  | ready => exact Or.inl rfl
  | applied => exact absurd rfl h2
  | blocked => exact Or.inr rfl

/-- **`reloadUntil_spec`** (C14 link). A successful `reload_until A` with non-empty anchors `A`: with
    `objs` the object index of all listed packs and `ds = untilDs v objs` the delta map after
    `mark_valid_deltas` (holding exactly what the view hands out, every entry `ready` — iff causally
    complete — or `blocked`), every anchor is `ready` in `ds`, and in the resulting state
    * the map holds the same blocks as `ds`;
    * an entry is `applied` exactly when its identifier is in `C14.Anc ds A`, the ancestor closure of the
      anchors; every other entry is literally an entry of `ds` (status unchanged);
    * in terms of `statusOf`: `applied` on `Anc ds A`, the status in `ds` elsewhere;
    * the object index and applied packs are those of a full `reload`. -/
theorem reloadUntil_spec {v : View} {st st' : PState} {A : List BlockId} (hv : ViewOK v)
    (h : reloadUntil st v A = .ok st') (hA : A ≠ []) :
    ∃ objs applied, loadPacks v [] v.packNames [] [] = some (objs, applied) ∧
      st'.objects = objs ∧ st'.appliedPacks = applied ∧ ObjsOf v v.packNames objs ∧
      C14.Start v objs (untilDs v objs) A ∧
      C14.Post (untilDs v objs) A st'.deltas ∧
      (∀ id, (C14.Anc (untilDs v objs) A id → statusOf st'.deltas id = some .applied) ∧
             (¬ C14.Anc (untilDs v objs) A id → statusOf st'.deltas id = statusOf (untilDs v objs) id)) := by
  obtain ⟨objs, applied, hl, _, h2, rfl⟩ := reloadUntil_eq hA h
  obtain ⟨hg, hrb⟩ := untilDs_good hv objs
  have hstart : C14.Start v objs (untilDs v objs) A :=
    C14.Start.of_good hg hrb (C14.anchors_ready_of_checks _ A h2)
  obtain ⟨ho, _, _⟩ := loadPacks_spec (objsOf_nil v) hl
  refine ⟨objs, applied, hl, ?_, ?_, ?_, hstart, ?_, ?_⟩
  · exact (untilLoop_objects _ _ _).1
  · exact (untilLoop_objects _ _ _).2
  · intro d
    have := ho d
    simp only [List.nil_append, List.contains_nil, Bool.not_false, List.mem_filter, and_true] at this
    exact this
  · exact C14.untilLoop_spec hstart _ rfl _ (Nat.le_refl _)
  · intro id
    exact C14.untilLoop_status hstart _ rfl _ (Nat.le_refl _) id


/-- **`reloadUntil_applied_iff`**: after `reload_until A` a block is `applied` exactly when it is in the
    ancestor closure of the anchors (through the parents of the loaded blocks) -/
theorem reloadUntil_applied_iff {v : View} {st st' : PState} {A : List BlockId} (hv : ViewOK v)
    (h : reloadUntil st v A = .ok st') (hA : A ≠ []) (id : BlockId) :
    statusOf st'.deltas id = some .applied ↔ C14.Anc (untilDs v st'.objects) A id := by
  obtain ⟨objs, applied, _, ho, _, _, hstart, _, hstat⟩ := reloadUntil_spec hv h hA
  rw [ho]
  constructor
  · intro ha
    apply Classical.byContradiction
    intro hn
    have h1 := (hstat id).2 hn
    rw [ha] at h1
    unfold statusOf at h1
    cases hf : findDelta (untilDs v objs) id with
    | none => rw [hf] at h1; cases h1
    | some p =>
      rw [hf] at h1
      have := hstart.not_applied (findDelta_some hf).1
      simp only [Option.map_some, Option.some.injEq] at h1
      exact this h1.symm
  · exact (hstat id).1

/-- nothing is staged in a document map whose trees all carry `staging = false` -/
def NoFlag (docs : List (Str × RevTree)) : Prop := ∀ p ∈ docs, p.2.staging = false

theorem upd_noFlag {docs : List (Str × RevTree)} (h : NoFlag docs) (c : Change) : NoFlag (applyChanges.upd c docs) := by
  induction docs with
  | nil =>
    intro p hp
    simp only [applyChanges.upd, List.mem_singleton] at hp
    subst hp; exact unvalidatedAdd_staging_false _ _ _
  | cons x rest ih =>
    obtain ⟨k, t⟩ := x
    have hr : NoFlag rest := fun q hq => h q (List.mem_cons_of_mem _ hq)
    have ht : t.staging = false := h (k, t) (by simp)
    simp only [applyChanges.upd]
    split
    · intro p hp
      rcases List.mem_cons.mp hp with rfl | hp
      · exact (unvalidatedAdd_staging_false _ _ _).trans ht
      · exact hr p hp
    · split
      · intro p hp
        rcases List.mem_cons.mp hp with rfl | hp
        · exact unvalidatedAdd_staging_false _ _ _
        · exact h p hp
      · intro p hp
        rcases List.mem_cons.mp hp with rfl | hp
        · exact ht
        · exact ih hr p hp

theorem applyChanges_noFlag {docs : List (Str × RevTree)} (h : NoFlag docs) (cs : List Change) :
    NoFlag (applyChanges docs cs) := by
  induction cs generalizing docs with
  | nil => exact h
  | cons c cs ih => rw [applyChanges_cons]; exact ih (upd_noFlag h c)

theorem untilLoop_noFlag (fuel : Nat) (q : List BlockId) (st : PState) (h : NoFlag st.docs) :
    NoFlag (untilLoop fuel q st).docs := by
  induction fuel generalizing q st with
  | zero => simpa [untilLoop] using h
  | succ fuel ih =>
    cases q with
    | nil => simpa [untilLoop] using h
    | cons id q =>
      simp only [untilLoop]
      split
      · exact ih _ _ (applyChanges_noFlag h _)
      · exact ih _ _ h

theorem hasStaging_validateAll_of_noFlag {st : PState} (h : NoFlag st.docs) : (validateAll st).hasStaging = false := by
  unfold hasStaging
  rw [List.any_eq_false]
  intro p hp
  rw [validateAll_docs] at hp
  obtain ⟨q, hq, rfl⟩ := List.mem_map.mp hp
  simp [C15.validate_staging, h q hq]

/-- **`reloadUntil_then_reload`**: the state `reload_until` leaves holds no stage, so a `reload` on the
    same storage afterwards succeeds, and it brings the replica back to the state synchronised with the
    whole storage (applied = causally complete), whatever the anchors were. -/
theorem reloadUntil_then_reload {v : View} {st st' : PState} {A : List BlockId} (hv : ViewOK v)
    (h : reloadUntil st v A = .ok st') (hA : A ≠ []) :
    (∃ st'', reload st' v = .ok st'') ∧ ∀ st'', reload st' v = .ok st'' → Synced v st'' := by
  refine ⟨?_, fun st'' h2 => reload_synced hv h2⟩
  obtain ⟨objs, applied, hl, _, _, rfl⟩ := reloadUntil_eq hA h
  apply reload_ok
  · apply hasStaging_validateAll_of_noFlag
    apply untilLoop_noFlag
    intro p hp; cases hp
  · intro k hk
    exact (loadPacks_some _ hl).2.2 k hk (by simp)


/-! ## 1. C03: the storage after a commit, and the committing replica -/

theorem blockId_render_inj {a b : BlockId} (h : a.render = b.render) : a = b := by
  have h1 := congrArg (Rev.spanP isDigit) h
  unfold BlockId.render at h1
  rw [C19.spanP_digits_natStr, C19.spanP_digits_natStr] at h1
  simp only [Prod.mk.injEq, List.cons.injEq, true_and] at h1
  have hi : a.index = b.index := by
    rw [← C19.natOfDigits_natStr a.index, h1.1, C19.natOfDigits_natStr]
  cases a; cases b
  simp only at hi h1
  rw [hi, h1.2]

theorem blockId_key_inj {a b : BlockId} (h : a.key = b.key) : a = b :=
  blockId_render_inj (List.append_cancel_right h)

/-- a name listed after some writes was listed before or is the name of one of the writes -/
theorem list_applyWrites_sub (kv : KVSpec) (ws : List (Str × Bytes)) (ext s : Str)
    (h : s ∈ (applyWrites kv ws).list ext) : s ∈ kv.list ext ∨ ∃ d, (s ++ ext, d) ∈ ws := by
  rw [C17.mem_list_iff] at h
  obtain ⟨d, hd⟩ := h
  obtain ⟨d', hd'⟩ := C10.mem_read hd
  cases hr : kv.read (s ++ ext) with
  | some d0 => exact Or.inl ((C17.mem_list_iff _ _ _).mpr ⟨d0, C10.read_mem hr⟩)
  | none => exact Or.inr ⟨d', C09.read_applyWrites_mem kv ws _ _ hr hd'⟩

section Store
variable {H : Bytes → Str} {st : DState} {info : Option JVal} {objOrder : List (Str × JObj)}
  {chgOrder : List Change} {out : DState.CommitOut}

/-- **the listed block identifiers after a commit**: those listed before, plus (at most) the new one -/
theorem commit_blockIds_sub (hout : out = DState.commitWrites H st info objOrder chgOrder)
    (hcan : C10.Canonical out.block.id) (kv : KVSpec) {id : BlockId}
    (h : id ∈ (viewOf H (applyWrites kv out.writes)).blockIds) :
    id ∈ (viewOf H kv).blockIds ∨ id = out.block.id := by
  simp only [viewOf, List.mem_filterMap] at h ⊢
  obtain ⟨s, hs, hp⟩ := h
  rcases list_applyWrites_sub kv _ _ _ hs with h1 | ⟨d, hd⟩
  · exact Or.inl ⟨s, h1, hp⟩
  · right
    rcases C09.writes_cases hout hd with e | ⟨k, _, _, e⟩
    · have e1 : s ++ DELTA_EXT = out.block.id.render ++ DELTA_EXT := congrArg Prod.fst e
      have e2 : s = out.block.id.render := List.append_cancel_right e1
      have hc : BlockId.parse out.block.id.render = some out.block.id := hcan
      rw [e2, hc] at hp
      exact (Option.some.inj hp).symm
    · exfalso
      have e1 : s ++ DELTA_EXT = k ++ PACK_EXT := congrArg Prod.fst e
      have := C10.not_delta_of_pack k
      rw [← e1, C10.isSuffix_append] at this
      cases this

/-- **no other block changes**: every identifier but the new one fetches exactly what it fetched before -/
theorem commit_fetch_old (hout : out = DState.commitWrites H st info objOrder chgOrder) (kv : KVSpec)
    {id : BlockId} (hne : id ≠ out.block.id) :
    (viewOf H (applyWrites kv out.writes)).fetch id = (viewOf H kv).fetch id := by
  simp only [viewOf]
  apply C10.fetch_congr
  apply C11.read_applyWrites_absent
  intro w hw
  rcases C09.writes_cases hout hw with rfl | ⟨k, _, _, rfl⟩
  · intro e; exact hne (blockId_key_inj e).symm
  · exact C09.pack_key_ne_block_key k id

/-- **the listed pack names after a commit**: those listed before, plus (at most) the pack of the commit -/
theorem commit_packNames_sub (hout : out = DState.commitWrites H st info objOrder chgOrder) (kv : KVSpec)
    {k : Str} (h : k ∈ (viewOf H (applyWrites kv out.writes)).packNames) :
    k ∈ (viewOf H kv).packNames ∨ out.packName = some k := by
  simp only [viewOf] at h ⊢
  rcases list_applyWrites_sub kv _ _ _ h with h1 | ⟨d, hd⟩
  · exact Or.inl h1
  · right
    rcases C09.writes_cases hout hd with e | ⟨k', hpn, _, e⟩
    · exact absurd (congrArg Prod.fst e) (C09.pack_key_ne_block_key k _)
    · have e1 : k ++ PACK_EXT = k' ++ PACK_EXT := congrArg Prod.fst e
      rw [List.append_cancel_right e1]; exact hpn

/-- **no other pack changes**: every pack but the one of the commit loads exactly as before -/
theorem commit_loadPack_old (hout : out = DState.commitWrites H st info objOrder chgOrder) (kv : KVSpec)
    {k : Str} (hne : out.packName ≠ some k) :
    (viewOf H (applyWrites kv out.writes)).loadPack k = (viewOf H kv).loadPack k := by
  simp only [viewOf]
  rw [C10.pack_congr]
  apply C11.read_applyWrites_absent
  intro w hw
  rcases C09.writes_cases hout hw with rfl | ⟨k', hpn, _, rfl⟩
  · exact fun e => C09.pack_key_ne_block_key k _ e.symm
  · intro e
    have e1 : k' ++ PACK_EXT = k ++ PACK_EXT := e
    rw [List.append_cancel_right e1] at hpn
    exact hne hpn

/-- a pack that loads is listed -/
theorem listed_of_loadPack {kv : KVSpec} {k : Str} {l : List Str} (h : (viewOf H kv).loadPack k = some l) :
    k ∈ (viewOf H kv).packNames := by
  simp only [viewOf, Option.map_eq_some_iff] at h ⊢
  obtain ⟨l0, hl0, _⟩ := h
  obtain ⟨bytes, hr, _⟩ := C10.pack_hash_gate hl0
  exact (C17.mem_list_iff _ _ _).mpr ⟨bytes, C10.read_mem hr⟩

end Store

/-- the digests `loadPackBytes` finds in the pack the commit wrote (what `commit` adds to the object index) -/
def newObjectsOf (H : Bytes → Str) (kv' : KVSpec) (out : DState.CommitOut) : List Str :=
  match out.packName with
  | none => []
  | some k => ((viewOf H kv').loadPack k).getD []

/-- The hypotheses of a successful commit over storage `kv` (cf. `C09.commit_complete`):
    the replica is synchronised with the storage; the information member is a canonical JSON object; the
    change records are built the way revisions are built; the new identifier is canonical; the block key
    is new; the pack key is new or already holds a loadable pack; every revision of the change records
    is readable from the old object index plus the objects of the written pack.
    (That the anchors are canonical and complete follows from `synced`.) -/
structure CommitHyps (H : Bytes → Str) (kv : KVSpec) (st : DState) (info : Option JVal)
    (objOrder : List (Str × JObj)) (chgOrder : List Change) (out : DState.CommitOut) : Prop where
  hout : out = DState.commitWrites H st info objOrder chgOrder
  synced : Synced (viewOf H kv) st.p
  /-- the commit's own guard let the information through (`is_too_deep`) -/
  guard : DState.commitRefusesInfo info = false
  info : ∀ i, info = some i → Canon i ∧ ∃ o, i = .obj o
  chgOK : ∀ c ∈ chgOrder, ChangeOK H c
  idCanon : C10.Canonical out.block.id
  blockFresh : kv.read out.block.id.key = none
  packFresh : ∀ k, out.packName = some k →
    kv.read (k ++ PACK_EXT) = none ∨ (loadPackBytes H kv k).isSome = true
  readable : changesReadable (st.p.objects ++ newObjectsOf H (applyWrites kv out.writes) out) chgOrder = true

/-- no block the replica holds back is completed by the items of the commit (FALSE in general: the new
    pack can complete a foreign block that made the same edit; this is the reading "storage holds
    nothing the replica has not applied" of C03) -/
def NoneUnblocked (H : Bytes → Str) (kv : KVSpec) (st : DState) (out : DState.CommitOut) : Prop :=
  ∀ p ∈ st.p.deltas, p.2 = .blocked →
    ¬ Complete (viewOf H (applyWrites kv out.writes))
        (st.p.objects ++ newObjectsOf H (applyWrites kv out.writes) out) p.1.id

section Commit
variable {H : Bytes → Str} {kv : KVSpec} {st : DState} {info : Option JVal} {objOrder : List (Str × JObj)}
  {chgOrder : List Change} {out : DState.CommitOut}

theorem commitDone_deltas (st : DState) (out : DState.CommitOut) (no : List Str) :
    (st.commitDone out no).p.deltas = insertDelta out.block .applied st.p.deltas := rfl
theorem commitDone_objects (st : DState) (out : DState.CommitOut) (no : List Str) :
    (st.commitDone out no).p.objects = st.p.objects ++ no := rfl
theorem commitDone_packs (st : DState) (out : DState.CommitOut) (no : List Str) :
    (st.commitDone out no).p.appliedPacks =
      match out.packName with | some k => st.p.appliedPacks ++ [k] | none => st.p.appliedPacks := rfl
theorem commitDone_docs (st : DState) (out : DState.CommitOut) (no : List Str) :
    (st.commitDone out no).p.docs =
      (st.p.docs.map (fun p => (p.1, p.2.commit))).map (fun p => (p.1, p.2.validate)) := rfl

/-- the anchors of a synchronised replica are canonical identifiers -/
theorem CommitHyps.anchorsCanon (hc : CommitHyps H kv st info objOrder chgOrder out) :
    ∀ p ∈ st.p.anchors, C10.Canonical p := by
  intro p hp
  obtain ⟨⟨q, hq, _, hid⟩, _⟩ := (mem_anchors st.p p).mp hp
  have := (hc.synced.ds.fetched q hq).2
  rw [hid] at this
  simp only [viewOf, List.mem_filterMap] at this
  obtain ⟨s, _, hs⟩ := this
  exact C10.parse_canonical hs

/-- … and causally complete -/
theorem CommitHyps.anchorsComplete (hc : CommitHyps H kv st info objOrder chgOrder out) :
    ∀ p ∈ st.p.anchors, Complete (viewOf H kv) st.p.objects p := by
  intro p hp
  obtain ⟨⟨q, hq, ha, hid⟩, _⟩ := (mem_anchors st.p p).mp hp
  rw [← hid]
  exact (hc.synced.applied_iff q hq).mp ha

/-- the new identifier is not in the delta map -/
theorem CommitHyps.absent (hc : CommitHyps H kv st info objOrder chgOrder out) :
    ∀ p ∈ st.p.deltas, p.1.id ≠ out.block.id := by
  intro p hp e
  have h1 := (hc.synced.ds.fetched p hp).1
  rw [e] at h1
  have h2 : (viewOf H kv).fetch out.block.id = none := C10.fetch_absent_none hc.blockFresh
  rw [h2] at h1
  cases h1

theorem CommitHyps.le (_hc : CommitHyps H kv st info objOrder chgOrder out) :
    View.le (viewOf H kv) (viewOf H (applyWrites kv out.writes)) :=
  C10.viewOf_le (C11.store_monotone kv out.writes)

/-- **the new block is fetched back whole and is complete** (`C09.commit_complete` under `CommitHyps`) -/
theorem CommitHyps.complete (hc : CommitHyps H kv st info objOrder chgOrder out) :
    (viewOf H (applyWrites kv out.writes)).fetch out.block.id = some out.block ∧
    out.block.id ∈ (viewOf H (applyWrites kv out.writes)).blockIds ∧
    Complete (viewOf H (applyWrites kv out.writes))
      (st.p.objects ++ newObjectsOf H (applyWrites kv out.writes) out) out.block.id := by
  have hfresh : ∀ d, kv.read out.block.id.key = some d → d = blockBytes out := by
    intro d hd; rw [hc.blockFresh] at hd; cases hd
  have hcc := C09.commit_complete hc.hout hc.info hc.guard hc.anchorsCanon hc.chgOK hc.idCanon hfresh hc.packFresh
    (objs := st.p.objects ++ newObjectsOf H (applyWrites kv out.writes) out)
    (fun p hp => (hc.anchorsComplete p hp).mono (View.le_refl _) (fun d hd => List.mem_append_left _ hd))
    hc.readable
  exact ⟨hcc.1, C09.mem_blockIds hc.idCanon (C09.read_block_after hc.hout hfresh), hcc.2⟩

/-- the pack of the commit loads after the commit, is listed, and its digests are `newObjectsOf` -/
theorem CommitHyps.newPack (hc : CommitHyps H kv st info objOrder chgOrder out) {k : Str}
    (hk : out.packName = some k) :
    (viewOf H (applyWrites kv out.writes)).loadPack k = some (newObjectsOf H (applyWrites kv out.writes) out) ∧
    k ∈ (viewOf H (applyWrites kv out.writes)).packNames := by
  have hkm : k ∈ out.block.packs := by rw [(C11.commit_block_members hc.hout).2.1, hk]; simp
  have hl := C09.pack_loadable_after hc.hout hkm (hc.packFresh k hk)
  have hl' : ((viewOf H (applyWrites kv out.writes)).loadPack k).isSome = true := by simpa [viewOf] using hl
  obtain ⟨l, hl⟩ := Option.isSome_iff_exists.mp hl'
  have : newObjectsOf H (applyWrites kv out.writes) out = l := by
    unfold newObjectsOf; rw [hk]; simp only; rw [hl]; rfl
  rw [this]
  exact ⟨hl, listed_of_loadPack hl⟩

/-- **`commitDone_synced`** (C03, status half). Under `CommitHyps` and `NoneUnblocked`, the replica state
    right after the commit (`commitDone`, with `newObjects` the digests found in the written pack) is
    synchronised with the storage the commit left: the delta map holds exactly what the storage shows,
    a block is `applied` exactly when it is causally complete there, the object index holds exactly the
    objects of the listed packs, and the applied packs are the listed packs. -/
theorem commitDone_synced (hc : CommitHyps H kv st info objOrder chgOrder out)
    (hnu : NoneUnblocked H kv st out) :
    Synced (viewOf H (applyWrites kv out.writes))
      (st.commitDone out (newObjectsOf H (applyWrites kv out.writes) out)).p := by
  have hs := hc.synced
  have habs := hc.absent
  have hle := hc.le
  obtain ⟨hf, hid, hcomp⟩ := hc.complete
  have hmono : ∀ d ∈ st.p.objects, d ∈ st.p.objects ++ newObjectsOf H (applyWrites kv out.writes) out :=
    fun d hd => List.mem_append_left _ hd
  refine ⟨⟨?_, ?_, ?_⟩, ?_, ?_, ?_, ?_, ?_⟩
  · -- fetched
    intro p hp
    rw [commitDone_deltas] at hp
    rcases (C02.mem_insertDelta habs).mp hp with rfl | hp
    · exact ⟨hf, hid⟩
    · obtain ⟨h1, h2⟩ := hs.ds.fetched p hp
      exact ⟨hle.fetch _ _ h1, hle.ids _ h2⟩
  · rw [commitDone_deltas]; exact C02.nodup_insertDelta habs hs.ds.nodup
  · -- closed
    intro id b hidm hfb
    rw [commitDone_deltas]
    by_cases e : id = out.block.id
    · exact ⟨(out.block, .applied), (C02.mem_insertDelta habs).mpr (Or.inl rfl), e.symm⟩
    · have h1 : id ∈ (viewOf H kv).blockIds := by
        rcases commit_blockIds_sub hc.hout hc.idCanon kv hidm with h | h
        · exact h
        · exact absurd h e
      rw [commit_fetch_old hc.hout kv e] at hfb
      obtain ⟨p, hp, hpe⟩ := hs.ds.closed id b h1 hfb
      exact ⟨p, (C02.mem_insertDelta habs).mpr (Or.inr hp), hpe⟩
  · -- settled
    intro p hp
    rw [commitDone_deltas] at hp
    rcases (C02.mem_insertDelta habs).mp hp with rfl | hp
    · exact Or.inl rfl
    · exact hs.settled p hp
  · -- applied_iff
    intro p hp
    rw [commitDone_deltas] at hp
    rw [commitDone_objects]
    rcases (C02.mem_insertDelta habs).mp hp with rfl | hp
    · exact ⟨fun _ => hcomp, fun _ => rfl⟩
    · constructor
      · intro ha
        exact ((hs.applied_iff p hp).mp ha).mono hle hmono
      · intro hcp
        rcases hs.settled p hp with h | h
        · exact h
        · exact absurd hcp (hnu p hp h)
  · -- the object index
    intro d
    rw [commitDone_objects, List.mem_append]
    constructor
    · rintro (hd | hd)
      · obtain ⟨k, hk, l, hl, hdl⟩ := (hs.objs d).mp hd
        exact ⟨k, C10.packNames_le (C11.store_monotone kv out.writes) k hk, l, hle.packs k l hl, hdl⟩
      · cases hpn : out.packName with
        | none => unfold newObjectsOf at hd; rw [hpn] at hd; cases hd
        | some k =>
          obtain ⟨h1, h2⟩ := hc.newPack hpn
          exact ⟨k, h2, _, h1, hd⟩
    · rintro ⟨k, hk, l, hl, hdl⟩
      rcases commit_packNames_sub hc.hout kv hk with h | h
      · left
        obtain ⟨l0, hl0⟩ := Option.isSome_iff_exists.mp (hs.loadable k h)
        have := hle.packs k l0 hl0
        rw [this] at hl
        have e : l0 = l := Option.some.inj hl
        rw [← e] at hdl
        exact (hs.objs d).mpr ⟨k, h, l0, hl0, hdl⟩
      · right
        rw [(hc.newPack h).1] at hl
        have e := Option.some.inj hl
        rw [e]; exact hdl
  · -- the applied packs
    intro k
    rw [commitDone_packs]
    constructor
    · intro hk
      cases hpn : out.packName with
      | none =>
        rw [hpn] at hk
        exact C10.packNames_le (C11.store_monotone kv out.writes) k ((hs.packs k).mp hk)
      | some k' =>
        rw [hpn] at hk
        simp only [List.mem_append, List.mem_singleton] at hk
        rcases hk with hk | rfl
        · exact C10.packNames_le (C11.store_monotone kv out.writes) k ((hs.packs k).mp hk)
        · exact (hc.newPack hpn).2
    · intro hk
      rcases commit_packNames_sub hc.hout kv hk with h | h
      · have := (hs.packs k).mpr h
        cases hpn : out.packName with
        | none => exact this
        | some k' => exact List.mem_append_left _ this
      · rw [h]; simp
  · -- every listed pack loads
    intro k hk
    rcases commit_packNames_sub hc.hout kv hk with h | h
    · obtain ⟨l0, hl0⟩ := Option.isSome_iff_exists.mp (hs.loadable k h)
      rw [hle.packs k l0 hl0]; rfl
    · rw [(hc.newPack h).1]; rfl

end Commit


/-! ## 1b. the documents of the committing replica -/

/-- the committed (non-staging) (revision, parent) pairs recorded for object `u` -/
def committedPairsOf (docs : List (Str × RevTree)) (u : Str) : List (Rev × Option Rev) :=
  ((entriesOf docs u).filter (fun e => !e.staging)).map (fun e => (e.rev, e.parent))

/-- The document map of a replica that may hold a stage (the state `commit` starts from): as `C01.DocsOK`,
    except that trees may contain staging entries — the tree flags say so (`FlagOK`), and the
    NON-staging entries are exactly the change records of the applied blocks. -/
structure PreCommit (st : PState) : Prop where
  sorted : DocsSorted st.docs
  nodup : TreesNodup st.docs
  flag : AllFlagOK st.docs
  noEmpty : NoEmpty st.docs
  exact : ∀ u x, x ∈ committedPairsOf st.docs u ↔
    ∃ p ∈ st.deltas, p.2 = .applied ∧ ∃ c ∈ p.1.changes, c.uuid = u ∧ (c.rev, c.parent) = x

theorem flagOK_treeOf {docs : List (Str × RevTree)} (h : AllFlagOK docs) (u : Str) : FlagOK (treeOf docs u) := by
  rcases C15.treeOf_mem_or docs u with h0 | ⟨p, hp, _, h2⟩
  · rw [h0]; exact C15.flagOK_empty
  · rw [← h2]; exact h p hp

/-- a state without a stage that satisfies `DocsOK` satisfies `PreCommit` (so a commit of nothing, and a
    commit right after `reload`/`refresh`, are covered) -/
theorem PreCommit.of_docsOK {v : View} {st : PState} (d : DocsOK v st) (hns : st.hasStaging = false) :
    PreCommit st := by
  have hall : ∀ u, ∀ e ∈ entriesOf st.docs u, e.staging = false := d.noStaged
  refine ⟨d.sorted, d.nodup, ?_, d.noEmpty, ?_⟩
  · intro p hp
    have hfl : p.2.staging = false := by
      unfold hasStaging at hns
      rw [List.any_eq_false] at hns
      simpa using hns p hp
    have hes : ∀ e ∈ p.2.entries, e.staging = false := fun e he =>
      hall p.1 e ((C15.mem_entriesOf_iff d.sorted p.1 e).mpr ⟨p, hp, rfl, he⟩)
    unfold FlagOK
    constructor
    · intro h; rw [hfl] at h; cases h
    · rintro ⟨e, he, h⟩; rw [hes e he] at h; cases h
  · intro u x
    rw [← d.exact u x]
    unfold committedPairsOf pairsOf
    rw [List.filter_eq_self.mpr]
    intro e he
    simp [hall u e he]

theorem treeOf_map_commit (docs : List (Str × RevTree)) (u : Str) :
    treeOf (docs.map (fun p => (p.1, p.2.commit))) u = (treeOf docs u).commit := by
  induction docs with
  | nil => rfl
  | cons x rest ih =>
    obtain ⟨k, t⟩ := x
    rw [List.map_cons, C15.treeOf_cons, C15.treeOf_cons, ih]
    split <;> rfl

/-- the entries of every tree after `commitDone`: the old entries, all marked committed -/
theorem entriesOf_commitDone (st : DState) (out : DState.CommitOut) (no : List Str)
    (hf : AllFlagOK st.p.docs) (u : Str) :
    entriesOf (st.commitDone out no).p.docs u =
      (entriesOf st.p.docs u).map (fun e => { e with staging := false }) := by
  rw [commitDone_docs]
  unfold entriesOf
  rw [treeOf_map_validate, treeOf_map_commit, C15.validate_entries]
  exact C15.commit_entries (flagOK_treeOf hf u)

theorem pairsOf_commitDone (st : DState) (out : DState.CommitOut) (no : List Str)
    (hf : AllFlagOK st.p.docs) (u : Str) :
    pairsOf (st.commitDone out no).p.docs u = pairsOf st.p.docs u := by
  unfold pairsOf
  rw [entriesOf_commitDone st out no hf u, List.map_map]
  rfl

/-- **`commitDone_docsOK_gen`** (C03, document half; no storage involved): if the pre-state satisfies
    `PreCommit`, the block written carries exactly the staged changes, and its identifier is new, then
    after `commitDone` the trees hold exactly the change records of the applied blocks (`C01.DocsOK`). -/
theorem commitDone_docsOK_gen {v' : View} (st : DState) (out : DState.CommitOut) (no : List Str)
    (hp : PreCommit st.p)
    (hst : ∀ c, c ∈ out.block.changes ↔ c ∈ stagedChanges st.p.docs)
    (habs : ∀ p ∈ st.p.deltas, p.1.id ≠ out.block.id) :
    DocsOK v' (st.commitDone out no).p := by
  refine ⟨?_, ?_, ?_, ?_, ?_⟩
  · rw [commitDone_docs]
    unfold DocsSorted
    rw [List.pairwise_map, List.pairwise_map]
    exact hp.sorted
  · intro u
    rw [entriesOf_commitDone st out no hp.flag u]
    unfold KeysNodup
    rw [List.map_map]
    exact hp.nodup u
  · intro u e he
    rw [entriesOf_commitDone st out no hp.flag u] at he
    obtain ⟨e', _, rfl⟩ := List.mem_map.mp he
    rfl
  · intro p hpm
    rw [commitDone_docs, List.map_map] at hpm
    obtain ⟨q, hq, rfl⟩ := List.mem_map.mp hpm
    show (validate q.2.commit).entries ≠ []
    rw [C15.validate_entries, C15.commit_entries (hp.flag q hq)]
    intro h
    exact hp.noEmpty q hq (List.map_eq_nil_iff.mp h)
  · intro u x
    rw [pairsOf_commitDone st out no hp.flag u, commitDone_deltas]
    constructor
    · intro hx
      obtain ⟨e, he, rfl⟩ := List.mem_map.mp hx
      cases hes : e.staging with
      | false =>
        have : (e.rev, e.parent) ∈ committedPairsOf st.p.docs u :=
          List.mem_map.mpr ⟨e, List.mem_filter.mpr ⟨he, by simp [hes]⟩, rfl⟩
        obtain ⟨p, hpm, ha, r⟩ := (hp.exact u _).mp this
        exact ⟨p, (C02.mem_insertDelta habs).mpr (Or.inr hpm), ha, r⟩
      | true =>
        refine ⟨(out.block, .applied), (C02.mem_insertDelta habs).mpr (Or.inl rfl), rfl, ⟨u, e.rev, e.parent⟩, ?_, rfl, rfl⟩
        rw [hst, C15.mem_stagedChanges_sorted hp.sorted]
        have : (⟨e.rev, e.parent, true⟩ : RtEntry) = e := by cases e; simp_all
        simp only
        rw [this]; exact he
    · rintro ⟨p, hpm, ha, c, hc, hu, rfl⟩
      rcases (C02.mem_insertDelta habs).mp hpm with rfl | hpm
      · have := (C15.mem_stagedChanges_sorted hp.sorted c).mp ((hst c).mp hc)
        rw [hu] at this
        exact List.mem_map.mpr ⟨_, this, rfl⟩
      · have := (hp.exact u (c.rev, c.parent)).mpr ⟨p, hpm, ha, c, hc, hu, rfl⟩
        obtain ⟨e, he, r⟩ := List.mem_map.mp this
        exact List.mem_map.mpr ⟨e, (List.mem_filter.mp he).1, r⟩

section Reopen
variable {H : Bytes → Str} {kv : KVSpec} {st : DState} {info : Option JVal} {objOrder : List (Str × JObj)}
  {chgOrder : List Change} {out : DState.CommitOut}

/-- **`commitDone_docsOK`** (C03, document half): under `CommitHyps`, with a pre-state satisfying
    `PreCommit` whose staging entries are exactly `chgOrder` (as a set) -/
theorem commitDone_docsOK (hc : CommitHyps H kv st info objOrder chgOrder out) (hp : PreCommit st.p)
    (hst : ∀ c, c ∈ chgOrder ↔ c ∈ stagedChanges st.p.docs) :
    DocsOK (viewOf H (applyWrites kv out.writes))
      (st.commitDone out (newObjectsOf H (applyWrites kv out.writes) out)).p := by
  apply commitDone_docsOK_gen st out _ hp ?_ hc.absent
  rw [(C11.commit_block_members hc.hout).2.2.1]
  exact hst

/-- every tree of the state after a commit carries its own validated leaves and winner -/
theorem commitDone_allValidated (st : DState) (out : DState.CommitOut) (no : List Str) :
    AllValidated (st.commitDone out no).p.docs := validateAll_allValidated _

/-- **`commit_reopen`** (C03, MAIN). A replica commits (hypotheses `CommitHyps`, `PreCommit`, the change
    records are the staged entries, `NoneUnblocked`); afterwards a fresh replica opens the same storage
    (`reload`, from any stage-free state `i`, e.g. `{}`). Then the two states agree (`C01.Agree`): the
    same status for every block identifier, the same heads, the same object index and applied packs,
    the same object identifiers, for every object the same recorded (revision, parent) pairs, and the
    same live leaves and the same winner — also as cached in the trees.
    `hvf` (a revision of an object has one parent among the stored blocks: true up to digest collisions),
    `ho`/`hP` (the strict-order facts about `Rev.cmp` on the revisions in play) are the hypotheses of
    `C01.converge`. -/
theorem commit_reopen {P : Rev → Prop} (ho : CmpOrder P)
    (hc : CommitHyps H kv st info objOrder chgOrder out) (hp : PreCommit st.p)
    (hst : ∀ c, c ∈ chgOrder ↔ c ∈ stagedChanges st.p.docs)
    (hnu : NoneUnblocked H kv st out)
    (hvf : ViewFunctional (viewOf H (applyWrites kv out.writes)))
    (hP : ∀ u, ∀ e ∈ entriesOf st.p.docs u, P e.rev)
    {i r : PState} (hr : reload i (viewOf H (applyWrites kv out.writes)) = .ok r) :
    let st' := (st.commitDone out (newObjectsOf H (applyWrites kv out.writes) out)).p
    Synced (viewOf H (applyWrites kv out.writes)) st' ∧ Synced (viewOf H (applyWrites kv out.writes)) r ∧
    Agree st' r ∧
    ∀ u, (treeOf st'.docs u).leafs = (treeOf r.docs u).leafs ∧ (treeOf st'.docs u).winner = (treeOf r.docs u).winner := by
  intro st'
  have hv := C10.viewOf_ok H (applyWrites kv out.writes)
  have y1 := commitDone_synced hc hnu
  have d1 := commitDone_docsOK hc hp hst
  have y2 := reload_synced hv hr
  have d2 := reload_docsOK hv hvf hr
  have hP' : ∀ u, ∀ e ∈ entriesOf st'.docs u, P e.rev := by
    intro u e he
    rw [entriesOf_commitDone st out _ hp.flag u] at he
    obtain ⟨e', he', rfl⟩ := List.mem_map.mp he
    exact hP u e' he'
  have ha := converge ho y1 y2 d1 d2.1 hP'
  exact ⟨y1, y2, ha, ha.cached (commitDone_allValidated _ _ _) d2.2⟩

end Reopen


/-! ## 2b. the very first commit -/

/-- nothing is stored: the view of the empty store -/
theorem viewOf_empty_blockIds (H : Bytes → Str) : (viewOf H KVSpec.empty).blockIds = [] := rfl
theorem viewOf_empty_packNames (H : Bytes → Str) : (viewOf H KVSpec.empty).packNames = [] := rfl

/-- a replica that has loaded nothing is synchronised with the empty store -/
theorem synced_empty (H : Bytes → Str) {st : PState} (hd : st.deltas = []) (hob : st.objects = [])
    (hap : st.appliedPacks = []) : Synced (viewOf H KVSpec.empty) st := by
  refine ⟨⟨?_, ?_, ?_⟩, ?_, ?_, ?_, ?_, ?_⟩
  · intro p hp; rw [hd] at hp; cases hp
  · rw [hd]; exact List.nodup_nil
  · intro id b hid _; rw [viewOf_empty_blockIds] at hid; cases hid
  · intro p hp; rw [hd] at hp; cases hp
  · intro p hp; rw [hd] at hp; cases hp
  · intro d
    rw [hob, viewOf_empty_packNames]
    simp
  · intro k; rw [hap, viewOf_empty_packNames]
  · intro k hk; rw [viewOf_empty_packNames] at hk; cases hk

/-- a document map that holds only staged entries, in a replica whose applied blocks (if any) carry no
    change records (e.g. a replica that has never committed nor loaded anything), satisfies `PreCommit` -/
theorem PreCommit.of_allStaged {st : PState} (hd : ∀ p ∈ st.deltas, p.2 = .applied → p.1.changes = [])
    (hs : DocsSorted st.docs)
    (hk : ∀ p ∈ st.docs, KeysNodup p.2.entries) (hf : AllFlagOK st.docs) (hne : NoEmpty st.docs)
    (hall : ∀ p ∈ st.docs, ∀ e ∈ p.2.entries, e.staging = true) : PreCommit st := by
  refine ⟨hs, treesNodup_of_forall hk, hf, hne, ?_⟩
  intro u x
  constructor
  · intro hx
    obtain ⟨e, he, _⟩ := List.mem_map.mp hx
    obtain ⟨he1, he2⟩ := List.mem_filter.mp he
    obtain ⟨p, hp, _, hpe⟩ := (C15.mem_entriesOf_iff hs u e).mp he1
    rw [hall p hp e hpe] at he2
    cases he2
  · rintro ⟨p, hp, ha, c, hc, _⟩
    rw [hd p hp ha] at hc; cases hc

/-- the staged change records of a duplicate-free document map give a revision of an object one parent -/
theorem functional_staged {docs : List (Str × RevTree)} (hs : DocsSorted docs) (hk : TreesNodup docs) :
    Functional (stagedChanges docs) := by
  intro c₁ h₁ c₂ h₂ hu hr
  have e₁ := (C15.mem_stagedChanges_sorted hs c₁).mp h₁
  have e₂ := (C15.mem_stagedChanges_sorted hs c₂).mp h₂
  rw [hu] at e₁
  have := C15.keysNodup_unique (hk c₂.uuid) e₁ e₂ hr
  simp only [RtEntry.mk.injEq] at this
  exact this.2.1

section First
variable {H : Bytes → Str} {st : DState} {info : Option JVal} {objOrder : List (Str × JObj)}
  {chgOrder : List Change} {out : DState.CommitOut}

/-- `CommitHyps` for the first commit into an empty store: no freshness or synchronisation hypothesis is
    left, only the well-formedness of what is written -/
theorem commitHyps_first (hout : out = DState.commitWrites H st info objOrder chgOrder)
    (hd : st.p.deltas = []) (hob : st.p.objects = []) (hap : st.p.appliedPacks = [])
    (hinfo : ∀ i, info = some i → Canon i ∧ ∃ o, i = .obj o)
    (hguard : DState.commitRefusesInfo info = false)
    (hchg : ∀ c ∈ chgOrder, ChangeOK H c)
    (hcan : C10.Canonical out.block.id)
    (hread : changesReadable (newObjectsOf H (applyWrites KVSpec.empty out.writes) out) chgOrder = true) :
    CommitHyps H KVSpec.empty st info objOrder chgOrder out where
  hout := hout
  synced := synced_empty H hd hob hap
  info := hinfo
  guard := hguard
  chgOK := hchg
  idCanon := hcan
  blockFresh := C10.empty_read _
  packFresh := fun _ _ => Or.inl (C10.empty_read _)
  readable := by rw [hob]; exact hread

/-- after the first commit the store shows one block, so `ViewFunctional` holds by construction -/
theorem viewFunctional_first (hc : CommitHyps H KVSpec.empty st info objOrder chgOrder out)
    (hp : PreCommit st.p) (hst : ∀ c, c ∈ chgOrder ↔ c ∈ stagedChanges st.p.docs) :
    ViewFunctional (viewOf H (applyWrites KVSpec.empty out.writes)) := by
  have hfun : Functional chgOrder :=
    (Functional.congr hst).mpr (functional_staged hp.sorted hp.nodup)
  have hone : ∀ id ∈ (viewOf H (applyWrites KVSpec.empty out.writes)).blockIds, ∀ b,
      (viewOf H (applyWrites KVSpec.empty out.writes)).fetch id = some b → b.changes = chgOrder := by
    intro id hid b hb
    rcases commit_blockIds_sub hc.hout hc.idCanon KVSpec.empty hid with h | h
    · rw [viewOf_empty_blockIds] at h; cases h
    · rw [h, hc.complete.1] at hb
      cases hb
      exact (C11.commit_block_members hc.hout).2.2.1
  intro id₁ h₁ id₂ h₂ b₁ b₂ f₁ f₂ c₁ hc₁ c₂ hc₂
  rw [hone id₁ h₁ b₁ f₁] at hc₁
  rw [hone id₂ h₂ b₂ f₂] at hc₂
  exact hfun c₁ hc₁ c₂ hc₂

/-- **`first_commit_reopen`** (C03 for the very first commit: no block, no pack, no anchor before).
    A new replica stages changes and commits into an empty store; a fresh replica opening that store
    agrees with it (as in `commit_reopen`). Neither `NoneUnblocked`, nor `ViewFunctional`, nor any
    freshness or synchronisation hypothesis is needed. -/
theorem first_commit_reopen {P : Rev → Prop} (ho : CmpOrder P)
    (hout : out = DState.commitWrites H st info objOrder chgOrder)
    (hd : st.p.deltas = []) (hob : st.p.objects = []) (hap : st.p.appliedPacks = [])
    (hinfo : ∀ i, info = some i → Canon i ∧ ∃ o, i = .obj o)
    (hguard : DState.commitRefusesInfo info = false)
    (hchg : ∀ c ∈ chgOrder, ChangeOK H c)
    (hcan : C10.Canonical out.block.id)
    (hread : changesReadable (newObjectsOf H (applyWrites KVSpec.empty out.writes) out) chgOrder = true)
    (hp : PreCommit st.p) (hst : ∀ c, c ∈ chgOrder ↔ c ∈ stagedChanges st.p.docs)
    (hP : ∀ u, ∀ e ∈ entriesOf st.p.docs u, P e.rev)
    {i r : PState} (hr : reload i (viewOf H (applyWrites KVSpec.empty out.writes)) = .ok r) :
    let st' := (st.commitDone out (newObjectsOf H (applyWrites KVSpec.empty out.writes) out)).p
    st.p.anchors = [] ∧ out.block.parents = [] ∧
    Synced (viewOf H (applyWrites KVSpec.empty out.writes)) st' ∧
    Synced (viewOf H (applyWrites KVSpec.empty out.writes)) r ∧ Agree st' r ∧
    ∀ u, (treeOf st'.docs u).leafs = (treeOf r.docs u).leafs ∧ (treeOf st'.docs u).winner = (treeOf r.docs u).winner := by
  intro st'
  have hc := commitHyps_first hout hd hob hap hinfo hguard hchg hcan hread
  have hanc : st.p.anchors = [] := by unfold PState.anchors; rw [hd]; rfl
  have hnu : NoneUnblocked H KVSpec.empty st out := by
    intro p hpm; rw [hd] at hpm; cases hpm
  refine ⟨hanc, ?_, commit_reopen ho hc hp hst hnu (viewFunctional_first hc hp hst) hP hr⟩
  rw [(C11.commit_block_members hout).1, hanc]; rfl

/-- the first commit can always be reopened: the `reload` of the store it leaves succeeds -/
theorem first_commit_reload_ok (hc : CommitHyps H KVSpec.empty st info objOrder chgOrder out)
    (hd : st.p.deltas = []) :
    ∃ r, reload {} (viewOf H (applyWrites KVSpec.empty out.writes)) = .ok r := by
  have hnu : NoneUnblocked H KVSpec.empty st out := by
    intro p hpm; rw [hd] at hpm; cases hpm
  exact reload_ok _ rfl (commitDone_synced hc hnu).loadable

end First

/-- in general too: under `CommitHyps` and `NoneUnblocked` the `reload` of the store the commit leaves succeeds -/
theorem commit_reload_ok {H : Bytes → Str} {kv : KVSpec} {st : DState} {info : Option JVal}
    {objOrder : List (Str × JObj)} {chgOrder : List Change} {out : DState.CommitOut}
    (hc : CommitHyps H kv st info objOrder chgOrder out) (hnu : NoneUnblocked H kv st out) :
    ∃ r, reload {} (viewOf H (applyWrites kv out.writes)) = .ok r :=
  reload_ok _ rfl (commitDone_synced hc hnu).loadable


/-! ## Non-vacuity -/

section Examples
open C10 (Hlen)

/-! ### a first commit, byte for byte, under the toy hash `Hlen`

  Two staged objects (`{}` and `{"a":null}`, whose `Hlen` digests are `h2` and `h10`), two staged
  revisions of the object `u` (creation, then an update). -/

def eRev1 : Rev := Rev.mk1 "h2".toList
def eRev2 : Rev := Rev.upd Hlen "h10".toList eRev1
def eChg1 : Change := ⟨"u".toList, eRev1, none⟩
def eChg2 : Change := ⟨"u".toList, eRev2, some eRev1⟩
def eTree : RevTree := ((RevTree.empty.add eRev1 none true).1.add eRev2 (some eRev1) true).1
def eStage : List (Str × JObj) := [("h2".toList, []), ("h10".toList, [("a".toList, .null)])]
def eSt : DState := { p := { docs := [("u".toList, eTree)] }, stage := eStage }
def eOut : DState.CommitOut := DState.commitWrites Hlen eSt none eStage [eChg1, eChg2]
def eKv : KVSpec := applyWrites KVSpec.empty eOut.writes
def eP (r : Rev) : Prop := r ∈ [eRev1, eRev2]
instance : DecidablePred eP := fun r => by unfold eP; infer_instance

theorem eOrder : CmpOrder eP where
  refl := C05.cmp_refl
  antisymm := C05.cmp_antisymm
  trans := C05.cmp_trans
  eq_iff := by
    have : ∀ a ∈ [eRev1, eRev2], ∀ b ∈ [eRev1, eRev2], (Rev.cmp a b = .eq ↔ a = b) := by decide +kernel
    exact fun a b ha hb => this a ha b hb

example : eOut.writes.map (·.1) = ["h15.pack".toList, "1-h49.delta".toList] := by decide +kernel
theorem eNew : newObjectsOf Hlen eKv eOut = ["h2".toList, "h10".toList] := by decide +kernel
theorem eStaged : stagedChanges eSt.p.docs = [eChg1, eChg2] := by decide +kernel
theorem eChgOK : ∀ c ∈ [eChg1, eChg2], ChangeOK Hlen c := by
  intro c hc
  simp only [List.mem_cons, List.mem_nil_iff, or_false] at hc
  rcases hc with rfl | rfl
  · rfl
  · exact ⟨by decide +kernel, rfl⟩

theorem ePre : PreCommit eSt.p :=
  PreCommit.of_allStaged (by intro p hp; cases hp) (by decide +kernel) (by decide +kernel) (by decide +kernel)
    (by decide +kernel) (by decide +kernel)

theorem eHyps : CommitHyps Hlen KVSpec.empty eSt none eStage [eChg1, eChg2] eOut :=
  commitHyps_first rfl rfl rfl rfl (by intro i hi; cases hi) rfl eChgOK (by decide +kernel)
    (by rw [show applyWrites KVSpec.empty eOut.writes = eKv from rfl, eNew]; decide +kernel)

theorem eP_all : ∀ u, ∀ e ∈ entriesOf eSt.p.docs u, eP e.rev := by
  intro u e he
  obtain ⟨p, hp, _, hpe⟩ := (C15.mem_entriesOf_iff ePre.sorted u e).mp he
  have : ∀ p ∈ eSt.p.docs, ∀ e ∈ p.2.entries, eP e.rev := by decide +kernel
  exact this p hp e hpe

/-- **all hypotheses of `commit_reopen` / `first_commit_reopen` hold of this commit**, the reopening
    `reload` succeeds, and the conclusion is not trivial: the reopened replica has the new block applied
    and the updated revision as the winner of `u`. -/
example : ∃ r, reload {} (viewOf Hlen eKv) = .ok r ∧
    Agree (eSt.commitDone eOut (newObjectsOf Hlen eKv eOut)).p r ∧
    statusOf r.deltas eOut.block.id = some .applied ∧
    (treeOf r.docs "u".toList).winner = some eRev2 ∧ r.objects ≠ [] := by
  obtain ⟨r, hr⟩ := first_commit_reload_ok eHyps rfl
  have hst : ∀ c, c ∈ [eChg1, eChg2] ↔ c ∈ stagedChanges eSt.p.docs := by rw [eStaged]; exact fun _ => Iff.rfl
  obtain ⟨_, _, _, _, ha, hw⟩ := first_commit_reopen eOrder (out := eOut) rfl rfl rfl rfl (by intro i hi; cases hi) rfl
    eChgOK eHyps.idCanon eHyps.readable ePre hst eP_all hr
  refine ⟨r, hr, ha, ?_, ?_, ?_⟩
  · rw [← ha.status]
    decide +kernel
  · rw [← (hw "u".toList).2]
    decide +kernel
  · intro h
    have := (ha.objects "h2".toList).mp (by decide +kernel)
    rw [h] at this; cases this

/-- `NoneUnblocked` and `PreCommit.of_docsOK` are satisfiable on that example too -/
example : NoneUnblocked Hlen KVSpec.empty eSt eOut := by intro p hp; cases hp


/-! ### a commit on top of existing storage, with a held-back foreign block that stays held back -/

def okOr (r : Except PErr PState) : PState := match r with | .ok s => s | .error _ => {}

theorem okOr_eq {r : Except PErr PState} (h : (C01.okState r).isSome = true) : r = .ok (okOr r) := by
  obtain ⟨s, hs⟩ := C01.exists_ok h
  rw [hs]; rfl

theorem synced_with_docs {v : View} {st : PState} (hs : Synced v st) (d : List (Str × RevTree)) :
    Synced v { st with docs := d } :=
  ⟨hs.ds, hs.settled, hs.applied_iff, hs.objs, hs.packs, hs.loadable⟩

/-- all change records the view hands out are among `cs` -/
def changesWithin (v : View) (cs : List Change) : Bool :=
  v.blockIds.all (fun id => match v.fetch id with
    | some b => b.changes.all (fun c => cs.contains c)
    | none => true)

theorem viewFunctional_of_within {v : View} {cs : List Change} (hf : Functional cs)
    (h : changesWithin v cs = true) : ViewFunctional v := by
  have hsub : ∀ id ∈ v.blockIds, ∀ b, v.fetch id = some b → ∀ c ∈ b.changes, c ∈ cs := by
    intro id hid b hb c hc
    unfold changesWithin at h
    have := (List.all_eq_true.mp h) id hid
    rw [hb] at this
    exact List.contains_iff_mem.mp ((List.all_eq_true.mp this) c hc)
  intro id₁ h₁ id₂ h₂ b₁ b₂ f₁ f₂ c₁ hc₁ c₂ hc₂
  exact hf c₁ (hsub id₁ h₁ b₁ f₁ c₁ hc₁) c₂ (hsub id₂ h₂ b₂ f₂ c₂ hc₂)

theorem not_complete_of_missing_pack {H : Bytes → Str} {kv : KVSpec} {objs : List Str} {id : BlockId} (k : Str)
    (h : ((viewOf H kv).fetch id).map (fun b => b.packs.contains k) = some true)
    (hn : (viewOf H kv).loadPack k = none) : ¬ Complete (viewOf H kv) objs id := by
  cases hf : (viewOf H kv).fetch id with
  | none => rw [hf] at h; cases h
  | some b =>
    rw [hf] at h
    have hk : k ∈ b.packs := List.contains_iff_mem.mp (by simpa using h)
    have := C10.block_without_pack_incomplete (objs := objs) hf hk hn
    rwa [(C10.viewOf_ok _ _).fetch_id _ _ hf] at this

/-- storage: the applied root block `1-h2` of `C10.kv0`, and a foreign block `1-h12` naming a pack `zz`
    that has not arrived -/
def hKv : KVSpec := C10.kv0.write "1-h12.delta".toList (utf8 "{\"k\":[\"zz\"]}".toList)
/-- the replica opened on it … -/
def hP0 : PState := okOr (reload {} (viewOf Hlen hKv))
/-- … which then stages the edit of the first example -/
def hSt : DState := { p := { hP0 with docs := [("u".toList, eTree)] }, stage := eStage }
def hOut : DState.CommitOut := DState.commitWrites Hlen hSt none eStage [eChg1, eChg2]
def hKv' : KVSpec := applyWrites hKv hOut.writes

theorem hP0_eq : reload {} (viewOf Hlen hKv) = .ok hP0 := okOr_eq (by decide +kernel)

example : hP0.deltas.map (fun p => (p.1.id.index, p.1.id.digest, p.2)) =
    [(1, "h12".toList, .blocked), (1, "h2".toList, .applied)] := by decide +kernel
example : hOut.block.parents = [⟨1, "h2".toList⟩] ∧ hOut.block.id.index = 2 := by decide +kernel

theorem hPre : PreCommit hSt.p :=
  PreCommit.of_allStaged (by decide +kernel) (by decide +kernel) (by decide +kernel) (by decide +kernel)
    (by decide +kernel) (by decide +kernel)

theorem hNew : newObjectsOf Hlen hKv' hOut = ["h2".toList, "h10".toList] := by decide +kernel

theorem hHyps : CommitHyps Hlen hKv hSt none eStage [eChg1, eChg2] hOut where
  hout := rfl
  synced := synced_with_docs (reload_synced (C10.viewOf_ok _ _) hP0_eq) _
  info := by intro i hi; cases hi
  guard := rfl
  chgOK := eChgOK
  idCanon := by decide +kernel
  blockFresh := by decide +kernel
  packFresh := by
    intro k hk
    have : hOut.packName = some "h15".toList := by decide +kernel
    rw [this] at hk; cases hk
    exact Or.inl (by decide +kernel)
  readable := by
    rw [show applyWrites hKv hOut.writes = hKv' from rfl, hNew]; decide +kernel

/-- the held-back foreign block is still held back after the commit: its pack `zz` is still missing -/
theorem hNU : NoneUnblocked Hlen hKv hSt hOut := by
  intro p hp hb
  have : ∀ p ∈ hSt.p.deltas, p.2 = .blocked → p.1.id = ⟨1, "h12".toList⟩ := by decide +kernel
  rw [this p hp hb]
  exact not_complete_of_missing_pack "zz".toList (by decide +kernel) (by decide +kernel)

/-- **all hypotheses of `commit_reopen` hold of this commit** (non-empty storage, one applied block that
    becomes the parent, one foreign block held back before and after), the reopening `reload` succeeds, and
    the reopened replica agrees with the committing one: new block applied, foreign block held back. -/
example : ∃ r, reload {} (viewOf Hlen hKv') = .ok r ∧
    Agree (hSt.commitDone hOut (newObjectsOf Hlen hKv' hOut)).p r ∧
    statusOf r.deltas hOut.block.id = some .applied ∧
    statusOf r.deltas ⟨1, "h12".toList⟩ = some .blocked ∧
    (treeOf r.docs "u".toList).winner = some eRev2 := by
  obtain ⟨r, hr⟩ := commit_reload_ok hHyps hNU
  have hst : ∀ c, c ∈ [eChg1, eChg2] ↔ c ∈ stagedChanges hSt.p.docs := by
    rw [show stagedChanges hSt.p.docs = [eChg1, eChg2] from by decide +kernel]; exact fun _ => Iff.rfl
  have hvf : ViewFunctional (viewOf Hlen (applyWrites hKv hOut.writes)) :=
    viewFunctional_of_within (cs := [eChg1, eChg2]) (by decide +kernel) (by decide +kernel)
  have hP : ∀ u, ∀ e ∈ entriesOf hSt.p.docs u, eP e.rev := by
    intro u e he
    obtain ⟨p, hp, _, hpe⟩ := (C15.mem_entriesOf_iff hPre.sorted u e).mp he
    have : ∀ p ∈ hSt.p.docs, ∀ e ∈ p.2.entries, eP e.rev := by decide +kernel
    exact this p hp e hpe
  obtain ⟨_, _, ha, hw⟩ := commit_reopen eOrder hHyps hPre hst hNU hvf hP hr
  refine ⟨r, hr, ha, ?_, ?_, ?_⟩
  · rw [← ha.status]; decide +kernel
  · rw [← ha.status]; decide +kernel
  · rw [← (hw "u".toList).2]; decide +kernel


/-! ### `NoneUnblocked` cannot be dropped (DESIGN 6, false alarm 2)

  A foreign replica made the very same edit; its block `X` (= the block of the first example, `1-h49`)
  reached the store, its pack did not: `X` is held back. Our replica makes the same edit (so it writes the
  very same pack, `h15`) and commits with an information member (so its block differs from `X`). All
  hypotheses of a successful commit hold. The pack it writes completes `X`: a replica reopening the store
  applies `X`, the committing replica still holds it back until its next `refresh`. -/

def gKv : KVSpec := KVSpec.empty.write eOut.block.id.key (blockBytes eOut)
def gP0 : PState := okOr (reload {} (viewOf Hlen gKv))
def gSt : DState := { p := { gP0 with docs := [("u".toList, eTree)] }, stage := eStage }
def gOut : DState.CommitOut := DState.commitWrites Hlen gSt (some C11.infoA) eStage [eChg1, eChg2]
def gKv' : KVSpec := applyWrites gKv gOut.writes
def gR : PState := okOr (reload {} (viewOf Hlen gKv'))

theorem gP0_eq : reload {} (viewOf Hlen gKv) = .ok gP0 := okOr_eq (by decide +kernel)
theorem gR_eq : reload {} (viewOf Hlen gKv') = .ok gR := okOr_eq (by decide +kernel)

example : gP0.deltas.map (fun p => (p.1.id, p.2)) = [(eOut.block.id, .blocked)] := by decide +kernel
example : gOut.writes.map (·.1) = ["h15.pack".toList, "1-h68.delta".toList] := by decide +kernel

theorem gHyps : CommitHyps Hlen gKv gSt (some C11.infoA) eStage [eChg1, eChg2] gOut where
  hout := rfl
  synced := synced_with_docs (reload_synced (C10.viewOf_ok _ _) gP0_eq) _
  info := C09.infoA_ok
  guard := by decide
  chgOK := eChgOK
  idCanon := by decide +kernel
  blockFresh := by decide +kernel
  packFresh := by
    intro k hk
    have : gOut.packName = some "h15".toList := by decide +kernel
    rw [this] at hk; cases hk
    exact Or.inl (by decide +kernel)
  readable := by
    rw [show applyWrites gKv gOut.writes = gKv' from rfl,
      show newObjectsOf Hlen gKv' gOut = ["h2".toList, "h10".toList] from by decide +kernel]
    decide +kernel

/-- **`commit_needs_noneUnblocked`**: every other hypothesis of `commitDone_synced` / `commit_reopen` holds,
    yet the committing replica holds `X` back while a reopened replica applies it; so the state after the
    commit is NOT synchronised with the storage, and `NoneUnblocked` fails. -/
theorem commit_needs_noneUnblocked :
    CommitHyps Hlen gKv gSt (some C11.infoA) eStage [eChg1, eChg2] gOut ∧ PreCommit gSt.p ∧
    (∀ c, c ∈ [eChg1, eChg2] ↔ c ∈ stagedChanges gSt.p.docs) ∧
    statusOf (gSt.commitDone gOut (newObjectsOf Hlen gKv' gOut)).p.deltas eOut.block.id = some .blocked ∧
    (∃ r, reload {} (viewOf Hlen gKv') = .ok r ∧ statusOf r.deltas eOut.block.id = some .applied) ∧
    ¬ Synced (viewOf Hlen gKv') (gSt.commitDone gOut (newObjectsOf Hlen gKv' gOut)).p ∧
    ¬ NoneUnblocked Hlen gKv gSt gOut := by
  have h1 : statusOf (gSt.commitDone gOut (newObjectsOf Hlen gKv' gOut)).p.deltas eOut.block.id = some .blocked := by
    decide +kernel
  have h2 : statusOf gR.deltas eOut.block.id = some .applied := by decide +kernel
  have hns : ¬ Synced (viewOf Hlen gKv') (gSt.commitDone gOut (newObjectsOf Hlen gKv' gOut)).p := by
    intro hs
    have := synced_status_unique hs (reload_synced (C10.viewOf_ok _ _) gR_eq) eOut.block.id
    rw [h1, h2] at this
    cases this
  refine ⟨gHyps, ?_, ?_, h1, ⟨gR, gR_eq, h2⟩, hns, fun hnu => hns (commitDone_synced gHyps hnu)⟩
  · exact PreCommit.of_allStaged (by decide +kernel) (by decide +kernel) (by decide +kernel) (by decide +kernel)
      (by decide +kernel) (by decide +kernel)
  · rw [show stagedChanges gSt.p.docs = [eChg1, eChg2] from by decide +kernel]; exact fun _ => Iff.rfl


/-! ### parts 3 and 4 -/

/-- "no mixture" at a crash point / partial meld: only the block of the first example reached the store
    (its pack did not). The store can be opened, and the block is held back, not half applied. -/
example : ∃ r, reload {} (viewOf Hlen (applyWrites KVSpec.empty (eOut.writes.drop 1))) = .ok r ∧
    Synced (viewOf Hlen (applyWrites KVSpec.empty (eOut.writes.drop 1))) r ∧
    statusOf r.deltas eOut.block.id = some .blocked ∧ r.docs = [] := by
  have h := okOr_eq (r := reload {} (viewOf Hlen (applyWrites KVSpec.empty (eOut.writes.drop 1)))) (by decide +kernel)
  exact ⟨_, h, meld_any_subset_no_mixture Hlen _ h, by decide +kernel, by decide +kernel⟩

/-- … and with everything there, `applied_block_has_everything_bytes` applies to the new block -/
example : ∃ r, reload {} (viewOf Hlen eKv) = .ok r ∧ ∃ b, fetchBlock Hlen eKv eOut.block.id = some b ∧
    (∀ k ∈ b.packs, ∃ bytes, eKv.read (k ++ PACK_EXT) = some bytes ∧ Hlen bytes = k) := by
  have h := okOr_eq (r := reload {} (viewOf Hlen eKv)) (by decide +kernel)
  obtain ⟨b, hb, _, _, _, hk, _⟩ := applied_block_has_everything_bytes Hlen eKv h (id := eOut.block.id) (by decide +kernel)
  exact ⟨_, h, b, hb, hk⟩

/-- `reloadUntil_spec` / `reloadUntil_then_reload` on the three-block chain of `C02.vB` (`b1 ← b2 ← b3`, all
    complete): time travel to the anchor `b2` applies `b1` and `b2` and leaves `b3` `ready`; a `reload`
    afterwards applies all three. -/
example : ∃ s, reloadUntil {} C02.vB [C02.i2] = .ok s ∧
    s.deltas.map (fun p => (p.1.id.index, p.2)) = [(1, .applied), (2, .applied), (3, .ready)] ∧
    (∀ id, statusOf s.deltas id = some .applied ↔ C14.Anc (untilDs C02.vB s.objects) [C02.i2] id) ∧
    ∃ s', reload s C02.vB = .ok s' ∧ Synced C02.vB s' := by
  have h := okOr_eq (r := reloadUntil {} C02.vB [C02.i2]) (by decide)
  obtain ⟨⟨s', hs'⟩, hsy⟩ := reloadUntil_then_reload C02.vB_ok h (by simp)
  exact ⟨_, h, by decide, reloadUntil_applied_iff C02.vB_ok h (by simp), s', hs', hsy s' hs'⟩

end Examples

end Melda.Props.C03b

