/-
  C09 — commit and meld are atomic with respect to crashes and write failures.

  A commit issues at most two writes, the pack first and the block last (`commit_write_order`).
  A block becomes visible to a reader (`Complete` in the view of the byte store) only when the block
  item itself is there and passes the hash gate and every pack it names is there and passes the hash
  gate.  Hence: after any proper prefix of the writes (`crash_prefix`), and more generally after any
  selection of the writes that misses one of them (`any_subset_atomic`: reordered, partially failed,
  partially copied by a meld), the new block is not complete; after all of them it is
  (`commit_complete`); and whatever was complete before stays complete throughout
  (`crash_preserves`).  A reopened replica sees the commit entirely or not at all.
  After a failed attempt a retried commit completes (`retry_equiv`, `retry_after_crash`).
-/
import Melda.Props.C11
namespace Melda.Props.C09
open Melda Melda.PState Melda.Props.Proto Melda.Props.JsonRT
open Melda.Props.C11

section
variable {H : Bytes → Str} {st : DState} {info : Option JVal} {objOrder : List (Str × JObj)}
  {chgOrder : List Change} {out : DState.CommitOut}

/-! ### 5. The order of the writes -/

/-- a pack key is never a block key -/
theorem pack_key_ne_block_key (k : Str) (id : BlockId) : k ++ PACK_EXT ≠ id.key := by
  intro e
  have h1 := C10.not_delta_of_pack k
  rw [e, BlockId.key, C10.isSuffix_append] at h1
  cases h1

/-- **`commit_write_order`**: the writes of a commit are `[pack, block]` or `[block]`. The block is the
    last write; if the block names a pack, that pack is the first write, it is the only pack named, and it
    is named by the hash of its bytes; if the block names no pack the block is the only write. -/
theorem commit_write_order (hout : out = DState.commitWrites H st info objOrder chgOrder) :
    out.writes.getLast? = some (out.block.id.key, blockBytes out) ∧
    (∀ k, k ∈ out.block.packs →
      out.block.packs = [k] ∧ k = H (DState.packOf objOrder) ∧
      out.writes = [(k ++ PACK_EXT, DState.packOf objOrder), (out.block.id.key, blockBytes out)]) ∧
    (out.block.packs = [] → out.writes = [(out.block.id.key, blockBytes out)]) ∧
    out.writes.length ≤ 2 := by
  have hw := commit_writes_eq hout
  have hp := (commit_block_members hout).2.1
  have hn := commit_packName hout
  cases hE : objOrder.isEmpty with
  | true =>
    rw [hE] at hn; simp only [if_true] at hn
    rw [hn] at hw hp
    simp only [Option.toList_none, List.map_nil, List.nil_append] at hw hp
    rw [hw, hp]
    simp
  | false =>
    rw [hE] at hn; simp only [Bool.false_eq_true, if_false] at hn
    rw [hn] at hw hp
    simp only [Option.toList_some, List.map_cons, List.map_nil, List.cons_append, List.nil_append] at hw hp
    rw [hw, hp]
    simp

/-- the form the task statement gives: `out.block.packs = [k] → out.writes.head? = some (k ++ ".pack", _)` -/
theorem commit_pack_first (hout : out = DState.commitWrites H st info objOrder chgOrder) (k : Str)
    (hk : out.block.packs = [k]) : out.writes.head? = some (k ++ PACK_EXT, DState.packOf objOrder) := by
  have := ((commit_write_order hout).2.1 k (by rw [hk]; simp)).2.2
  rw [this]; rfl

/-- every write of a commit other than the block write is a pack write -/
theorem writes_cases (hout : out = DState.commitWrites H st info objOrder chgOrder) {w : Str × Bytes}
    (hw : w ∈ out.writes) :
    w = (out.block.id.key, blockBytes out) ∨
      ∃ k, out.packName = some k ∧ out.block.packs = [k] ∧ w = (k ++ PACK_EXT, DState.packOf objOrder) := by
  rw [commit_writes_eq hout, List.mem_append] at hw
  rcases hw with hw | hw
  · right
    cases hp : out.packName with
    | none => rw [hp] at hw; simp at hw
    | some k =>
      rw [hp] at hw
      simp only [Option.toList_some, List.map_cons, List.map_nil, List.mem_singleton] at hw
      exact ⟨k, rfl, by rw [(commit_block_members hout).2.1, hp]; rfl, hw⟩
  · left; simpa using hw

/-- a proper prefix of the writes does not contain the block write -/
theorem prefix_lacks_block (hout : out = DState.commitWrites H st info objOrder chgOrder) {n : Nat}
    (hn : n < out.writes.length) : ∀ w ∈ out.writes.take n, w.1 ≠ out.block.id.key := by
  intro w hw
  rw [commit_writes_eq hout] at hw hn
  simp only [List.length_append, List.length_cons, List.length_nil] at hn
  rw [List.take_append_of_le_length (by omega)] at hw
  have hw' := List.mem_of_mem_take hw
  simp only [List.mem_map] at hw'
  obtain ⟨k, _, rfl⟩ := hw'
  exact pack_key_ne_block_key k _

/-! ### 6. Crash after any prefix; any subset of the writes -/

/-- a block whose item is absent is not complete -/
theorem absent_not_complete {kv : KVSpec} {id : BlockId} (h : kv.read id.key = none) (objs : List Str) :
    ¬ Complete (viewOf H kv) objs id := by
  intro hc
  cases hc with
  | mk _ b _ hf _ _ _ =>
    have : fetchBlock H kv id = none := C10.fetch_absent_none h
    simp only [viewOf] at hf
    rw [this] at hf
    cases hf

/-- **MAIN `crash_prefix`**: if the block key is not in the store before the commit, then after the
    first `n` writes, for every `n` short of all of them, the new block is absent from the view (no
    reader can fetch it) and hence not complete, whatever the object index. -/
theorem crash_prefix (hout : out = DState.commitWrites H st info objOrder chgOrder) {kv : KVSpec}
    (hfresh : kv.read out.block.id.key = none) {n : Nat} (hn : n < out.writes.length) (objs : List Str) :
    (viewOf H (applyWrites kv (out.writes.take n))).fetch out.block.id = none ∧
    ¬ Complete (viewOf H (applyWrites kv (out.writes.take n))) objs out.block.id := by
  have hr : (applyWrites kv (out.writes.take n)).read out.block.id.key = none := by
    rw [read_applyWrites_absent _ _ _ (prefix_lacks_block hout hn)]; exact hfresh
  exact ⟨C10.fetch_absent_none hr, absent_not_complete hr objs⟩

/-- … and no block at all changes in a proper prefix: every identifier fetches exactly what it fetched
    before the commit started (the only item that can have appeared is a pack) -/
theorem crash_prefix_blocks_unchanged (hout : out = DState.commitWrites H st info objOrder chgOrder)
    (kv : KVSpec) {n : Nat} (hn : n < out.writes.length) (id : BlockId) :
    (viewOf H (applyWrites kv (out.writes.take n))).fetch id = (viewOf H kv).fetch id := by
  simp only [viewOf]
  apply C10.fetch_congr
  apply read_applyWrites_absent
  intro w hw
  rcases writes_cases hout (List.mem_of_mem_take hw) with rfl | ⟨k, _, _, rfl⟩
  · exact absurd rfl (prefix_lacks_block hout hn _ hw)
  · exact pack_key_ne_block_key k id

/-- **`crash_preserves`**: every block that was complete before the commit started is complete after any
    prefix (indeed after any selection, in any order) of its writes -/
theorem crash_preserves (kv : KVSpec) (ws : List (Str × Bytes)) {objs : List Str} {id : BlockId}
    (hc : Complete (viewOf H kv) objs id) : Complete (viewOf H (applyWrites kv ws)) objs id :=
  C10.prefix_monotone (store_monotone kv ws) (fun _ h => h) hc

/-- **`any_subset_atomic`**: take ANY list `ws'` of writes drawn from the writes of the commit (any
    order, with repetitions: a reordering backend, a partial failure, a partial copy by `meld`) that
    misses at least one of them. If the block key is new and the pack (when there is one) is not already
    loadable, the new block is not complete in the resulting store. -/
theorem any_subset_atomic (hout : out = DState.commitWrites H st info objOrder chgOrder)
    (hinfo : ∀ i, info = some i → Canon i) (hdep : ∀ i, info = some i → i.depth ≤ MAX_NESTING_DEPTH) {kv : KVSpec}
    (hfresh : kv.read out.block.id.key = none)
    (hpack : ∀ k, out.packName = some k → loadPackBytes H kv k = none)
    (ws' : List (Str × Bytes)) (hsub : ∀ w ∈ ws', w ∈ out.writes)
    (hlack : ∃ w ∈ out.writes, w ∉ ws') (objs : List Str) :
    ¬ Complete (viewOf H (applyWrites kv ws')) objs out.block.id := by
  by_cases hb : (out.block.id.key, blockBytes out) ∈ ws'
  · -- the block is there: the pack is what is missing
    obtain ⟨w, hw, hwn⟩ := hlack
    rcases writes_cases hout hw with rfl | ⟨k, hpn, hpk, rfl⟩
    · exact absurd hb hwn
    · have hread : (applyWrites kv ws').read out.block.id.key = some (blockBytes out) := by
        apply read_applyWrites_present _ _ _ _ hfresh hb
        intro x hx hxk
        rcases writes_cases hout (hsub x hx) with rfl | ⟨k', _, _, rfl⟩
        · rfl
        · exact absurd hxk (pack_key_ne_block_key k' _)
      have hpread : (applyWrites kv ws').read (k ++ PACK_EXT) = kv.read (k ++ PACK_EXT) := by
        apply read_applyWrites_absent
        intro x hx hxk
        rcases writes_cases hout (hsub x hx) with rfl | ⟨k', hpn', _, rfl⟩
        · exact pack_key_ne_block_key k _ hxk.symm
        · rw [hpn] at hpn'; cases hpn'; exact hwn hx
      have hnone : (viewOf H (applyWrites kv ws')).loadPack k = none := by
        simp only [viewOf, Option.map_eq_none_iff]
        rw [C10.pack_congr hpread]
        exact hpack k hpn
      cases hf : (viewOf H (applyWrites kv ws')).fetch out.block.id with
      | none =>
        intro hc
        cases hc with
        | mk _ b _ hf' _ _ _ => rw [hf] at hf'; cases hf'
      | some b' =>
        have hpacks : b'.packs = out.block.packs := block_roundtrip_packs hout hinfo hdep hread hf
        have := C10.block_without_pack_incomplete (objs := objs) hf (k := k) (by rw [hpacks, hpk]; simp) hnone
        rwa [(C10.viewOf_ok H _).fetch_id _ _ hf] at this
  · -- the block is missing
    apply absent_not_complete
    rw [read_applyWrites_absent]
    · exact hfresh
    · intro x hx hxk
      rcases writes_cases hout (hsub x hx) with rfl | ⟨k', _, _, rfl⟩
      · exact hb hx
      · exact pack_key_ne_block_key k' _ hxk

/-! ### 6b. After all the writes the block is complete -/

theorem mem_blockIds {kv : KVSpec} {id : BlockId} (hcan : C10.Canonical id) {bytes : Bytes}
    (hr : kv.read id.key = some bytes) : id ∈ (viewOf H kv).blockIds := by
  simp only [viewOf, List.mem_filterMap]
  exact ⟨id.render, (C17.mem_list_iff kv DELTA_EXT id.render).mpr ⟨bytes, C10.read_mem hr⟩, hcan⟩

/-- a key that was absent and now reads `d` was written with `d` -/
theorem read_applyWrites_mem (kv : KVSpec) (ws : List (Str × Bytes)) (k : Str) (d : Bytes)
    (hfresh : kv.read k = none) (hr : (applyWrites kv ws).read k = some d) : (k, d) ∈ ws := by
  induction ws generalizing kv with
  | nil => simp only [applyWrites_nil] at hr; rw [hfresh] at hr; cases hr
  | cons w ws ih =>
    rw [applyWrites_cons] at hr
    by_cases hk : w.1 = k
    · have h1 : (kv.write w.1 w.2).read k = some w.2 := by
        rw [← hk, C17.read_write_same, hk, hfresh]; rfl
      have h2 := store_monotone _ ws k w.2 h1
      rw [hr] at h2
      cases h2
      rw [← hk]; simp
    · refine List.mem_cons_of_mem _ (ih _ ?_ hr)
      rw [C17.read_write_other _ _ _ _ (fun e => hk e.symm)]; exact hfresh

/-- after all the writes the block key holds the block bytes (unless it held something else before) -/
theorem read_block_after (hout : out = DState.commitWrites H st info objOrder chgOrder) {kv : KVSpec}
    (hfresh : ∀ d, kv.read out.block.id.key = some d → d = blockBytes out) :
    (applyWrites kv out.writes).read out.block.id.key = some (blockBytes out) := by
  cases hr : kv.read out.block.id.key with
  | some d => rw [← hfresh d hr]; exact store_monotone _ _ _ _ hr
  | none =>
    apply read_applyWrites_present _ _ _ _ hr
    · rw [commit_writes_eq hout]; simp
    · intro x hx hxk
      rcases writes_cases hout hx with rfl | ⟨k', _, _, rfl⟩
      · rfl
      · exact absurd hxk (pack_key_ne_block_key k' _)

/-- after all the writes the pack the block names is loadable, if its key was new or already held a
    loadable pack -/
theorem pack_loadable_after (hout : out = DState.commitWrites H st info objOrder chgOrder) {kv : KVSpec}
    {k : Str} (hk : k ∈ out.block.packs)
    (hpack : kv.read (k ++ PACK_EXT) = none ∨ (loadPackBytes H kv k).isSome = true) :
    (loadPackBytes H (applyWrites kv out.writes) k).isSome = true := by
  obtain ⟨_, hkH, hw⟩ := (commit_write_order hout).2.1 k hk
  rcases hpack with hnone | hsome
  · have : (applyWrites kv out.writes).read (k ++ PACK_EXT) = some (DState.packOf objOrder) := by
      apply read_applyWrites_present _ _ _ _ hnone
      · rw [hw]; simp
      · intro x hx hxk
        rw [hw] at hx
        simp only [List.mem_cons, List.mem_nil_iff, or_false] at hx
        rcases hx with rfl | rfl
        · rfl
        · exact absurd hxk.symm (pack_key_ne_block_key k _)
    unfold loadPackBytes
    rw [this]
    simp [← hkH]
  · cases hl : loadPackBytes H kv k with
    | none => rw [hl] at hsome; cases hsome
    | some l => rw [C10.pack_le (store_monotone kv out.writes) hl]; rfl

/-- **`commit_complete`** (the "entirely" half): after ALL the writes of a commit the new block is
    fetched back whole and is complete, provided its anchors were complete, its revisions have readable
    objects, and the keys it writes were new (or already held the very same valid items). -/
theorem commit_complete (hout : out = DState.commitWrites H st info objOrder chgOrder)
    (hinfo : ∀ i, info = some i → Canon i ∧ ∃ o, i = .obj o)
    (hguard : DState.commitRefusesInfo info = false)
    (hanc : ∀ p ∈ st.p.anchors, C10.Canonical p)
    (hchg : ∀ c ∈ chgOrder, ChangeOK H c)
    (hcanId : C10.Canonical out.block.id) {kv : KVSpec}
    (hfresh : ∀ d, kv.read out.block.id.key = some d → d = blockBytes out)
    (hpack : ∀ k, out.packName = some k → kv.read (k ++ PACK_EXT) = none ∨ (loadPackBytes H kv k).isSome = true)
    {objs : List Str} (hpar : ∀ p ∈ st.p.anchors, Complete (viewOf H kv) objs p)
    (hread : changesReadable objs chgOrder = true) :
    (viewOf H (applyWrites kv out.writes)).fetch out.block.id = some out.block ∧
    Complete (viewOf H (applyWrites kv out.writes)) objs out.block.id := by
  have hr := read_block_after hout hfresh
  have hf : (viewOf H (applyWrites kv out.writes)).fetch out.block.id = some out.block :=
    block_roundtrip hout hinfo (Depth.info_depth_of_not_refused hguard (fun i hi => (hinfo i hi).2)) hanc hchg hr
  obtain ⟨h1, h2, h3, _⟩ := commit_block_members hout
  refine ⟨hf, Complete.mk _ out.block (mem_blockIds hcanId hr) hf ?_ ?_ ?_⟩
  · intro p hp
    rw [h1, mem_toSet] at hp
    exact crash_preserves kv out.writes (hpar p hp)
  · rw [List.all_eq_true]
    intro k hk
    have hpn : out.packName = some k := by
      rw [h2] at hk; cases hp : out.packName with
      | none => rw [hp] at hk; simp at hk
      | some k' => rw [hp] at hk; simp at hk; rw [hk]
    have := pack_loadable_after hout hk (hpack k hpn)
    simpa [viewOf] using this
  · rw [h3]; exact hread

/-! ### 7. Retry after a failed commit

  In the model (as in the code) a commit whose block write fails returns an error and leaves the
  staging entries of the trees in place (`Melda/SimDriver.lean`, `commit` / `err` branch: only the data
  stage is emptied when the pack was written, and that pack is indexed). The retried commit therefore
  builds a block with the same change records and the same anchors; it names no pack when the data
  stage is empty. -/

/-- **`retry_equiv`**: the block `b₂` written by a retried commit that writes no pack is complete exactly
    when its anchors are complete and its revisions have readable objects — the objects the failed
    attempt left in its orphan pack count, since every listed loadable pack is indexed. -/
theorem retry_equiv (hout : out = DState.commitWrites H st info [] chgOrder)
    (hinfo : ∀ i, info = some i → Canon i ∧ ∃ o, i = .obj o)
    (hguard : DState.commitRefusesInfo info = false)
    (hanc : ∀ p ∈ st.p.anchors, C10.Canonical p)
    (hchg : ∀ c ∈ chgOrder, ChangeOK H c)
    (hcanId : C10.Canonical out.block.id) {kv₁ : KVSpec}
    (hfresh : ∀ d, kv₁.read out.block.id.key = some d → d = blockBytes out) (objs : List Str) :
    out.writes = [(out.block.id.key, blockBytes out)] ∧
    (Complete (viewOf H (applyWrites kv₁ out.writes)) objs out.block.id ↔
      ((∀ p ∈ st.p.anchors, Complete (viewOf H (applyWrites kv₁ out.writes)) objs p) ∧
        changesReadable objs chgOrder = true)) := by
  have hr := read_block_after hout hfresh
  have hf : (viewOf H (applyWrites kv₁ out.writes)).fetch out.block.id = some out.block :=
    block_roundtrip hout hinfo (Depth.info_depth_of_not_refused hguard (fun i hi => (hinfo i hi).2)) hanc hchg hr
  obtain ⟨h1, h2, h3, _⟩ := commit_block_members hout
  have hpn : out.packName = none := by rw [commit_packName hout]; rfl
  have hpk : out.block.packs = [] := by rw [h2, hpn]; rfl
  refine ⟨(commit_write_order hout).2.2.1 hpk, ?_⟩
  rw [complete_iff (mem_blockIds hcanId hr) hf, h1, h3, hpk]
  simp [mem_toSet]

/-- in a proper prefix of the writes only pack keys are written -/
theorem prefix_only_packs (hout : out = DState.commitWrites H st info objOrder chgOrder) {n : Nat}
    (hn : n < out.writes.length) :
    ∀ w ∈ out.writes.take n, w = (H (DState.packOf objOrder) ++ PACK_EXT, DState.packOf objOrder) := by
  intro w hw
  rcases writes_cases hout (List.mem_of_mem_take hw) with rfl | ⟨k, _, hk, rfl⟩
  · exact absurd rfl (prefix_lacks_block hout hn _ hw)
  · rw [((commit_write_order hout).2.1 k (by rw [hk]; simp)).2.1]

end

/-- **`retry_after_crash`**: a commit `out₁` crashes (or fails) after a proper prefix of its writes; the
    commit is retried (`out₂`: any iteration orders, stage kept or emptied, same anchors). Then in the
    store left by the failed attempt `out₁`'s block is not complete, and after the retry `out₂`'s block
    is — the retry meets no conflict with what the failed attempt left behind. -/
theorem retry_after_crash {H : Bytes → Str} {st₁ st₂ : DState} {info₁ info₂ : Option JVal}
    {objOrder₁ objOrder₂ : List (Str × JObj)} {chgOrder₁ chgOrder₂ : List Change} {out₁ out₂ : DState.CommitOut}
    (hout₁ : out₁ = DState.commitWrites H st₁ info₁ objOrder₁ chgOrder₁)
    (hout₂ : out₂ = DState.commitWrites H st₂ info₂ objOrder₂ chgOrder₂)
    (hinfo : ∀ i, info₂ = some i → Canon i ∧ ∃ o, i = .obj o)
    (hguard : DState.commitRefusesInfo info₂ = false)
    (hanc : ∀ p ∈ st₂.p.anchors, C10.Canonical p)
    (hchg : ∀ c ∈ chgOrder₂, ChangeOK H c)
    (hcanId : C10.Canonical out₂.block.id) {kv : KVSpec}
    (hfresh₁ : kv.read out₁.block.id.key = none)
    (hfresh₂ : kv.read out₂.block.id.key = none)
    (hpack : ∀ k, out₂.packName = some k → kv.read (k ++ PACK_EXT) = none ∨ (loadPackBytes H kv k).isSome = true)
    {n : Nat} (hn : n < out₁.writes.length)
    {objs : List Str} (hpar : ∀ p ∈ st₂.p.anchors, Complete (viewOf H kv) objs p)
    (hread : changesReadable objs chgOrder₂ = true) :
    ¬ Complete (viewOf H (applyWrites kv (out₁.writes.take n))) objs out₁.block.id ∧
    Complete (viewOf H (applyWrites (applyWrites kv (out₁.writes.take n)) out₂.writes)) objs out₂.block.id := by
  refine ⟨(crash_prefix hout₁ hfresh₁ hn objs).2, ?_⟩
  have honly := prefix_only_packs hout₁ hn
  refine (commit_complete hout₂ hinfo hguard hanc hchg hcanId ?_ ?_ (fun p hp => crash_preserves kv _ (hpar p hp)) hread).2
  · intro d hd
    rw [read_applyWrites_absent] at hd
    · rw [hfresh₂] at hd; cases hd
    · intro w hw e
      rw [honly w hw] at e
      exact pack_key_ne_block_key _ _ e
  · intro k hk
    rcases hpack k hk with hnone | hsome
    · cases hr : (applyWrites kv (out₁.writes.take n)).read (k ++ PACK_EXT) with
      | none => exact Or.inl rfl
      | some d =>
        right
        have hm := read_applyWrites_mem _ _ _ _ hnone hr
        have he := honly _ hm
        simp only [Prod.mk.injEq] at he
        obtain ⟨e1, e2⟩ := he
        have hk' : k = H (DState.packOf objOrder₁) := List.append_cancel_right e1
        unfold loadPackBytes
        rw [hr]
        simp [e2, hk']
    · right
      cases hl : loadPackBytes H kv k with
      | none => rw [hl] at hsome; cases hsome
      | some l => rw [C10.pack_le (store_monotone kv _) hl]; rfl

/-- accumulators of `loadPacks` only grow -/
theorem loadPacks_mono (v : View) (skip names objs applied : List Str) {o' a' : List Str}
    (h : loadPacks v skip names objs applied = some (o', a')) : ∀ d ∈ objs, d ∈ o' := by
  induction names generalizing objs applied with
  | nil => simp only [loadPacks] at h; cases h; exact fun _ hd => hd
  | cons k ks ih =>
    simp only [loadPacks] at h
    split at h
    · exact ih _ _ h
    · split at h
      · cases h
      · intro d hd
        exact ih _ _ h d (List.mem_append_left _ hd)

/-- **The objects of an orphan pack are indexed**: `reload` / `refresh` index every listed loadable pack,
    whether or not a block names it — so the revisions of a retried commit are readable from the pack
    the failed attempt left behind. -/
theorem orphan_pack_indexed (v : View) (skip names objs applied : List Str) {o' a' : List Str}
    (h : loadPacks v skip names objs applied = some (o', a')) {k : Str} (hk : k ∈ names)
    (hs : skip.contains k = false) {ds : List Str} (hl : v.loadPack k = some ds) : ∀ d ∈ ds, d ∈ o' := by
  induction names generalizing objs applied with
  | nil => cases hk
  | cons k' ks ih =>
    simp only [loadPacks] at h
    rcases List.mem_cons.mp hk with rfl | hk'
    · rw [hs] at h
      simp only [Bool.false_eq_true, if_false, hl] at h
      intro d hd
      exact loadPacks_mono v skip ks _ _ h d (List.mem_append_right _ hd)
    · split at h
      · exact ih _ _ h hk'
      · split at h
        · cases h
        · exact ih _ _ h hk'

/-! ### Non-vacuity: the theorems applied to a concrete commit

  `C11.outA` is a commit on top of one applied block (`1-h2`, held by `C10.kv0`) with two staged objects,
  two change records and an information member, under the toy hash `C10.Hlen`. -/

section Examples
open C10 (Hlen kv0)
open C11 (stA outA chg1 chg2 infoA)

theorem outA_eq : outA = DState.commitWrites Hlen stA (some infoA)
    [("d".toList, []), ("e".toList, [("a".toList, .null)])] [chg1, chg2] := rfl

theorem infoA_ok : ∀ i, some infoA = some i → Canon i ∧ ∃ o, i = .obj o := by
  intro i hi; cases hi; exact ⟨by simp [infoA, Canon, CanonO, SortedKeys], _, rfl⟩

theorem chgA_ok : ∀ c ∈ [chg1, chg2], ChangeOK Hlen c := by
  intro c hc
  simp only [List.mem_cons, List.mem_nil_iff, or_false] at hc
  rcases hc with rfl | rfl
  · rfl
  · exact ⟨by decide +kernel, rfl⟩

theorem kv0_complete : Complete (viewOf Hlen kv0) ["d".toList, "e".toList] ⟨1, "h2".toList⟩ := by
  have hs : ((viewOf Hlen kv0).fetch ⟨1, "h2".toList⟩).map (fun b => (b.parents, b.packs, b.changes))
      = some ([], [], []) := by decide +kernel
  cases hf : (viewOf Hlen kv0).fetch ⟨1, "h2".toList⟩ with
  | none => rw [hf] at hs; cases hs
  | some b =>
    rw [hf] at hs
    simp only [Option.map_some, Option.some.injEq, Prod.mk.injEq] at hs
    obtain ⟨h1, h2, h3⟩ := hs
    refine Complete.mk _ b (by decide +kernel) hf ?_ ?_ ?_
    · rw [h1]; intro p hp; cases hp
    · rw [h2]; rfl
    · rw [h3]; rfl

example : outA.writes.length = 2 := by decide +kernel
example : kv0.read outA.block.id.key = none := by decide +kernel

theorem packA_fresh : ∀ k, outA.packName = some k → loadPackBytes Hlen kv0 k = none := by
  intro k hk
  have : outA.packName = some "h15".toList := by decide +kernel
  rw [this] at hk; cases hk
  decide +kernel

/-- crash after the pack write: the block is not there -/
example (objs : List Str) : ¬ Complete (viewOf Hlen (applyWrites kv0 (outA.writes.take 1))) objs outA.block.id :=
  (crash_prefix outA_eq (by decide +kernel) (by decide +kernel) objs).2

/-- the block written without (before) its pack is not complete -/
example (objs : List Str) : ¬ Complete (viewOf Hlen (applyWrites kv0 (outA.writes.drop 1))) objs outA.block.id := by
  refine any_subset_atomic outA_eq (fun i hi => (infoA_ok i hi).1) (by intro i hi; cases hi; decide) (by decide +kernel) packA_fresh _
    (fun w hw => List.mem_of_mem_drop hw) ⟨outA.writes.head (by decide +kernel), by decide +kernel, by decide +kernel⟩ objs

/-- after both writes the block is complete -/
example : Complete (viewOf Hlen (applyWrites kv0 outA.writes)) ["d".toList, "e".toList] outA.block.id := by
  refine (commit_complete outA_eq infoA_ok (by decide) (by decide +kernel) chgA_ok (by decide +kernel) ?_ ?_ ?_ (by decide +kernel)).2
  · intro d hd
    have : kv0.read outA.block.id.key = none := by decide +kernel
    rw [this] at hd; cases hd
  · intro k hk
    have : outA.packName = some "h15".toList := by decide +kernel
    rw [this] at hk; cases hk
    exact Or.inl (by decide +kernel)
  · intro p hp
    have : stA.p.anchors = [⟨1, "h2".toList⟩] := by decide +kernel
    rw [this] at hp
    simp only [List.mem_singleton] at hp
    subst hp
    exact kv0_complete

/-- the retried commit (data stage emptied by the failed attempt: no pack) -/
def outR : DState.CommitOut := DState.commitWrites Hlen stA (some infoA) [] [chg1, chg2]

example : Complete (viewOf Hlen (applyWrites (applyWrites kv0 (outA.writes.take 1)) outR.writes))
    ["d".toList, "e".toList] outR.block.id := by
  refine (retry_after_crash (out₁ := outA) (out₂ := outR) outA_eq rfl infoA_ok (by decide) (by decide +kernel) chgA_ok
    (by decide +kernel) (by decide +kernel) (by decide +kernel) ?_ (n := 1) (by decide +kernel) ?_ (by decide +kernel)).2
  · intro k hk
    have : outR.packName = none := by decide +kernel
    rw [this] at hk; cases hk
  · intro p hp
    have : stA.p.anchors = [⟨1, "h2".toList⟩] := by decide +kernel
    rw [this] at hp
    simp only [List.mem_singleton] at hp
    subst hp
    exact kv0_complete

end Examples

end Melda.Props.C09
