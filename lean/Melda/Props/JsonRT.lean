/-
  JSON print/parse round trip (supports C03 / C11 / C13: commit metadata, parents, pack lists and
  every JSON content read back unchanged).
  `JVal.render` is the transcription of `serde_json::to_string`, `parseJson` of `serde_json::from_str`,
  `utf8` / `utf8Decode` of `String::as_bytes` / `std::str::from_utf8`.
-/
import Melda.Json
import Melda.Revision
namespace Melda.Props.JsonRT
open Melda

/-! ### 1. string literals -/

theorem psb_quote (t acc : Str) : parseStrBody ('"' :: t) acc = some (acc.reverse, t) := by
  rw [parseStrBody]
theorem psb_esc_quote (t acc : Str) : parseStrBody ('\\' :: '"' :: t) acc = parseStrBody t ('"' :: acc) := by
  rw [parseStrBody]
theorem psb_esc_bs (t acc : Str) : parseStrBody ('\\' :: '\\' :: t) acc = parseStrBody t ('\\' :: acc) := by
  rw [parseStrBody]
theorem psb_esc_b (t acc : Str) : parseStrBody ('\\' :: 'b' :: t) acc = parseStrBody t (Char.ofNat 8 :: acc) := by
  rw [parseStrBody]
theorem psb_esc_f (t acc : Str) : parseStrBody ('\\' :: 'f' :: t) acc = parseStrBody t (Char.ofNat 12 :: acc) := by
  rw [parseStrBody]
theorem psb_esc_n (t acc : Str) : parseStrBody ('\\' :: 'n' :: t) acc = parseStrBody t (Char.ofNat 10 :: acc) := by
  rw [parseStrBody]
theorem psb_esc_r (t acc : Str) : parseStrBody ('\\' :: 'r' :: t) acc = parseStrBody t (Char.ofNat 13 :: acc) := by
  rw [parseStrBody]
theorem psb_esc_t (t acc : Str) : parseStrBody ('\\' :: 't' :: t) acc = parseStrBody t (Char.ofNat 9 :: acc) := by
  rw [parseStrBody]
theorem psb_plain (c : Char) (t acc : Str) (h1 : c ≠ '"') (h2 : c ≠ '\\') :
    parseStrBody (c :: t) acc = if c.val < 0x20 then none else parseStrBody t (c :: acc) := by
  rw [parseStrBody]
  all_goals simp_all

theorem psb_esc_u (a b c d : Char) (t acc : Str) (n : Nat) (h : hex4v? a b c d = some n) (hn : n < 0xD800) :
    parseStrBody ('\\' :: 'u' :: a :: b :: c :: d :: t) acc = parseStrBody t (Char.ofNat n :: acc) := by
  rw [parseStrBody, h]
  have h1 : ¬ (0xD800 ≤ n) := by omega
  have h2 : ¬ (0xDC00 ≤ n) := by omega
  simp [h1, h2]

theorem hex_ctrl : ∀ n : Fin 32, hex4v? '0' '0' (hexDigitLower (n.val / 16)) (hexDigitLower (n.val % 16)) = some n.val := by
  decide

theorem char_of_val (c : Char) : Char.ofNat c.val.toNat = c := Char.ofNat_toNat c

theorem char_eq_of_val (c : Char) (n : Nat) (h : c.val.toNat = n) : c = Char.ofNat n := by
  rw [← h, char_of_val]

/-- one escaped character is read back as itself -/
theorem parseStrBody_escapeChar (c : Char) (t acc : Str) :
    parseStrBody (escapeChar c ++ t) acc = parseStrBody t (c :: acc) := by
  unfold escapeChar
  split
  · next h => subst h; exact psb_esc_quote t acc
  · next h1 =>
    split
    · next h => subst h; exact psb_esc_bs t acc
    · next h2 =>
      split
      · next hlt =>
        have hlt' : c.val.toNat < 32 := by simpa [UInt32.lt_iff_toNat_lt] using hlt
        split
        · next h => rw [char_eq_of_val c 8 (by simp [h])]; exact psb_esc_b t acc
        · split
          · next h => rw [char_eq_of_val c 9 (by simp [h])]; exact psb_esc_t t acc
          · split
            · next h => rw [char_eq_of_val c 10 (by simp [h])]; exact psb_esc_n t acc
            · split
              · next h => rw [char_eq_of_val c 12 (by simp [h])]; exact psb_esc_f t acc
              · split
                · next h => rw [char_eq_of_val c 13 (by simp [h])]; exact psb_esc_r t acc
                · have := hex_ctrl ⟨c.val.toNat, hlt'⟩
                  simp only [List.cons_append, List.nil_append]
                  rw [psb_esc_u _ _ _ _ t acc _ this (by show c.val.toNat < _; omega)]
                  show parseStrBody t (Char.ofNat c.val.toNat :: acc) = _
                  rw [char_of_val]
      · next hge =>
        simp only [List.cons_append, List.nil_append]
        rw [psb_plain c t acc h1 h2, if_neg hge]

/-- **1.** the body of a rendered string literal is read back exactly, for every text -/
theorem parseStrBody_render (s : Str) (rest acc : Str) :
    parseStrBody (s.flatMap escapeChar ++ '"' :: rest) acc = some (acc.reverse ++ s, rest) := by
  induction s generalizing acc with
  | nil => simp [psb_quote]
  | cons c s ih =>
    simp only [List.flatMap_cons, List.append_assoc]
    rw [parseStrBody_escapeChar, ih]
    simp


/-! ### 3. sorted objects -/

theorem strLt_irrefl (a : Str) : strLt a a = false := by
  induction a with
  | nil => rfl
  | cons c t ih => simp [strLt, ih]

theorem strLt_asymm : ∀ (a b : Str), strLt a b = true → strLt b a = false
  | [], [], h => by simp [strLt] at h
  | [], _ :: _, _ => by simp [strLt]
  | _ :: _, [], h => by simp [strLt] at h
  | a :: as, b :: bs, h => by
    simp only [strLt] at h ⊢
    by_cases h1 : a.val < b.val
    · have : ¬ b.val < a.val := by
        simp only [UInt32.lt_iff_toNat_lt] at *; omega
      simp [this, h1]
    · by_cases h2 : b.val < a.val
      · simp [h1, h2] at h
      · simp [h1, h2] at h ⊢; exact strLt_asymm as bs h

theorem strLt_ne {a b : Str} (h : strLt a b = true) : a ≠ b := by
  intro e; subst e; rw [strLt_irrefl] at h; cases h

/-- keys strictly increasing (`BTreeMap` iteration order); implies duplicate-free -/
def SortedKeys (o : JObj) : Prop := o.Pairwise (fun a b => strLt a.1 b.1 = true)

/-- **3.** inserting a key greater than every present key appends -/
theorem objInsert_sorted_append (k : Str) (v : JVal) (acc : JObj)
    (h : ∀ p ∈ acc, strLt p.1 k = true) : objInsert k v acc = acc ++ [(k, v)] := by
  induction acc with
  | nil => rfl
  | cons x xs ih =>
    obtain ⟨k', v'⟩ := x
    have hk : strLt k' k = true := h (k', v') (by simp)
    have hne : ¬ k = k' := fun e => strLt_ne hk e.symm
    have hnlt : strLt k k' = false := strLt_asymm _ _ hk
    simp only [objInsert, hne, hnlt, if_false, List.cons_append, Bool.false_eq_true]
    rw [ih (fun p hp => h p (List.mem_cons_of_mem _ hp))]

theorem sortedKeys_nodup (o : JObj) (h : SortedKeys o) : (o.map (·.1)).Nodup := by
  unfold SortedKeys at h
  rw [List.Nodup, List.pairwise_map]
  exact h.imp (fun hab => strLt_ne hab)

theorem sortedKeys_append_singleton (acc : JObj) (k : Str) (v : JVal)
   (h : SortedKeys acc) (hk : ∀ p ∈ acc, strLt p.1 k = true) : SortedKeys (acc ++ [(k, v)]) := by
  unfold SortedKeys at *
  rw [List.pairwise_append]
  refine ⟨h, by simp, ?_⟩
  intro a ha b hb
  simp at hb; subst hb; exact hk a ha

/-! ### 5. UTF-8 -/

theorem cont_mask : ∀ x : Fin 64, UInt8.ofNat (x.val + 0x80) &&& 0xC0 = 0x80 := by decide

theorem cont_mask' (x : Nat) (h : x < 64) : UInt8.ofNat (x + 0x80) &&& 0xC0 = 0x80 := cont_mask ⟨x, h⟩

theorem toNat_ofNat_lt (x : Nat) (h : x < 256) : (UInt8.ofNat x).toNat = x := by
  rw [UInt8.toNat_ofNat']; omega

theorem dec1 (b0 : UInt8) (t : Bytes) (h : b0.toNat < 128) :
    utf8Decode (b0 :: t) = (utf8Decode t).map (Char.ofNat b0.toNat :: ·) := by
  have : b0 < 0x80 := by rw [UInt8.lt_iff_toNat_lt]; exact h
  rw [utf8Decode.eq_def]; simp only [if_pos this]

theorem dec2 (b0 b1 : UInt8) (t : Bytes) (h1 : 0xC2 ≤ b0.toNat) (h2 : b0.toNat < 0xE0)
    (h3 : b1 &&& 0xC0 = 0x80) :
    utf8Decode (b0 :: b1 :: t) =
      (utf8Decode t).map (Char.ofNat ((b0.toNat % 32) * 64 + b1.toNat % 64) :: ·) := by
  have a1 : ¬ b0 < 0x80 := by rw [UInt8.lt_iff_toNat_lt]; simp; omega
  have a2 : ¬ b0 < 0xC2 := by rw [UInt8.lt_iff_toNat_lt]; simp; omega
  have a3 : b0 < 0xE0 := by rw [UInt8.lt_iff_toNat_lt]; simpa using h2
  rw [utf8Decode, if_neg a1, if_neg a2, if_pos a3]
  simp only [h3, if_true]

theorem dec3 (b0 b1 b2 : UInt8) (t : Bytes) (h1 : 0xE0 ≤ b0.toNat) (h2 : b0.toNat < 0xF0)
    (h3 : b1 &&& 0xC0 = 0x80) (h4 : b2 &&& 0xC0 = 0x80) (n : Nat)
    (hn : n = ((b0.toNat % 16) * 64 + b1.toNat % 64) * 64 + b2.toNat % 64)
    (h5 : 0x800 ≤ n) (h6 : ¬ (0xD800 ≤ n ∧ n < 0xE000)) :
    utf8Decode (b0 :: b1 :: b2 :: t) = (utf8Decode t).map (Char.ofNat n :: ·) := by
  have a1 : ¬ b0 < 0x80 := by rw [UInt8.lt_iff_toNat_lt]; simp; omega
  have a2 : ¬ b0 < 0xC2 := by rw [UInt8.lt_iff_toNat_lt]; simp; omega
  have a3 : ¬ b0 < 0xE0 := by rw [UInt8.lt_iff_toNat_lt]; simp; omega
  have a4 : b0 < 0xF0 := by rw [UInt8.lt_iff_toNat_lt]; simpa using h2
  rw [utf8Decode, if_neg a1, if_neg a2, if_neg a3, if_pos a4]
  subst hn
  simp only [h3, h4]
  simp [h5, h6]

theorem dec4 (b0 b1 b2 b3 : UInt8) (t : Bytes) (h1 : 0xF0 ≤ b0.toNat) (h2 : b0.toNat < 0xF5)
    (h3 : b1 &&& 0xC0 = 0x80) (h4 : b2 &&& 0xC0 = 0x80) (h4' : b3 &&& 0xC0 = 0x80) (n : Nat)
    (hn : n = (((b0.toNat % 8) * 64 + b1.toNat % 64) * 64 + b2.toNat % 64) * 64 + b3.toNat % 64)
    (h5 : 0x10000 ≤ n) (h6 : n < 0x110000) :
    utf8Decode (b0 :: b1 :: b2 :: b3 :: t) = (utf8Decode t).map (Char.ofNat n :: ·) := by
  have a1 : ¬ b0 < 0x80 := by rw [UInt8.lt_iff_toNat_lt]; simp; omega
  have a2 : ¬ b0 < 0xC2 := by rw [UInt8.lt_iff_toNat_lt]; simp; omega
  have a3 : ¬ b0 < 0xE0 := by rw [UInt8.lt_iff_toNat_lt]; simp; omega
  have a3' : ¬ b0 < 0xF0 := by rw [UInt8.lt_iff_toNat_lt]; simp; omega
  have a4 : b0 < 0xF5 := by rw [UInt8.lt_iff_toNat_lt]; simpa using h2
  rw [utf8Decode, if_neg a1, if_neg a2, if_neg a3, if_neg a3', if_pos a4]
  subst hn
  simp only [h3, h4, h4']
  simp [h5, h6]

theorem char_valid_nat (c : Char) : c.val.toNat < 0xD800 ∨ (0xDFFF < c.val.toNat ∧ c.val.toNat < 0x110000) := by
  have := c.valid
  simpa [UInt32.isValidChar, Nat.isValidChar] using this

theorem utf8Decode_encodeChar (c : Char) (t : Bytes) :
    utf8Decode (String.utf8EncodeChar c ++ t) = (utf8Decode t).map (c :: ·) := by
  have hv := char_valid_nat c
  have hc : ∀ n, n = c.val.toNat → Char.ofNat n = c := fun n h => by rw [h]; exact Char.ofNat_toNat c
  unfold String.utf8EncodeChar
  generalize c.val.toNat = v at hv hc
  simp only []
  split
  · next h1 =>
    simp only [List.cons_append, List.nil_append]
    rw [dec1 _ _ (by rw [toNat_ofNat_lt _ (by omega)]; omega), toNat_ofNat_lt _ (by omega), hc v rfl]
  · next h1 =>
    split
    · next h2 =>
      simp only [List.cons_append, List.nil_append]
      rw [dec2 _ _ _ (by rw [toNat_ofNat_lt _ (by omega)]; omega)
        (by rw [toNat_ofNat_lt _ (by omega)]; omega) (cont_mask' _ (by omega)),
        toNat_ofNat_lt _ (by omega), toNat_ofNat_lt _ (by omega), hc _ (by omega)]
    · next h2 =>
      split
      · next h3 =>
        simp only [List.cons_append, List.nil_append]
        rw [dec3 _ _ _ _ (by rw [toNat_ofNat_lt _ (by omega)]; omega)
          (by rw [toNat_ofNat_lt _ (by omega)]; omega) (cont_mask' _ (by omega)) (cont_mask' _ (by omega))
          v (by rw [toNat_ofNat_lt _ (by omega), toNat_ofNat_lt _ (by omega), toNat_ofNat_lt _ (by omega)]; omega)
          (by omega) (by omega), hc v rfl]
      · next h3 =>
        simp only [List.cons_append, List.nil_append]
        rw [dec4 _ _ _ _ _ (by rw [toNat_ofNat_lt _ (by omega)]; omega)
          (by rw [toNat_ofNat_lt _ (by omega)]; omega) (cont_mask' _ (by omega)) (cont_mask' _ (by omega))
          (cont_mask' _ (by omega))
          v (by rw [toNat_ofNat_lt _ (by omega), toNat_ofNat_lt _ (by omega), toNat_ofNat_lt _ (by omega), toNat_ofNat_lt _ (by omega)]; omega)
          (by omega) (by omega), hc v rfl]

/-- **5.** strict UTF-8 decoding inverts encoding, for every text -/
theorem utf8Decode_utf8 (s : Str) : utf8Decode (utf8 s) = some s := by
  induction s with
  | nil => simp [utf8, utf8Decode]
  | cons c s ih =>
    have : utf8 (c :: s) = String.utf8EncodeChar c ++ utf8 s := by simp [utf8]
    rw [this, utf8Decode_encodeChar, ih]; rfl

/-! ### 2. canonical values -/


/-- what can follow a value in rendered JSON: end of text, `,`, `]`, `}` -/
def NumStop : Str → Prop
  | [] => True
  | c :: _ => c = ',' ∨ c = ']' ∨ c = '}'

/-- a number token that the number grammar reads back whole -/
def NumTok (tok : Str) : Prop := ∀ rest, NumStop rest → parseNum (tok ++ rest) = some (tok, rest)

mutual
def Canon : JVal → Prop
  | .null => True
  | .bool _ => True
  | .num tok => NumTok tok
  | .str _ => True
  | .arr l => CanonL l
  | .obj o => SortedKeys o ∧ CanonO o
def CanonL : List JVal → Prop
  | [] => True
  | v :: t => Canon v ∧ CanonL t
def CanonO : JObj → Prop
  | [] => True
  | (_, v) :: t => Canon v ∧ CanonO t
end

theorem numStop_cases {rest : Str} (h : NumStop rest) :
    rest = [] ∨ ∃ c t, rest = c :: t ∧ (c = ',' ∨ c = ']' ∨ c = '}') := by
  cases rest with
  | nil => exact Or.inl rfl
  | cons c t => exact Or.inr ⟨c, t, rfl, h⟩

theorem numTok_ex1 : NumTok "-12.5e+3".toList := by
  intro rest h
  rcases numStop_cases h with rfl | ⟨c, t, rfl, rfl | rfl | rfl⟩ <;>
    simp [parseNum, takeDigits, isDigit]
theorem numTok_ex2 : NumTok "0".toList := by
  intro rest h
  rcases numStop_cases h with rfl | ⟨c, t, rfl, rfl | rfl | rfl⟩ <;>
    simp [parseNum, takeDigits, isDigit]
theorem numTok_ex3 : NumTok "18446744073709551615".toList := by
  intro rest h
  rcases numStop_cases h with rfl | ⟨c, t, rfl, rfl | rfl | rfl⟩ <;>
    simp [parseNum, takeDigits, isDigit]

/-! ### main round trip -/

theorem skipWs_nonws (c : Char) (t : Str) (h : isWs c = false) : skipWs (c :: t) = c :: t := by
  simp [skipWs, h]

/-- first characters of rendered canonical values -/
def HeadOk (c : Char) : Prop :=
  c = 'n' ∨ c = 't' ∨ c = 'f' ∨ c = '"' ∨ c = '[' ∨ c = '{' ∨ c = '-' ∨ isDigit c = true

theorem isDigit_not_ws (c : Char) (h : isDigit c = true) : isWs c = false ∧ c ≠ ']' ∧ c ≠ '}' := by
  simp only [isDigit, Bool.and_eq_true, decide_eq_true_eq, UInt32.le_iff_toNat_le] at h
  refine ⟨?_, ?_, ?_⟩
  · simp only [isWs, Bool.or_eq_false_iff, decide_eq_false_iff_not]
    refine ⟨⟨⟨?_, ?_⟩, ?_⟩, ?_⟩ <;> (intro e; subst e; revert h; decide)
  all_goals (intro e; subst e; revert h; decide)

theorem headOk_props {c : Char} (h : HeadOk c) : isWs c = false ∧ c ≠ ']' ∧ c ≠ '}' := by
  rcases h with rfl | rfl | rfl | rfl | rfl | rfl | rfl | h
  all_goals first | exact isDigit_not_ws _ h | decide

theorem numTok_head {tok : Str} (h : NumTok tok) :
    ∃ c t, tok = c :: t ∧ (c = '-' ∨ isDigit c = true) := by
  have h0 := h [] trivial
  rw [List.append_nil] at h0
  cases tok with
  | nil => simp [parseNum, takeDigits] at h0
  | cons c t =>
    refine ⟨c, t, rfl, ?_⟩
    by_cases hm : c = '-'
    · exact Or.inl hm
    · by_cases hd : isDigit c = true
      · exact Or.inr hd
      · exfalso
        simp [parseNum, takeDigits, hd] at h0
        split at h0
        · next heq => simp at heq; exact hm heq.1
        · next heq => simp [takeDigits, hd] at h0

theorem render_head : ∀ v : JVal, Canon v → ∃ c t, v.render = c :: t ∧ HeadOk c
  | .null, _ => ⟨'n', _, rfl, by simp [HeadOk]⟩
  | .bool true, _ => ⟨'t', _, rfl, by simp [HeadOk]⟩
  | .bool false, _ => ⟨'f', _, rfl, by simp [HeadOk]⟩
  | .num tok, h => by
    simp only [Canon] at h
    obtain ⟨c, t, e, hc⟩ := numTok_head h
    exact ⟨c, t, by simp [JVal.render, e], by rcases hc with hc | hc <;> simp [HeadOk, hc]⟩
  | .str s, _ => ⟨'"', _, rfl, by simp [HeadOk]⟩
  | .arr [], _ => ⟨'[', _, rfl, by simp [HeadOk]⟩
  | .arr (_ :: _), _ => ⟨'[', _, by simp [JVal.render]; rfl, by simp [HeadOk]⟩
  | .obj [], _ => ⟨'{', _, rfl, by simp [HeadOk]⟩
  | .obj ((_, _) :: _), _ => ⟨'{', _, by simp [JVal.render]; rfl, by simp [HeadOk]⟩

theorem isDigit_cases (c : Char) (h : isDigit c = true) :
    c ≠ 'n' ∧ c ≠ 't' ∧ c ≠ 'f' ∧ c ≠ '"' ∧ c ≠ '[' ∧ c ≠ '{' ∧ isWs c = false := by
  simp only [isDigit, Bool.and_eq_true, decide_eq_true_eq, UInt32.le_iff_toNat_le] at h
  refine ⟨?_, ?_, ?_, ?_, ?_, ?_, ?_⟩
  case refine_7 =>
    simp only [isWs, Bool.or_eq_false_iff, decide_eq_false_iff_not]
    refine ⟨⟨⟨?_, ?_⟩, ?_⟩, ?_⟩ <;> (intro e; subst e; revert h; decide)
  all_goals (intro e; subst e; revert h; decide)

theorem parseVal_num_head (fuel : Nat) (c : Char) (t : Str) (hc : c = '-' ∨ isDigit c = true) :
    parseVal (fuel + 1) (c :: t) = (parseNum (c :: t)).map (fun (x, r) => (.num x, r)) := by
  rcases hc with rfl | hd
  · simp [parseVal, skipWs, isWs]
  · obtain ⟨h1, h2, h3, h4, h5, h6, h7⟩ := isDigit_cases c hd
    rw [parseVal]
    simp only [skipWs, h7]
    split <;> simp_all

theorem parseVal_arr_head (fuel : Nat) (c : Char) (t : Str) (h1 : isWs c = false) (h2 : c ≠ ']') :
    parseVal (fuel + 1) ('[' :: c :: t) = parseElems fuel (c :: t) [] := by
  have hs : skipWs (c :: t) = c :: t := by simp [skipWs, h1]
  have hb : skipWs ('[' :: c :: t) = '[' :: c :: t := by simp [skipWs, isWs]
  rw [parseVal]
  simp only [hb, hs]
  split <;> simp_all

theorem parseVal_obj_head (fuel : Nat) (t : Str) :
    parseVal (fuel + 1) ('{' :: '"' :: t) = parseMembers fuel ('"' :: t) [] := by
  simp [parseVal, skipWs, isWs]

theorem parseElems_comma (fuel : Nat) (s t' : Str) (v : JVal) (acc : List JVal)
    (h : parseVal fuel s = some (v, ',' :: t')) :
    parseElems (fuel + 1) s acc = parseElems fuel t' (v :: acc) := by
  simp [parseElems, h, skipWs, isWs]

theorem parseElems_end (fuel : Nat) (s t' : Str) (v : JVal) (acc : List JVal)
    (h : parseVal fuel s = some (v, ']' :: t')) :
    parseElems (fuel + 1) s acc = some (.arr (v :: acc).reverse, t') := by
  simp [parseElems, h, skipWs, isWs]

theorem parseMembers_comma (fuel : Nat) (t t2 t4 : Str) (k : Str) (v : JVal) (acc : JObj)
    (hk : parseStrBody t [] = some (k, ':' :: t2)) (h : parseVal fuel t2 = some (v, ',' :: t4)) :
    parseMembers (fuel + 1) ('"' :: t) acc = parseMembers fuel t4 (objInsert k v acc) := by
  simp [parseMembers, h, hk, skipWs, isWs]

theorem parseMembers_end (fuel : Nat) (t t2 t4 : Str) (k : Str) (v : JVal) (acc : JObj)
    (hk : parseStrBody t [] = some (k, ':' :: t2)) (h : parseVal fuel t2 = some (v, '}' :: t4)) :
    parseMembers (fuel + 1) ('"' :: t) acc = some (.obj (objInsert k v acc), t4) := by
  simp [parseMembers, h, hk, skipWs, isWs]

/-! ### 4. main theorem -/

/-- the continuation after a value only matters for numbers -/
def RestOk : JVal → Str → Prop
  | .num _, rest => NumStop rest
  | _, _ => True

theorem restOk_of_numStop (v : JVal) {rest : Str} (h : NumStop rest) : RestOk v rest := by
  cases v <;> simp [RestOk, h]

theorem renderTail_pos (t : List JVal) : 1 ≤ (JVal.renderTail t).length := by
  cases t <;> simp [JVal.renderTail]
theorem renderOTail_pos (t : JObj) : 1 ≤ (JVal.renderOTail t).length := by
  cases t with
  | nil => simp [JVal.renderOTail]
  | cons p t => obtain ⟨k, v⟩ := p; simp [JVal.renderOTail]

theorem numStop_renderTail (t : List JVal) (r : Str) : NumStop (JVal.renderTail t ++ r) := by
  cases t <;> simp [JVal.renderTail, NumStop]
theorem numStop_renderOTail (t : JObj) (r : Str) : NumStop (JVal.renderOTail t ++ r) := by
  cases t with
  | nil => simp [JVal.renderOTail, NumStop]
  | cons p t => obtain ⟨k, v⟩ := p; simp [JVal.renderOTail, NumStop]

theorem render_pos (v : JVal) (h : Canon v) : 1 ≤ v.render.length := by
  obtain ⟨c, t, e, _⟩ := render_head v h
  simp [e]

/-- the three statements proved together by induction on the fuel -/
def RT (fuel : Nat) : Prop :=
  (∀ v rest, Canon v → RestOk v rest → v.render.length ≤ fuel →
      parseVal fuel (v.render ++ rest) = some (v, rest)) ∧
  (∀ v t acc rest, Canon v → CanonL t → v.render.length + (JVal.renderTail t).length ≤ fuel →
      parseElems fuel (v.render ++ (JVal.renderTail t ++ rest)) acc
        = some (.arr (acc.reverse ++ v :: t), rest)) ∧
  (∀ k v t acc rest, Canon v → CanonO t → SortedKeys (acc ++ (k, v) :: t) →
      v.render.length + (JVal.renderOTail t).length ≤ fuel →
      parseMembers fuel (renderStr k ++ ':' :: (v.render ++ (JVal.renderOTail t ++ rest))) acc
        = some (.obj (acc ++ (k, v) :: t), rest))

theorem rt_zero : RT 0 := by
  refine ⟨?_, ?_, ?_⟩
  · intro v rest hc _ hf; have := render_pos v hc; omega
  · intro v t acc rest hc _ hf; have := render_pos v hc; omega
  · intro k v t acc rest hc _ _ hf; have := render_pos v hc; omega

theorem rt_val (fuel : Nat) (ih : RT fuel) (v : JVal) (rest : Str) (hc : Canon v)
    (hr : RestOk v rest) (hf : v.render.length ≤ fuel + 1) :
    parseVal (fuel + 1) (v.render ++ rest) = some (v, rest) := by
  obtain ⟨_, ihB, ihC⟩ := ih
  cases v with
  | null => simp [JVal.render, parseVal, skipWs, isWs]
  | bool b => cases b <;> simp [JVal.render, parseVal, skipWs, isWs]
  | num tok =>
    simp only [Canon] at hc
    obtain ⟨c, t, e, hd⟩ := numTok_head hc
    have := hc rest hr
    simp only [JVal.render]
    rw [e, List.cons_append, parseVal_num_head _ _ _ hd, ← List.cons_append, ← e, this]
    rfl
  | str s =>
    simp only [JVal.render, renderStr, List.cons_append, List.append_assoc]
    simp [parseVal, skipWs, isWs, parseStrBody_render]
  | arr l =>
    cases l with
    | nil => simp [JVal.render, parseVal, skipWs, isWs]
    | cons v t =>
      simp only [Canon, CanonL] at hc
      obtain ⟨c, t', e, hh⟩ := render_head v hc.1
      obtain ⟨h1, h2, _⟩ := headOk_props hh
      have hB := ihB v t [] rest hc.1 hc.2 (by simp [JVal.render] at hf; omega)
      simp only [JVal.render, List.cons_append, List.append_assoc]
      rw [e, List.cons_append, parseVal_arr_head _ _ _ h1 h2, ← List.cons_append, ← e, hB]
      simp
  | obj o =>
    cases o with
    | nil => simp [JVal.render, parseVal, skipWs, isWs]
    | cons p t =>
      obtain ⟨k, v⟩ := p
      simp only [Canon, CanonO] at hc
      have hC := ihC k v t [] rest hc.2.1 hc.2.2 (by simpa using hc.1)
        (by simp [JVal.render] at hf; omega)
      simp only [JVal.render, List.cons_append, List.append_assoc]
      have e : ∀ x, renderStr k ++ x = '"' :: (k.flatMap escapeChar ++ '"' :: x) := by
        intro x; simp [renderStr]
      rw [e, parseVal_obj_head, ← e, hC]
      simp

theorem rt_elems (fuel : Nat) (ih : RT fuel) (v : JVal) (t : List JVal) (acc : List JVal) (rest : Str)
    (hc : Canon v) (ht : CanonL t)
    (hf : v.render.length + (JVal.renderTail t).length ≤ fuel + 1) :
    parseElems (fuel + 1) (v.render ++ (JVal.renderTail t ++ rest)) acc
      = some (.arr (acc.reverse ++ v :: t), rest) := by
  obtain ⟨ihA, ihB, _⟩ := ih
  have hv := ihA v (JVal.renderTail t ++ rest) hc (restOk_of_numStop v (numStop_renderTail t rest))
    (by have := renderTail_pos t; omega)
  cases t with
  | nil =>
    simp only [JVal.renderTail, List.cons_append, List.nil_append] at hv ⊢
    rw [parseElems_end _ _ _ _ _ hv]; simp
  | cons v' t' =>
    simp only [CanonL] at ht
    simp only [JVal.renderTail, List.cons_append, List.append_assoc] at hv hf ⊢
    rw [parseElems_comma _ _ _ _ _ hv, ihB v' t' (v :: acc) rest ht.1 ht.2 (by simp at hf; omega)]
    simp

theorem rt_members (fuel : Nat) (ih : RT fuel) (k : Str) (v : JVal) (t : JObj) (acc : JObj) (rest : Str)
    (hc : Canon v) (ht : CanonO t) (hs : SortedKeys (acc ++ (k, v) :: t))
    (hf : v.render.length + (JVal.renderOTail t).length ≤ fuel + 1) :
    parseMembers (fuel + 1) (renderStr k ++ ':' :: (v.render ++ (JVal.renderOTail t ++ rest))) acc
      = some (.obj (acc ++ (k, v) :: t), rest) := by
  obtain ⟨ihA, _, ihC⟩ := ih
  have hv := ihA v (JVal.renderOTail t ++ rest) hc (restOk_of_numStop v (numStop_renderOTail t rest))
    (by have := renderOTail_pos t; omega)
  have hins : objInsert k v acc = acc ++ [(k, v)] := by
    apply objInsert_sorted_append
    intro p hp
    unfold SortedKeys at hs
    exact (List.pairwise_append.mp hs).2.2 p hp (k, v) (by simp)
  have hk : ∀ x, parseStrBody (k.flatMap escapeChar ++ '"' :: x) [] = some (k, x) := by
    intro x; simpa using parseStrBody_render k x []
  have e : ∀ x, renderStr k ++ x = '"' :: (k.flatMap escapeChar ++ '"' :: x) := by
    intro x; simp [renderStr]
  cases t with
  | nil =>
    simp only [JVal.renderOTail, List.cons_append, List.nil_append] at hv ⊢
    rw [e, parseMembers_end _ _ _ _ _ _ _ (hk _) hv, hins]
  | cons p t' =>
    obtain ⟨k', v'⟩ := p
    simp only [CanonO] at ht
    simp only [JVal.renderOTail, List.cons_append, List.append_assoc] at hv hf ⊢
    rw [e, parseMembers_comma _ _ _ _ _ _ _ (hk _) hv, hins,
      ihC k' v' t' (acc ++ [(k, v)]) rest ht.1 ht.2 (by simpa using hs) (by simp at hf; omega)]
    simp

theorem rt_all : ∀ fuel, RT fuel
  | 0 => rt_zero
  | fuel + 1 => by
    have ih := rt_all fuel
    exact ⟨fun v rest hc hr hf => rt_val fuel ih v rest hc hr hf,
      fun v t acc rest hc ht hf => rt_elems fuel ih v t acc rest hc ht hf,
      fun k v t acc rest hc ht hs hf => rt_members fuel ih k v t acc rest hc ht hs hf⟩

/-- **4. MAIN**: parsing the rendering of a canonical value, followed by anything that can follow a
    value (only constrained after a number), returns the value and the continuation.
    Sufficient fuel: the length of the rendering. -/
theorem parse_render (v : JVal) (hc : Canon v) (rest : Str) (fuel : Nat)
    (hf : v.render.length ≤ fuel) (hr : RestOk v rest) :
    parseVal fuel (v.render ++ rest) = some (v, rest) :=
  (rt_all fuel).1 v rest hc hr hf

/-- `serde_json::from_str (serde_json::to_string v) = v` -/
theorem parseJson_render (v : JVal) (hc : Canon v) : parseJson v.render = some v := by
  have := parse_render v hc [] (v.render.length + 1) (by omega) (restOk_of_numStop v trivial)
  rw [List.append_nil] at this
  simp [parseJson, this, skipWs]

/-- the real parser (recursion limit 128) reads the rendering of a canonical value nested less than 128 levels -/
theorem parseJsonLim_render (v : JVal) (hc : Canon v) (hd : v.depth < RECURSION_LIMIT) :
    parseJsonLim v.render = some v := by
  simp [parseJsonLim, parseJson_render v hc, hd]

/-- ... and refuses the rendering of EVERY value nested 128 levels or more: what the serialiser writes
    without complaint is then lost (the defect D21) -/
theorem parseJsonLim_render_deep (v : JVal) (hc : Canon v) (hd : RECURSION_LIMIT ≤ v.depth) :
    parseJsonLim v.render = none := by
  simp [parseJsonLim, parseJson_render v hc, Nat.not_lt.mpr hd]

/-- below the limit the two parsers are the same function -/
theorem parseJsonLim_eq {s : Str} {v : JVal} (h : parseJson s = some v) (hd : v.depth < RECURSION_LIMIT) :
    parseJsonLim s = some v := by
  simp [parseJsonLim, h, hd]

theorem parseJsonLim_some {s : Str} {v : JVal} (h : parseJsonLim s = some v) :
    parseJson s = some v ∧ v.depth < RECURSION_LIMIT := by
  unfold parseJsonLim at h
  split at h
  · next w hw =>
    split at h
    · next hd => cases h; exact ⟨hw, hd⟩
    · cases h
  · cases h

/-- stored bytes of a canonical value nested less than 128 levels parse back to the value -/
theorem parseJsonBytes_renderBytes (v : JVal) (hc : Canon v) (hd : v.depth < RECURSION_LIMIT) :
    parseJsonBytes v.renderBytes = some v := by
  simp [parseJsonBytes, JVal.renderBytes, utf8Decode_utf8, parseJsonLim_render v hc hd]

/-- stored bytes of a value nested 128 levels or more are unreadable -/
theorem parseJsonBytes_renderBytes_deep (v : JVal) (hc : Canon v) (hd : RECURSION_LIMIT ≤ v.depth) :
    parseJsonBytes v.renderBytes = none := by
  simp [parseJsonBytes, JVal.renderBytes, utf8Decode_utf8, parseJsonLim_render_deep v hc hd]


/-! ### integer tokens -/

theorem takeDigits_append (ds rest : Str) (hd : ∀ c ∈ ds, isDigit c = true)
    (hr : ∀ c t, rest = c :: t → isDigit c = false) : takeDigits (ds ++ rest) = (ds, rest) := by
  induction ds with
  | nil =>
    cases rest with
    | nil => rfl
    | cons c t => simp [takeDigits, hr c t rfl]
  | cons d ds ih =>
    simp [takeDigits, hd d (by simp), ih (fun c hc => hd c (List.mem_cons_of_mem _ hc))]

/-- unsigned integer tokens: digits, no leading zero -/
def IntTok (ds : Str) : Prop :=
  ds ≠ [] ∧ (∀ c ∈ ds, isDigit c = true) ∧ (ds.head? = some '0' → ds.length = 1)

theorem isDigit_ne_minus (c : Char) (h : isDigit c = true) : c ≠ '-' := by
  simp only [isDigit, Bool.and_eq_true, decide_eq_true_eq, UInt32.le_iff_toNat_le] at h
  intro e; subst e; revert h; decide

theorem numTok_of_intTok (ds : Str) (h : IntTok ds) : NumTok ds := by
  obtain ⟨hne, hd, hz⟩ := h
  intro rest hs
  have hr : ∀ c t, rest = c :: t → isDigit c = false := by
    rcases numStop_cases hs with rfl | ⟨c, t, rfl, rfl | rfl | rfl⟩ <;> intro c t e <;> cases e <;> decide
  have htd := takeDigits_append ds rest hd hr
  have hlz : (decide (ds.length > 1) && decide (ds.head? = some '0')) = false := by
    by_cases h0 : ds.head? = some '0'
    · simp [hz h0]
    · simp [h0]
  cases ds with
  | nil => exact absurd rfl hne
  | cons d ds' =>
    have hm := isDigit_ne_minus d (hd d (by simp))
    unfold parseNum
    split
    next sg t1 heq =>
    have hsg : sg = [] ∧ t1 = d :: ds' ++ rest := by
      split at heq
      · next h' => simp at h'; exact absurd h'.1 hm
      · simp at heq; exact ⟨heq.1, by simp [← heq.2]⟩
    obtain ⟨rfl, rfl⟩ := hsg
    simp only [htd, hlz]
    rcases numStop_cases hs with rfl | ⟨c, t, rfl, rfl | rfl | rfl⟩ <;> simp

theorem digit_isDigit : ∀ k : Fin 10, isDigit (Char.ofNat (48 + k.val)) = true := by decide
theorem digit_zero : ∀ k : Fin 10, Char.ofNat (48 + k.val) = '0' → k.val = 0 := by decide

theorem natDigits_spec (fuel n : Nat) (h : n < fuel) :
    natDigits fuel n ≠ [] ∧ (∀ c ∈ natDigits fuel n, isDigit c = true) ∧
      ((natDigits fuel n).head? = some '0' → n = 0) := by
  induction fuel generalizing n with
  | zero => omega
  | succ fuel ih =>
    unfold natDigits
    split
    · next hlt =>
      refine ⟨by simp, ?_, ?_⟩
      · intro c hc; simp at hc; subst hc; exact digit_isDigit ⟨n, hlt⟩
      · intro h0; simp at h0; exact digit_zero ⟨n, hlt⟩ h0
    · next hge =>
      obtain ⟨h1, h2, h3⟩ := ih (n / 10) (by omega)
      refine ⟨by simp, ?_, ?_⟩
      · intro c hc
        rcases List.mem_append.mp hc with hc | hc
        · exact h2 c hc
        · simp at hc; subst hc; exact digit_isDigit ⟨n % 10, by omega⟩
      · intro h0
        rw [List.head?_append] at h0
        cases hh : (natDigits fuel (n / 10)).head? with
        | none => rw [List.head?_eq_none_iff] at hh; exact absurd hh h1
        | some x =>
          rw [hh] at h0; simp at h0; subst h0
          have := h3 hh; omega

/-- decimal renderings of naturals (array indices, counters) are number tokens -/
theorem intTok_natStr (n : Nat) : IntTok (natStr n) := by
  obtain ⟨h1, h2, h3⟩ := natDigits_spec (n + 1) n (by omega)
  refine ⟨h1, h2, ?_⟩
  intro h0
  have := h3 h0; subst this; rfl

theorem numTok_natStr (n : Nat) : NumTok (natStr n) := numTok_of_intTok _ (intTok_natStr n)

/-! ### non-vacuity and necessity of the hypotheses -/

/-- a non-trivial canonical value (nested, every constructor, escapes, three number shapes) -/
def sample : JVal :=
  .obj [ ("a".toList, .arr [.num "0".toList, .str "x\n\"\\\x01é".toList, .bool true, .arr [], .obj []]),
         ("b".toList, .null),
         ("ba".toList, .num "-12.5e+3".toList),
         ("c".toList, .num (natStr 18446744073709551615)) ]

theorem sample_canon : Canon sample := by
  simp only [sample, Canon, CanonL, CanonO, SortedKeys, and_true, true_and]
  refine ⟨by simp [strLt], ⟨numTok_ex2, List.Pairwise.nil⟩, numTok_ex1, numTok_natStr _⟩

example : parseJson sample.render = some sample := parseJson_render sample sample_canon
example : parseJsonBytes sample.renderBytes = some sample := parseJsonBytes_renderBytes sample sample_canon (by decide)
example : RestOk (.num "7".toList) ",1]".toList := by simp [RestOk, NumStop]
example : SortedKeys [("a".toList, .null), ("b".toList, .null)] ∧
    ∀ p ∈ [("a".toList, JVal.null), ("b".toList, .null)], strLt p.1 "c".toList = true := by
  simp [SortedKeys, strLt]
example : IntTok "120".toList := by
  refine ⟨by simp, ?_, by simp⟩
  intro c hc; simp at hc; rcases hc with rfl | rfl | rfl <;> decide

/-- `Canon` is necessary: an unsorted object is read back sorted, i.e. as a different value -/
example : parseJson (JVal.obj [(['b'], .null), (['a'], .null)]).render
    = some (.obj [(['a'], .null), (['b'], .null)]) := by
  simp [JVal.render, JVal.renderOTail, renderStr, escapeChar, parseJson, parseVal, parseMembers, skipWs,
    isWs, parseStrBody, objInsert, strLt]
/-- `Canon` is necessary: a token that is not a JSON number is not read back -/
example : parseJson (JVal.num ['0', '1']).render = none := by
  simp [JVal.render, parseJson, parseVal, skipWs, isWs, isDigit, parseNum, takeDigits]
/-- `RestOk` is necessary after numbers: a digit continuation is swallowed by the token -/
example : parseVal 5 ((JVal.num ['1']).render ++ ['2']) = some (.num ['1', '2'], []) := by
  simp [JVal.render, parseVal, skipWs, isWs, isDigit, parseNum, takeDigits]

end Melda.Props.JsonRT
