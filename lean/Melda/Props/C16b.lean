/-
  C16 (second part) — chain reconstruction: every stored array version reconstructs to exactly the
  array that was submitted, for chains of any length, and regardless of how many reconstructed
  versions the replica is configured to cache.

  `TrueOrder` is the declarative meaning of a stored array version (no cache, no fuel);
  `rebuildOrder` (the model of `rebuild_array_order`, with the LRU of reconstructed versions) is
  proved sound and complete with respect to it for EVERY sound cache of EVERY capacity.

  FINDING: soundness is false for a revision tree whose parent relation has a cycle (the model's
  fuel runs out and `collectChain` answers as if the chain had ended; the code would loop forever):
  `rebuild_sound_needs_acyclic`.  The theorems therefore carry `WellIndexed t.entries`
  (parent index + 1 = child index; an invariant of every tree built by the library, C05).
-/
import Melda.Doc
import Melda.Props.C16
import Melda.Props.C05
import Melda.Props.C06
namespace Melda.Props.C16b
open Melda Melda.DState Melda.RevTree Melda.Props.C16 Melda.Props.C05

/-! ## 1. Declarative semantics of a stored array version -/

/-- the array denoted by the stored descriptor of revision `r` of a document with tree `t` -/
inductive TrueOrder (src : Src) (st : DState) (t : RevTree) : Rev → List JVal → Prop
  | full {r : Rev} {order : List JVal} :
      readDesc src st r = .ok (.inl order) → TrueOrder src st t r order
  | delta {r par : Rev} {patch o' o : List JVal} :
      readDesc src st r = .ok (.inr patch) → t.getParent r = some par →
      TrueOrder src st t par o' → applyDiffPatch o' patch = .ok o → TrueOrder src st t r o
  | orphan {r : Rev} {patch o : List JVal} :
      readDesc src st r = .ok (.inr patch) → t.getParent r = none →
      applyDiffPatch [] patch = .ok o → TrueOrder src st t r o

theorem Res.ok_inj {α : Type} {a b : α} (h : (Res.ok a : Res α) = .ok b) : a = b := by
  injection h

theorem PatchRes.ok_inj {a b : List JVal} (h : PatchRes.ok a = .ok b) : a = b := by
  injection h

variable {src : Src} {st : DState} {t : RevTree}

/-- **1.** a stored version denotes at most one array -/
theorem trueOrder_functional {r : Rev} {o₁ o₂ : List JVal}
    (h₁ : TrueOrder src st t r o₁) (h₂ : TrueOrder src st t r o₂) : o₁ = o₂ := by
  induction h₁ generalizing o₂ with
  | full hd =>
    cases h₂ with
    | full hd' => rw [hd] at hd'; exact Sum.inl.inj (Res.ok_inj hd')
    | delta hd' _ _ _ => rw [hd] at hd'; cases Res.ok_inj hd'
    | orphan hd' _ _ => rw [hd] at hd'; cases Res.ok_inj hd'
  | delta hd hp _ ha ih =>
    cases h₂ with
    | full hd' => rw [hd] at hd'; cases Res.ok_inj hd'
    | delta hd' hp' hpar' ha' =>
      rw [hd] at hd'; rw [hp] at hp'
      have e1 := Sum.inr.inj (Res.ok_inj hd')
      have e2 := Option.some.inj hp'
      subst e1; subst e2
      have e3 := ih hpar'
      subst e3
      rw [ha] at ha'; exact PatchRes.ok_inj ha'
    | orphan _ hp' _ => rw [hp] at hp'; cases hp'
  | orphan hd hp ha =>
    cases h₂ with
    | full hd' => rw [hd] at hd'; cases Res.ok_inj hd'
    | delta _ hp' _ _ => rw [hp] at hp'; cases hp'
    | orphan hd' _ ha' =>
      rw [hd] at hd'
      have e1 := Sum.inr.inj (Res.ok_inj hd')
      subst e1
      rw [ha] at ha'; exact PatchRes.ok_inj ha'

/-- a version that denotes an array has a readable descriptor -/
theorem trueOrder_readDesc {r : Rev} {o : List JVal} (h : TrueOrder src st t r o) :
    readDesc src st r = .ok (.inl o) ∨ ∃ p, readDesc src st r = .ok (.inr p) := by
  cases h with
  | full hd => exact Or.inl hd
  | delta hd _ _ _ => exact Or.inr ⟨_, hd⟩
  | orphan hd _ _ => exact Or.inr ⟨_, hd⟩

/-! ## `applyPatches` -/

theorem applyPatches_cons_ok {s : List JVal} {p : List JVal} {ps : List (List JVal)} {o : List JVal}
    (h : applyPatches s (p :: ps) = .ok o) :
    ∃ o1, applyDiffPatch s p = .ok o1 ∧ applyPatches o1 ps = .ok o := by
  simp only [applyPatches] at h
  split at h
  · next o1 h1 => exact ⟨o1, h1, h⟩
  · cases h
  · cases h

theorem applyPatches_cons_of_ok {s o1 : List JVal} {p : List JVal} (ps : List (List JVal))
    (h : applyDiffPatch s p = .ok o1) : applyPatches s (p :: ps) = applyPatches o1 ps := by
  simp only [applyPatches, h]

theorem applyPatches_nil_ok {s o : List JVal} (h : applyPatches s [] = .ok o) : s = o := by
  simp only [applyPatches] at h
  exact Res.ok_inj h

/-! ## The fuel of `collectChain` suffices on well-indexed trees -/

/-- number of recorded revisions with index at most `n` -/
def cnt (t : RevTree) (n : Nat) : Nat := (t.entries.filter (fun e => decide (e.rev.index ≤ n))).length

theorem filter_length_lt {α : Type} (p q : α → Bool) (l : List α) (hpq : ∀ x, p x = true → q x = true)
    (x : α) (hx : x ∈ l) (hq : q x = true) (hp : p x = false) :
    (l.filter p).length < (l.filter q).length := by
  induction l with
  | nil => cases hx
  | cons y ys ih =>
    have hle : (ys.filter p).length ≤ (ys.filter q).length := by
      clear ih hx
      induction ys with
      | nil => simp
      | cons z zs ih2 =>
        simp only [List.filter_cons]
        cases hpz : p z
        · cases hqz : q z <;> simp <;> omega
        · simp [hpq z hpz]; omega
    simp only [List.filter_cons]
    rcases List.mem_cons.mp hx with rfl | hm
    · simp [hq, hp]; omega
    · have := ih hm
      cases hpy : p y
      · cases hqy : q y <;> simp <;> omega
      · simp [hpq y hpy]; omega

theorem cnt_le (t : RevTree) (n : Nat) : cnt t n ≤ t.entries.length := by
  unfold cnt; exact List.length_filter_le _ _

theorem getParent_some {r par : Rev} (h : t.getParent r = some par) :
    ∃ e ∈ t.entries, e.rev = r ∧ e.parent = some par := by
  unfold getParent at h
  cases hf : find? t.entries r with
  | none => simp [hf] at h
  | some e =>
    simp [hf] at h
    obtain ⟨h1, h2⟩ := find?_some hf
    exact ⟨e, h1, h2, h⟩

/-- stepping to the parent strictly decreases the measure -/
theorem cnt_parent_lt (hw : WellIndexed t.entries) {r par : Rev} (h : t.getParent r = some par) :
    cnt t par.index < cnt t r.index := by
  obtain ⟨e, he, her, hep⟩ := getParent_some h
  have hi := hw e he par hep
  rw [her] at hi
  unfold cnt
  refine filter_length_lt _ _ _ ?_ e he ?_ ?_
  · intro x hx; simp only [decide_eq_true_eq] at hx ⊢; omega
  · simp only [decide_eq_true_eq, her]; omega
  · simp only [decide_eq_false_iff_not, her]; omega

/-! ## 2. Soundness of `collectChain` / `rebuildOrder` -/

/-- the invariant threaded through `collectChain`: the head of `acc` is the delta of `cur`, and
    applying the rest of `acc` to the array of `cur` gives an array of `base` -/
def Inv (src : Src) (st : DState) (t : RevTree) (base cur : Rev) (acc : List (List JVal)) : Prop :=
  ∃ pc rest, acc = pc :: rest ∧ readDesc src st cur = .ok (.inr pc) ∧
    ∀ oc o, TrueOrder src st t cur oc → applyPatches oc rest = .ok o → TrueOrder src st t base o

theorem collectChain_sound (hw : WellIndexed t.entries) {cache : Lru Rev (List JVal)}
    (hc : Sound (TrueOrder src st t) cache) (base : Rev) :
    ∀ (fuel : Nat) (cur : Rev) (acc : List (List JVal)) (start : List JVal) (ps : List (List JVal)),
      cnt t cur.index < fuel → Inv src st t base cur acc →
      collectChain src st t cache fuel cur acc = .ok (start, ps) →
      ∀ o, applyPatches start ps = .ok o → TrueOrder src st t base o := by
  intro fuel
  induction fuel with
  | zero => intro cur acc start ps hf; omega
  | succ fuel ih =>
    intro cur acc start ps hf hinv h o ho
    obtain ⟨pc, rest, hacc, hd, hI⟩ := hinv
    subst hacc
    simp only [collectChain] at h
    split at h
    · next hp =>
      obtain ⟨rfl, rfl⟩ := Prod.mk.inj (Res.ok_inj h)
      obtain ⟨o1, h1, h2⟩ := applyPatches_cons_ok ho
      exact hI o1 o (.orphan hd hp h1) h2
    · next par hp =>
      split at h
      · next order hpk =>
        obtain ⟨rfl, rfl⟩ := Prod.mk.inj (Res.ok_inj h)
        obtain ⟨o1, h1, h2⟩ := applyPatches_cons_ok ho
        exact hI o1 o (.delta hd hp (sound_peek hc hpk) h1) h2
      · split at h
        · cases h
        · cases h
        · next order hdp =>
          obtain ⟨rfl, rfl⟩ := Prod.mk.inj (Res.ok_inj h)
          obtain ⟨o1, h1, h2⟩ := applyPatches_cons_ok ho
          exact hI o1 o (.delta hd hp (.full hdp) h1) h2
        · next pp hdp =>
          have hlt := cnt_parent_lt hw hp
          refine ih par (pp :: pc :: rest) start ps (by omega) ?_ h o ho
          refine ⟨pp, pc :: rest, rfl, hdp, ?_⟩
          intro op o2 hop ho2
          obtain ⟨o1, h1, h2⟩ := applyPatches_cons_ok ho2
          exact hI o1 o2 (.delta hd hp hop h1) h2

/-- **2. MAIN.** For every cache (any capacity, any content) whose entries are true orders, a
    successful reconstruction returns the true order of `base`, and the updated cache is again
    sound. -/
theorem rebuild_sound (hw : WellIndexed t.entries) {c c' : Lru Rev (List JVal)} {base : Rev}
    {o : List JVal} (hc : Sound (TrueOrder src st t) c)
    (h : rebuildOrder src st t c base = .ok (o, c')) :
    TrueOrder src st t base o ∧ Sound (TrueOrder src st t) c' := by
  unfold rebuildOrder at h
  have hg := sound_get (k := base) hc
  split at h
  · next order cache' hget =>
    obtain ⟨rfl, rfl⟩ := Prod.mk.inj (Res.ok_inj h)
    rw [hget] at hg
    exact ⟨hg.2 _ rfl, hg.1⟩
  · split at h
    · cases h
    · cases h
    · next order hd =>
      obtain ⟨rfl, rfl⟩ := Prod.mk.inj (Res.ok_inj h)
      exact ⟨.full hd, hc⟩
    · next patch hd =>
      split at h
      · cases h
      · cases h
      · next start patches hcc =>
        split at h
        · next order hap =>
          obtain ⟨rfl, rfl⟩ := Prod.mk.inj (Res.ok_inj h)
          have hto : TrueOrder src st t base order := by
            refine collectChain_sound hw hc base _ base [patch] start patches ?_ ?_ hcc order hap
            · have := cnt_le t base.index; omega
            · refine ⟨patch, [], rfl, hd, ?_⟩
              intro oc o2 hoc ho2
              rw [← applyPatches_nil_ok ho2]; exact hoc
          exact ⟨hto, sound_put hc hto⟩
        · cases h
        · cases h

/-! ## 3. Cache independence and completeness -/

/-- **3a.** The reconstructed array does not depend on the cache: any two sound caches, of any
    capacities and contents, give the same array. -/
theorem rebuild_cache_independent (hw : WellIndexed t.entries) {c₁ c₂ c₁' c₂' : Lru Rev (List JVal)}
    {base : Rev} {o₁ o₂ : List JVal}
    (h₁c : Sound (TrueOrder src st t) c₁) (h₂c : Sound (TrueOrder src st t) c₂)
    (h₁ : rebuildOrder src st t c₁ base = .ok (o₁, c₁'))
    (h₂ : rebuildOrder src st t c₂ base = .ok (o₂, c₂')) : o₁ = o₂ :=
  trueOrder_functional (rebuild_sound hw h₁c h₁).1 (rebuild_sound hw h₂c h₂).1

theorem collectChain_complete (hw : WellIndexed t.entries) {cache : Lru Rev (List JVal)}
    (hc : Sound (TrueOrder src st t) cache) :
    ∀ (fuel : Nat) (cur : Rev) (pc : List JVal) (rest : List (List JVal)) (oc : List JVal),
      cnt t cur.index < fuel → readDesc src st cur = .ok (.inr pc) → TrueOrder src st t cur oc →
      ∃ start ps, collectChain src st t cache fuel cur (pc :: rest) = .ok (start, ps) ∧
        applyPatches start ps = applyPatches oc rest := by
  intro fuel
  induction fuel with
  | zero => intro cur pc rest oc hf; omega
  | succ fuel ih =>
    intro cur pc rest oc hf hd hto
    cases hto with
    | full hd' => rw [hd] at hd'; cases Res.ok_inj hd'
    | orphan hd' hp ha =>
      rw [hd] at hd'
      have e1 := Sum.inr.inj (Res.ok_inj hd')
      subst e1
      refine ⟨[], pc :: rest, ?_, applyPatches_cons_of_ok rest ha⟩
      simp only [collectChain, hp]
    | delta hd' hp hpar ha =>
      rename_i par patch o'
      rw [hd] at hd'
      have e1 := Sum.inr.inj (Res.ok_inj hd')
      subst e1
      simp only [collectChain, hp]
      cases hpk : cache.peek par with
      | some order =>
        have e2 : order = o' := trueOrder_functional (sound_peek hc hpk) hpar
        subst e2
        exact ⟨order, pc :: rest, rfl, applyPatches_cons_of_ok rest ha⟩
      | none =>
        rcases trueOrder_readDesc hpar with hdp | ⟨pp, hdp⟩
        · simp only [hdp]
          exact ⟨o', pc :: rest, rfl, applyPatches_cons_of_ok rest ha⟩
        · simp only [hdp]
          have hlt := cnt_parent_lt hw hp
          obtain ⟨start, ps, h1, h2⟩ := ih par pp (pc :: rest) o' (by omega) hdp hpar
          exact ⟨start, ps, h1, by rw [h2]; exact applyPatches_cons_of_ok rest ha⟩

/-- **3b.** Completeness: a version that denotes an array is reconstructed to exactly that array,
    whatever the (sound) cache holds and whatever its capacity (0 included); the fuel
    `t.entries.length + 1` always suffices on a well-indexed tree. -/
theorem rebuild_complete (hw : WellIndexed t.entries) {c : Lru Rev (List JVal)} {base : Rev}
    {o : List JVal} (hc : Sound (TrueOrder src st t) c) (hto : TrueOrder src st t base o) :
    ∃ c', rebuildOrder src st t c base = .ok (o, c') := by
  unfold rebuildOrder
  have hg := sound_get (k := base) hc
  rcases hget : c.get base with ⟨_ | order, cache'⟩
  · simp only
    rcases trueOrder_readDesc hto with hd | ⟨patch, hd⟩
    · simp only [hd]; exact ⟨c, rfl⟩
    · simp only [hd]
      obtain ⟨start, ps, h1, h2⟩ := collectChain_complete hw hc (t.entries.length + 1) base patch [] o
        (by have := cnt_le t base.index; omega) hd hto
      simp only [h1, h2, applyPatches]
      exact ⟨_, rfl⟩
  · simp only
    rw [hget] at hg
    have e : order = o := trueOrder_functional (hg.2 order rfl) hto
    subst e
    exact ⟨cache', rfl⟩

/-- soundness + completeness: on a well-indexed tree with a sound cache, `rebuildOrder` answers
    `o` iff `o` is the true order -/
theorem rebuild_iff (hw : WellIndexed t.entries) {c : Lru Rev (List JVal)} {base : Rev}
    {o : List JVal} (hc : Sound (TrueOrder src st t) c) :
    (∃ c', rebuildOrder src st t c base = .ok (o, c')) ↔ TrueOrder src st t base o :=
  ⟨fun ⟨_, h⟩ => (rebuild_sound hw hc h).1, rebuild_complete hw hc⟩

/-! ## 4. The visible array of a conflicting document -/

/-- `los` lists the true orders of the revisions `ls`, in order -/
inductive TrueOrders (src : Src) (st : DState) (t : RevTree) : List Rev → List (List JVal) → Prop
  | nil : TrueOrders src st t [] []
  | cons {l : Rev} {lo : List JVal} {ls : List Rev} {los : List (List JVal)} :
      TrueOrder src st t l lo → TrueOrders src st t ls los → TrueOrders src st t (l :: ls) (lo :: los)

/-- the fold step of `mergedOrderAt` -/
def mstep (src : Src) (st : DState) (t : RevTree) :
    Res (List JVal × Lru Rev (List JVal)) → Rev → Res (List JVal × Lru Rev (List JVal)) :=
  fun acc l => match acc with
    | .ok (order, c) => (match rebuildOrder src st t c l with
      | .ok (lo, c') => .ok (mergeArrays lo order, c')
      | .err e => .err e
      | .panic m => .panic m)
    | e => e

theorem mstep_foldl_err (ls : List Rev) (e : String) (x : List JVal × Lru Rev (List JVal)) :
    ls.foldl (mstep src st t) (.err e) ≠ .ok x := by
  induction ls with
  | nil => simp
  | cons l ls ih => simpa [List.foldl_cons, mstep] using ih

theorem mstep_foldl_panic (ls : List Rev) (e : String) (x : List JVal × Lru Rev (List JVal)) :
    ls.foldl (mstep src st t) (.panic e) ≠ .ok x := by
  induction ls with
  | nil => simp
  | cons l ls ih => simpa [List.foldl_cons, mstep] using ih

theorem mstep_foldl_sound (hw : WellIndexed t.entries) :
    ∀ (ls : List Rev) (order : List JVal) (c : Lru Rev (List JVal)) (o : List JVal)
      (c' : Lru Rev (List JVal)), Sound (TrueOrder src st t) c →
      ls.foldl (mstep src st t) (.ok (order, c)) = .ok (o, c') →
      Sound (TrueOrder src st t) c' ∧ ∃ los, TrueOrders src st t ls los ∧
        o = C06.mergedOrder order los := by
  intro ls
  induction ls with
  | nil =>
    intro order c o c' hc h
    simp only [List.foldl_nil] at h
    obtain ⟨rfl, rfl⟩ := Prod.mk.inj (Res.ok_inj h)
    exact ⟨hc, [], .nil, rfl⟩
  | cons l ls ih =>
    intro order c o c' hc h
    simp only [List.foldl_cons] at h
    cases hr : rebuildOrder src st t c l with
    | ok x =>
      obtain ⟨lo, c1⟩ := x
      have hs := rebuild_sound hw hc hr
      have : mstep src st t (.ok (order, c)) l = .ok (mergeArrays lo order, c1) := by
        simp only [mstep, hr]
      rw [this] at h
      obtain ⟨h1, los, h2, h3⟩ := ih _ _ _ _ hs.2 h
      exact ⟨h1, lo :: los, .cons hs.1 h2, by rw [h3]; rfl⟩
    | err e =>
      have : mstep src st t (.ok (order, c)) l = .err e := by simp only [mstep, hr]
      rw [this] at h
      exact absurd h (mstep_foldl_err ls e _)
    | panic e =>
      have : mstep src st t (.ok (order, c)) l = .panic e := by simp only [mstep, hr]
      rw [this] at h
      exact absurd h (mstep_foldl_panic ls e _)

/-- the leaves that take part in the merge: all of them when the document is in conflict, none
    otherwise (the code returns the order of `base` alone when there is at most one leaf) -/
def mergeLeafs (t : RevTree) : List Rev := if t.leafs.length > 1 then t.leafs else []

theorem mergedOrderAt_eq (c : Lru Rev (List JVal)) (base : Rev) :
    mergedOrderAt src st t c base =
      match rebuildOrder src st t c base with
      | .ok (bo, c1) => (mergeLeafs t).foldl (mstep src st t) (.ok (bo, c1))
      | e => e := by
  unfold mergedOrderAt mergeLeafs
  split
  · rfl
  · cases rebuildOrder src st t c base with
    | ok x => obtain ⟨bo, c1⟩ := x; simp
    | err e => rfl
    | panic e => rfl

/-- **4.** With a sound cache of any capacity, the visible array is the C06 `mergedOrder` of the
    true order of `base` and the true orders of the merged leaves (in leaf order), and the cache
    stays sound.  (When the tree has at most one leaf no leaf is merged: `mergeLeafs`.) -/
theorem mergedOrderAt_sound (hw : WellIndexed t.entries) {c c' : Lru Rev (List JVal)} {base : Rev}
    {o : List JVal} (hc : Sound (TrueOrder src st t) c)
    (h : mergedOrderAt src st t c base = .ok (o, c')) :
    Sound (TrueOrder src st t) c' ∧ ∃ bo los, TrueOrder src st t base bo ∧
      TrueOrders src st t (mergeLeafs t) los ∧ o = C06.mergedOrder bo los := by
  rw [mergedOrderAt_eq] at h
  cases hr : rebuildOrder src st t c base with
  | ok x =>
    obtain ⟨bo, c1⟩ := x
    rw [hr] at h
    have hs := rebuild_sound hw hc hr
    obtain ⟨h1, los, h2, h3⟩ := mstep_foldl_sound hw _ _ _ _ _ hs.2 h
    exact ⟨h1, bo, los, hs.1, h2, h3⟩
  | err e => rw [hr] at h; cases h
  | panic e => rw [hr] at h; cases h

theorem trueOrders_functional {ls : List Rev} {a b : List (List JVal)}
    (ha : TrueOrders src st t ls a) (hb : TrueOrders src st t ls b) :
    a = b := by
  induction ha generalizing b with
  | nil => cases hb; rfl
  | cons h _ ih =>
    cases hb with
    | cons h' hb' => rw [trueOrder_functional h h', ih hb']

/-- the visible array does not depend on the cache either -/
theorem mergedOrderAt_cache_independent (hw : WellIndexed t.entries)
    {c₁ c₂ c₁' c₂' : Lru Rev (List JVal)} {base : Rev} {o₁ o₂ : List JVal}
    (h₁c : Sound (TrueOrder src st t) c₁) (h₂c : Sound (TrueOrder src st t) c₂)
    (h₁ : mergedOrderAt src st t c₁ base = .ok (o₁, c₁'))
    (h₂ : mergedOrderAt src st t c₂ base = .ok (o₂, c₂')) : o₁ = o₂ := by
  obtain ⟨_, bo, los, a1, a2, rfl⟩ := mergedOrderAt_sound hw h₁c h₁
  obtain ⟨_, bo', los', b1, b2, rfl⟩ := mergedOrderAt_sound hw h₂c h₂
  rw [trueOrder_functional a1 b1, trueOrders_functional a2 b2]

/-! ## 5. Chains of submissions -/

/-- **5.** One update step: the version stored as the delta `makeDiffPatch o' new` over a parent
    denoting `o'` denotes exactly the submitted array `new`. -/
theorem chain_reconstructs {r par : Rev} {o' new patch : List JVal}
    (hd : readDesc src st r = .ok (.inr patch)) (hp : t.getParent r = some par)
    (hpar : TrueOrder src st t par o') (hm : makeDiffPatch o' new = some patch) :
    TrueOrder src st t r new :=
  .delta hd hp hpar (makeDiffPatch_roundtrip o' new patch hm)

/-- a chain of successive updates on top of version `p` (which denotes `op`): every next version
    `(r, new)` was stored as the delta from its predecessor's array to the submitted array `new` -/
inductive BuiltChain (src : Src) (st : DState) (t : RevTree) : Rev → List JVal → List (Rev × List JVal) → Prop
  | nil {p : Rev} {op : List JVal} : BuiltChain src st t p op []
  | cons {p r : Rev} {op new patch : List JVal} {rest : List (Rev × List JVal)} :
      readDesc src st r = .ok (.inr patch) → t.getParent r = some p →
      makeDiffPatch op new = some patch → BuiltChain src st t r new rest →
      BuiltChain src st t p op ((r, new) :: rest)

/-- every version of a chain of any length denotes exactly the array that was submitted -/
theorem chain_reconstructs_all {p : Rev} {op : List JVal} {vs : List (Rev × List JVal)}
    (hch : BuiltChain src st t p op vs) (hp : TrueOrder src st t p op) :
    ∀ rv ∈ vs, TrueOrder src st t rv.1 rv.2 := by
  induction hch with
  | nil => intro rv h; cases h
  | cons hd hpar hm _ ih =>
    have hr := chain_reconstructs hd hpar hp hm
    intro rv h
    rcases List.mem_cons.mp h with rfl | h
    · exact hr
    · exact ih hr rv h

/-- … and is reconstructed to exactly that array by `rebuildOrder`, for every sound cache of every
    capacity and every chain length -/
theorem chain_rebuilds (hw : WellIndexed t.entries) {p : Rev} {op : List JVal}
    {vs : List (Rev × List JVal)} (hch : BuiltChain src st t p op vs) (hp : TrueOrder src st t p op)
    {c : Lru Rev (List JVal)} (hc : Sound (TrueOrder src st t) c) :
    ∀ rv ∈ vs, ∃ c', rebuildOrder src st t c rv.1 = .ok (rv.2, c') :=
  fun rv h => rebuild_complete hw hc (chain_reconstructs_all hch hp rv h)

/-! ## Non-vacuity: a full descriptor and one delta on top of it -/

namespace Ex
def ra : Rev := ⟨1, ['x'], none⟩
def rb : Rev := ⟨2, ['y'], some ['t']⟩
def oa : List JVal := [.str ['p']]
def ob : List JVal := [.str ['p'], .str ['q']]
def pb : List JVal := [.arr [.str ['i'], .num ['1'], .arr [.str ['q']]]]
def xsrc : Src := fun d =>
  if d = ['x'] then some [(ORDER_FIELD, .arr oa)]
  else if d = ['y'] then some [(DELTA_ORDER_FIELD, .arr pb)]
  else none
def tr : RevTree := { entries := [⟨ra, none, false⟩, ⟨rb, some ra, false⟩], leafs := [rb], winner := some rb }

theorem wi : WellIndexed tr.entries := by
  intro e he p hp
  simp only [tr, List.mem_cons, List.not_mem_nil, or_false] at he
  rcases he with rfl | rfl
  · cases hp
  · cases hp; rfl

theorem patch_is_diff : makeDiffPatch oa ob = some pb := by decide

theorem toA : TrueOrder xsrc {} tr ra oa := .full rfl
/-- the delta version denotes the submitted array (through `chain_reconstructs`) -/
theorem toB : TrueOrder xsrc {} tr rb ob := chain_reconstructs (par := ra) rfl rfl toA patch_is_diff

example : BuiltChain xsrc {} tr ra oa [(rb, ob)] := .cons rfl rfl patch_is_diff .nil

/-- the hypotheses of `rebuild_sound` / `rebuild_complete` are satisfiable, with caches of
    capacity 0, 1 and 16, empty or already holding the parent -/
example : Sound (TrueOrder xsrc {} tr) (Lru.empty 0) := sound_empty _ _
example : Sound (TrueOrder xsrc {} tr) ((Lru.empty 1).put ra oa) := sound_put (sound_empty _ _) toA
example : ∃ c', rebuildOrder xsrc {} tr (Lru.empty 0) rb = .ok (ob, c') :=
  rebuild_complete wi (sound_empty _ _) toB
example : ∃ c', rebuildOrder xsrc {} tr ((Lru.empty 16).put ra oa) rb = .ok (ob, c') :=
  rebuild_complete wi (sound_put (sound_empty _ _) toA) toB

/-- why `mergedOrderAt_sound` speaks of `mergeLeafs` and not of `t.leafs`: with a single leaf the
    code answers the order of `base` alone, which here differs from the fold over `t.leafs` -/
example : mergeLeafs tr = [] := rfl
example : ∃ c', mergedOrderAt xsrc {} tr (Lru.empty 16) ra = .ok (oa, c') := ⟨_, rfl⟩
example : C06.mergedOrder oa [ob] = ob := by decide
/-- the statement "the visible array is the fold over the true orders of ALL `t.leafs`" is false
    when there is exactly one leaf -/
theorem single_leaf_not_fold :
    ∃ c', mergedOrderAt xsrc {} tr (Lru.empty 16) ra = .ok (oa, c') ∧
      TrueOrder xsrc {} tr ra oa ∧ TrueOrders xsrc {} tr tr.leafs [ob] ∧
      oa ≠ C06.mergedOrder oa [ob] :=
  ⟨_, rfl, toA, .cons toB .nil, by decide⟩

/-- a tree in conflict: `mergeLeafs` is all the leaves -/
def rc : Rev := ⟨2, ['w'], some ['t']⟩
def tr2 : RevTree := { tr with entries := tr.entries ++ [⟨rc, some ra, false⟩], leafs := [rb, rc] }
example : mergeLeafs tr2 = [rb, rc] := rfl
end Ex

/-! ## FINDING: without acyclicity of the parent relation soundness fails -/

namespace Cyc
def rz : Rev := ⟨1, ['z'], none⟩
def csrc : Src := fun d => if d = ['z'] then some [(DELTA_ORDER_FIELD, .arr [])] else none
/-- a (corrupt) tree in which `rz` is its own parent -/
def tr : RevTree := { entries := [⟨rz, some rz, false⟩] }

theorem no_trueOrder (o : List JVal) : ¬ TrueOrder csrc {} tr rz o := by
  intro h
  have key : ∀ r o, TrueOrder csrc {} tr r o → r = rz → False := by
    intro r o h
    induction h with
    | full hd =>
      intro e; subst e
      have : readDesc csrc {} rz = .ok (.inr []) := rfl
      rw [this] at hd; cases Res.ok_inj hd
    | delta _ hp _ _ ih =>
      intro e; subst e
      have : tr.getParent rz = some rz := rfl
      rw [this] at hp
      exact ih (Option.some.inj hp).symm
    | orphan _ hp _ =>
      intro e; subst e
      have : tr.getParent rz = some rz := rfl
      rw [this] at hp; cases hp
  exact key rz o h rfl

theorem rebuild_answers : rebuildOrder csrc {} tr (Lru.empty 0) rz = .ok ([], (Lru.empty 0).put rz []) := rfl
end Cyc

/-- **FINDING.** `rebuild_sound` without the `WellIndexed` hypothesis is FALSE for the model: on a
    tree whose parent relation has a cycle of delta descriptors the fuel of `collectChain` runs
    out, the model answers as if the chain had ended, and `rebuildOrder` returns (and caches) an
    array although the version denotes none.  (The code has no fuel: it would not terminate.) -/
theorem rebuild_sound_needs_acyclic :
    ∃ (src : Src) (st : DState) (t : RevTree) (c c' : Lru Rev (List JVal)) (base : Rev) (o : List JVal),
      Sound (TrueOrder src st t) c ∧ rebuildOrder src st t c base = .ok (o, c') ∧
      ¬ (TrueOrder src st t base o ∧ Sound (TrueOrder src st t) c') :=
  ⟨Cyc.csrc, {}, Cyc.tr, Lru.empty 0, _, Cyc.rz, [], sound_empty _ _, Cyc.rebuild_answers,
    fun h => Cyc.no_trueOrder [] h.1⟩

end Melda.Props.C16b

/-! axiom audit -/
section Audit
open Melda.Props.C16b
#print axioms trueOrder_functional
#print axioms collectChain_sound
#print axioms rebuild_sound
#print axioms rebuild_cache_independent
#print axioms collectChain_complete
#print axioms rebuild_complete
#print axioms rebuild_iff
#print axioms mergedOrderAt_sound
#print axioms mergedOrderAt_cache_independent
#print axioms chain_reconstructs
#print axioms chain_reconstructs_all
#print axioms chain_rebuilds
#print axioms rebuild_sound_needs_acyclic
#print axioms Ex.toB
#print axioms Ex.single_leaf_not_fold
end Audit
